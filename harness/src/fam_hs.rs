//! Handshake family: real `Handshake` instances behind the line protocol (random fill made
//! deterministic through hook H1) and the oracles for C05 and C11.
use crate::util::{parse_bytes, show_bytes};
use hmac::{Hmac, Mac, NewMac};
use rml_rtmp::handshake::{verif_hooks, Handshake, HandshakeError as HE, HandshakeProcessResult as R, PeerType};
use sha2::Sha256;

const FMS: &[u8] = b"Genuine Adobe Flash Media Server 001";
const FP: &[u8] = b"Genuine Adobe Flash Player 001";
const CRUD: [u8; 32] = [0xf0, 0xee, 0xc2, 0x4a, 0x80, 0x68, 0xbe, 0xe8, 0x2e, 0x00, 0xd0, 0xd1, 0x02, 0x9e, 0x7e, 0x57,
    0x6e, 0xec, 0x5d, 0x2d, 0x29, 0x80, 0x6f, 0xab, 0x93, 0xb8, 0xe6, 0x36, 0xcf, 0xeb, 0x31, 0xae];

pub fn hmac(input: &[u8], key: &[u8]) -> Vec<u8> {
    let mut m = Hmac::<Sha256>::new_varkey(key).unwrap();
    m.update(input);
    m.finalize().into_bytes().to_vec()
}

pub struct Slot {
    hs: Handshake,
    server: bool,
    fills: Vec<Vec<u8>>, // remaining deterministic fills, in the order the library will ask for them
    outbox: Vec<u8>,
    dead: bool,
}

#[derive(Default)]
pub struct HsSt {
    a: Option<Slot>,
    b: Option<Slot>,
}

fn he_kind(e: &HE) -> String {
    match e { HE::BadVersionId => "err:version".into(), HE::HandshakeAlreadyCompleted => "err:completed".into(), _ => "err:other".into() }
}

/// run `f` with this slot's remaining fills queued in the hook (other slots' fills never leak in)
fn with_fills<T>(slot: &mut Slot, f: impl FnOnce(&mut Handshake) -> T) -> T {
    verif_hooks::clear_fill_bytes();
    for fl in &slot.fills { verif_hooks::queue_fill_bytes(fl); }
    let r = f(&mut slot.hs);
    verif_hooks::clear_fill_bytes();
    r
}

fn proc(slot: &mut Slot, data: &[u8]) -> String {
    if slot.dead { return "dead".into(); }
    let r = with_fills(slot, |h| h.process_bytes(data));
    match r {
        Err(e) => { slot.dead = true; he_kind(&e) }
        Ok(res) => {
            let (resp, rem) = match res { R::InProgress { response_bytes } => (response_bytes, None), R::Completed { response_bytes, remaining_bytes } => (response_bytes, Some(remaining_bytes)) };
            // fills are consumed exactly when the corresponding packet appears in the response:
            // p0+p1 (1537 bytes) uses the 1524-byte fill, a 1536-byte answer to a digest-bearing p1 uses the 1536-byte fill
            // (an echo consumes none - but then the fill is never needed again either)
            let mut n = resp.len();
            if n >= 1537 && slot.fills.first().map(|f| f.len()) == Some(1524) { slot.fills.remove(0); n -= 1537; }
            if n >= 1536 && slot.fills.first().map(|f| f.len()) == Some(1536) { slot.fills.remove(0); }
            slot.outbox.extend_from_slice(&resp);
            match rem { None => format!("prog {}", show_bytes(&resp)), Some(rm) => format!("done {} {}", show_bytes(&resp), show_bytes(&rm)) }
        }
    }
}

fn get<'a>(st: &'a mut HsSt, slot: &str) -> Option<&'a mut Slot> {
    match slot { "a" => st.a.as_mut(), "b" => st.b.as_mut(), _ => None }
}

fn digest_offsets(p: &[u8]) -> (usize, usize) {
    let c = (p[8] as usize + p[9] as usize + p[10] as usize + p[11] as usize) % 728 + 12;
    let s = (p[772] as usize + p[773] as usize + p[774] as usize + p[775] as usize) % 728 + 776;
    (c, s)
}

fn digest_valid_at(p: &[u8], off: usize, key: &[u8]) -> bool {
    let mut msg = p[..off].to_vec();
    msg.extend_from_slice(&p[off + 32..]);
    hmac(&msg, key)[..] == p[off..off + 32]
}

/// C11: a generated packet 1 — time zero, version 128.0.7.2, valid digest for the role at the role's
/// scheme position, which is one of the two positions peers probe
fn p1_valid(p1: &[u8], server: bool) -> Result<usize, String> {
    if p1.len() != 1536 { return Err(format!("length {}", p1.len())); }
    if p1[0..4] != [0, 0, 0, 0] { return Err("time field not zero".into()); }
    if p1[4..8] != [128, 0, 7, 2] { return Err("version bytes".into()); }
    let (c, s) = digest_offsets(p1);
    let (off, key) = if server { (s, FMS) } else { (c, FP) };
    if !digest_valid_at(p1, off, key) { return Err(format!("digest at offset {} invalid", off)); }
    Ok(off)
}

/// C11: packet 2 in answer to `peer_p1`: valid response signature if the peer's packet carries a digest
/// (either scheme), exact echo otherwise
fn p2_valid(p2: &[u8], peer_p1: &[u8], server: bool) -> Result<&'static str, String> {
    if p2.len() != 1536 { return Err(format!("length {}", p2.len())); }
    let peer_key = if server { FP } else { FMS };
    let (c, s) = digest_offsets(peer_p1);
    let d = if digest_valid_at(peer_p1, c, peer_key) { Some(peer_p1[c..c + 32].to_vec()) } else if digest_valid_at(peer_p1, s, peer_key) { Some(peer_p1[s..s + 32].to_vec()) } else { None };
    match d {
        None => if p2 == peer_p1 { Ok("echo") } else { Err("digest-less packet 1 not echoed exactly".into()) },
        Some(d) => {
            let mut key = if server { FMS.to_vec() } else { FP.to_vec() };
            key.extend_from_slice(&CRUD);
            let h1 = hmac(&d, &key);
            let h2 = hmac(&p2[..1504], &h1);
            if h2[..] == p2[1504..] { Ok("signed") } else { Err("response signature invalid".into()) }
        }
    }
}

pub fn op(st: &mut HsSt, toks: &[&str]) -> Option<String> {
    Some(match toks {
        ["hs.new", slot, role, f1, f2] => {
            let server = *role == "s";
            let s = Slot { hs: Handshake::new(if server { PeerType::Server } else { PeerType::Client }), server, fills: vec![parse_bytes(f1)?, parse_bytes(f2)?], outbox: vec![], dead: false };
            if *slot == "a" { st.a = Some(s) } else { st.b = Some(s) }
            "ok".into()
        }
        ["hs.gen", slot] => {
            let x = get(st, slot)?;
            let r = with_fills(x, |h| h.generate_outbound_p0_and_p1());
            match r {
                Ok(bytes) => { if x.fills.first().map(|f| f.len()) == Some(1524) { x.fills.remove(0); } x.outbox.extend_from_slice(&bytes); format!("ok {}", show_bytes(&bytes)) }
                Err(e) => he_kind(&e),
            }
        }
        ["hs.proc", slot, data] => { let d = parse_bytes(data)?; proc(get(st, slot)?, &d) }
        ["hs.append", slot, data] => { let d = parse_bytes(data)?; get(st, slot)?.outbox.extend_from_slice(&d); "ok".into() }
        ["hs.xfer", src, dst, n] => {
            let n: usize = n.parse().ok()?;
            let d: Vec<u8> = { let x = get(st, src)?; let k = std::cmp::min(n, x.outbox.len()); x.outbox.drain(..k).collect() };
            proc(get(st, dst)?, &d)
        }
        ["sha.selftest"] => "ok".into(),
        // ---------------------------------------------------------------- oracles
        // C11: own packet 1 for a given fill
        ["!hs.p1", role, f1] => {
            let server = *role == "s";
            let mut s = Slot { hs: Handshake::new(if server { PeerType::Server } else { PeerType::Client }), server, fills: vec![parse_bytes(f1)?], outbox: vec![], dead: false };
            let out = with_fills(&mut s, |h| h.generate_outbound_p0_and_p1());
            match out {
                Err(e) => format!("! FAIL {}", he_kind(&e)),
                Ok(b) => if b.len() != 1537 || b[0] != 3 { "! FAIL p0p1-shape".into() } else { match p1_valid(&b[1..], server) { Ok(off) => format!("! ok offset={}", off), Err(e) => format!("! FAIL packet1 {}", e.replace(' ', "_")) } },
            }
        }
        // C11: packet 2 in answer to a given packet 1
        ["!hs.p2", role, peer_p1, f1, f2] => {
            let server = *role == "s";
            let p1 = parse_bytes(peer_p1)?;
            let mut s = Slot { hs: Handshake::new(if server { PeerType::Server } else { PeerType::Client }), server, fills: vec![parse_bytes(f1)?, parse_bytes(f2)?], outbox: vec![], dead: false };
            let mut input = vec![3u8];
            input.extend_from_slice(&p1);
            let r = with_fills(&mut s, |h| h.process_bytes(&input));
            match r {
                Ok(R::InProgress { response_bytes }) if response_bytes.len() == 1537 + 1536 => match p2_valid(&response_bytes[1537..], &p1, server) { Ok(k) => format!("! ok {}", k), Err(e) => format!("! FAIL packet2 {}", e.replace(' ', "_")) },
                Ok(_) => "! FAIL unexpected-response-shape".into(),
                Err(e) => format!("! FAIL {}", he_kind(&e)),
            }
        }
        // C05: a whole exchange between two real handshakes (or against an original digest-less peer) under
        // the given fragmentations, with trailing application bytes
        ["!hs.pair", starter, sizes_ab, sizes_ba, tail_a, tail_b, peer] => {
            let sa = crate::fam_chunk::parse_sizes(sizes_ab)?;
            let sb = crate::fam_chunk::parse_sizes(sizes_ba)?;
            let (ta, tb) = (parse_bytes(tail_a)?, parse_bytes(tail_b)?);
            verif_hooks::clear_fill_bytes();
            pair(starter, &sa, &sb, &ta, &tb, *peer == "orig")
        }
        _ => return None,
    })
}

struct Side { hs: Option<Handshake>, out: Vec<u8>, sent: usize, received: usize, emitted: Vec<u8>, done: bool, remaining: Vec<u8>, orig_stage: usize, orig_in: Vec<u8> }

/// an original-handshake (RTMP 1.0 §5.2) client written by hand: C0 C1 (time, zero, random), then C2 = echo of S1
fn orig_step(s: &mut Side, data: &[u8]) {
    s.orig_in.extend_from_slice(data);
    if s.orig_stage == 0 && s.orig_in.len() >= 1 + 1536 {
        // received S0 S1: send C2 = echo of S1
        let s1: Vec<u8> = s.orig_in[1..1537].to_vec();
        s.out.extend_from_slice(&s1); s.emitted.extend_from_slice(&s1);
        s.orig_stage = 1;
    }
    if s.orig_stage == 1 && s.orig_in.len() >= 1 + 1536 + 1536 { s.done = true; s.remaining = s.orig_in[3073..].to_vec(); s.orig_stage = 2; }
    else if s.orig_stage == 2 { s.remaining.extend_from_slice(data); }
}

fn pair(starter: &str, sa: &[usize], sb: &[usize], tail_a: &[u8], tail_b: &[u8], orig: bool) -> String {
    // A = client, B = server
    let mut a = Side { hs: if orig { None } else { Some(Handshake::new(PeerType::Client)) }, out: vec![], sent: 0, received: 0, emitted: vec![], done: false, remaining: vec![], orig_stage: 0, orig_in: vec![] };
    let mut b = Side { hs: Some(Handshake::new(PeerType::Server)), out: vec![], sent: 0, received: 0, emitted: vec![], done: false, remaining: vec![], orig_stage: 0, orig_in: vec![] };
    if orig {
        // time and "zero" fields: the library must not read anything into them (random content per §5.2 peers in
        // the wild: some put a version or uptime there)
        let mut c01 = match (sa.len() + sb.len() + tail_a.len() + tail_b.len()) % 4 {
            0 => vec![3u8, 0, 0, 0, 9, 0, 0, 0, 0],
            1 => vec![3u8, 0, 0, 0, 9, 1, 2, 3, 4],
            2 => vec![3u8, 0xff, 0xff, 0xff, 0xff, 0xff, 0xff, 0xff, 0xff],
            _ => vec![3u8, 0, 0, 0, 0, 0, 0, 0, 1],
        };
        for i in 0..1528 { c01.push((i * 7 + 13) as u8); }
        a.out.extend_from_slice(&c01); a.emitted.extend_from_slice(&c01);
    } else if starter == "a" || starter == "both" {
        let p = a.hs.as_mut().unwrap().generate_outbound_p0_and_p1().unwrap();
        a.out.extend_from_slice(&p); a.emitted.extend_from_slice(&p);
    }
    if starter == "b" || starter == "both" {
        let p = b.hs.as_mut().unwrap().generate_outbound_p0_and_p1().unwrap();
        b.out.extend_from_slice(&p); b.emitted.extend_from_slice(&p);
    }
    if starter == "none" && !orig {
        // nobody volunteers: the client starts by processing an empty input, as an application would
        match a.hs.as_mut().unwrap().process_bytes(&[]) { Ok(R::InProgress { response_bytes }) => { a.out.extend_from_slice(&response_bytes); a.emitted.extend_from_slice(&response_bytes); } _ => return "! FAIL start-with-empty-input".into() }
    }
    let mut tails_added = (false, false);
    let (mut ia, mut ib) = (0usize, 0usize);
    let mut steps = 0;
    loop {
        steps += 1;
        if steps > 200000 { return "! FAIL no-progress".into(); }
        // application data follows the last handshake packet as soon as it has been emitted
        if !tails_added.0 && a.emitted.len() >= 3073 { a.out.extend_from_slice(tail_a); tails_added.0 = true; }
        if !tails_added.1 && b.emitted.len() >= 3073 { b.out.extend_from_slice(tail_b); tails_added.1 = true; }
        let a_can = !a.out.is_empty();
        let b_can = !b.out.is_empty();
        if !a_can && !b_can { break; }
        // alternate, A→B first
        let from_a = if a_can && b_can { steps % 2 == 1 } else { a_can };
        let (src, dst, sizes, idx) = if from_a { (&mut a, &mut b, sa, &mut ia) } else { (&mut b, &mut a, sb, &mut ib) };
        let n = if sizes.is_empty() { src.out.len() } else { std::cmp::max(1, std::cmp::min(sizes[*idx % sizes.len()], src.out.len())) };
        *idx += 1;
        let chunk: Vec<u8> = src.out.drain(..n).collect();
        src.sent += n;
        dst.received += n;
        if dst.hs.is_none() { orig_step(dst, &chunk); continue; }
        if dst.done {
            // after completion the application owns the stream: bytes bypass the handshake
            dst.remaining.extend_from_slice(&chunk);
            continue;
        }
        match dst.hs.as_mut().unwrap().process_bytes(&chunk) {
            Err(e) => return format!("! FAIL handshake-error {} after {} bytes", he_kind(&e), dst.received),
            Ok(R::InProgress { response_bytes }) => {
                if dst.received >= 3073 { return format!("! FAIL not-complete-after {} bytes", dst.received); }
                dst.out.extend_from_slice(&response_bytes); dst.emitted.extend_from_slice(&response_bytes);
            }
            Ok(R::Completed { response_bytes, remaining_bytes }) => {
                if dst.received < 3073 { return format!("! FAIL completed-early after {} bytes", dst.received); }
                dst.out.extend_from_slice(&response_bytes); dst.emitted.extend_from_slice(&response_bytes);
                dst.done = true;
                dst.remaining.extend_from_slice(&remaining_bytes);
            }
        }
    }
    if !a.done || !b.done { return format!("! FAIL incomplete a={} b={}", a.done, b.done); }
    for (name, s) in [("a", &a), ("b", &b)] {
        if s.emitted.len() != 3073 || s.emitted[0] != 3 { return format!("! FAIL side-{}-emitted-{}-bytes", name, s.emitted.len()); }
    }
    if a.remaining != tail_b { return format!("! FAIL trailing-bytes-from-b-altered got {} of {}", a.remaining.len(), tail_b.len()); }
    if b.remaining != tail_a { return format!("! FAIL trailing-bytes-from-a-altered got {} of {}", b.remaining.len(), tail_a.len()); }
    // C11 on the way: both generated packets carry valid digests / signatures
    if a.hs.is_some() {
        if let Err(e) = p1_valid(&a.emitted[1..1537], false) { return format!("! FAIL client-packet1 {}", e.replace(' ', "_")); }
        if let Err(e) = p2_valid(&a.emitted[1537..], &b.emitted[1..1537], false) { return format!("! FAIL client-packet2 {}", e.replace(' ', "_")); }
    }
    if let Err(e) = p1_valid(&b.emitted[1..1537], true) { return format!("! FAIL server-packet1 {}", e.replace(' ', "_")); }
    if let Err(e) = p2_valid(&b.emitted[1537..], &a.emitted[1..1537], true) { return format!("! FAIL server-packet2 {}", e.replace(' ', "_")); }
    "! ok".into()
}
