//! Counting global allocator: current and peak live bytes, so that oracles can bound what a call
//! allocates relative to the bytes it was given.
use std::alloc::{GlobalAlloc, Layout, System};
use std::sync::atomic::{AtomicUsize, Ordering};

pub struct Counting;

static CUR: AtomicUsize = AtomicUsize::new(0);
static PEAK: AtomicUsize = AtomicUsize::new(0);

unsafe impl GlobalAlloc for Counting {
    unsafe fn alloc(&self, l: Layout) -> *mut u8 {
        let p = System.alloc(l);
        if !p.is_null() {
            let c = CUR.fetch_add(l.size(), Ordering::Relaxed) + l.size();
            PEAK.fetch_max(c, Ordering::Relaxed);
        }
        p
    }
    unsafe fn dealloc(&self, p: *mut u8, l: Layout) {
        System.dealloc(p, l);
        CUR.fetch_sub(l.size(), Ordering::Relaxed);
    }
    unsafe fn alloc_zeroed(&self, l: Layout) -> *mut u8 {
        let p = System.alloc_zeroed(l);
        if !p.is_null() {
            let c = CUR.fetch_add(l.size(), Ordering::Relaxed) + l.size();
            PEAK.fetch_max(c, Ordering::Relaxed);
        }
        p
    }
    unsafe fn realloc(&self, p: *mut u8, l: Layout, new: usize) -> *mut u8 {
        let q = System.realloc(p, l, new);
        if !q.is_null() {
            if new >= l.size() {
                let c = CUR.fetch_add(new - l.size(), Ordering::Relaxed) + (new - l.size());
                PEAK.fetch_max(c, Ordering::Relaxed);
            } else {
                CUR.fetch_sub(l.size() - new, Ordering::Relaxed);
            }
        }
        q
    }
}

/// start a measurement: returns the baseline (current live bytes) and resets the peak to it
pub fn begin() -> usize {
    let c = CUR.load(Ordering::Relaxed);
    PEAK.store(c, Ordering::Relaxed);
    c
}

/// peak live bytes above the baseline since `begin`
pub fn peak_over(base: usize) -> usize {
    PEAK.load(Ordering::Relaxed).saturating_sub(base)
}

/// live bytes right now (read by the watchdog)
pub fn current() -> usize {
    CUR.load(Ordering::Relaxed)
}
