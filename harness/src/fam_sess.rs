//! Session family: real ServerSession / ClientSession behind the line protocol (clock under hook H2)
//! and the oracles for C09, C10, C15 (sessions), C17, C18, C02, C03.
use crate::amftext::{from_lib, show, show_vals};
use crate::fam_chunk::{parse_sizes, split_calls};
use crate::refchunk::{RMsg, RefDecoder};
use crate::refcodec;
use crate::util::{parse_bytes, show_bytes};
use bytes::Bytes;
use rml_rtmp::chunk_io::Packet;
use rml_rtmp::sessions::*;
use rml_rtmp::time::RtmpTimestamp;

/// everything one session emitted / was told, for the C18 oracle
pub struct Track {
    pub packets: Vec<(Vec<u8>, bool, bool)>, // bytes, can_be_dropped, droppable was requested by the application
    pub allowed_msids: std::collections::HashSet<u32>,
    pub input: RefDecoder,
    pub input_failed: bool,   // a handle_input call returned Err (known finding K2 territory)
}

impl Track {
    fn new() -> Self { let mut a = std::collections::HashSet::new(); a.insert(0); Track { packets: vec![], allowed_msids: a, input: RefDecoder::new(false), input_failed: false } }
    fn saw_input(&mut self, data: &[u8]) {
        // stream ids the peer used, and stream ids a createStream result announced
        if let Ok(ms) = self.input.decode_all(data) {
            for m in ms {
                self.allowed_msids.insert(m.msid);
                if m.typ == 20 || m.typ == 17 {
                    if let Ok(vs) = refcodec::decode(&m.data) {
                        if let (Some(crate::amftext::V::Str(n)), Some(crate::amftext::V::Number(b))) = (vs.get(0), vs.get(3)) {
                            if n == b"_result" { self.allowed_msids.insert(f64::from_bits(*b) as u32); }
                        }
                    }
                }
            }
        }
    }
}

/// C09: an independent, deliberately small tracker of what the property says about the server session; it looks only at
/// the events the real session raised and the verdicts of accept/reject calls
#[derive(Default)]
pub struct SrvRef {
    seen_ids: std::collections::HashSet<u32>,
    pending: std::collections::HashMap<u32, (u8, String, String)>, // id -> (0 conn | 1 publish | 2 play, app, key)
    accepted_app: Option<String>,
    publishing: Vec<String>,   // keys with an accepted publish request not yet finished
    playing: Vec<String>,
    // stream life cycle, read independently from the bytes in both directions
    inp: Option<RefDecoder>,         // reader of the peer's bytes (None: stopped judging)
    outp: Option<RefDecoder>,        // reader of the session's own packets
    out_seen: usize,
    started: bool,
    created: std::collections::HashSet<u32>,
    deleted: std::collections::HashSet<u32>,
    req_stream: std::collections::HashMap<u32, u32>,   // request id -> message stream it arrived on
    /// message stream -> key of the accepted, unfinished publish request that arrived on it (only requests whose
    /// stream the tracker could read off the wire); `None` after an ambiguity: stop judging missing media events
    pub_by_sid: Option<std::collections::HashMap<u32, String>>,
    /// an input call returned Err: the requests of messages handled before the failing one were registered by the
    /// session but never shown (the results are dropped with the error, known finding K2b), so from here on an id the
    /// tracker has not seen may well be outstanding
    blind: bool,
    /// a createStream answer announced a stream id the session had already issued (reported once, at the next op)
    dup_stream: Option<u32>,
}

impl SrvRef {
    fn start(&mut self) { if !self.started { self.started = true; self.inp = Some(RefDecoder::new(false)); self.outp = Some(RefDecoder::new(false)); self.pub_by_sid = Some(Default::default()); } }
    /// stream ids the session announced in createStream results
    fn sync_outputs(&mut self, t: &Track) {
        self.start();
        while self.out_seen < t.packets.len() {
            let b = &t.packets[self.out_seen].0; self.out_seen += 1;
            let rd = match self.outp.as_mut() { Some(r) => r, None => return };
            match rd.decode_all(b) {
                Err(_) => { self.outp = None; return; }
                Ok(ms) => for m in ms { if m.typ == 20 { if let Ok(vs) = refcodec::decode(&m.data) {
                    if let (Some(crate::amftext::V::Str(n)), Some(crate::amftext::V::Number(b))) = (vs.get(0), vs.get(3)) { if n == b"_result" { let id = f64::from_bits(*b) as u32; if !self.created.insert(id) && self.dup_stream.is_none() { self.dup_stream = Some(id); } } } } } }
            }
        }
    }
    /// one `srv.in` op: `data` is everything the peer sent in it, `failed` = a call returned Err,
    /// `new_reqs` = publish / play request ids surfaced, `media` = audio / video / metadata events raised
    fn on_op(&mut self, t: &Track, data: &[u8], failed: bool, err: &str, new_reqs: &[u32], media: usize) -> Option<String> {
        self.start();
        if failed { self.blind = true; }
        let connected_before = self.accepted_app.is_some();
        let created_before = self.created.clone();
        self.sync_outputs(t);
        if let Some(id) = self.dup_stream.take() { self.dup_stream = Some(u32::MAX); if id != u32::MAX { return Some(format!("stream-id-{}-issued-twice", id)); } }
        let rd = self.inp.as_mut()?;
        let ms = match rd.decode_all(data) { Ok(m) => m, Err(_) => { self.inp = None; return None; } };
        if failed {
            // a call that failed on its only message, at message level, leaves the byte stream in step: keep reading;
            // anything else (bytes left behind in the session's buffer, a chunk-level error) ends the tracking
            let msg_level = err.starts_with("err:msgdes") || err == "err:noapp";
            if !(ms.len() == 1 && rd.idle() && msg_level) { self.inp = None; }
            return None;
        }
        let mut verdict = None;
        if ms.len() == 1 {
            let m = &ms[0];
            if (m.typ == 8 || m.typ == 9) && media > 0 && self.deleted.contains(&m.msid) { verdict = Some(format!("media-event-raised-for-a-message-on-deleted-stream-{}", m.msid)); }
            // the other direction: a stream whose publish request was accepted, in a session whose connection was accepted
            // and never un-accepted, raises one event per audio / video message
            if (m.typ == 8 || m.typ == 9) && media == 0 && connected_before && !self.deleted.contains(&m.msid) {
                if let Some(map) = &self.pub_by_sid { if let Some(k) = map.get(&m.msid) { if self.publishing.contains(k) {
                    verdict = Some(format!("media-message-on-publishing-stream-{}-raised-no-event", m.msid)); } } }
            }
            if m.typ == 20 { for r in new_reqs { self.req_stream.insert(*r, m.msid); } }
            // a well-formed play / publish command in a session whose connection was accepted surfaces exactly one request
            if m.typ == 20 && connected_before && !failed {
                if let Ok(vs) = refcodec::decode(&m.data) {
                    use crate::amftext::V;
                    let name = match vs.get(0) { Some(V::Str(n)) => n.clone(), _ => vec![] };
                    let tid_ok = matches!(vs.get(1), Some(V::Number(_)));
                    let well_formed = tid_ok && vs.len() >= 4 && match name.as_slice() {
                        b"play" => matches!(vs.get(3), Some(V::Str(_))),
                        b"publish" => matches!(vs.get(3), Some(V::Str(_))) && match vs.get(4) { Some(V::Str(t)) => { let l = t.to_ascii_lowercase(); l == b"live" || l == b"record" || l == b"append" } _ => false },
                        _ => false };
                    if well_formed && new_reqs.len() != 1 { verdict = Some(format!("{}-command-in-an-accepted-connection-surfaced-{}-requests", String::from_utf8_lossy(&name), new_reqs.len())); }
                }
            }
        }
        for m in &ms {
            if m.typ != 20 { continue; }
            if let Ok(vs) = refcodec::decode(&m.data) {
                if let (Some(crate::amftext::V::Str(n)), Some(crate::amftext::V::Number(b))) = (vs.get(0), vs.get(3)) {
                    let id = f64::from_bits(*b) as u32;
                    if n == b"deleteStream" && connected_before && created_before.contains(&id) { self.deleted.insert(id); }
                }
            }
        }
        verdict
    }
    fn on_events(&mut self, rs: &[ServerSessionResult]) -> Option<String> {
        for r in rs {
            if let ServerSessionResult::RaisedEvent(e) = r {
                use ServerSessionEvent as E;
                match e {
                    E::ConnectionRequested { request_id, app_name } => { if !self.seen_ids.insert(*request_id) { return Some(format!("request-id-{}-issued-twice", request_id)); } self.pending.insert(*request_id, (0, app_name.clone(), String::new())); }
                    E::PublishStreamRequested { request_id, app_name, stream_key, .. } => {
                        if self.accepted_app.is_none() { return Some("publish-request-surfaced-before-a-connection-was-accepted".into()); }
                        if Some(app_name) != self.accepted_app.as_ref() { return Some(format!("publish-request-tagged-with-app-{:?}-accepted-was-{:?}", app_name, self.accepted_app)); }
                        if !self.seen_ids.insert(*request_id) { return Some(format!("request-id-{}-issued-twice", request_id)); }
                        self.pending.insert(*request_id, (1, app_name.clone(), stream_key.clone()));
                    }
                    E::PlayStreamRequested { request_id, app_name, stream_key, .. } => {
                        if self.accepted_app.is_none() { return Some("play-request-surfaced-before-a-connection-was-accepted".into()); }
                        if Some(app_name) != self.accepted_app.as_ref() { return Some(format!("play-request-tagged-with-app-{:?}-accepted-was-{:?}", app_name, self.accepted_app)); }
                        if !self.seen_ids.insert(*request_id) { return Some(format!("request-id-{}-issued-twice", request_id)); }
                        self.pending.insert(*request_id, (2, app_name.clone(), stream_key.clone()));
                        if let E::PlayStreamRequested { stream_id, .. } = e { self.req_stream.insert(*request_id, *stream_id); }
                    }
                    E::AudioDataReceived { app_name, stream_key, .. } | E::VideoDataReceived { app_name, stream_key, .. } | E::StreamMetadataChanged { app_name, stream_key, .. } => {
                        if Some(app_name) != self.accepted_app.as_ref() { return Some(format!("media-event-tagged-with-app-{:?}-accepted-was-{:?}", app_name, self.accepted_app)); }
                        if !self.publishing.contains(stream_key) { return Some(format!("media-event-for-key-{:?}-which-has-no-accepted-unfinished-publish-request", stream_key)); }
                    }
                    E::PublishStreamFinished { app_name, stream_key } => {
                        if Some(app_name) != self.accepted_app.as_ref() { return Some(format!("finished-event-tagged-with-app-{:?}-accepted-was-{:?}", app_name, self.accepted_app)); }
                        match self.publishing.iter().position(|k| k == stream_key) { Some(i) => { self.publishing.remove(i); } None => return Some(format!("publish-finished-for-key-{:?}-raised-without-or-twice", stream_key)) }
                        if let Some(map) = self.pub_by_sid.as_mut() {
                            let sids: Vec<u32> = map.iter().filter(|(_, k)| *k == stream_key).map(|(s, _)| *s).collect();
                            if sids.len() == 1 { map.remove(&sids[0]); } else if sids.len() > 1 { self.pub_by_sid = None; }
                        }
                    }
                    E::PlayStreamFinished { app_name, stream_key } => {
                        if Some(app_name) != self.accepted_app.as_ref() { return Some(format!("finished-event-tagged-with-app-{:?}-accepted-was-{:?}", app_name, self.accepted_app)); }
                        match self.playing.iter().position(|k| k == stream_key) { Some(i) => { self.playing.remove(i); } None => return Some(format!("play-finished-for-key-{:?}-raised-without-or-twice", stream_key)) }
                    }
                    _ => {}
                }
            }
        }
        None
    }
    /// verdict of accept (or reject) of `id`: `ok` = the call returned Ok, `inactive` = it failed for a missing stream
    fn on_answer(&mut self, id: u32, accept: bool, ok: bool, err: &str) -> Option<String> {
        match self.pending.remove(&id) {
            None => if !self.blind && (ok || err != "err:requestid") { Some(format!("id-{}-is-not-outstanding-but-the-call-returned-{}", id, if ok { "Ok" } else { err })) } else { None },
            Some((kind, app, key)) => {
                if !ok && !(accept && kind != 0 && err == "err:inactive") { return Some(format!("outstanding-id-{}-refused-with-{}", id, err)); }
                if accept && ok && kind != 0 { if let Some(sid) = self.req_stream.get(&id) { if self.deleted.contains(sid) { return Some(format!("request-{}-accepted-on-stream-{}-which-was-deleted", id, sid)); } } }
                if accept && ok {
                    if kind != 0 { match (self.req_stream.get(&id).copied(), self.pub_by_sid.as_mut()) {
                        (Some(sid), Some(map)) => { if kind == 1 { map.insert(sid, key.clone()); } else { map.remove(&sid); } }
                        (None, _) => { self.pub_by_sid = None; }    // a request whose stream the tracker did not see: it may have replaced a publishing stream
                        _ => {} } }
                    match kind { 0 => self.accepted_app = Some(app), 1 => self.publishing.push(key), _ => self.playing.push(key) }
                }
                None
            }
        }
    }
}

/// C10: independent tracker of the client's outstanding transactions
#[derive(Default)]
pub struct CliRef {
    next_tid: u32,
    outstanding: std::collections::HashMap<u32, u8>,   // tid -> 0 connect | 1 createStream
    peer: Option<RefDecoder>,
    active: Option<u32>,          // stream of the running play / publish (None after a stop that emitted deleteStream)
    ever_active: bool,
    judge_txn: bool,              // false after a failed input call (it may or may not have consumed its transaction)
    /// where the workflow stands, derived only from the results of the session's own calls and the events it raised:
    /// 0 disconnected, 1 connected, 2 play requested, 3 playing, 4 publish requested, 5 publishing; None = stopped judging
    phase: Option<u8>,
}

impl CliRef {
    fn new() -> Self { CliRef { next_tid: 1, outstanding: Default::default(), peer: Some(RefDecoder::new(false)), active: None, ever_active: false, judge_txn: true, phase: Some(0) } }
    fn on_stop(&mut self, emitted: bool) { if emitted { self.active = None; } }
    /// `stop_playback` / `stop_publishing` returned: Ok always (it is a no-op outside the matching phases)
    fn on_stop_phase(&mut self, play: bool, ok: bool) {
        if !ok { self.phase = None; return; }
        if let Some(p) = self.phase { if (play && (p == 2 || p == 3)) || (!play && (p == 4 || p == 5)) { self.phase = Some(1); } }
    }
    /// kind: 0 connect, 1 createStream for play, 2 createStream for publish
    fn on_request(&mut self, ok: bool, kind: u8) { if ok { self.outstanding.insert(self.next_tid, kind); self.next_tid += 1; } }
    /// C10: requests carry consecutive transaction ids, counted over the requests that were ACCEPTED (a refused call
    /// changes nothing); `shown` is the call's printed result, read after `on_request`
    fn judge_tid(&mut self, shown: &str) -> Option<String> {
        if shown.starts_with("err:") { return None; }
        let i = shown.find(".amf(s")?;
        let rest = &shown[i..];
        let j = rest.find(";n")?;
        let hex = rest.get(j + 2..j + 18)?;
        let bits = u64::from_str_radix(hex, 16).ok()?;
        let carried = f64::from_bits(bits);
        let expected = (self.next_tid - 1) as f64;
        if carried != expected { return Some(format!("request-carried-transaction-id-{}-expected-{}", carried, expected)); }
        None
    }
    /// C10: a request call is accepted exactly in the phase the workflow allows it in, and refused with the state error otherwise
    fn judge_call(&mut self, what: &str, allowed_in: u8, res: &str) -> Option<String> {
        let p = self.phase?;
        let ok = !res.starts_with("err:");
        let state_err = res == "err:state" || res == "err:cantconnect" || res == "err:noactive";
        if !ok && !state_err { self.phase = None; return None; }   // refused for another reason (size limits, …): not judged
        if ok && p != allowed_in { return Some(format!("{}-accepted-in-phase-{}", what, p)); }
        if !ok && p == allowed_in { return Some(format!("{}-refused-with-{}-in-phase-{}", what, res, p)); }
        None
    }
    /// one input call that carries exactly one complete command message `_result` / `_error`
    fn on_input(&mut self, data: &[u8], out: &str) -> Option<String> {
        let rd = self.peer.as_mut()?;
        let ms = match rd.decode_all(data) { Ok(m) => m, Err(_) => { self.peer = None; self.phase = None; return None; } };   // desynchronised: stop judging
        let cmds: Vec<&RMsg> = ms.iter().filter(|m| m.typ == 20).collect();
        let failed = out.split(' ').any(|t| t.starts_with("err:"));
        // ---- phase: read off the session's own results only (events raised, commands it sent); the peer's bytes are
        // consulted solely to recognise the one failure that provably leaves the state alone
        if self.phase.is_some() {
            let name_of = |m: &RMsg| -> Option<Vec<u8>> { match refcodec::decode(&m.data).ok()?.get(0) { Some(crate::amftext::V::Str(n)) => Some(n.clone()), _ => None } };
            let toks: Vec<&str> = out.split(' ').collect();
            if failed {
                let lone_status = ms.len() == 1 && cmds.len() == 1 && name_of(cmds[0]).as_deref() == Some(b"onStatus") && out == "err:state";
                if !lone_status { self.phase = None; }
            } else if toks.iter().any(|t| t.starts_with("out:") && t.contains("UNDECODABLE")) {
                self.phase = None;
            } else {
                // commands the session itself sent in this call (after a createStream answer): `play` / `publish`
                let sent = |hexname: &str| toks.iter().any(|t| t.starts_with("out:") && t.contains(&format!(".amf(s{};", hexname)));
                let moves = [toks.iter().any(|t| *t == "ev:connok"), sent("706c6179"), sent("7075626c697368"), toks.iter().any(|t| *t == "ev:playok"), toks.iter().any(|t| *t == "ev:pubok")];
                if moves.iter().filter(|b| **b).count() > 1 { self.phase = None; }   // several steps in one call: not tracked
                else if let Some(p) = self.phase {
                    if moves[0] { self.phase = if p == 0 { Some(1) } else { None }; }
                    else if moves[1] { self.phase = if p == 1 { Some(2) } else { None }; }
                    else if moves[2] { self.phase = if p == 1 { Some(4) } else { None }; }
                    else if moves[3] { if p == 2 { self.phase = Some(3); } else { return Some(format!("playback-accepted-raised-in-phase-{}", p)); } }
                    else if moves[4] { if p == 4 { self.phase = Some(5); } else { return Some(format!("publish-accepted-raised-in-phase-{}", p)); } }
                }
            }
        }
        // a call that failed may or may not have consumed the transaction it was answering: stop judging transactions
        if failed { self.judge_txn = false; }
        if !self.judge_txn { return None; }
        // media gate: one media / data message in the call, and an event for it
        if ms.len() == 1 && (ms[0].typ == 8 || ms[0].typ == 9 || ms[0].typ == 18) && !out.contains("err:") {
            let raised = out.split(' ').any(|t| t.starts_with("ev:audio:") || t.starts_with("ev:video:") || t.starts_with("ev:meta:"));
            if raised && self.active != Some(ms[0].msid) { return Some(format!("media-event-raised-for-stream-{}-while-the-active-stream-is-{:?}", ms[0].msid, self.active)); }
        }
        if ms.len() != 1 || cmds.len() != 1 { 
            // several messages in one call: the active stream may change in it; stop judging the media gate
            for m in &cmds { if let Ok(vs) = refcodec::decode(&m.data) { if let (Some(crate::amftext::V::Str(n)), Some(crate::amftext::V::Number(t)), Some(crate::amftext::V::Number(id))) = (vs.get(0), vs.get(1), vs.get(3)) {
                if n == b"_result" && matches!(self.outstanding.get(&(f64::from_bits(*t) as u32)), Some(&1) | Some(&2)) && !out.contains("err:") { self.active = Some(f64::from_bits(*id) as u32); } } } }
            // still keep the bookkeeping right for every answer in the call
            for m in cmds { if let Ok(vs) = refcodec::decode(&m.data) { if let (Some(crate::amftext::V::Str(n)), Some(crate::amftext::V::Number(t))) = (vs.get(0), vs.get(1)) { if n == b"_result" || n == b"_error" { self.outstanding.remove(&(f64::from_bits(*t) as u32)); } } } }
            return None;
        }
        let vs = refcodec::decode(&cmds[0].data).ok()?;
        let (name, tid) = match (vs.get(0), vs.get(1)) { (Some(crate::amftext::V::Str(n)), Some(crate::amftext::V::Number(t))) => (n.clone(), f64::from_bits(*t) as u32), _ => return None };
        if name != b"_result" && name != b"_error" { return None; }
        if vs.len() < 3 { return None; }
        let kind = self.outstanding.remove(&tid);
        let known = kind.is_some();
        if name == b"_result" && (kind == Some(1) || kind == Some(2)) && !out.contains("err:") { if let Some(crate::amftext::V::Number(id)) = vs.get(3) { self.active = Some(f64::from_bits(*id) as u32); self.ever_active = true; } }
        let reported_unknown = out.contains("ev:unktxn:");
        if !known && !reported_unknown && !out.contains("err:") { return Some(format!("answer-to-transaction-{}-which-is-not-outstanding-was-not-reported-as-unknown", tid)); }
        // acknowledgements are a function of the call size, not of the message
        let non_ack_out = out.split(' ').any(|t| t.starts_with("out:") && t.split(':').nth(3) != Some("UNDECODABLE") && t.split(':').nth(4).map(|m| !m.is_empty() && !m.starts_with("3.0.")).unwrap_or(false));
        let _ = non_ack_out; // (packets are not judged: after an earlier failed input call the output stream may be unreadable, K2)
        if !known && (out.contains("ev:connok") || out.contains("ev:connrej")) { return Some(format!("answer-to-transaction-{}-which-is-not-outstanding-was-applied", tid)); }
        if known && reported_unknown { return Some(format!("answer-to-outstanding-transaction-{}-reported-as-unknown", tid)); }
        None
    }
}

pub struct SessSt {
    pub srv: Option<ServerSession>,
    pub srv_out: RefDecoder,
    pub cli: Option<ClientSession>,
    pub cli_out: RefDecoder,
    pub srv_track: Track,
    pub cli_track: Track,
    pub srv_ref: SrvRef,
    pub cli_ref: CliRef,
    pub log: Vec<String>,     // the session ops of this case, for replaying the history into fresh sessions (C15 oracle)
}

impl SessSt {
    pub fn new() -> Self { SessSt { srv: None, srv_out: RefDecoder::new(false), cli: None, cli_out: RefDecoder::new(false), srv_track: Track::new(), cli_track: Track::new(), srv_ref: SrvRef::default(), cli_ref: CliRef::new(), log: vec![] } }
}

fn record_srv(t: &mut Track, rs: &[ServerSessionResult]) { for r in rs { if let ServerSessionResult::OutboundResponse(p) = r { t.packets.push((p.bytes.clone(), p.can_be_dropped, false)); } } }
fn record_cli(t: &mut Track, rs: &[ClientSessionResult], requested: bool) { for r in rs { if let ClientSessionResult::OutboundResponse(p) = r { t.packets.push((p.bytes.clone(), p.can_be_dropped, requested)); } } }

/// C18: the packets a session returned, in order, with a subset of the droppable ones removed, read by the strict
/// specification reader: decodable, well-formed messages, expected message streams, flags only where requested
fn decodable(t: &Track, seed: u64) -> String {
    let tag = if t.input_failed { "after-input-error " } else { "" };
    let mut pk = refcodec::Pick(seed);
    let mut bytes = vec![];
    let mut all_bytes = vec![];
    let mut kept = 0;
    let mut kept_idx = vec![];
    for (i, (b, d, req)) in t.packets.iter().enumerate() {
        if *d && !*req { return format!("! FAIL {}droppable-flag-on-a-packet-the-application-did-not-mark", tag); }
        all_bytes.extend_from_slice(b);
        if *d && pk.next() % 2 == 0 { continue; }
        bytes.extend_from_slice(b); kept += 1; kept_idx.push(i);
    }
    // what every packet means when nothing is dropped (one message per packet)
    let full: Option<Vec<RMsg>> = { let mut rd = RefDecoder::new(true); rd.sequential_only = true;
        match rd.decode_all(&all_bytes) { Ok(ms) if ms.len() == t.packets.len() => Some(ms), _ => None } };
    let mut rd = RefDecoder::new(true);
    rd.sequential_only = true;
    match rd.decode_all(&bytes) {
        Err(e) => format!("! FAIL {}undecodable {}", tag, e.replace(' ', "_")),
        Ok(ms) => {
            if let Some(n) = rd.notes.first() { return format!("! FAIL {}nonconformant {}", tag, n.replace(' ', "_")); }
            for m in &ms {
                if !t.allowed_msids.contains(&m.msid) { return format!("! FAIL {}message-type-{}-on-unexpected-stream-{}", tag, m.typ, m.msid); }
                let ok = match m.typ { 1 | 2 | 3 | 5 => m.data.len() == 4, 6 => m.data.len() == 5, 4 => m.data.len() == 6 || m.data.len() == 10,
                    18 | 20 => refcodec::decode(&m.data).is_ok(), _ => true };
                if !ok { return format!("! FAIL {}ill-formed-message-type-{}", tag, m.typ); }
            }
            if ms.len() != kept { return format!("! FAIL {}{}-packets-decoded-into-{}-messages", tag, kept, ms.len()); }
            if let Some(f) = &full {
                for (j, i) in kept_idx.iter().enumerate() {
                    let (a, b) = (&ms[j], &f[*i]);
                    if a.ts != b.ts || a.typ != b.typ || a.msid != b.msid || a.data != b.data {
                        return format!("! FAIL {}packet-{}-reads-as-ts={}.typ={}.msid={}.len={}-after-drops-but-as-ts={}.typ={}.msid={}.len={}-when-nothing-is-dropped", tag, i, a.ts, a.typ, a.msid, a.data.len(), b.ts, b.typ, b.msid, b.data.len());
                    }
                }
            }
            format!("! ok {} packets", kept)
        }
    }
}

fn opt_u(o: &Option<u32>) -> String { match o { None => "_".into(), Some(n) => n.to_string() } }

pub fn show_meta(m: &StreamMetadata) -> String {
    format!("{},{},{},{},{},{},{},{},{},{},{}", opt_u(&m.video_width), opt_u(&m.video_height), opt_u(&m.video_codec_id),
        match m.video_frame_rate { None => "_".into(), Some(f) => f.to_bits().to_string() }, opt_u(&m.video_bitrate_kbps), opt_u(&m.audio_codec_id),
        opt_u(&m.audio_bitrate_kbps), opt_u(&m.audio_sample_rate), opt_u(&m.audio_channels),
        match m.audio_is_stereo { None => "_", Some(true) => "t", Some(false) => "f" },
        match &m.encoder { None => "_".into(), Some(e) => show_bytes(e.as_bytes()) })
}

pub fn parse_meta(s: &str) -> Option<StreamMetadata> {
    let p: Vec<&str> = s.split(',').collect();
    if p.len() != 11 { return None; }
    let u = |x: &str| -> Option<Option<u32>> { if x == "_" { Some(None) } else { x.parse().ok().map(Some) } };
    let mut m = StreamMetadata::new();
    m.video_width = u(p[0])?; m.video_height = u(p[1])?; m.video_codec_id = u(p[2])?;
    m.video_frame_rate = u(p[3])?.map(f32::from_bits);
    m.video_bitrate_kbps = u(p[4])?; m.audio_codec_id = u(p[5])?; m.audio_bitrate_kbps = u(p[6])?; m.audio_sample_rate = u(p[7])?; m.audio_channels = u(p[8])?;
    m.audio_is_stereo = match p[9] { "_" => None, "t" => Some(true), "f" => Some(false), _ => return None };
    m.encoder = if p[10] == "_" { None } else { Some(String::from_utf8(parse_bytes(p[10])?).ok()?) };
    Some(m)
}

fn show_body(m: &RMsg) -> String {
    if m.typ == 18 || m.typ == 20 {
        // the library's own AMF0 decoder semantics are what the model uses; here the independent codec is enough
        // because session output is library-encoded (strict) AMF0
        match rml_amf0::deserialize(&mut std::io::Cursor::new(&m.data[..])) {
            Ok(vs) => format!("amf({})", show_vals(&vs.iter().map(from_lib).collect::<Vec<_>>())),
            Err(_) => show_bytes(&m.data),
        }
    } else { show_bytes(&m.data) }
}

pub fn show_out(rd: &mut RefDecoder, p: &Packet) -> String {
    let d = if p.can_be_dropped { 1 } else { 0 };
    // decode on a copy of the reader so that a failure leaves it untouched (as the Lean driver does)
    let mut trial = rd.clone();
    trial.hdr_bytes.clear();
    match trial.decode_all(&p.bytes) {
        Err(_) => { let mut sorted = p.bytes.clone(); sorted.sort(); format!("out:{}:{}:UNDECODABLE:{:016x}", d, p.bytes.len(), crate::util::fnv64(&sorted)) }
        Ok(ms) => {
            let hdrs = trial.hdr_bytes.clone();
            *rd = trial;
            format!("out:{}:{}:{}:{}", d, p.bytes.len(), show_bytes(&hdrs), ms.iter().map(|m| format!("{}.{}.{}.{}", m.typ, m.msid, m.ts, show_body(m))).collect::<Vec<_>>().join("+"))
        }
    }
}

fn mode(m: &PublishMode) -> &'static str { match m { PublishMode::Live => "live", PublishMode::Record => "record", PublishMode::Append => "append" } }

pub fn srv_err(e: &ServerSessionError) -> String {
    use ServerSessionError as E;
    match e {
        E::ChunkDeserializationError(x) => format!("err:chunkdes:{}", &crate::fam_chunk::de_kind(x)[4..]),
        E::ChunkSerializationError(x) => format!("err:chunkser:{}", &crate::fam_chunk::se_kind(x)[4..]),
        E::MessageSerializationError(x) => format!("err:msgser:{}", &crate::fam_msg::se_kind(x)[4..]),
        E::MessageDeserializationError(x) => format!("err:msgdes:{}", &crate::fam_msg::de_kind(x)[4..]),
        E::InvalidOutstandingRequest(_) => "err:requestid".into(),
        E::NoAppNameForConnectionRequest => "err:noapp".into(),
        E::InvalidRequestId => "err:requestid".into(),
        E::ActionAttemptedOnInactiveStream { .. } => "err:inactive".into(),
        #[allow(unreachable_patterns)]
        _ => "err:other".into(),
    }
}

pub fn cli_err(e: &ClientSessionError) -> String {
    use ClientSessionError as E;
    match e {
        E::ChunkDeserializationError(x) => format!("err:chunkdes:{}", &crate::fam_chunk::de_kind(x)[4..]),
        E::ChunkSerializationError(x) => format!("err:chunkser:{}", &crate::fam_chunk::se_kind(x)[4..]),
        E::MessageSerializationError(x) => format!("err:msgser:{}", &crate::fam_msg::se_kind(x)[4..]),
        E::MessageDeserializationError(x) => format!("err:msgdes:{}", &crate::fam_msg::de_kind(x)[4..]),
        E::CantConnectWhileAlreadyConnected => "err:cantconnect".into(),
        E::SessionInInvalidState { .. } => "err:state".into(),
        E::NoKnownActiveStreamIdWhenRequired => "err:noactive".into(),
        E::CreateStreamFailed => "err:createfailed".into(),
        E::CreateStreamResponseHadNoStreamNumber => "err:createnonumber".into(),
        E::InvalidOnStatusArguments => "err:onstatus".into(),
        #[allow(unreachable_patterns)]
        _ => "err:other".into(),
    }
}

fn sb(s: &str) -> String { show_bytes(s.as_bytes()) }

pub fn show_srv_event(e: &ServerSessionEvent) -> String {
    use ServerSessionEvent as E;
    match e {
        E::ClientChunkSizeChanged { new_chunk_size } => format!("ev:cschanged:{}", new_chunk_size),
        E::ConnectionRequested { request_id, app_name } => format!("ev:connreq:{}:{}", request_id, sb(app_name)),
        E::ReleaseStreamRequested { request_id, app_name, stream_key } => format!("ev:release:{}:{}:{}", request_id, sb(app_name), sb(stream_key)),
        E::PublishStreamRequested { request_id, app_name, stream_key, mode: m } => format!("ev:pubreq:{}:{}:{}:{}", request_id, sb(app_name), sb(stream_key), mode(m)),
        E::PublishStreamFinished { app_name, stream_key } => format!("ev:pubfin:{}:{}", sb(app_name), sb(stream_key)),
        E::StreamMetadataChanged { app_name, stream_key, metadata } => format!("ev:meta:{}:{}:{}", sb(app_name), sb(stream_key), show_meta(metadata)),
        E::AudioDataReceived { app_name, stream_key, data, timestamp } => format!("ev:audio:{}:{}:{}:{}", sb(app_name), sb(stream_key), timestamp.value, show_bytes(data)),
        E::VideoDataReceived { app_name, stream_key, data, timestamp } => format!("ev:video:{}:{}:{}:{}", sb(app_name), sb(stream_key), timestamp.value, show_bytes(data)),
        E::UnhandleableAmf0Command { command_name, transaction_id, command_object, additional_values } => format!("ev:unhcmd:{}:{:016x}:{}:{}", sb(command_name), transaction_id.to_bits(), show(&from_lib(command_object)), show_vals(&additional_values.iter().map(from_lib).collect::<Vec<_>>())),
        E::PlayStreamRequested { request_id, app_name, stream_key, start_at, duration, reset, stream_id } => {
            // `PlayStartValue` is not re-exported by the crate, so it can only be inspected through Debug
            let dbg = format!("{:?}", start_at);
            let st = if dbg == "LiveOrRecorded" { "lor".to_string() } else if dbg == "LiveOnly" { "live".to_string() }
                else { format!("at{}", dbg.trim_start_matches("StartTimeInSeconds(").trim_end_matches(')')) };
            format!("ev:playreq:{}:{}:{}:{}:{}:{}:{}", request_id, sb(app_name), sb(stream_key), st, opt_u(duration), if *reset { 1 } else { 0 }, stream_id)
        }
        E::PlayStreamFinished { app_name, stream_key } => format!("ev:playfin:{}:{}", sb(app_name), sb(stream_key)),
        E::AcknowledgementReceived { bytes_received } => format!("ev:ack:{}", bytes_received),
        E::PingResponseReceived { timestamp } => format!("ev:pong:{}", timestamp.value),
        #[allow(unreachable_patterns)]
        _ => "ev:other".into(),
    }
}

pub fn show_cli_event(e: &ClientSessionEvent) -> String {
    use ClientSessionEvent as E;
    match e {
        E::ConnectionRequestAccepted => "ev:connok".into(),
        E::ConnectionRequestRejected { description } => format!("ev:connrej:{}", sb(description)),
        E::PlaybackRequestAccepted => "ev:playok".into(),
        E::PublishRequestAccepted => "ev:pubok".into(),
        E::StreamMetadataReceived { metadata } => format!("ev:meta:{}", show_meta(metadata)),
        E::VideoDataReceived { timestamp, data } => format!("ev:video:{}:{}", timestamp.value, show_bytes(data)),
        E::AudioDataReceived { timestamp, data } => format!("ev:audio:{}:{}", timestamp.value, show_bytes(data)),
        E::UnhandleableAmf0Command { command_name, transaction_id, command_object, additional_values } => format!("ev:unhcmd:{}:{:016x}:{}:{}", sb(command_name), transaction_id.to_bits(), show(&from_lib(command_object)), show_vals(&additional_values.iter().map(from_lib).collect::<Vec<_>>())),
        E::UnknownTransactionResultReceived { transaction_id, command_object, additional_values } => format!("ev:unktxn:{:016x}:{}:{}", transaction_id.to_bits(), show(&from_lib(command_object)), show_vals(&additional_values.iter().map(from_lib).collect::<Vec<_>>())),
        E::UnhandleableOnStatusCode { code } => format!("ev:unhstatus:{}", sb(code)),
        E::AcknowledgementReceived { bytes_received } => format!("ev:ack:{}", bytes_received),
        E::PingResponseReceived { timestamp } => format!("ev:pong:{}", timestamp.value),
        #[allow(unreachable_patterns)]
        _ => "ev:other".into(),
    }
}

fn show_payload(p: &rml_rtmp::messages::MessagePayload) -> String {
    format!("unh:{}:{}:{}:{}", p.type_id, p.message_stream_id, p.timestamp.value, show_bytes(&p.data))
}

pub fn show_srv_results(rd: &mut RefDecoder, rs: &[ServerSessionResult]) -> String {
    let mut toks = vec![];
    for r in rs {
        toks.push(match r {
            ServerSessionResult::OutboundResponse(p) => show_out(rd, p),
            ServerSessionResult::RaisedEvent(e) => show_srv_event(e),
            ServerSessionResult::UnhandleableMessageReceived(p) => show_payload(p),
        });
    }
    if toks.is_empty() { "ok".into() } else { format!("ok {}", toks.join(" ")) }
}

pub fn show_cli_results(rd: &mut RefDecoder, rs: &[ClientSessionResult]) -> String {
    let mut toks = vec![];
    for r in rs {
        toks.push(match r {
            ClientSessionResult::OutboundResponse(p) => show_out(rd, p),
            ClientSessionResult::RaisedEvent(e) => show_cli_event(e),
            ClientSessionResult::UnhandleableMessageReceived(p) => show_payload(p),
        });
    }
    if toks.is_empty() { "ok".into() } else { format!("ok {}", toks.join(" ")) }
}

fn s_of(b: Vec<u8>) -> Option<String> { String::from_utf8(b).ok() }

thread_local! { static CLI_DROP: std::cell::Cell<bool> = std::cell::Cell::new(false); }

/// canonical result tokens with everything removed that legitimately depends on call boundaries: acknowledgements
fn strip_acks(line: &str) -> Vec<String> {
    line.split(' ').filter(|t| *t != "|" && *t != "ok" && !t.is_empty()).filter(|t| !(t.starts_with("out:") && t.split(':').nth(4).map(|m| m.starts_with("3.0.")).unwrap_or(false))).map(|t| {
        // the packet length and header bytes of later packets legitimately differ when an acknowledgement was (not) sent
        // before them on the same chunk stream: compare the decoded message only
        if t.starts_with("out:") { let p: Vec<&str> = t.splitn(5, ':').collect(); format!("out:{}:{}", p[1], p.get(4).unwrap_or(&"")) } else { t.to_string() }
    }).collect()
}

/// C15 (sessions): replay this case's history into two fresh sessions, deliver `data` under two partitions, compare
fn split_oracle(st: &SessSt, server: bool, sizes_a: &[usize], sizes_b: &[usize], now: &str, data: &str) -> String {
    // after an input call that returned Err the session is in known-finding K2 territory (its output stream may already be
    // undecodable): the partition oracle is about sessions that are still healthy
    {
        let mut probe = SessSt::new();
        for l in &st.log { let toks: Vec<&str> = l.split(' ').collect(); if let Some(o) = op_inner(&mut probe, &toks) { if (toks[0] == "srv.in" || toks[0] == "cli.in") && o.contains("err:") { return "! ok skipped-history-contains-a-failed-input-call".into(); } } }
    }
    let run = |sizes: &[usize]| -> (Vec<String>, Option<String>) {
        let mut fresh = SessSt::new();
        for l in &st.log { let toks: Vec<&str> = l.split(' ').collect(); let _ = op_inner(&mut fresh, &toks); }
        let sz = if sizes.is_empty() { "all".to_string() } else { sizes.iter().map(|x| x.to_string()).collect::<Vec<_>>().join(",") };
        let line = op_inner(&mut fresh, &[if server { "srv.in" } else { "cli.in" }, now, &sz, data]).unwrap_or_default();
        let err = line.split(' ').find(|t| t.starts_with("err:")).map(|t| t.to_string());
        (strip_acks(&line).into_iter().filter(|t| !t.starts_with("err:")).collect(), err)
    };
    let (ra, ea) = run(sizes_a);
    let (rb, eb) = run(sizes_b);
    if ea != eb { return format!("! FAIL partitions-report-different-errors {:?} vs {:?}", ea, eb); }
    if ra != rb {
        if ea.is_some() { return format!("! FAIL error-partitions-differ-in-delivered-results {} vs {} results before {}", ra.len(), rb.len(), ea.unwrap()); }
        let i = ra.iter().zip(rb.iter()).position(|(a, b)| a != b).unwrap_or(std::cmp::min(ra.len(), rb.len()));
        return format!("! FAIL partitions-differ at result {}: {} vs {}", i, ra.get(i).cloned().unwrap_or("none".into()).chars().take(120).collect::<String>(), rb.get(i).cloned().unwrap_or("none".into()).chars().take(120).collect::<String>());
    }
    format!("! ok {} results {}", ra.len(), ea.unwrap_or("-".into()))
}

pub fn op(st: &mut SessSt, toks: &[&str]) -> Option<String> {
    if let ["!sess.split", side, sa, sb, now, data] = toks {
        return Some(split_oracle(st, *side == "s", &parse_sizes(sa)?, &parse_sizes(sb)?, now, data));
    }
    let r = op_inner(st, toks);
    if r.is_some() && toks.first().map(|t| t.starts_with("srv.") || t.starts_with("cli.")) == Some(true) { st.log.push(toks.join(" ")); }
    r
}

fn op_inner(st: &mut SessSt, toks: &[&str]) -> Option<String> {
    if toks.first().map(|t| t.starts_with("cli.") && *t != "cli.media") == Some(true) { CLI_DROP.with(|d| d.set(false)); }
    Some(match toks {
        ["!sess.uptime", kind, ms] => uptime_run(*kind == "s", ms.parse().ok()?),
        ["!sess.decodable", side, seed] => { let t = if *side == "s" { &st.srv_track } else { &st.cli_track }; decodable(t, seed.parse().ok()?) }
        ["srv.new", now, cs, win, bw, bwdone, fms] => {
            let mut c = ServerSessionConfig::new();
            c.chunk_size = cs.parse().ok()?; c.window_ack_size = win.parse().ok()?; c.peer_bandwidth = bw.parse().ok()?;
            c.send_on_bw_done_message_on_start = *bwdone == "1"; c.fms_version = s_of(parse_bytes(fms)?)?;
            let now: u64 = now.parse().ok()?;
            rml_rtmp::sessions::verif_hooks::set_initial_uptime_ms(Some(now));
            st.srv_out = RefDecoder::new(false);
            match ServerSession::new(c) {
                Err(e) => { st.srv = None; srv_err(&e) }
                Ok((s, rs)) => { st.srv = Some(s); st.srv_track = Track::new(); st.srv_ref = SrvRef::default(); record_srv(&mut st.srv_track, &rs); show_srv_results(&mut st.srv_out, &rs) }
            }
        }
        ["srv.in", now, sizes, data] => {
            let now: u64 = now.parse().ok()?; let sizes = parse_sizes(sizes)?; let data = parse_bytes(data)?;
            let s = st.srv.as_mut()?;
            s.verif_set_uptime_ms(Some(now));
            let mut outs = vec![];
            st.srv_track.saw_input(&data);
            let (mut failed, mut new_reqs, mut media) = (false, vec![], 0usize);
            for c in split_calls(&sizes, &data) {
                match s.handle_input(c) { Err(e) => { st.srv_track.input_failed = true; failed = true; outs.push(srv_err(&e)); break; } Ok(rs) => {
                    for r in &rs { if let ServerSessionResult::RaisedEvent(e) = r { match e {
                        ServerSessionEvent::PublishStreamRequested { request_id, .. } | ServerSessionEvent::PlayStreamRequested { request_id, .. } => new_reqs.push(*request_id),
                        ServerSessionEvent::AudioDataReceived { .. } | ServerSessionEvent::VideoDataReceived { .. } => media += 1, _ => {} } } }
                    record_srv(&mut st.srv_track, &rs); let mut o = show_srv_results(&mut st.srv_out, &rs); if let Some(v) = st.srv_ref.on_events(&rs) { o.push_str(" ORACLE-FAIL:"); o.push_str(&v.replace(' ', "_")); } outs.push(o) } }
            }
            let mut joined = outs.join(" | ");
            let last_err = if failed { outs.last().cloned().unwrap_or_default() } else { String::new() };
            if let Some(v) = st.srv_ref.on_op(&st.srv_track, &data, failed, &last_err, &new_reqs, media) { joined.push_str(" ORACLE-FAIL:"); joined.push_str(&v.replace(' ', "_")); }
            joined
        }
        ["srv.accept", now, id] => {
            let s = st.srv.as_mut()?; s.verif_set_uptime_ms(Some(now.parse().ok()?));
            let idv: u32 = id.parse().ok()?;
            st.srv_ref.sync_outputs(&st.srv_track);
            match s.accept_request(idv) {
                Err(e) => { let k = srv_err(&e); match st.srv_ref.on_answer(idv, true, false, &k) { Some(v) => format!("{} ORACLE-FAIL:{}", k, v.replace(' ', "_")), None => k } }
                Ok(rs) => { record_srv(&mut st.srv_track, &rs); let o = show_srv_results(&mut st.srv_out, &rs); match st.srv_ref.on_answer(idv, true, true, "") { Some(v) => format!("{} ORACLE-FAIL:{}", o, v.replace(' ', "_")), None => o } }
            }
        }
        ["srv.reject", now, id, code, desc] => {
            let s = st.srv.as_mut()?; s.verif_set_uptime_ms(Some(now.parse().ok()?));
            let idv: u32 = id.parse().ok()?;
            match s.reject_request(idv, &s_of(parse_bytes(code)?)?, &s_of(parse_bytes(desc)?)?) {
                Err(e) => { let k = srv_err(&e); match st.srv_ref.on_answer(idv, false, false, &k) { Some(v) => format!("{} ORACLE-FAIL:{}", k, v.replace(' ', "_")), None => k } }
                Ok(rs) => { record_srv(&mut st.srv_track, &rs); let o = show_srv_results(&mut st.srv_out, &rs); match st.srv_ref.on_answer(idv, false, true, "") { Some(v) => format!("{} ORACLE-FAIL:{}", o, v.replace(' ', "_")), None => o } }
            }
        }
        ["srv.media", kind, sid, ts, drop, data] => {
            let s = st.srv.as_mut()?;
            let (sid, ts, data) = (sid.parse().ok()?, RtmpTimestamp::new(ts.parse().ok()?), Bytes::from(parse_bytes(data)?));
            st.srv_track.allowed_msids.insert(sid);
            let r = if *kind == "v" { s.send_video_data(sid, data, ts, *drop == "1") } else { s.send_audio_data(sid, data, ts, *drop == "1") };
            match r { Err(e) => srv_err(&e), Ok(p) => { st.srv_track.packets.push((p.bytes.clone(), p.can_be_dropped, *drop == "1")); format!("ok {}", show_out(&mut st.srv_out, &p)) } }
        }
        ["srv.meta", now, sid, md] => {
            let s = st.srv.as_mut()?; s.verif_set_uptime_ms(Some(now.parse().ok()?));
            let sidv: u32 = sid.parse().ok()?; st.srv_track.allowed_msids.insert(sidv);
            match s.send_metadata(sidv, &parse_meta(md)?) { Err(e) => srv_err(&e), Ok(p) => { st.srv_track.packets.push((p.bytes.clone(), p.can_be_dropped, false)); format!("ok {}", show_out(&mut st.srv_out, &p)) } }
        }
        ["srv.ping", now] => {
            let s = st.srv.as_mut()?; s.verif_set_uptime_ms(Some(now.parse().ok()?));
            match s.send_ping_request() { Err(e) => srv_err(&e), Ok((p, ts)) => { st.srv_track.packets.push((p.bytes.clone(), p.can_be_dropped, false)); format!("ok {} ts={}", show_out(&mut st.srv_out, &p), ts.value) } }
        }
        ["srv.finish", now, sid] => {
            let s = st.srv.as_mut()?; s.verif_set_uptime_ms(Some(now.parse().ok()?));
            let sidv: u32 = sid.parse().ok()?; st.srv_track.allowed_msids.insert(sidv);
            match s.finish_playing(sidv) { Err(e) => srv_err(&e), Ok(p) => { st.srv_track.packets.push((p.bytes.clone(), p.can_be_dropped, false)); format!("ok {}", show_out(&mut st.srv_out, &p)) } }
        }
        ["cli.new", cs, win, buflen, flash, tcurl] => {
            let mut c = ClientSessionConfig::new();
            c.chunk_size = cs.parse().ok()?; c.window_ack_size = win.parse().ok()?; c.playback_buffer_length_ms = buflen.parse().ok()?;
            c.flash_version = s_of(parse_bytes(flash)?)?; c.tc_url = if *tcurl == "_" { None } else { Some(s_of(parse_bytes(tcurl)?)?) };
            st.cli_out = RefDecoder::new(false);
            rml_rtmp::sessions::verif_hooks::set_initial_uptime_ms(Some(0));
            st.cli_track = Track::new(); st.cli_ref = CliRef::new();
            match ClientSession::new(c) { Err(e) => { st.cli = None; cli_err(&e) } Ok((s, _)) => { st.cli = Some(s); "ok".into() } }
        }
        ["cli.in", now, sizes, data] => {
            let now: u64 = now.parse().ok()?; let sizes = parse_sizes(sizes)?; let data = parse_bytes(data)?;
            let s = st.cli.as_mut()?;
            s.verif_set_uptime_ms(Some(now));
            let mut outs = vec![];
            st.cli_track.saw_input(&data);
            for c in split_calls(&sizes, &data) {
                match s.handle_input(c) { Err(e) => { st.cli_track.input_failed = true; outs.push(cli_err(&e)); break; } Ok(rs) => { record_cli(&mut st.cli_track, &rs, false); outs.push(show_cli_results(&mut st.cli_out, &rs)) } }
            }
            let mut joined = outs.join(" | ");
            if let Some(v) = st.cli_ref.on_input(&data, &joined) { joined.push_str(" ORACLE-FAIL:"); joined.push_str(&v.replace(' ', "_")); }
            joined
        }
        ["cli.connect", now, app] => {
            let s = st.cli.as_mut()?; s.verif_set_uptime_ms(Some(now.parse().ok()?));
            let rr = s.request_connection(s_of(parse_bytes(app)?)?);
            st.cli_ref.on_request(rr.is_ok(), 0);
            let mut o = match rr { Err(e) => cli_err(&e), Ok(r) => { let rs = [r]; record_cli(&mut st.cli_track, &rs, CLI_DROP.with(|d| d.get())); show_cli_results(&mut st.cli_out, &rs) } };
            if let Some(v) = st.cli_ref.judge_call("request_connection", 0, &o) { o.push_str(" ORACLE-FAIL:"); o.push_str(&v); }
            if let Some(v) = st.cli_ref.judge_tid(&o) { o.push_str(" ORACLE-FAIL:"); o.push_str(&v); }
            o
        }
        ["cli.play", now, key] => {
            let s = st.cli.as_mut()?; s.verif_set_uptime_ms(Some(now.parse().ok()?));
            let rr = s.request_playback(s_of(parse_bytes(key)?)?);
            st.cli_ref.on_request(rr.is_ok(), 1);
            let mut o = match rr { Err(e) => cli_err(&e), Ok(r) => { let rs = [r]; record_cli(&mut st.cli_track, &rs, CLI_DROP.with(|d| d.get())); show_cli_results(&mut st.cli_out, &rs) } };
            if let Some(v) = st.cli_ref.judge_call("request_playback", 1, &o) { o.push_str(" ORACLE-FAIL:"); o.push_str(&v); }
            if let Some(v) = st.cli_ref.judge_tid(&o) { o.push_str(" ORACLE-FAIL:"); o.push_str(&v); }
            o
        }
        ["cli.publish", now, key, ty] => {
            let s = st.cli.as_mut()?; s.verif_set_uptime_ms(Some(now.parse().ok()?));
            let t = match *ty { "live" => PublishRequestType::Live, "record" => PublishRequestType::Record, "append" => PublishRequestType::Append, _ => return None };
            let rr = s.request_publishing(s_of(parse_bytes(key)?)?, t);
            st.cli_ref.on_request(rr.is_ok(), 2);
            let mut o = match rr { Err(e) => cli_err(&e), Ok(r) => { let rs = [r]; record_cli(&mut st.cli_track, &rs, CLI_DROP.with(|d| d.get())); show_cli_results(&mut st.cli_out, &rs) } };
            if let Some(v) = st.cli_ref.judge_call("request_publishing", 1, &o) { o.push_str(" ORACLE-FAIL:"); o.push_str(&v); }
            if let Some(v) = st.cli_ref.judge_tid(&o) { o.push_str(" ORACLE-FAIL:"); o.push_str(&v); }
            o
        }
        ["cli.stop", now, what] => {
            let s = st.cli.as_mut()?; s.verif_set_uptime_ms(Some(now.parse().ok()?));
            let r = if *what == "play" { s.stop_playback() } else { s.stop_publishing() };
            st.cli_ref.on_stop_phase(*what == "play", r.is_ok());
            match r { Err(e) => cli_err(&e), Ok(rs) => { st.cli_ref.on_stop(!rs.is_empty()); record_cli(&mut st.cli_track, &rs, false); show_cli_results(&mut st.cli_out, &rs) } }
        }
        ["cli.ping", now] => {
            let s = st.cli.as_mut()?; s.verif_set_uptime_ms(Some(now.parse().ok()?));
            match s.send_ping_request() { Err(e) => cli_err(&e), Ok((p, ts)) => { st.cli_track.packets.push((p.bytes.clone(), p.can_be_dropped, false)); format!("ok {} ts={}", show_out(&mut st.cli_out, &p), ts.value) } }
        }
        ["cli.meta", now, md] => {
            let s = st.cli.as_mut()?; s.verif_set_uptime_ms(Some(now.parse().ok()?));
            let mut o = match s.publish_metadata(&parse_meta(md)?) { Err(e) => cli_err(&e), Ok(r) => { let rs = [r]; record_cli(&mut st.cli_track, &rs, CLI_DROP.with(|d| d.get())); show_cli_results(&mut st.cli_out, &rs) } };
            if let Some(v) = st.cli_ref.judge_call("publish_metadata", 5, &o) { o.push_str(" ORACLE-FAIL:"); o.push_str(&v); }
            o
        }
        ["cli.media", kind, ts, drop, data] => {
            let s = st.cli.as_mut()?;
            let (ts, data) = (RtmpTimestamp::new(ts.parse().ok()?), Bytes::from(parse_bytes(data)?));
            CLI_DROP.with(|d| d.set(*drop == "1"));
            let r = if *kind == "v" { s.publish_video_data(data, ts, *drop == "1") } else { s.publish_audio_data(data, ts, *drop == "1") };
            let mut o = match r { Err(e) => cli_err(&e), Ok(r) => { let rs = [r]; record_cli(&mut st.cli_track, &rs, CLI_DROP.with(|d| d.get())); show_cli_results(&mut st.cli_out, &rs) } };
            if let Some(v) = st.cli_ref.judge_call("publish_media", 5, &o) { o.push_str(" ORACLE-FAIL:"); o.push_str(&v); }
            o
        }
        // C17: a real session, a window, a list of call sizes (padding = valid chunk bytes that raise nothing): the
        // acknowledgements must be exactly those of the three-line counter, incl. a re-announced window mid-stream
        ["!ack.run", kind, w, sizes, rewin] => {
            let w: u32 = w.parse().ok()?;
            let sizes = parse_sizes(sizes)?;
            let rewin: Option<(usize, u32)> = if *rewin == "_" { None } else { let mut it = rewin.split(':'); Some((it.next()?.parse().ok()?, it.next()?.parse().ok()?)) };
            ack_run(*kind == "s", w, &sizes, rewin)
        }
        ["f64", h] => { let v = f64::from_bits(u64::from_str_radix(h, 16).ok()?); format!("{} {:08x} {}", v as u32, (v as f32).to_bits(), if v >= 0.0 { 1 } else { 0 }) }
        ["f32", h] => { let v = f32::from_bits(u32::from_str_radix(h, 16).ok()?); format!("{:016x}", (v as f64).to_bits()) }
        ["u32f", n] => { let v: u32 = n.parse().ok()?; format!("{:016x}", (v as f64).to_bits()) }
        _ => return None,
    })
}

#[allow(dead_code)]
pub fn unused(_: &refcodec::Pick) {}


fn ack_run(server: bool, w: u32, sizes: &[usize], rewin: Option<(usize, u32)>) -> String {
    use rml_rtmp::chunk_io::ChunkSerializer;
    use rml_rtmp::messages::{MessagePayload, RtmpMessage};
    rml_rtmp::sessions::verif_hooks::set_initial_uptime_ms(Some(0));
    let mut peer = ChunkSerializer::new();
    // the window announcement comes first on the wire, so it is serialized first
    let wm = { let p = RtmpMessage::WindowAcknowledgement { size: w }.into_message_payload(RtmpTimestamp::new(0), 0).unwrap(); peer.serialize(&p, false, false).unwrap().bytes };
    // padding: a long stream of small unknown-type messages (type 22) on stream 9: neither session reacts with packets
    let total: usize = sizes.iter().sum::<usize>() + 64;
    let mut pad = vec![];
    let mut boundaries = vec![0usize];
    // … mixed with the message kinds that make a session raise an event but return no packet (the peer's own
    // acknowledgements, ping responses, aborts, a tiny peer-bandwidth limit, stream-begin): every received byte
    // counts, whatever it belongs to, and nothing but a window announcement changes the window
    let mut k = 0usize;
    while pad.len() < total + 400 {
        let m = match k % 7 {
            5 => MessagePayload { timestamp: RtmpTimestamp::new(0), type_id: 6, message_stream_id: 0, data: Bytes::from(vec![0u8, 0, 0, 1, 2]) },
            6 => MessagePayload { timestamp: RtmpTimestamp::new(0), type_id: 4, message_stream_id: 0, data: Bytes::from(vec![0u8, 0, 0, 0, 0, 1]) },
            1 => MessagePayload { timestamp: RtmpTimestamp::new(0), type_id: 3, message_stream_id: 0, data: Bytes::from(vec![0u8, 0, 3, 232]) },
            3 => MessagePayload { timestamp: RtmpTimestamp::new(0), type_id: 4, message_stream_id: 0, data: Bytes::from(vec![0u8, 7, 0, 0, 0, 9]) },
            4 => MessagePayload { timestamp: RtmpTimestamp::new(0), type_id: 2, message_stream_id: 0, data: Bytes::from(vec![0u8, 0, 0, 77]) },
            _ => MessagePayload { timestamp: RtmpTimestamp::new(0), type_id: 22, message_stream_id: 9, data: Bytes::from(vec![7u8; 50]) },
        };
        k += 1;
        pad.extend_from_slice(&peer.serialize(&m, false, false).unwrap().bytes);
        boundaries.push(pad.len());
    }
    enum S { Srv(ServerSession), Cli(ClientSession) }
    // the session's OWN configured window (what it asks of its peer) is irrelevant to what it acknowledges: vary it
    // around the announced one so that a session which mixes the two up is seen
    let own: Option<u32> = match w % 4 { 0 => Some(1), 1 => Some((w / 2).max(1)), 2 => None, _ => Some(w.saturating_add(1000)) };
    let mut sess = if server {
        let mut c = ServerSessionConfig::new(); if let Some(o) = own { c.window_ack_size = o; }
        S::Srv(ServerSession::new(c).unwrap().0)
    } else {
        let mut c = ClientSessionConfig::new(); if let Some(o) = own { c.window_ack_size = o; }
        S::Cli(ClientSession::new(c).unwrap().0)
    };
    let feed = |sess: &mut S, data: &[u8]| -> Result<Vec<u32>, String> {
        let mut acks = vec![];
        let pk: Vec<Packet> = match sess {
            S::Srv(s) => s.handle_input(data).map_err(|e| srv_err(&e))?.into_iter().filter_map(|r| if let ServerSessionResult::OutboundResponse(p) = r { Some(p) } else { None }).collect(),
            S::Cli(s) => s.handle_input(data).map_err(|e| cli_err(&e))?.into_iter().filter_map(|r| if let ClientSessionResult::OutboundResponse(p) = r { Some(p) } else { None }).collect(),
        };
        for p in pk {
            let n = p.bytes.len();
            let b0 = p.bytes[0];
            let fmt = b0 >> 6;
            let typ = match fmt { 0 | 1 => Some(p.bytes[7]), _ => None };
            if (b0 & 0x3f) == 2 && n >= 5 && (typ == Some(3) || (typ.is_none() && n <= 12)) {
                acks.push(u32::from_be_bytes([p.bytes[n - 4], p.bytes[n - 3], p.bytes[n - 2], p.bytes[n - 1]]));
            } else { return Err("unexpected outbound packet".into()); }
        }
        Ok(acks)
    };
    // the call that delivers the window: nothing is counted in it (the window is not known before the call)
    match feed(&mut sess, &wm) { Ok(a) if a.is_empty() => {}, Ok(_) => return "! FAIL acknowledgement-in-the-call-that-delivered-the-window".into(), Err(e) => return format!("! FAIL error {}", e) }
    let mut since: u64 = 0;
    let mut win = w as u64;
    let mut pos = 0usize;
    let mut sum_acked: u64 = 0;
    let mut sum_in: u64 = 0;
    let mut step = |sess: &mut S, data: &[u8], i: usize, since: &mut u64, win: u64, sum_acked: &mut u64, sum_in: &mut u64, check_lt: bool| -> Option<String> {
        let got = match feed(sess, data) { Ok(a) => a, Err(e) => return Some(format!("! FAIL error {} in call {}", e, i)) };
        let n = data.len() as u64;
        *sum_in += n;
        let c = *since + n;
        let want: Vec<u32> = if c >= win { vec![c as u32] } else { vec![] };
        if got != want { return Some(format!("! FAIL call {} (size {}, outstanding {} window {}) acknowledged {:?} expected {:?}", i, n, since, win, got, want)); }
        *since = if c >= win { 0 } else { c };
        *sum_acked += want.iter().map(|x| *x as u64).sum::<u64>();
        if check_lt && *since >= win { return Some(format!("! FAIL outstanding {} not below window {}", since, win)); }
        None
    };
    for (i, n) in sizes.iter().enumerate() {
        if let Some((idx, w2)) = rewin {
            if idx == i {
                // re-announce the window mid-stream: first complete the padding message in flight, then the announcement,
                // all in one call, counted under the window known BEFORE the call
                let next_b = *boundaries.iter().find(|b| **b >= pos).unwrap();
                let mut data = pad[pos..next_b].to_vec();
                pos = next_b;
                let p = RtmpMessage::WindowAcknowledgement { size: w2 }.into_message_payload(RtmpTimestamp::new(0), 0).unwrap();
                data.extend_from_slice(&peer_window(&mut peer, p));
                if let Some(e) = step(&mut sess, &data, i, &mut since, win, &mut sum_acked, &mut sum_in, false) { return e; }
                win = w2 as u64;
            }
        }
        let data = pad[pos..pos + n].to_vec();
        pos += n;
        let check_lt = rewin.map(|(idx, _)| i < idx).unwrap_or(true) || since < win;
        if let Some(e) = step(&mut sess, &data, i, &mut since, win, &mut sum_acked, &mut sum_in, check_lt) { return e; }
    }
    if sum_acked + since != sum_in { return "! FAIL conservation".into(); }
    format!("! ok acked={} outstanding={}", sum_acked, since)
}

fn peer_window(peer: &mut rml_rtmp::chunk_io::ChunkSerializer, p: rml_rtmp::messages::MessagePayload) -> Vec<u8> {
    peer.serialize(&p, false, false).unwrap().bytes
}

/// C18 at a given uptime with the REAL clock arithmetic (hook H2 shift): a complete mini scenario, everything the
/// session returns is read by the strict specification reader, and the timestamps of session-generated messages
/// must be the uptime (mod 2^32) within the run time
fn uptime_run(server: bool, ms: u64) -> String {
    use rml_rtmp::chunk_io::ChunkSerializer;
    use rml_rtmp::messages::RtmpMessage;
    use rml_amf0::Amf0Value as A;
    use std::collections::HashMap;
    rml_rtmp::sessions::verif_hooks::set_initial_uptime_ms(None);
    let mut peer = ChunkSerializer::new();
    let mut send = |m: RtmpMessage, msid: u32| -> Vec<u8> { let p = m.into_message_payload(RtmpTimestamp::new(0), msid).unwrap(); peer.serialize(&p, false, false).unwrap().bytes };
    let cmd = |name: &str, tid: f64, obj: A, args: Vec<A>| RtmpMessage::Amf0Command { command_name: name.to_string(), transaction_id: tid, command_object: obj, additional_arguments: args };
    let mut out: Vec<(Vec<u8>, bool)> = vec![];   // bytes, is media (application supplied timestamp)
    if server {
        let (mut s, rs) = match ServerSession::new(ServerSessionConfig::new()) { Ok(x) => x, Err(e) => return format!("! FAIL {}", srv_err(&e)) };
        for r in rs { if let ServerSessionResult::OutboundResponse(p) = r { out.push((p.bytes, true)); } }
        s.verif_shift_clock(ms);
        let mut props = HashMap::new(); props.insert("app".to_string(), A::Utf8String("live".to_string()));
        let mut steps: Vec<Vec<u8>> = vec![send(cmd("connect", 1.0, A::Object(props), vec![]), 0)];
        steps.push(send(cmd("createStream", 2.0, A::Null, vec![]), 0));
        steps.push(send(cmd("play", 0.0, A::Null, vec![A::Utf8String("key".to_string())]), 1));
        steps.push(send(RtmpMessage::UserControl { event_type: rml_rtmp::messages::UserControlEventType::PingRequest, stream_id: None, buffer_length: None, timestamp: Some(RtmpTimestamp::new(77)) }, 0));
        for st in steps {
            let rs = match s.handle_input(&st) { Ok(x) => x, Err(e) => return format!("! FAIL {}", srv_err(&e)) };
            let mut ids = vec![];
            for r in rs { match r { ServerSessionResult::OutboundResponse(p) => out.push((p.bytes, false)), ServerSessionResult::RaisedEvent(ServerSessionEvent::ConnectionRequested { request_id, .. }) => ids.push(request_id), ServerSessionResult::RaisedEvent(ServerSessionEvent::PlayStreamRequested { request_id, .. }) => ids.push(request_id), _ => {} } }
            for id in ids { match s.accept_request(id) { Ok(rs) => for r in rs { if let ServerSessionResult::OutboundResponse(p) = r { out.push((p.bytes, false)); } }, Err(e) => return format!("! FAIL {}", srv_err(&e)) } }
        }
        match s.send_video_data(1, Bytes::from(vec![1u8; 300]), RtmpTimestamp::new(5), true) { Ok(p) => out.push((p.bytes, true)), Err(e) => return format!("! FAIL {}", srv_err(&e)) }
        match s.send_ping_request() { Ok((p, _)) => out.push((p.bytes, false)), Err(e) => return format!("! FAIL {}", srv_err(&e)) }
        let mut md = StreamMetadata::new(); md.video_width = Some(1920);
        match s.send_metadata(1, &md) { Ok(p) => out.push((p.bytes, false)), Err(e) => return format!("! FAIL {}", srv_err(&e)) }
        match s.finish_playing(1) { Ok(p) => out.push((p.bytes, false)), Err(e) => return format!("! FAIL {}", srv_err(&e)) }
    } else {
        let (mut c, _) = match ClientSession::new(ClientSessionConfig::new()) { Ok(x) => x, Err(e) => return format!("! FAIL {}", cli_err(&e)) };
        c.verif_shift_clock(ms);
        let mut push = |r: Result<ClientSessionResult, ClientSessionError>, out: &mut Vec<(Vec<u8>, bool)>, media: bool| -> Result<(), String> { match r { Ok(ClientSessionResult::OutboundResponse(p)) => { out.push((p.bytes, media)); Ok(()) } Ok(_) => Ok(()), Err(e) => Err(cli_err(&e)) } };
        if let Err(e) = push(c.request_connection("live".to_string()), &mut out, false) { return format!("! FAIL {}", e); }
        let feed = |c: &mut ClientSession, b: Vec<u8>, out: &mut Vec<(Vec<u8>, bool)>| -> Result<(), String> { for r in c.handle_input(&b).map_err(|e| cli_err(&e))? { if let ClientSessionResult::OutboundResponse(p) = r { out.push((p.bytes, false)); } } Ok(()) };
        if let Err(e) = feed(&mut c, send(cmd("_result", 1.0, A::Null, vec![A::Null]), 0), &mut out) { return format!("! FAIL {}", e); }
        if let Err(e) = push(c.request_publishing("key".to_string(), PublishRequestType::Live), &mut out, false) { return format!("! FAIL {}", e); }
        if let Err(e) = feed(&mut c, send(cmd("_result", 2.0, A::Null, vec![A::Number(1.0)]), 0), &mut out) { return format!("! FAIL {}", e); }
        let mut st = HashMap::new(); st.insert("code".to_string(), A::Utf8String("NetStream.Publish.Start".to_string()));
        if let Err(e) = feed(&mut c, send(cmd("onStatus", 0.0, A::Null, vec![A::Object(st)]), 1), &mut out) { return format!("! FAIL {}", e); }
        let mut md = StreamMetadata::new(); md.video_width = Some(1920);
        if let Err(e) = push(c.publish_metadata(&md), &mut out, false) { return format!("! FAIL {}", e); }
        if let Err(e) = push(c.publish_video_data(Bytes::from(vec![1u8; 300]), RtmpTimestamp::new(5), true), &mut out, true) { return format!("! FAIL {}", e); }
        match c.send_ping_request() { Ok((p, _)) => out.push((p.bytes, false)), Err(e) => return format!("! FAIL {}", cli_err(&e)) }
        match c.stop_publishing() { Ok(rs) => for r in rs { if let ClientSessionResult::OutboundResponse(p) = r { out.push((p.bytes, false)); } }, Err(e) => return format!("! FAIL {}", cli_err(&e)) }
    }
    let mut rd = RefDecoder::new(true);
    rd.sequential_only = true;
    let want = (ms % (1u64 << 32)) as u32;
    for (i, (b, media)) in out.iter().enumerate() {
        match rd.decode_all(b) {
            Err(e) => return format!("! FAIL packet-{}-undecodable {}", i, e.replace(' ', "_")),
            Ok(msgs) => {
                if msgs.len() != 1 { return format!("! FAIL packet-{}-holds-{}-messages", i, msgs.len()); }
                if !*media {
                    let d = msgs[0].ts.wrapping_sub(want);
                    // SetChunkSize announcements carry timestamp 0 by design
                    if d > 10_000 && !(msgs[0].typ == 1 && msgs[0].ts == 0) { return format!("! FAIL packet-{}-timestamp-{}-is-not-the-uptime-{}", i, msgs[0].ts, want); }
                }
            }
        }
    }
    if let Some(n) = rd.notes.first() { return format!("! FAIL nonconformant {}", n.replace(' ', "_")); }
    format!("! ok {} packets", out.len())
}
