//! Chunk layer family: real ChunkSerializer / ChunkDeserializer behind the line protocol, and the
//! oracles for C01, C06, C07, C08, C15, C16, C19.
use crate::refchunk::{RMsg, RefDecoder};
use crate::util::{parse_bytes, show_bytes};
use bytes::Bytes;
use rml_rtmp::chunk_io::{ChunkDeserializationError as DE, ChunkDeserializer, ChunkSerializationError as SE, ChunkSerializer};
use rml_rtmp::messages::{MessagePayload, RtmpMessage};
use rml_rtmp::time::RtmpTimestamp;

pub struct Pk {
    pub bytes: Vec<u8>,
    pub drop: bool,
}

pub struct ChunkSt {
    pub ser: ChunkSerializer,
    pub packets: Vec<Pk>,
    pub sent: Vec<RMsg>, // one per packet
    pub requested: Vec<bool>, // droppable as requested by the caller, one per packet
    pub des: ChunkDeserializer,
    pub des_dead: bool,
    pub decoded: Vec<RMsg>,
}

impl ChunkSt {
    pub fn new() -> Self {
        ChunkSt { ser: ChunkSerializer::new(), packets: vec![], sent: vec![], requested: vec![], des: ChunkDeserializer::new(), des_dead: false, decoded: vec![] }
    }
}

pub fn show_msg(m: &RMsg) -> String {
    format!("{}:{}:{}:{}", m.typ, m.msid, m.ts, show_bytes(&m.data))
}

pub fn de_kind(e: &DE) -> String {
    match e {
        DE::NoPreviousChunkOnStream { csid } => format!("err:noprev:{}", csid),
        DE::InvalidMaxChunkSize { .. } => "err:cs".into(),
        DE::InvalidMessageLength { .. } => "err:len".into(),
        DE::Io(_) => "err:io".into(),
        #[allow(unreachable_patterns)]
        _ => "err:other".into(), // a variant this harness does not know: never equal to a model answer
    }
}

pub fn se_kind(e: &SE) -> String {
    match e {
        SE::MessageTooLong { .. } => "err:toolong".into(),
        SE::InvalidMaxChunkSize { .. } => "err:cs".into(),
        SE::Io(_) => "err:io".into(),
        SE::SetChunkSizeMessageCreationFailure(_) => "err:cs".into(),
        #[allow(unreachable_patterns)]
        _ => "err:other".into(), // a variant this harness does not know: never equal to a model answer
    }
}

pub fn parse_sizes(s: &str) -> Option<Vec<usize>> {
    if s == "all" { return Some(vec![]); }
    s.split(',').map(|x| x.parse().ok()).collect()
}

pub fn split_calls<'a>(sizes: &[usize], bs: &'a [u8]) -> Vec<&'a [u8]> {
    if sizes.is_empty() || sizes.iter().all(|x| *x == 0) { return vec![bs]; }
    let mut out = vec![];
    let mut pos = 0;
    let mut i = 0;
    while pos < bs.len() {
        let n = std::cmp::min(sizes[i % sizes.len()], bs.len() - pos);
        out.push(&bs[pos..pos + n]);
        pos += n;
        i += 1;
    }
    out
}

/// the consumer loop the library documents: first call with the bytes, then with an empty slice until
/// None; a decoded SetChunkSize is honoured before the next call
pub fn feed_one(des: &mut ChunkDeserializer, call: &[u8], out: &mut Vec<RMsg>) -> Result<(), String> {
    let mut input: &[u8] = call;
    loop {
        match des.get_next_message(input) {
            Err(e) => return Err(de_kind(&e)),
            Ok(None) => return Ok(()),
            Ok(Some(p)) => {
                let m = RMsg { typ: p.type_id, msid: p.message_stream_id, ts: p.timestamp.value, data: p.data.to_vec() };
                let honour = if p.type_id == 1 { match p.to_rtmp_message() { Ok(RtmpMessage::SetChunkSize { size }) => Some(size), _ => None } } else { None };
                out.push(m);
                if let Some(size) = honour {
                    if let Err(e) = des.set_max_chunk_size(size as usize) { return Err(de_kind(&e)); }
                }
                input = &[];
            }
        }
    }
}

fn feed_calls(st: &mut ChunkSt, calls: &[&[u8]]) -> String {
    let mut ms = vec![];
    let mut err = None;
    for c in calls {
        if st.des_dead { break; }
        if let Err(e) = feed_one(&mut st.des, c, &mut ms) { st.des_dead = true; err = Some(e); }
    }
    let mut s = format!("n={}", ms.len());
    for m in &ms { s.push(' '); s.push_str(&show_msg(m)); }
    if let Some(e) = err { s.push(' '); s.push_str(&e); }
    st.decoded.extend(ms);
    s
}

/// `flagged`: omit every packet the serializer itself returned marked droppable; `flagged2`: every second one
fn real_mask(st: &ChunkSt, mask: &str) -> String {
    if mask != "flagged" && mask != "flagged2" { return mask.to_string(); }
    let mut k = 0usize;
    st.packets.iter().map(|p| { if p.drop { k += 1; if mask == "flagged" || k % 2 == 1 { '0' } else { '1' } } else { '1' } }).collect()
}

fn kept_bytes(st: &ChunkSt, mask: &str) -> Vec<u8> {
    let mask = real_mask(st, mask); let mask = mask.as_str();
    let m = mask.as_bytes();
    let mut out = vec![];
    for (i, p) in st.packets.iter().enumerate() {
        if m.get(i) == Some(&b'0') { continue; }
        out.extend_from_slice(&p.bytes);
    }
    out
}

fn kept_msgs(st: &ChunkSt, mask: &str) -> Vec<RMsg> {
    let mask = real_mask(st, mask); let mask = mask.as_str();
    let m = mask.as_bytes();
    st.sent.iter().enumerate().filter(|(i, _)| m.get(*i) != Some(&b'0')).map(|(_, x)| x.clone()).collect()
}

pub fn op(st: &mut ChunkSt, toks: &[&str]) -> Option<String> {
    Some(match toks {
        ["ser.new"] => { st.ser = ChunkSerializer::new(); st.packets.clear(); st.sent.clear(); st.requested.clear(); "ok".into() }
        ["ser.msg", typ, msid, ts, force, drop, data] => {
            let (typ, msid, ts) = (typ.parse::<u8>().ok()?, msid.parse::<u32>().ok()?, ts.parse::<u32>().ok()?);
            let data = parse_bytes(data)?;
            let payload = MessagePayload { timestamp: RtmpTimestamp::new(ts), type_id: typ, message_stream_id: msid, data: Bytes::from(data.clone()) };
            match st.ser.serialize(&payload, *force == "1", *drop == "1") {
                Ok(p) => {
                    let s = format!("ok {} {}", if p.can_be_dropped { 1 } else { 0 }, show_bytes(&p.bytes));
                    st.packets.push(Pk { bytes: p.bytes, drop: p.can_be_dropped });
                    st.sent.push(RMsg { typ, msid, ts, data });
                    st.requested.push(*drop == "1");
                    s
                }
                Err(e) => se_kind(&e),
            }
        }
        ["ser.setcs", n, ts] => {
            let (n, ts) = (n.parse::<u32>().ok()?, ts.parse::<u32>().ok()?);
            match st.ser.set_max_chunk_size(n, RtmpTimestamp::new(ts)) {
                Ok(p) => {
                    let s = format!("ok {} {}", if p.can_be_dropped { 1 } else { 0 }, show_bytes(&p.bytes));
                    st.packets.push(Pk { bytes: p.bytes, drop: p.can_be_dropped });
                    st.sent.push(RMsg { typ: 1, msid: 0, ts, data: n.to_be_bytes().to_vec() });
                    st.requested.push(false);
                    s
                }
                Err(e) => se_kind(&e),
            }
        }
        ["des.new"] => { st.des = ChunkDeserializer::new(); st.des_dead = false; st.decoded.clear(); "ok".into() }
        ["des.setcs", n] => match st.des.set_max_chunk_size(n.parse::<usize>().ok()?) { Ok(()) => "ok".into(), Err(e) => de_kind(&e) },
        ["des.feed", sizes, data] => {
            let sizes = parse_sizes(sizes)?;
            let data = parse_bytes(data)?;
            if st.des_dead { return Some("dead".into()); }
            let calls = split_calls(&sizes, &data);
            feed_calls(st, &calls)
        }
        ["des.feedpk", mask, sizes] => {
            let sizes = parse_sizes(sizes)?;
            if st.des_dead { return Some("dead".into()); }
            let data = kept_bytes(st, mask);
            let calls = split_calls(&sizes, &data);
            feed_calls(st, &calls)
        }
        // ------------------------------------------------------------------ oracles
        // C01/C08: kept packets, any partition, fresh honouring deserializer → exactly the kept messages
        ["!chunk.rt", mask, sizes] => {
            let sizes = parse_sizes(sizes)?;
            // the mark is the caller's: set exactly where requested (a chunk-size announcement is never droppable)
            for (i, p) in st.packets.iter().enumerate() {
                if p.drop != st.requested[i] { return Some(format!("! FAIL packet-{}-returned-with-droppable={}-but-requested-{}", i, p.drop, st.requested[i])); }
            }
            if *mask != "flagged" && *mask != "flagged2" {
                for (i, p) in st.packets.iter().enumerate() {
                    if mask.as_bytes().get(i) == Some(&b'0') && !p.drop { return Some("bad-op mask drops a non-droppable packet".into()); }
                }
            }
            let data = kept_bytes(st, mask);
            let want = kept_msgs(st, mask);
            let mut des = ChunkDeserializer::new();
            let mut got = vec![];
            for c in split_calls(&sizes, &data) {
                if let Err(e) = feed_one(&mut des, c, &mut got) { return Some(format!("! FAIL roundtrip-error {} after {} of {} messages", e, got.len(), want.len())); }
            }
            if got != want {
                let i = got.iter().zip(want.iter()).position(|(a, b)| a != b).unwrap_or(std::cmp::min(got.len(), want.len()));
                return Some(format!("! FAIL roundtrip-differs at message {} got={} want={} (decoded {} of {})", i,
                    got.get(i).map(show_msg).unwrap_or("none".into()), want.get(i).map(show_msg).unwrap_or("none".into()), got.len(), want.len()));
            }
            "! ok".into()
        }
        // C19: a refused chunk size is not honoured - after the refusal both codecs still work with the size in force
        // before it (and a refused FIRST call leaves the default 128)
        ["!cs.refused", prev, bad, len] => {
            let (prev, bad, len): (usize, u64, usize) = (prev.parse().ok()?, bad.parse().ok()?, len.parse().ok()?);
            let mut ser = ChunkSerializer::new();
            let mut des = ChunkDeserializer::new();
            let mut wire: Vec<u8> = vec![];
            let mut in_force = 128usize;
            if prev != 0 {
                match ser.set_max_chunk_size(prev as u32, RtmpTimestamp::new(0)) { Ok(p) => wire.extend_from_slice(&p.bytes), Err(_) => return Some("! FAIL valid-size-refused-by-serializer".into()) }
                in_force = prev;    // the deserializer learns it from the announcement itself, first on the wire
            }
            if bad <= u32::MAX as u64 && ser.set_max_chunk_size(bad as u32, RtmpTimestamp::new(0)).is_ok() { return Some("! FAIL invalid-size-accepted-by-serializer".into()); }
            let skip = if prev != 0 { 1 } else { 0 };
            if skip == 1 { let mut first = vec![]; if let Err(e) = feed_one(&mut des, &wire, &mut first) { return Some(format!("! FAIL announcement-not-read {}", e)); } }
            if des.set_max_chunk_size(bad as usize).is_ok() { return Some("! FAIL invalid-size-accepted-by-deserializer".into()); }
            if des.get_max_chunk_size() != in_force { return Some(format!("! FAIL refused-size-{}-honoured: deserializer reports {} instead of {}", bad, des.get_max_chunk_size(), in_force)); }
            // video on its own chunk stream, and protocol-control messages on chunk stream 2 / message stream 0 - the stream a
            // chunk-size announcement would have used: a refused call must leave no trace in the header history either
            let mut msgs: Vec<MessagePayload> = (0..3).map(|i| MessagePayload { timestamp: RtmpTimestamp::new(10 * i), type_id: 9, message_stream_id: 1, data: Bytes::from((0..len + i as usize).map(|j| (j * 7 + i as usize) as u8).collect::<Vec<u8>>()) }).collect();
            msgs.insert(0, MessagePayload { timestamp: RtmpTimestamp::new(30), type_id: 3, message_stream_id: 0, data: Bytes::from(vec![0u8, 0, 1, 0]) });
            msgs.push(MessagePayload { timestamp: RtmpTimestamp::new(45), type_id: 3, message_stream_id: 0, data: Bytes::from(vec![0u8, 0, 2, 0]) });
            let announce_len = wire.len();
            for m in &msgs { match ser.serialize(m, false, false) { Ok(p) => wire.extend_from_slice(&p.bytes), Err(_) => return Some("! FAIL serializer-fails-after-refusal".into()) } }
            // every chunk boundary must be where the size in force puts it: read with the independent decoder too
            let mut got = vec![];
            if let Err(e) = feed_one(&mut des, &wire[announce_len..], &mut got) { return Some(format!("! FAIL after refusing chunk size {} the deserializer fails on a stream chunked at {}: {}", bad, in_force, e)); }
            if got.len() != msgs.len() || got.iter().zip(msgs.iter()).any(|(g, m)| g.data[..] != m.data[..] || g.typ != m.type_id || g.ts != m.timestamp.value || g.msid != m.message_stream_id) { return Some(format!("! FAIL after refusing chunk size {} messages chunked at {} are not read back as sent ({} of {})", bad, in_force, got.len(), msgs.len())); }
            let mut rd = RefDecoder::new(false);
            match rd.decode_all(&wire) {
                Ok(ms) if ms.len() == msgs.len() + skip && ms[skip..].iter().zip(msgs.iter()).all(|(g, m)| g.data[..] == m.data[..] && g.typ == m.type_id && g.ts == m.timestamp.value && g.msid == m.message_stream_id) => "! ok".into(),
                _ => format!("! FAIL after refusing chunk size {} the serializer's stream (chunked at {}) is not read by the specification decoder as the messages sent", bad, in_force) }
        }
        // C19 / C03: a header announcing fewer bytes than the message under way already holds must be refused with
        // InvalidMessageLength - not accepted silently (after which nothing would ever complete again)
        ["!des.shorter", held, announced, data] => {
            let data = parse_bytes(data)?;
            let mut des = ChunkDeserializer::new();
            let mut got = vec![];
            match feed_one(&mut des, &data, &mut got) {
                Err(e) if e == "err:len" => "! ok".into(),
                Err(e) => format!("! FAIL header-announcing-{}-bytes-with-{}-held-refused-with-another-error {}", announced, held, e),
                Ok(()) => format!("! FAIL header-announcing-{}-bytes-with-{}-held-accepted-silently ({} message(s) returned)", announced, held, got.len()),
            }
        }
        ["!chunk.nonempty"] => {
            match st.packets.iter().position(|p| p.bytes.is_empty()) { Some(i) => format!("! FAIL empty-packet for message {}", show_msg(&st.sent[i])), None => "! ok".into() }
        }
        // C07/C08: the independent specification decoder reads the kept packets as exactly the kept messages
        ["!chunk.ref", mask] => {
            let data = kept_bytes(st, mask);
            let want = kept_msgs(st, mask);
            let mut rd = RefDecoder::new(true);
            rd.sequential_only = true;
            match rd.decode_all(&data) {
                Err(e) => format!("! FAIL reference-decoder-rejects {}", e),
                Ok(got) => {
                    if got != want {
                        let i = got.iter().zip(want.iter()).position(|(a, b)| a != b).unwrap_or(std::cmp::min(got.len(), want.len()));
                        format!("! FAIL reference-decoder-differs at message {} got={} want={}", i, got.get(i).map(show_msg).unwrap_or("none".into()), want.get(i).map(show_msg).unwrap_or("none".into()))
                    } else if !rd.notes.is_empty() { format!("! FAIL nonconformant {}", rd.notes[0].replace(' ', "_")) }
                    else { "! ok".into() }
                }
            }
        }
        // C06/C16: the messages decoded so far are exactly the expected ones (listing as printed by des.feed)
        ["!des.decoded", rest @ ..] => {
            let got: Vec<String> = st.decoded.iter().map(show_msg).collect();
            let want: Vec<String> = rest.iter().map(|s| s.to_string()).filter(|s| s != "~").collect();
            if st.des_dead { return Some(format!("! FAIL deserializer-error after {} of {} messages", got.len(), want.len())); }
            if got != want {
                let i = got.iter().zip(want.iter()).position(|(a, b)| a != b).unwrap_or(std::cmp::min(got.len(), want.len()));
                format!("! FAIL decoded-differs at message {} got={} want={}", i, got.get(i).cloned().unwrap_or("none".into()), want.get(i).cloned().unwrap_or("none".into()))
            } else { "! ok".into() }
        }
        // C15: two partitions of the same bytes give the same messages and the same error position
        ["!des.split", sizes_a, sizes_b, data] => {
            let (sa, sb) = (parse_sizes(sizes_a)?, parse_sizes(sizes_b)?);
            let data = parse_bytes(data)?;
            let run = |sizes: &[usize]| -> (Vec<RMsg>, Option<String>) {
                let mut des = ChunkDeserializer::new();
                let mut got = vec![];
                for c in split_calls(sizes, &data) { if let Err(e) = feed_one(&mut des, c, &mut got) { return (got, Some(e)); } }
                (got, None)
            };
            let (ga, ea) = run(&sa);
            let (gb, eb) = run(&sb);
            if ga != gb { format!("! FAIL partitions-disagree-on-messages {} vs {}", ga.len(), gb.len()) }
            else if ea != eb { format!("! FAIL partitions-disagree-on-error {:?} vs {:?}", ea, eb) }
            else { format!("! ok {} {}", ga.len(), ea.unwrap_or("-".into())) }
        }
        // C03, allocation clause, measured where it is stated: a consumer that KEEPS every message it is handed
        // (as the sessions' result vectors and any queueing application do) never holds more than a small
        // constant multiple of the bytes received plus one maximum-size message
        ["!des.alloc", data] => {
            let data = parse_bytes(data)?;
            let base = crate::alloc::begin();
            let mut des = ChunkDeserializer::new();
            let mut held = vec![];
            let mut input: &[u8] = &data;
            let mut err = String::from("-");
            loop {
                match des.get_next_message(input) {
                    Err(e) => { err = de_kind(&e); break; }
                    Ok(None) => break,
                    Ok(Some(p)) => {
                        if p.type_id == 1 { if let Ok(RtmpMessage::SetChunkSize { size }) = p.to_rtmp_message() { let _ = des.set_max_chunk_size(size as usize); } }
                        held.push(p);
                        input = &[];
                    }
                }
            }
            let peak = crate::alloc::peak_over(base);
            let bound = 8 * data.len() + (16 << 20) + (1 << 20);
            if peak > bound { format!("! FAIL holding {} message(s) decoded from {} bytes takes {} bytes, more than 8 x received + one 16 MiB message + 1 MiB = {}", held.len(), data.len(), peak, bound) }
            else { format!("! ok {} {}", held.len(), err) }
        }
        // the reference decoder itself, so that the Lean specification decoder can be compared with it
        ["spec.feed", data] => {
            let data = parse_bytes(data)?;
            let mut rd = RefDecoder::new(false);
            match rd.decode_all(&data) {
                Ok(ms) => { let mut s = format!("n={}", ms.len()); for m in &ms { s.push(' '); s.push_str(&show_msg(m)); } s }
                Err(_) => "reject".into(),
            }
        }
        ["spec.seq", data] => {
            let data = parse_bytes(data)?;
            let mut rd = RefDecoder::new(false);
            match rd.decode_all(&data) {
                Ok(ms) if !rd.seq_violation => format!("seq n={}", ms.len()),
                _ => "noseq".into(),
            }
        }
        _ => return None,
    })
}
