//! AMF0 family: `amf.dec`, `?amf.enc` and the oracles for C04, C12, C14.
use crate::alloc;
use crate::amftext::{self, canon, from_lib, parse_vals, show_vals, to_lib, V};
use crate::refcodec;
use crate::util::{hex, parse_bytes};
use rml_amf0::{deserialize, serialize, Amf0DeserializationError as DE, Amf0SerializationError as SE, Amf0Value};
use std::io::Cursor;

pub fn de_kind(e: &DE) -> String {
    match e {
        DE::UnknownMarker { marker } => format!("err:marker:{}", marker),
        DE::UnexpectedEmptyObjectPropertyName => "err:emptyname".into(),
        DE::UnexpectedEof => "err:eof".into(),
        DE::BufferReadError(_) => "err:io".into(),
        DE::StringParseError(_) => "err:utf8".into(),
        #[allow(unreachable_patterns)]
        DE::NestingTooDeep => "err:deep".into(),
        #[allow(unreachable_patterns)]
        _ => "err:other".into(),
    }
}

pub fn se_kind(e: &SE) -> String {
    match e {
        SE::NormalStringTooLong => "err:toolong".into(),
        SE::BufferWriteError(_) => "err:io".into(),
        SE::EmptyObjectPropertyName => "err:emptyname".into(),
        SE::NestingTooDeep => "err:deep".into(),
        #[allow(unreachable_patterns)]
        _ => "err:other".into(),
    }
}

pub fn dec(h: &str) -> String {
    let bs = match parse_bytes(h) { Some(b) => b, None => return "bad-op".into() };
    let mut c = Cursor::new(&bs[..]);
    match deserialize(&mut c) {
        Ok(vs) => format!("ok {}", show_vals(&vs.iter().map(from_lib).collect::<Vec<_>>())),
        Err(e) => de_kind(&e),
    }
}

fn lib_vals(vs: &[V]) -> Option<Vec<Amf0Value>> {
    vs.iter().map(to_lib).collect()
}

pub fn enc(v: &str) -> String {
    let vs = match parse_vals(v).and_then(|x| lib_vals(&x)) { Some(x) => x, None => return "bad-op".into() };
    match serialize(&vs) {
        Ok(b) => format!("ok {}", hex(&b)),
        Err(e) => se_kind(&e),
    }
}

/// does the value contain something AMF0 (or the library's documented limits) cannot express?
fn has_reason(v: &V, depth: usize) -> bool {
    match v {
        V::Str(s) => s.len() > 65535,
        V::Object(ps) => depth >= 128 || ps.iter().any(|(k, v)| k.is_empty() || k.len() > 65535 || has_reason(v, depth + 1)),
        V::Array(vs) => depth >= 128 || vs.iter().any(|v| has_reason(v, depth + 1)),
        _ => false,
    }
}

/// C04: encode, decode with the library: must consume everything and give the value back
pub fn rt(v: &str) -> String {
    let vs = match parse_vals(v) { Some(x) => x, None => return "bad-op".into() };
    let lv = match lib_vals(&vs) { Some(x) => x, None => return "bad-op".into() };
    let want: Vec<V> = vs.iter().map(canon).collect();
    match serialize(&lv) {
        Err(e) => {
            if vs.iter().any(|v| has_reason(v, 0)) { "! ok refused".into() } else { format!("! FAIL spurious-encode-error {}", se_kind(&e)) }
        }
        Ok(bytes) => {
            if vs.iter().any(|v| has_reason(v, 0)) { return "! FAIL encoded-inexpressible-value".into(); }
            let mut c = Cursor::new(&bytes[..]);
            match deserialize(&mut c) {
                Err(e) => format!("! FAIL encoded-bytes-do-not-decode {}", de_kind(&e)),
                Ok(back) => {
                    let got: Vec<V> = back.iter().map(from_lib).collect();
                    if c.position() as usize != bytes.len() { return "! FAIL decode-did-not-consume-all".into(); }
                    if got != want { return format!("! FAIL roundtrip-differs got={}", show_vals(&got)); }
                    "! ok".into()
                }
            }
        }
    }
}

/// C12(encode): the library's encoding, read by the independent specification decoder, is the value
pub fn spec(v: &str) -> String {
    let vs = match parse_vals(v) { Some(x) => x, None => return "bad-op".into() };
    let lv = match lib_vals(&vs) { Some(x) => x, None => return "bad-op".into() };
    let want: Vec<V> = vs.iter().map(canon).collect();
    match serialize(&lv) {
        Err(_) => "! ok refused".into(),
        Ok(bytes) => match refcodec::decode(&bytes) {
            Err(e) => format!("! FAIL reference-decoder-rejects-encoder-output {}", e),
            Ok(r) => {
                let r: Vec<V> = r.iter().map(canon).collect();
                if r != want { "! FAIL reference-decoder-reads-different-value".into() } else { "! ok".into() }
            }
        },
    }
}

/// C12(decode): a conformant foreign encoding (shuffled order, ECMA arrays, any non-zero true byte)
pub fn refdec(v: &str, seed: u64) -> String {
    let vs = match parse_vals(v) { Some(x) => x, None => return "bad-op".into() };
    let want: Vec<V> = vs.iter().map(canon).collect();
    let bytes = refcodec::encode_variant(&vs, seed);
    let mut c = Cursor::new(&bytes[..]);
    match deserialize(&mut c) {
        Err(e) => format!("! FAIL conformant-encoding-rejected {} bytes={}", de_kind(&e), crate::util::show_bytes(&bytes)),
        Ok(back) => {
            let got: Vec<V> = back.iter().map(from_lib).collect();
            if got != want { format!("! FAIL conformant-encoding-misread got={} bytes={}", show_vals(&got), crate::util::show_bytes(&bytes)) }
            else if c.position() as usize != bytes.len() { "! FAIL did-not-consume-all".into() }
            else { "! ok".into() }
        }
    }
}

/// C12: a name that occurs more than once inside one object / ECMA array denotes its LAST value (the decoder reads
/// the name-value sequence into a map in order); everything around it is read as usual.  The value text lists the
/// properties in wire order, repeats included; the bytes come from the independent encoder, in that order.
pub fn dupnames(v: &str) -> String {
    fn lastwins(v: &V) -> V {
        match v {
            V::Object(ps) => {
                let mut out: Vec<(Vec<u8>, V)> = vec![];
                for (k, x) in ps {
                    let x = lastwins(x);
                    if let Some(slot) = out.iter_mut().find(|(k2, _)| k2 == k) { slot.1 = x; } else { out.push((k.clone(), x)); }
                }
                canon(&V::Object(out))
            }
            V::Array(vs) => V::Array(vs.iter().map(lastwins).collect()),
            x => x.clone(),
        }
    }
    let vs = match parse_vals(v) { Some(x) => x, None => return "bad-op".into() };
    let want: Vec<V> = vs.iter().map(lastwins).collect();
    let bytes = refcodec::encode(&vs);
    let mut c = Cursor::new(&bytes[..]);
    match deserialize(&mut c) {
        Err(e) => format!("! FAIL conformant-encoding-with-repeated-name-rejected {} bytes={}", de_kind(&e), crate::util::show_bytes(&bytes)),
        Ok(back) => {
            let got: Vec<V> = back.iter().map(from_lib).map(|x| canon(&x)).collect();
            if got != want { format!("! FAIL repeated-name-does-not-denote-its-last-value got={} want={} bytes={}", show_vals(&got), show_vals(&want), crate::util::show_bytes(&bytes)) }
            else { "! ok".into() }
        }
    }
}

/// `rs` is a truncation prefix of `vs`
fn trunc_prefix(rs: &[V], vs: &[V]) -> bool {
    if rs.len() > vs.len() { return false; }
    for i in 0..rs.len() {
        if rs[i] == vs[i] { continue; }
        if i + 1 != rs.len() { return false; }
        match (&rs[i], &vs[i]) {
            (V::Array(a), V::Array(b)) => { if !trunc_prefix(a, b) { return false; } }
            _ => return false,
        }
    }
    true
}

/// C12(truncation): every cut of a valid encoding is rejected or read as a prefix
pub fn trunc(v: &str) -> String {
    let vs = match parse_vals(v) { Some(x) => x, None => return "bad-op".into() };
    let want: Vec<V> = vs.iter().map(canon).collect();
    let bytes = refcodec::encode(&vs);
    let step = if bytes.len() <= 2000 { 1 } else { bytes.len() / 1500 + 1 };
    let mut k = 0;
    let mut n = 0;
    while k <= bytes.len() {
        let mut c = Cursor::new(&bytes[..k]);
        if let Ok(back) = deserialize(&mut c) {
            let got: Vec<V> = back.iter().map(from_lib).collect();
            if !trunc_prefix(&got, &want) {
                return format!("! FAIL truncation-yields-foreign-data cut={} got={}", k, show_vals(&got));
            }
        }
        n += 1;
        k += step;
    }
    format!("! ok {}", n)
}

/// C12(unsupported markers)
pub fn marker(m: u8, tail: &str) -> String {
    let t = match parse_bytes(tail) { Some(b) => b, None => return "bad-op".into() };
    let mut bs = vec![m];
    bs.extend_from_slice(&t);
    let mut c = Cursor::new(&bs[..]);
    let r = deserialize(&mut c);
    let supported = [0u8, 1, 2, 3, 5, 6, 8, 9, 10].contains(&m);
    match r {
        Err(DE::UnknownMarker { marker }) if !supported && marker == m => "! ok".into(),
        _ if supported => "! ok supported".into(),
        Ok(v) => format!("! FAIL unsupported-marker-accepted {}", show_vals(&v.iter().map(from_lib).collect::<Vec<_>>())),
        Err(e) => format!("! FAIL unsupported-marker-wrong-error {}", de_kind(&e)),
    }
}

/// C12: an unsupported marker is reported as an error WHEREVER a type marker is expected - after any number of
/// complete values and inside any open container, not only as the first byte of the input
pub fn marker_at(prefix: &str, m: u8, tail: &str) -> String {
    let (pre, t) = match (parse_bytes(prefix), parse_bytes(tail)) { (Some(a), Some(b)) => (a, b), _ => return "bad-op".into() };
    let mut bs = pre.clone();
    bs.push(m);
    bs.extend_from_slice(&t);
    let mut c = Cursor::new(&bs[..]);
    let r = deserialize(&mut c);
    let supported = [0u8, 1, 2, 3, 5, 6, 8, 9, 10].contains(&m);
    match r {
        _ if supported => "! ok supported".into(),
        Err(DE::UnknownMarker { marker }) if marker == m => "! ok".into(),
        Ok(v) => format!("! FAIL unsupported-marker-{}-after-{}-prefix-bytes-accepted {}", m, pre.len(), show_vals(&v.iter().map(from_lib).collect::<Vec<_>>())),
        Err(e) => format!("! FAIL unsupported-marker-{}-after-{}-prefix-bytes-wrong-error {}", m, pre.len(), de_kind(&e)),
    }
}

/// C14: decode an adversarial input on a thread with a fixed small stack; bound the allocation.
/// kinds: arr (nested strict arrays), obj (nested objects), ecma, mix, count (huge count, no
/// elements), strlen (declared 65535, 3 bytes present), nulls (many tiny values), props (many props)
pub fn adversarial(kind: &str, n: usize, stack_kb: usize) -> String {
    let kind_s = kind.to_string(); let kind = kind_s.as_str();
    let mut bs: Vec<u8> = vec![];
    match kind {
        "arr" => { for _ in 0..n { bs.extend_from_slice(&[10, 0, 0, 0, 1]); } }
        "obj" => { for _ in 0..n { bs.extend_from_slice(&[3, 0, 1, b'a']); } }
        "ecma" => { for _ in 0..n { bs.extend_from_slice(&[8, 0xff, 0xff, 0xff, 0xff, 0, 1, b'a']); } }
        "mix" => { for i in 0..n { match i % 3 { 0 => bs.extend_from_slice(&[10, 0, 0, 0, 2]), 1 => bs.extend_from_slice(&[3, 0, 1, b'a']), _ => bs.extend_from_slice(&[8, 0, 0, 0, 0, 0, 2, b'b', b'c']) } } }
        "count" => { for _ in 0..n { bs.extend_from_slice(&[10, 0xff, 0xff, 0xff, 0xff]); } }
        // a long run of one byte value, every value 0..255 (n = the byte): whatever the decoder makes of a marker, it
        // must not recurse once per byte
        "run" => { bs = vec![n as u8; 400_000]; }
        // an ECMA array opened below n objects, n-1 strict arrays resp., then 100000 more levels: whatever sits at the
        // limit, the input nests deeper than 128 and must be refused
        "edge_obj" => { for _ in 0..n { bs.extend_from_slice(&[3, 0, 1, b'a']); } bs.extend_from_slice(&[8, 0, 0, 0, 0, 0, 1, b'a']); for _ in 0..100_000 { bs.extend_from_slice(&[10, 0, 0, 0, 1]); } }
        "edge_arr" => { for _ in 0..n { bs.extend_from_slice(&[10, 0, 0, 0, 1]); } bs.extend_from_slice(&[8, 0, 0, 0, 0, 0, 1, b'a']); for _ in 0..100_000 { bs.extend_from_slice(&[3, 0, 1, b'a']); } }
        "edge_ecma" => { for _ in 0..n { bs.extend_from_slice(&[8, 0, 0, 0, 0, 0, 1, b'a']); } bs.extend_from_slice(&[10, 0, 0, 0, 1]); bs.extend_from_slice(&[8, 0, 0, 0, 0, 0, 1, b'a']); for _ in 0..100_000 { bs.extend_from_slice(&[10, 0, 0, 0, 1]); } }
        "strlen" => { bs.extend_from_slice(&[2, 0xff, 0xff, b'a', b'b', b'c']); for _ in 0..n { bs.push(b'x'); } }
        "nulls" => { for _ in 0..n { bs.push(5); } }
        "props" => { bs.push(3); for i in 0..n { bs.extend_from_slice(&[0, 3, b'a' + (i % 26) as u8, b'a' + ((i / 26) % 26) as u8, b'a' + ((i / 676) % 26) as u8, 5]); } bs.extend_from_slice(&[0, 0, 9]); }
        "widearr" => { bs.extend_from_slice(&[10]); bs.extend_from_slice(&(n as u32).to_be_bytes()); for _ in 0..n { bs.extend_from_slice(&[1, 1]); } }
        _ => return "bad-op".into(),
    }
    if bs.len() > 16_777_215 { bs.truncate(16_777_215); }
    let len = bs.len();
    let t0 = std::time::Instant::now();
    let h = std::thread::Builder::new().stack_size(stack_kb * 1024).spawn(move || {
        let base = alloc::begin();
        let mut c = Cursor::new(&bs[..]);
        let r = deserialize(&mut c);
        let peak = alloc::peak_over(base);
        let desc = match &r { Ok(v) => format!("value:{}", v.len()), Err(e) => de_kind(e) };
        // dropping a deep value recurses as well: do it on this small stack too
        drop(r);
        (peak, desc)
    }).unwrap();
    match h.join() {
        Err(_) => "! FAIL decoder-panicked".into(),
        Ok((peak, desc)) => {
            let ms = t0.elapsed().as_millis();
            // every constructed node is at most 3*size_of(Amf0Value) live during Vec growth; one
            // u16-declared string buffer may be allocated before its bytes are read
            let bound = 4 * std::mem::size_of::<Amf0Value>() * len + 2 * 65536 + 4096;
            let must_refuse = kind.starts_with("edge_") || (["arr", "obj", "ecma", "mix"].contains(&kind) && n > 128);
            if must_refuse && desc != "err:deep" { return format!("! FAIL input-nested-deeper-than-the-limit-was-not-refused-as-too-deep got={} len={}", desc, len); }
            if peak > bound { format!("! FAIL allocation-exceeds-bound peak={} bound={} len={}", peak, bound, len) }
            else if ms > 60_000 { format!("! FAIL too-slow {}ms", ms) }
            else { format!("! ok {} len={} peak={}", desc, len, peak) }
        }
    }
}

/// sanity: `String::from_utf8` against the harness' reading (feeds the model's Utf8.valid check)
pub fn utf8(h: &str) -> String {
    let bs = match parse_bytes(h) { Some(b) => b, None => return "bad-op".into() };
    crate::util::b01(String::from_utf8(bs).is_ok()).into()
}

#[allow(dead_code)]
pub fn depth_of(v: &str) -> String {
    match parse_vals(v) { Some(vs) => format!("{}", vs.iter().map(amftext::depth).max().unwrap_or(0)), None => "bad-op".into() }
}
