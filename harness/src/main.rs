//! rml-verif-harness: interpreter of the /verif line protocol against the real library.
//!
//! usage: harness run < ops.txt > impl.txt
//! One output line per input line.  `case N` resets all state.  A panicking op prints `panic`
//! and the rest of the case prints `dead`.
mod util;
mod fam_time;
mod alloc;
mod amftext;
mod refcodec;
mod fam_amf;
mod refchunk;
mod fam_chunk;
mod msgtext;
mod fam_msg;
mod fam_hs;
mod fam_sess;
mod interop;

#[global_allocator]
static GLOBAL: alloc::Counting = alloc::Counting;

use std::io::{BufRead, Write};

/// op counter for the watchdog: odd while an op runs
static OP_SEQ: std::sync::atomic::AtomicU64 = std::sync::atomic::AtomicU64::new(0);
use std::panic::{catch_unwind, AssertUnwindSafe};

pub struct State {
    dead: bool,
    chunk: fam_chunk::ChunkSt,
    hs: fam_hs::HsSt,
    sess: fam_sess::SessSt,
}

impl Default for State {
    fn default() -> Self { State { dead: false, chunk: fam_chunk::ChunkSt::new(), hs: Default::default(), sess: fam_sess::SessSt::new() } }
}

fn exec(st: &mut State, toks: &[&str]) -> String {
    match toks {
        ["time", a, b] => match (a.parse::<u32>(), b.parse::<u32>()) {
            (Ok(a), Ok(b)) => fam_time::time_op(a, b),
            _ => "bad-op".into(),
        },
        ["!time.laws", a, b] => match (a.parse::<u32>(), b.parse::<u32>()) {
            (Ok(a), Ok(b)) => fam_time::laws(a, b),
            _ => "bad-op".into(),
        },
        ["amf.dec", h] => fam_amf::dec(h),
        ["?amf.enc", v] => fam_amf::enc(v),
        ["utf8", h] => fam_amf::utf8(h),
        ["!amf.rt", v] => fam_amf::rt(v),
        ["!amf.spec", v] => fam_amf::spec(v),
        ["!amf.refdec", v, seed] => fam_amf::refdec(v, seed.parse().unwrap_or(0)),
        ["!amf.trunc", v] => fam_amf::trunc(v),
        ["!amf.dupnames", v] => fam_amf::dupnames(v),
        ["!amf.marker", m, tail] => fam_amf::marker(m.parse().unwrap_or(0), tail),
        ["!amf.markerat", pre, m, tail] => fam_amf::marker_at(pre, m.parse().unwrap_or(0), tail),
        ["!amf.adv", kind, n, kb] => fam_amf::adversarial(kind, n.parse().unwrap_or(0), kb.parse().unwrap_or(512)),
        ["note", ..] => "note".into(),
        ["!interop", kind, cs_c, cs_s, win_c, win_s, seed, app, key, items] => {
            let a = match (util::parse_bytes(app).and_then(|b| String::from_utf8(b).ok()), util::parse_bytes(key).and_then(|b| String::from_utf8(b).ok())) { (Some(a), Some(k)) => (a, k), _ => return "bad-op".into() };
            interop::run(*kind == "pub", cs_c.parse().unwrap_or(0), cs_s.parse().unwrap_or(0), win_c.parse().unwrap_or(0), win_s.parse().unwrap_or(0), seed.parse().unwrap_or(0), &a.0, &a.1, items)
        }
        _ => match fam_chunk::op(&mut st.chunk, toks) {
            Some(s) => s,
            None => match fam_msg::op(toks) {
                Some(s) => s,
                None => match fam_hs::op(&mut st.hs, toks) {
                    Some(s) => s,
                    None => match fam_sess::op(&mut st.sess, toks) {
                        Some(s) => s,
                        None => "bad-op".into(),
                    },
                },
            },
        },
    }
}

fn main() {
    let args: Vec<String> = std::env::args().collect();
    if args.len() < 2 || args[1] != "run" {
        eprintln!("usage: harness run < ops > out");
        std::process::exit(2);
    }
    std::panic::set_hook(Box::new(|_| {}));
    // Watchdog (C03 / C19 "never a hang"): an op of the real library that does not return within the
    // limit, or that holds more than the cap, ends the process with a distinctive status; every line
    // before it has been flushed, so the runner reports exactly that op as the failing input.
    let limit_ms: u64 = std::env::var("VERIF_OP_TIMEOUT_MS").ok().and_then(|s| s.parse().ok()).unwrap_or(20_000);
    let cap: usize = std::env::var("VERIF_ALLOC_CAP").ok().and_then(|s| s.parse().ok()).unwrap_or(3 << 30);
    std::thread::spawn(move || {
        let mut last = OP_SEQ.load(std::sync::atomic::Ordering::Relaxed);
        let mut since = std::time::Instant::now();
        loop {
            std::thread::sleep(std::time::Duration::from_millis(100));
            if alloc::current() > cap {
                eprintln!("watchdog: live allocation above cap");
                std::process::exit(5);
            }
            let now = OP_SEQ.load(std::sync::atomic::Ordering::Relaxed);
            if now != last {
                last = now;
                since = std::time::Instant::now();
            } else if now % 2 == 1 && since.elapsed().as_millis() as u64 > limit_ms {
                eprintln!("watchdog: op did not return");
                std::process::exit(4);
            }
        }
    });
    let stdin = std::io::stdin();
    let stdout = std::io::stdout();
    let mut out = std::io::LineWriter::new(stdout.lock());
    let mut st = State::default();
    for line in stdin.lock().lines() {
        let line = line.unwrap();
        let toks: Vec<&str> = line.trim().split(' ').collect();
        let res = if toks.len() == 2 && toks[0] == "case" {
            st = State::default();
            "case".to_string()
        } else if st.dead {
            "dead".to_string()
        } else {
            let base = alloc::begin();
            OP_SEQ.fetch_add(1, std::sync::atomic::Ordering::Relaxed); // odd: an op is running
            let r = catch_unwind(AssertUnwindSafe(|| exec(&mut st, &toks)));
            OP_SEQ.fetch_add(1, std::sync::atomic::Ordering::Relaxed); // even: between ops
            let peak = alloc::peak_over(base);
            // C03/C19: no op may allocate more than a constant multiple of what it was given plus a few
            // maximum-size messages (the adversarial AMF0 ops carry their own, tighter bound)
            let bound = 64 * line.len() + 400 * 1024 * 1024;
            match r {
                Ok(s) if peak > bound && !line.starts_with("!amf.adv") => format!("{} ALLOC-EXCEEDED peak={}", s, peak),
                Ok(s) => s,
                Err(e) => {
                    st.dead = true;
                    let msg = if let Some(s) = e.downcast_ref::<String>() {
                        s.clone()
                    } else if let Some(s) = e.downcast_ref::<&str>() {
                        s.to_string()
                    } else {
                        "?".into()
                    };
                    format!("panic {}", msg.replace('\n', " "))
                }
            }
        };
        writeln!(out, "{}", res).unwrap();
    }
}
