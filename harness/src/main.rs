//! rml-verif-harness: interpreter of the /verif line protocol against the real library.
//!
//! usage: harness run < ops.txt > impl.txt
//! One output line per input line.  `case N` resets all state.  A panicking op prints `panic`
//! and the rest of the case prints `dead`.
mod util;
mod fam_time;
mod alloc;
mod amftext;
mod refcodec;
mod fam_amf;
mod refchunk;
mod fam_chunk;
mod msgtext;
mod fam_msg;
mod fam_hs;
mod fam_sess;

#[global_allocator]
static GLOBAL: alloc::Counting = alloc::Counting;

use std::io::{BufRead, Write};
use std::panic::{catch_unwind, AssertUnwindSafe};

pub struct State {
    dead: bool,
    chunk: fam_chunk::ChunkSt,
    hs: fam_hs::HsSt,
    sess: fam_sess::SessSt,
}

impl Default for State {
    fn default() -> Self { State { dead: false, chunk: fam_chunk::ChunkSt::new(), hs: Default::default(), sess: fam_sess::SessSt::new() } }
}

fn exec(st: &mut State, toks: &[&str]) -> String {
    match toks {
        ["time", a, b] => match (a.parse::<u32>(), b.parse::<u32>()) {
            (Ok(a), Ok(b)) => fam_time::time_op(a, b),
            _ => "bad-op".into(),
        },
        ["!time.laws", a, b] => match (a.parse::<u32>(), b.parse::<u32>()) {
            (Ok(a), Ok(b)) => fam_time::laws(a, b),
            _ => "bad-op".into(),
        },
        ["amf.dec", h] => fam_amf::dec(h),
        ["?amf.enc", v] => fam_amf::enc(v),
        ["utf8", h] => fam_amf::utf8(h),
        ["!amf.rt", v] => fam_amf::rt(v),
        ["!amf.spec", v] => fam_amf::spec(v),
        ["!amf.refdec", v, seed] => fam_amf::refdec(v, seed.parse().unwrap_or(0)),
        ["!amf.trunc", v] => fam_amf::trunc(v),
        ["!amf.marker", m, tail] => fam_amf::marker(m.parse().unwrap_or(0), tail),
        ["!amf.adv", kind, n, kb] => fam_amf::adversarial(kind, n.parse().unwrap_or(0), kb.parse().unwrap_or(512)),
        ["note", ..] => "note".into(),
        _ => match fam_chunk::op(&mut st.chunk, toks) {
            Some(s) => s,
            None => match fam_msg::op(toks) {
                Some(s) => s,
                None => match fam_hs::op(&mut st.hs, toks) {
                    Some(s) => s,
                    None => match fam_sess::op(&mut st.sess, toks) {
                        Some(s) => s,
                        None => "bad-op".into(),
                    },
                },
            },
        },
    }
}

fn main() {
    let args: Vec<String> = std::env::args().collect();
    if args.len() < 2 || args[1] != "run" {
        eprintln!("usage: harness run < ops > out");
        std::process::exit(2);
    }
    std::panic::set_hook(Box::new(|_| {}));
    let stdin = std::io::stdin();
    let stdout = std::io::stdout();
    let mut out = std::io::LineWriter::new(stdout.lock());
    let mut st = State::default();
    for line in stdin.lock().lines() {
        let line = line.unwrap();
        let toks: Vec<&str> = line.trim().split(' ').collect();
        let res = if toks.len() == 2 && toks[0] == "case" {
            st = State::default();
            "case".to_string()
        } else if st.dead {
            "dead".to_string()
        } else {
            match catch_unwind(AssertUnwindSafe(|| exec(&mut st, &toks))) {
                Ok(s) => s,
                Err(e) => {
                    st.dead = true;
                    let msg = if let Some(s) = e.downcast_ref::<String>() {
                        s.clone()
                    } else if let Some(s) = e.downcast_ref::<&str>() {
                        s.to_string()
                    } else {
                        "?".into()
                    };
                    format!("panic {}", msg.replace('\n', " "))
                }
            }
        };
        writeln!(out, "{}", res).unwrap();
    }
}
