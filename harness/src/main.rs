//! rml-verif-harness: interpreter of the /verif line protocol against the real library.
//!
//! usage: harness run < ops.txt > impl.txt
//! One output line per input line.  `case N` resets all state.  A panicking op prints `panic`
//! and the rest of the case prints `dead`.
mod util;
mod fam_time;

use std::io::{BufRead, Write};
use std::panic::{catch_unwind, AssertUnwindSafe};

#[derive(Default)]
pub struct State {
    dead: bool,
}

fn exec(st: &mut State, toks: &[&str]) -> String {
    match toks {
        ["time", a, b] => match (a.parse::<u32>(), b.parse::<u32>()) {
            (Ok(a), Ok(b)) => fam_time::time_op(a, b),
            _ => "bad-op".into(),
        },
        ["!time.laws", a, b] => match (a.parse::<u32>(), b.parse::<u32>()) {
            (Ok(a), Ok(b)) => fam_time::laws(a, b),
            _ => "bad-op".into(),
        },
        _ => {
            let _ = st;
            "bad-op".into()
        }
    }
}

fn main() {
    let args: Vec<String> = std::env::args().collect();
    if args.len() < 2 || args[1] != "run" {
        eprintln!("usage: harness run < ops > out");
        std::process::exit(2);
    }
    std::panic::set_hook(Box::new(|_| {}));
    let stdin = std::io::stdin();
    let stdout = std::io::stdout();
    let mut out = std::io::LineWriter::new(stdout.lock());
    let mut st = State::default();
    for line in stdin.lock().lines() {
        let line = line.unwrap();
        let toks: Vec<&str> = line.trim().split(' ').collect();
        let res = if toks.len() == 2 && toks[0] == "case" {
            st = State::default();
            "case".to_string()
        } else if st.dead {
            "dead".to_string()
        } else {
            match catch_unwind(AssertUnwindSafe(|| exec(&mut st, &toks))) {
                Ok(s) => s,
                Err(e) => {
                    st.dead = true;
                    let msg = if let Some(s) = e.downcast_ref::<String>() {
                        s.clone()
                    } else if let Some(s) = e.downcast_ref::<&str>() {
                        s.to_string()
                    } else {
                        "?".into()
                    };
                    format!("panic {}", msg.replace('\n', " "))
                }
            }
        };
        writeln!(out, "{}", res).unwrap();
    }
}
