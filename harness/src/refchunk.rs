//! Independent RTMP chunk stream decoder written from RTMP 1.0 section 5.3.1 (per chunk stream
//! state AND per chunk stream reassembly, as the specification describes); shares no code with the
//! library.  Used by oracles (C07, C08, C06, C16, C18) and cross-checked against the Lean
//! specification decoder by the `spec.feed` op.
use std::collections::HashMap;

#[derive(Clone, Debug, PartialEq)]
pub struct RMsg {
    pub typ: u8,
    pub msid: u32,
    pub ts: u32,
    pub data: Vec<u8>,
}

#[derive(Clone, Default)]
struct CsState {
    ts: u32,
    delta: u32,      // timestamp delta in force (after a type-0 header: its timestamp, as 5.3.1.2.4 says)
    field24: u32,    // 24-bit field of the last header that had one (decides whether type-3 chunks carry an extended field)
    len: u32,
    typ: u8,
    msid: u32,
    have: bool,
    buf: Vec<u8>,    // partial message
    in_flight: bool,
}

#[derive(Clone)]
pub struct RefDecoder {
    pub cs: usize,
    streams: HashMap<u32, CsState>,
    pub strict: bool,              // additionally check what C07 demands of the library's own output
    pub notes: Vec<String>,        // conformance complaints (strict mode)
    pub sequential_only: bool,     // complain if chunks of another csid arrive mid-message
    current: Option<u32>,
    pub hdr_bytes: Vec<u8>,        // header bytes of the chunks read since the caller last cleared it
    pub seq_violation: bool,       // the stream left the "sequential, strictly conformant sender" class (Spec.Chunk.decodeSeq)
}

pub enum Res {
    NeedMore,
    Err(String),
}

impl RefDecoder {
    pub fn new(strict: bool) -> Self {
        RefDecoder { cs: 128, streams: HashMap::new(), strict, notes: vec![], sequential_only: false, current: None, hdr_bytes: vec![], seq_violation: false }
    }

    /// no message is partially assembled on any chunk stream
    pub fn idle(&self) -> bool { self.streams.values().all(|s| !s.in_flight) }

    /// decode a complete byte string; returns messages in completion order
    pub fn decode_all(&mut self, bs: &[u8]) -> Result<Vec<RMsg>, String> {
        let mut pos = 0usize;
        let mut out = vec![];
        while pos < bs.len() {
            match self.chunk(bs, &mut pos, &mut out) {
                Ok(()) => {}
                Err(Res::NeedMore) => return Err(format!("truncated chunk at offset {}", pos)),
                Err(Res::Err(e)) => return Err(e),
            }
        }
        Ok(out)
    }

    fn chunk(&mut self, bs: &[u8], pos: &mut usize, out: &mut Vec<RMsg>) -> Result<(), Res> {
        let start = *pos;
        let need = |p: usize, n: usize| -> Result<(), Res> { if bs.len() - p < n { Err(Res::NeedMore) } else { Ok(()) } };
        need(*pos, 1)?;
        let b0 = bs[*pos];
        let fmt = b0 >> 6;
        let mut p = *pos + 1;
        let csid: u32 = match b0 & 0x3f {
            0 => { need(p, 1)?; let v = bs[p] as u32 + 64; p += 1; if self.strict { self.notes.push(format!("csid {} not minimally encoded / 2-byte form used", v)); } v }
            1 => { need(p, 2)?; let v = bs[p] as u32 + (bs[p + 1] as u32) * 256 + 64; p += 2; if self.strict && v < 320 { self.notes.push(format!("csid {} in 3-byte form is not minimal", v)); } v }
            x => x as u32,
        };
        if csid < 2 { return Err(Res::Err("csid below 2".into())); }
        if let Some(c) = self.current { if c != csid { self.seq_violation = true; } }
        if self.sequential_only {
            if let Some(c) = self.current { if c != csid { self.notes.push(format!("chunk on csid {} while a message on csid {} is in flight", csid, c)); } }
        }
        let st = self.streams.entry(csid).or_insert_with(CsState::default);
        let continuing = st.in_flight;
        if fmt != 0 && !st.have { return Err(Res::Err(format!("type {} chunk on csid {} without a previous chunk", fmt, csid))); }
        // message header
        let mut field24 = st.field24;
        let (mut len, mut typ, mut msid) = (st.len, st.typ, st.msid);
        if fmt <= 2 { need(p, 3)?; field24 = ((bs[p] as u32) << 16) | ((bs[p + 1] as u32) << 8) | bs[p + 2] as u32; p += 3; }
        if fmt <= 1 { need(p, 4)?; len = ((bs[p] as u32) << 16) | ((bs[p + 1] as u32) << 8) | bs[p + 2] as u32; typ = bs[p + 3]; p += 4; }
        if fmt == 0 { need(p, 4)?; msid = u32::from_le_bytes([bs[p], bs[p + 1], bs[p + 2], bs[p + 3]]); p += 4; }
        let mut ext: Option<u32> = None;
        if field24 == 0xFFFFFF { need(p, 4)?; ext = Some(u32::from_be_bytes([bs[p], bs[p + 1], bs[p + 2], bs[p + 3]])); p += 4; }
        let value = ext.unwrap_or(field24);
        if self.strict {
            if let Some(e) = ext { if fmt <= 2 && e < 0xFFFFFF { self.notes.push(format!("extended timestamp {} present although it fits 24 bits", e)); } }
        }
        let (ts, delta);
        if continuing {
            // a continuation chunk: type 3 (its extended field, if any, is ignored), or a repeat of the same full header
            if fmt == 3 { ts = st.ts; delta = st.delta; }
            else if fmt == 0 && value == st.ts && len == st.len && typ == st.typ && msid == st.msid { ts = st.ts; delta = value; }
            else { return Err(Res::Err(format!("type {} header with different fields in the middle of a message on csid {}", fmt, csid))); }
        } else {
            match fmt {
                0 => { ts = value; delta = value; }
                1 | 2 => { delta = value; ts = st.ts.wrapping_add(delta); }
                _ => {
                    delta = st.delta; ts = st.ts.wrapping_add(delta);
                    if let Some(e) = ext { if e != st.delta { self.seq_violation = true; } }
                    if self.strict { if let Some(e) = ext { if e != st.delta { self.notes.push(format!("type-3 extended timestamp {} differs from the delta in force {}", e, st.delta)); } } }
                }
            }
            if self.strict {
                // compressed header only when the omitted fields equal the preceding chunk's: true by construction
                // for a decoder (it reuses them) - what can be checked is that compression was not avoidable-wrong:
                // nothing to do here; equality of the DECODED messages with the sent ones is checked by the caller.
            }
        }
        if len > 0xFFFFFF { return Err(Res::Err("length".into())); }
        let have_bytes = st.buf.len();
        if (len as usize) < have_bytes { return Err(Res::Err("declared length below bytes already received".into())); }
        let want = std::cmp::min(self.cs, len as usize - have_bytes);
        need(p, want)?;
        self.hdr_bytes.extend_from_slice(&bs[start..p]);
        st.buf.extend_from_slice(&bs[p..p + want]);
        p += want;
        st.ts = ts; st.delta = delta; st.field24 = field24; st.len = len; st.typ = typ; st.msid = msid; st.have = true;
        if st.buf.len() == len as usize {
            let data = std::mem::replace(&mut st.buf, vec![]);
            st.in_flight = false;
            self.current = None;
            if typ == 1 && data.len() >= 4 {
                let v = u32::from_be_bytes([data[0], data[1], data[2], data[3]]);
                if v >= 1 && v <= 0x7FFFFFFF { self.cs = v as usize; }
                if v == 0 { self.seq_violation = true; }
            }
            out.push(RMsg { typ, msid, ts, data });
        } else {
            st.in_flight = true;
            self.current = Some(csid);
        }
        let _ = start;
        *pos = p;
        Ok(())
    }
}
