//! C02 oracle: a real ClientSession against a real ServerSession, exchanging their output bytes under seeded random
//! fragmentation and interleaving; both applications react as the session documentation prescribes (a call's packets
//! are queued before its events are acted upon).
use crate::fam_sess::{cli_err, srv_err};
use crate::refcodec::Pick;
use bytes::Bytes;
use rml_rtmp::sessions::*;
use rml_rtmp::time::RtmpTimestamp;

#[derive(Clone, Debug, PartialEq)]
enum Item { Audio(Vec<u8>, u32), Video(Vec<u8>, u32), Meta }

fn metadata() -> StreamMetadata {
    let mut m = StreamMetadata::new();
    m.video_width = Some(1920); m.video_height = Some(1080); m.video_frame_rate = Some(30.0); m.audio_is_stereo = Some(true);
    m.encoder = Some("enc".to_string()); m.audio_sample_rate = Some(44100);
    m
}

fn parse_items(s: &str) -> Option<Vec<Item>> {
    if s == "-" { return Some(vec![]); }
    let mut out = vec![];
    for (i, t) in s.split(',').enumerate() {
        let p: Vec<&str> = t.split(':').collect();
        if p.len() != 3 { return None; }
        let n: usize = p[1].parse().ok()?; let ts: u32 = p[2].parse().ok()?;
        let data: Vec<u8> = (0..n).map(|j| ((i * 31 + j * 7 + 3) & 0xff) as u8).collect();
        out.push(match p[0] { "a" => Item::Audio(data, ts), "v" => Item::Video(data, ts), "m" => Item::Meta, _ => return None });
    }
    Some(out)
}

pub fn run(publish: bool, cs_c: u32, cs_s: u32, win_c: u32, win_s: u32, seed: u64, app: &str, key: &str, items: &str) -> String {
    let items = match parse_items(items) { Some(x) => x, None => return "bad-op".into() };
    rml_rtmp::sessions::verif_hooks::set_initial_uptime_ms(None);
    let mut pick = Pick(seed);
    let mut cc = ClientSessionConfig::new(); cc.chunk_size = cs_c; cc.window_ack_size = win_c;
    let mut sc = ServerSessionConfig::new(); sc.chunk_size = cs_s; sc.window_ack_size = win_s;
    let (mut cli, _) = match ClientSession::new(cc) { Ok(x) => x, Err(e) => return format!("! ok refused-config {}", cli_err(&e)) };
    let (mut srv, init) = match ServerSession::new(sc) { Ok(x) => x, Err(e) => return format!("! ok refused-config {}", srv_err(&e)) };
    let mut c2s: Vec<u8> = vec![];
    let mut s2c: Vec<u8> = vec![];
    for r in init { if let ServerSessionResult::OutboundResponse(p) = r { s2c.extend_from_slice(&p.bytes); } }
    let expected_app = if app.ends_with('/') { &app[..app.len() - 1] } else { app };
    match cli.request_connection(app.to_string()) { Ok(ClientSessionResult::OutboundResponse(p)) => c2s.extend_from_slice(&p.bytes), Ok(_) => {}, Err(e) => return format!("! FAIL client {}", cli_err(&e)) }
    let mut received: Vec<Item> = vec![];          // at the receiving side
    let mut next_item = 0usize;                      // at the sending side
    let mut sender_ready = false;                    // publish: client got PublishRequestAccepted; play: server accepted the play request
    let mut client_play_accepted = false;
    let mut play_stream_id: Option<u32> = None;
    let mut stopped = false;
    let mut finished_events = 0;
    let mut connected_both = (false, false);
    let mut steps = 0u64;
    loop {
        steps += 1;
        if steps > 2_000_000 { return "! FAIL no-progress (deadlock or endless exchange without completing the scenario)".into(); }
        // what can happen next
        let can_send_item = sender_ready && next_item < items.len() && !stopped;
        let all_sent = next_item == items.len();
        let can_stop = !stopped && sender_ready && all_sent && (publish || (client_play_accepted && received.len() == items.len()));
        let mut choices: Vec<u8> = vec![];
        if !c2s.is_empty() { choices.push(0); choices.push(0); }
        if !s2c.is_empty() { choices.push(1); choices.push(1); }
        if can_send_item { choices.push(2); }
        if can_stop { choices.push(3); }
        if choices.is_empty() { break; }
        match choices[(pick.next() % choices.len() as u64) as usize] {
            0 => {
                let n = frag(&mut pick, c2s.len());
                let chunk: Vec<u8> = c2s.drain(..n).collect();
                let rs = match srv.handle_input(&chunk) { Ok(x) => x, Err(e) => return format!("! FAIL server-error {}", srv_err(&e)) };
                let mut todo = vec![];
                for r in rs {
                    match r {
                        ServerSessionResult::OutboundResponse(p) => s2c.extend_from_slice(&p.bytes),
                        ServerSessionResult::RaisedEvent(ev) => todo.push(ev),
                        _ => {}
                    }
                }
                for ev in todo {
                    match ev {
                        ServerSessionEvent::ConnectionRequested { request_id, app_name } => {
                            if app_name != expected_app { return format!("! FAIL app-name {:?}", app_name); }
                            match srv.accept_request(request_id) { Ok(rs) => { for r in rs { if let ServerSessionResult::OutboundResponse(p) = r { s2c.extend_from_slice(&p.bytes); } } connected_both.1 = true; } Err(e) => return format!("! FAIL accept {}", srv_err(&e)) }
                        }
                        ServerSessionEvent::PublishStreamRequested { request_id, app_name, stream_key, .. } => {
                            if !publish || app_name != expected_app || stream_key != key { return "! FAIL publish-request-tags".into(); }
                            match srv.accept_request(request_id) { Ok(rs) => for r in rs { if let ServerSessionResult::OutboundResponse(p) = r { s2c.extend_from_slice(&p.bytes); } }, Err(e) => return format!("! FAIL accept {}", srv_err(&e)) }
                        }
                        ServerSessionEvent::PlayStreamRequested { request_id, app_name, stream_key, stream_id, .. } => {
                            if publish || app_name != expected_app || stream_key != key { return "! FAIL play-request-tags".into(); }
                            match srv.accept_request(request_id) { Ok(rs) => for r in rs { if let ServerSessionResult::OutboundResponse(p) = r { s2c.extend_from_slice(&p.bytes); } }, Err(e) => return format!("! FAIL accept {}", srv_err(&e)) }
                            play_stream_id = Some(stream_id);
                            sender_ready = true;
                        }
                        ServerSessionEvent::AudioDataReceived { app_name, stream_key, data, timestamp } => { if app_name != expected_app || stream_key != key { return "! FAIL media-tags".into(); } received.push(Item::Audio(data.to_vec(), timestamp.value)); }
                        ServerSessionEvent::VideoDataReceived { app_name, stream_key, data, timestamp } => { if app_name != expected_app || stream_key != key { return "! FAIL media-tags".into(); } received.push(Item::Video(data.to_vec(), timestamp.value)); }
                        ServerSessionEvent::StreamMetadataChanged { app_name, stream_key, metadata: m } => { if app_name != expected_app || stream_key != key { return "! FAIL media-tags".into(); } if m != metadata() { return "! FAIL metadata-differs".into(); } received.push(Item::Meta); }
                        ServerSessionEvent::PublishStreamFinished { app_name, stream_key } => { if !publish || app_name != expected_app || stream_key != key { return "! FAIL finished-tags".into(); } finished_events += 1; }
                        ServerSessionEvent::PlayStreamFinished { app_name, stream_key } => { if publish || app_name != expected_app || stream_key != key { return "! FAIL finished-tags".into(); } finished_events += 1; }
                        _ => {}
                    }
                }
            }
            1 => {
                let n = frag(&mut pick, s2c.len());
                let chunk: Vec<u8> = s2c.drain(..n).collect();
                let rs = match cli.handle_input(&chunk) { Ok(x) => x, Err(e) => return format!("! FAIL client-error {}", cli_err(&e)) };
                let mut todo = vec![];
                for r in rs { match r { ClientSessionResult::OutboundResponse(p) => c2s.extend_from_slice(&p.bytes), ClientSessionResult::RaisedEvent(ev) => todo.push(ev), _ => {} } }
                for ev in todo {
                    match ev {
                        ClientSessionEvent::ConnectionRequestAccepted => {
                            connected_both.0 = true;
                            let r = if publish { cli.request_publishing(key.to_string(), PublishRequestType::Live) } else { cli.request_playback(key.to_string()) };
                            match r { Ok(ClientSessionResult::OutboundResponse(p)) => c2s.extend_from_slice(&p.bytes), Ok(_) => {}, Err(e) => return format!("! FAIL client {}", cli_err(&e)) }
                        }
                        ClientSessionEvent::PublishRequestAccepted => { if !publish { return "! FAIL unexpected-publish-accepted".into(); } sender_ready = true; }
                        ClientSessionEvent::PlaybackRequestAccepted => { if publish { return "! FAIL unexpected-play-accepted".into(); } client_play_accepted = true; }
                        ClientSessionEvent::AudioDataReceived { data, timestamp } => received.push(Item::Audio(data.to_vec(), timestamp.value)),
                        ClientSessionEvent::VideoDataReceived { data, timestamp } => received.push(Item::Video(data.to_vec(), timestamp.value)),
                        ClientSessionEvent::StreamMetadataReceived { metadata: m } => { if m != metadata() { return "! FAIL metadata-differs".into(); } received.push(Item::Meta); }
                        ClientSessionEvent::ConnectionRequestRejected { .. } => return "! FAIL connection-rejected".into(),
                        _ => {}
                    }
                }
            }
            2 => {
                let it = items[next_item].clone();
                next_item += 1;
                if publish {
                    let r = match it { Item::Audio(d, ts) => cli.publish_audio_data(Bytes::from(d), RtmpTimestamp::new(ts), false), Item::Video(d, ts) => cli.publish_video_data(Bytes::from(d), RtmpTimestamp::new(ts), false), Item::Meta => cli.publish_metadata(&metadata()) };
                    match r { Ok(ClientSessionResult::OutboundResponse(p)) => c2s.extend_from_slice(&p.bytes), Ok(_) => {}, Err(e) => return format!("! FAIL client-send {}", cli_err(&e)) }
                } else {
                    let sid = play_stream_id.unwrap();
                    let r = match it { Item::Audio(d, ts) => srv.send_audio_data(sid, Bytes::from(d), RtmpTimestamp::new(ts), false), Item::Video(d, ts) => srv.send_video_data(sid, Bytes::from(d), RtmpTimestamp::new(ts), false), Item::Meta => srv.send_metadata(sid, &metadata()) };
                    match r { Ok(p) => s2c.extend_from_slice(&p.bytes), Err(e) => return format!("! FAIL server-send {}", srv_err(&e)) }
                }
            }
            _ => {
                stopped = true;
                let r = if publish { cli.stop_publishing() } else { cli.stop_playback() };
                match r { Ok(rs) => for r in rs { if let ClientSessionResult::OutboundResponse(p) = r { c2s.extend_from_slice(&p.bytes); } }, Err(e) => return format!("! FAIL stop {}", cli_err(&e)) }
            }
        }
        // acknowledgements may bounce for ever when both windows are tiny: once the scenario is complete, stop
        if stopped && finished_events >= 1 && received.len() == items.len() { break; }
    }
    if !connected_both.0 || !connected_both.1 { return "! FAIL connect-did-not-complete-on-both-sides".into(); }
    if !stopped { return "! FAIL scenario-stalled-before-stop".into(); }
    if received != items {
        let i = received.iter().zip(items.iter()).position(|(a, b)| a != b).unwrap_or(std::cmp::min(received.len(), items.len()));
        return format!("! FAIL items-differ at {} (received {} of {})", i, received.len(), items.len());
    }
    if finished_events != 1 { return format!("! FAIL finished-events {}", finished_events); }
    format!("! ok {} items {} steps", items.len(), steps)
}

fn frag(p: &mut Pick, avail: usize) -> usize {
    let k = p.next() % 6;
    let n = match k { 0 => 1, 1 => (p.next() % 16 + 1) as usize, 2 => (p.next() % 300 + 1) as usize, 3 => (p.next() % 5000 + 1) as usize, _ => avail };
    std::cmp::max(1, std::cmp::min(n, avail))
}
