//! Text syntax of AMF0 values in the line protocol (mirror of /verif/lean/Driver/AmfText.lean).
use crate::util::{parse_bytes, show_bytes};
use rml_amf0::Amf0Value;
use std::collections::HashMap;

/// harness-side value: strings are raw bytes (so that invalid UTF-8 can be *expressed*; converting
/// to the library type fails for those), objects keep the textual order.
#[derive(Clone, Debug, PartialEq)]
pub enum V {
    Number(u64),
    Boolean(bool),
    Str(Vec<u8>),
    Object(Vec<(Vec<u8>, V)>),
    Array(Vec<V>),
    Null,
    Undefined,
}

pub fn to_lib(v: &V) -> Option<Amf0Value> {
    Some(match v {
        V::Number(b) => Amf0Value::Number(f64::from_bits(*b)),
        V::Boolean(b) => Amf0Value::Boolean(*b),
        V::Str(s) => Amf0Value::Utf8String(String::from_utf8(s.clone()).ok()?),
        V::Object(ps) => {
            let mut m = HashMap::new();
            for (k, v) in ps {
                m.insert(String::from_utf8(k.clone()).ok()?, to_lib(v)?);
            }
            Amf0Value::Object(m)
        }
        V::Array(vs) => Amf0Value::StrictArray(vs.iter().map(to_lib).collect::<Option<Vec<_>>>()?),
        V::Null => Amf0Value::Null,
        V::Undefined => Amf0Value::Undefined,
    })
}

pub fn from_lib(v: &Amf0Value) -> V {
    match v {
        Amf0Value::Number(f) => V::Number(f.to_bits()),
        Amf0Value::Boolean(b) => V::Boolean(*b),
        Amf0Value::Utf8String(s) => V::Str(s.as_bytes().to_vec()),
        Amf0Value::Object(m) => {
            let mut ps: Vec<(Vec<u8>, V)> = m.iter().map(|(k, v)| (k.as_bytes().to_vec(), from_lib(v))).collect();
            ps.sort_by(|a, b| a.0.cmp(&b.0));
            V::Object(ps)
        }
        Amf0Value::StrictArray(vs) => V::Array(vs.iter().map(from_lib).collect()),
        Amf0Value::Null => V::Null,
        Amf0Value::Undefined => V::Undefined,
    }
}

/// canonical: keys sorted
pub fn canon(v: &V) -> V {
    match v {
        V::Object(ps) => {
            let mut ps: Vec<(Vec<u8>, V)> = ps.iter().map(|(k, v)| (k.clone(), canon(v))).collect();
            ps.sort_by(|a, b| a.0.cmp(&b.0));
            V::Object(ps)
        }
        V::Array(vs) => V::Array(vs.iter().map(canon).collect()),
        x => x.clone(),
    }
}

pub fn show(v: &V) -> String {
    match v {
        V::Number(b) => format!("n{:016x}", b),
        V::Boolean(true) => "t".into(),
        V::Boolean(false) => "f".into(),
        V::Str(s) => format!("s{}", show_bytes(s)),
        V::Object(ps) => {
            let c = canon(v);
            let ps2 = if let V::Object(p) = &c { p.clone() } else { ps.clone() };
            format!("o{{{}}}", ps2.iter().map(|(k, v)| format!("{}={}", show_bytes(k), show(v))).collect::<Vec<_>>().join(","))
        }
        V::Array(vs) => format!("a[{}]", vs.iter().map(show).collect::<Vec<_>>().join(",")),
        V::Null => "z".into(),
        V::Undefined => "u".into(),
    }
}

pub fn show_vals(vs: &[V]) -> String {
    if vs.is_empty() { "~".into() } else { vs.iter().map(show).collect::<Vec<_>>().join(";") }
}

fn is_bytes_char(c: u8) -> bool {
    c.is_ascii_alphanumeric() || c == b'.' || c == b'*' || c == b'-'
}

fn span_bytes(s: &[u8]) -> (&[u8], &[u8]) {
    let n = s.iter().take_while(|c| is_bytes_char(**c)).count();
    (&s[..n], &s[n..])
}

pub fn parse_val(s: &[u8]) -> Option<(V, &[u8])> {
    match s.first()? {
        b'n' => {
            let r = &s[1..];
            let n = r.iter().take_while(|c| c.is_ascii_alphanumeric()).count();
            if n != 16 { return None; }
            let v = u64::from_str_radix(std::str::from_utf8(&r[..16]).ok()?, 16).ok()?;
            Some((V::Number(v), &r[16..]))
        }
        b't' => Some((V::Boolean(true), &s[1..])),
        b'f' => Some((V::Boolean(false), &s[1..])),
        b'z' => Some((V::Null, &s[1..])),
        b'u' => Some((V::Undefined, &s[1..])),
        b's' => {
            let (h, r) = span_bytes(&s[1..]);
            Some((V::Str(parse_bytes(std::str::from_utf8(h).ok()?)?), r))
        }
        b'o' if s.get(1) == Some(&b'{') => {
            let mut r = &s[2..];
            let mut ps = vec![];
            loop {
                match r.first()? {
                    b'}' => return Some((V::Object(ps), &r[1..])),
                    b',' => r = &r[1..],
                    _ => {
                        let (h, r2) = span_bytes(r);
                        let k = parse_bytes(std::str::from_utf8(h).ok()?)?;
                        if r2.first() != Some(&b'=') { return None; }
                        let (v, r3) = parse_val(&r2[1..])?;
                        ps.push((k, v));
                        r = r3;
                    }
                }
            }
        }
        b'a' if s.get(1) == Some(&b'[') => {
            let mut r = &s[2..];
            let mut vs = vec![];
            loop {
                match r.first()? {
                    b']' => return Some((V::Array(vs), &r[1..])),
                    b',' => r = &r[1..],
                    _ => {
                        let (v, r2) = parse_val(r)?;
                        vs.push(v);
                        r = r2;
                    }
                }
            }
        }
        _ => None,
    }
}

pub fn parse_vals(s: &str) -> Option<Vec<V>> {
    if s == "~" { return Some(vec![]); }
    let mut r = s.as_bytes();
    let mut out = vec![];
    while !r.is_empty() {
        if r[0] == b';' { r = &r[1..]; continue; }
        let (v, r2) = parse_val(r)?;
        out.push(v);
        r = r2;
    }
    Some(out)
}

pub fn depth(v: &V) -> usize {
    match v {
        V::Object(ps) => 1 + ps.iter().map(|(_, v)| depth(v)).max().unwrap_or(0),
        V::Array(vs) => 1 + vs.iter().map(depth).max().unwrap_or(0),
        _ => 0,
    }
}
