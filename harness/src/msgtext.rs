//! Text syntax of RTMP messages (mirror of /verif/lean/Driver/MsgText.lean).
use crate::amftext::{from_lib, parse_val, parse_vals, show, show_vals, to_lib, V};
use crate::util::{parse_bytes, show_bytes};
use bytes::Bytes;
use rml_rtmp::messages::{PeerBandwidthLimitType as L, RtmpMessage as M, UserControlEventType as E};
use rml_rtmp::time::RtmpTimestamp;

pub fn uc_code(e: &E) -> u32 {
    match e {
        E::StreamBegin => 0, E::StreamEof => 1, E::StreamDry => 2, E::SetBufferLength => 3, E::StreamIsRecorded => 4,
        E::PingRequest => 6, E::PingResponse => 7, E::BufferEmpty => 31, E::BufferReady => 32,
    }
}

pub fn uc_of(c: u32) -> Option<E> {
    Some(match c { 0 => E::StreamBegin, 1 => E::StreamEof, 2 => E::StreamDry, 3 => E::SetBufferLength, 4 => E::StreamIsRecorded,
        6 => E::PingRequest, 7 => E::PingResponse, 31 => E::BufferEmpty, 32 => E::BufferReady, _ => return None })
}

fn opt(o: &Option<u32>) -> String { match o { None => "_".into(), Some(n) => n.to_string() } }
fn popt(s: &str) -> Option<Option<u32>> { if s == "_" { Some(None) } else { s.parse().ok().map(Some) } }

pub fn show_msg(m: &M) -> String {
    match m {
        M::Unknown { type_id, data } => format!("unknown/{}/{}", type_id, show_bytes(data)),
        M::Abort { stream_id } => format!("abort/{}", stream_id),
        M::Acknowledgement { sequence_number } => format!("ack/{}", sequence_number),
        M::Amf0Command { command_name, transaction_id, command_object, additional_arguments } => format!(
            "cmd/{}/{:016x}/{}/{}", show_bytes(command_name.as_bytes()), transaction_id.to_bits(), show(&from_lib(command_object)),
            show_vals(&additional_arguments.iter().map(from_lib).collect::<Vec<_>>())),
        M::Amf0Data { values } => format!("data/{}", show_vals(&values.iter().map(from_lib).collect::<Vec<_>>())),
        M::AudioData { data } => format!("audio/{}", show_bytes(data)),
        M::VideoData { data } => format!("video/{}", show_bytes(data)),
        M::SetChunkSize { size } => format!("scs/{}", size),
        M::SetPeerBandwidth { size, limit_type } => format!("spb/{}/{}", size, match limit_type { L::Hard => 0, L::Soft => 1, L::Dynamic => 2 }),
        M::UserControl { event_type, stream_id, buffer_length, timestamp } => format!("uc/{}/{}/{}/{}", uc_code(event_type), opt(stream_id), opt(buffer_length), opt(&timestamp.map(|t| t.value))),
        M::WindowAcknowledgement { size } => format!("wack/{}", size),
    }
}

fn lib_vals(vs: &[V]) -> Option<Vec<rml_amf0::Amf0Value>> { vs.iter().map(to_lib).collect() }

pub fn parse_msg(s: &str) -> Option<M> {
    let p: Vec<&str> = s.split('/').collect();
    Some(match p.as_slice() {
        ["unknown", t, d] => M::Unknown { type_id: t.parse().ok()?, data: Bytes::from(parse_bytes(d)?) },
        ["abort", n] => M::Abort { stream_id: n.parse().ok()? },
        ["ack", n] => M::Acknowledgement { sequence_number: n.parse().ok()? },
        ["cmd", name, tid, obj, args] => {
            let (o, rest) = parse_val(obj.as_bytes())?;
            if !rest.is_empty() { return None; }
            M::Amf0Command {
                command_name: String::from_utf8(parse_bytes(name)?).ok()?,
                transaction_id: f64::from_bits(u64::from_str_radix(tid, 16).ok()?),
                command_object: to_lib(&o)?,
                additional_arguments: lib_vals(&parse_vals(args)?)?,
            }
        }
        ["data", vals] => M::Amf0Data { values: lib_vals(&parse_vals(vals)?)? },
        ["audio", d] => M::AudioData { data: Bytes::from(parse_bytes(d)?) },
        ["video", d] => M::VideoData { data: Bytes::from(parse_bytes(d)?) },
        ["scs", n] => M::SetChunkSize { size: n.parse().ok()? },
        ["spb", n, l] => M::SetPeerBandwidth { size: n.parse().ok()?, limit_type: match *l { "0" => L::Hard, "1" => L::Soft, "2" => L::Dynamic, _ => return None } },
        ["uc", c, s, l, t] => M::UserControl { event_type: uc_of(c.parse().ok()?)?, stream_id: popt(s)?, buffer_length: popt(l)?, timestamp: popt(t)?.map(RtmpTimestamp::new) },
        ["wack", n] => M::WindowAcknowledgement { size: n.parse().ok()? },
        _ => return None,
    })
}
