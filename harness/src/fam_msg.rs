//! Message family: RtmpMessage <-> MessagePayload, oracles for C13.
use crate::fam_amf::{de_kind as amf_de, se_kind as amf_se};
use crate::msgtext::{parse_msg, show_msg};
use crate::refcodec;
use crate::amftext::{canon, from_lib, V};
use crate::util::{parse_bytes, show_bytes};
use bytes::Bytes;
use rml_rtmp::messages::{MessageDeserializationError as DE, MessagePayload, MessageSerializationError as SE, RtmpMessage as M, PeerBandwidthLimitType as L};
use rml_rtmp::time::RtmpTimestamp;

pub fn se_kind(e: &SE) -> String {
    match e {
        SE::InvalidChunkSize => "err:chunksize".into(),
        SE::Amf0SerializationError(a) => format!("err:amf:{}", &amf_se(a)[4..]),
        SE::Io(_) => "err:io".into(),
        #[allow(unreachable_patterns)]
        _ => "err:other".into(),
    }
}

pub fn de_kind(e: &DE) -> String {
    match e {
        DE::InvalidMessageFormat => "err:format".into(),
        DE::Amf0DeserializationError(a) => format!("err:amf:{}", &amf_de(a)[4..]),
        DE::Io(_) => "err:io".into(),
        #[allow(unreachable_patterns)]
        _ => "err:other".into(),
    }
}

fn payload(typ: u8, data: Vec<u8>) -> MessagePayload {
    MessagePayload { timestamp: RtmpTimestamp::new(0), type_id: typ, message_stream_id: 0, data: Bytes::from(data) }
}

/// the body the RTMP specification prescribes for the non-AMF variants (written from RTMP 1.0 §5.4, §7.1)
fn spec_body(m: &M) -> Option<(u8, Vec<u8>)> {
    Some(match m {
        M::Abort { stream_id } => (2, stream_id.to_be_bytes().to_vec()),
        M::Acknowledgement { sequence_number } => (3, sequence_number.to_be_bytes().to_vec()),
        M::SetChunkSize { size } => (1, size.to_be_bytes().to_vec()),
        M::WindowAcknowledgement { size } => (5, size.to_be_bytes().to_vec()),
        M::SetPeerBandwidth { size, limit_type } => { let mut b = size.to_be_bytes().to_vec(); b.push(match limit_type { L::Hard => 0, L::Soft => 1, L::Dynamic => 2 }); (6, b) }
        M::AudioData { data } => (8, data.to_vec()),
        M::VideoData { data } => (9, data.to_vec()),
        M::Unknown { type_id, data } => (*type_id, data.to_vec()),
        M::UserControl { event_type, stream_id, buffer_length, timestamp } => {
            let code = crate::msgtext::uc_code(event_type) as u16;
            let mut b = code.to_be_bytes().to_vec();
            match code { 3 => { b.extend_from_slice(&(*stream_id)?.to_be_bytes()); b.extend_from_slice(&(*buffer_length)?.to_be_bytes()); }
                         6 | 7 => b.extend_from_slice(&(*timestamp)?.value.to_be_bytes()),
                         _ => b.extend_from_slice(&(*stream_id)?.to_be_bytes()) }
            (4, b)
        }
        _ => return None,
    })
}

/// may the conversion to a payload refuse this message?  AMF0 limits (strings and names at most 65535 bytes, names
/// not empty, nesting at most 128), chunk sizes above 2^31-1, user-control events without their fields
fn refusable(m: &M) -> bool {
    fn bad(v: &V, depth: usize) -> bool {
        match v {
            V::Str(s) => s.len() > 65535,
            V::Object(ps) => depth + 1 > 128 || ps.iter().any(|(k, x)| k.is_empty() || k.len() > 65535 || bad(x, depth + 1)),
            V::Array(xs) => depth + 1 > 128 || xs.iter().any(|x| bad(x, depth + 1)),
            _ => false,
        }
    }
    match m {
        M::Amf0Command { command_name, command_object, additional_arguments, .. } =>
            command_name.len() > 65535 || bad(&from_lib(command_object), 0) || additional_arguments.iter().any(|v| bad(&from_lib(v), 0)),
        M::Amf0Data { values } => values.iter().any(|v| bad(&from_lib(v), 0)),
        M::SetChunkSize { size } => *size > 0x7FFF_FFFF,
        M::UserControl { .. } => spec_body(m).is_none(),
        _ => false,
    }
}

fn msg_eq(a: &M, b: &M) -> bool { show_msg(a) == show_msg(b) }

pub fn op(toks: &[&str]) -> Option<String> {
    Some(match toks {
        ["msg.to", m] => {
            let m = parse_msg(m)?;
            match MessagePayload::from_rtmp_message(m, RtmpTimestamp::new(0), 0) {
                Ok(p) => format!("ok {} {}", p.type_id, show_bytes(&p.data)),
                Err(e) => se_kind(&e),
            }
        }
        ["msg.from", t, d] => {
            let p = payload(t.parse().ok()?, parse_bytes(d)?);
            match p.to_rtmp_message() { Ok(m) => format!("ok {}", show_msg(&m)), Err(e) => de_kind(&e) }
        }
        // C13: conversion to a payload and back gives an equal message (bit-exact numbers, maps as maps);
        // timestamp and stream id are carried unchanged; layout as the specification prescribes
        ["!msg.rt", mtext, ts, msid] => {
            let m = parse_msg(mtext)?;
            let (ts, msid): (u32, u32) = (ts.parse().ok()?, msid.parse().ok()?);
            let want = show_msg(&m);
            let spec = spec_body(&m);
            let _ = &want;
            let m2 = parse_msg(mtext)?;
            match MessagePayload::from_rtmp_message(m, RtmpTimestamp::new(ts), msid) {
                Err(e) => {
                    // a refusal is legitimate only for what the documented limits exclude, judged on the message alone
                    if refusable(&m2) { format!("! ok refused {}", se_kind(&e)) }
                    else { format!("! FAIL well-formed-message-refused {}", se_kind(&e)) }
                }
                Ok(p) => {
                    if p.timestamp.value != ts || p.message_stream_id != msid { return Some("! FAIL payload-timestamp-or-stream-id-changed".into()); }
                    if let Some((t, b)) = spec { if p.type_id != t || p.data[..] != b[..] { return Some(format!("! FAIL layout-differs-from-specification type={} body={}", p.type_id, show_bytes(&p.data))); } }
                    match &m2 {
                        M::Amf0Command { command_name, transaction_id, command_object, additional_arguments } => {
                            let mut want_vals = vec![V::Str(command_name.as_bytes().to_vec()), V::Number(transaction_id.to_bits()), canon(&from_lib(command_object))];
                            want_vals.extend(additional_arguments.iter().map(|v| canon(&from_lib(v))));
                            match refcodec::decode(&p.data) { Ok(vs) if p.type_id == 20 && vs.iter().map(canon).collect::<Vec<_>>() == want_vals => {}, _ => return Some("! FAIL command-body-is-not-the-AMF0-encoding-of-name-id-object-arguments".into()) }
                        }
                        M::Amf0Data { values } => {
                            let want_vals: Vec<V> = values.iter().map(|v| canon(&from_lib(v))).collect();
                            match refcodec::decode(&p.data) { Ok(vs) if p.type_id == 18 && vs.iter().map(canon).collect::<Vec<_>>() == want_vals => {}, _ => return Some("! FAIL data-body-is-not-the-AMF0-encoding-of-the-values".into()) }
                        }
                        _ => {}
                    }
                    match p.to_rtmp_message() {
                        Err(e) => format!("! FAIL payload-does-not-convert-back {}", de_kind(&e)),
                        Ok(back) => if msg_eq(&back, &m2) { "! ok".into() } else { format!("! FAIL roundtrip-differs got={}", show_msg(&back)) },
                    }
                }
            }
        }
        // C13: AMF3-typed payloads decode as their AMF0 equivalents; unknown ids pass through untouched
        ["!msg.alias", d] => {
            let d = parse_bytes(d)?;
            let r15 = payload(15, d.clone()).to_rtmp_message().map(|m| show_msg(&m)).map_err(|e| de_kind(&e));
            let r18 = payload(18, d.clone()).to_rtmp_message().map(|m| show_msg(&m)).map_err(|e| de_kind(&e));
            let mut z = vec![0u8]; z.extend_from_slice(&d);
            let r17z = payload(17, z).to_rtmp_message().map(|m| show_msg(&m)).map_err(|e| de_kind(&e));
            let r20 = payload(20, d.clone()).to_rtmp_message().map(|m| show_msg(&m)).map_err(|e| de_kind(&e));
            let r17 = payload(17, d.clone()).to_rtmp_message().map(|m| show_msg(&m)).map_err(|e| de_kind(&e));
            if r15 != r18 { "! FAIL type-15-differs-from-18".into() } else if r17z != r20 { "! FAIL type-17-with-leading-zero-differs-from-20".into() }
            else if d.first() != Some(&0) && r17 != r20 { "! FAIL type-17-without-leading-zero-differs-from-20".into() } else { "! ok".into() }
        }
        ["!msg.unknown", t, d] => {
            let t: u8 = t.parse().ok()?;
            let d = parse_bytes(d)?;
            if [1u8, 2, 3, 4, 5, 6, 8, 9, 15, 17, 18, 20].contains(&t) { return Some("! ok assigned".into()); }
            match payload(t, d.clone()).to_rtmp_message() {
                Ok(M::Unknown { type_id, data }) if type_id == t && data[..] == d[..] => {
                    match MessagePayload::from_rtmp_message(M::Unknown { type_id, data }, RtmpTimestamp::new(0), 0) {
                        Ok(p) if p.type_id == t && p.data[..] == d[..] => "! ok".into(),
                        _ => "! FAIL unknown-message-does-not-serialize-unchanged".into(),
                    }
                }
                Ok(m) => format!("! FAIL unknown-type-decoded-as {}", show_msg(&m)),
                Err(e) => format!("! FAIL unknown-type-rejected {}", de_kind(&e)),
            }
        }
        _ => return None,
    })
}
