//! Line-protocol utilities: hex, run-length byte tokens, FNV hash (same canonical forms as
//! /verif/lean/Driver/Util.lean).

pub fn hex(bs: &[u8]) -> String {
    if bs.is_empty() {
        return "-".to_string();
    }
    let mut s = String::with_capacity(bs.len() * 2);
    for b in bs {
        s.push_str(&format!("{:02x}", b));
    }
    s
}

fn hexval(c: u8) -> Option<u8> {
    match c {
        b'0'..=b'9' => Some(c - b'0'),
        b'a'..=b'f' => Some(c - b'a' + 10),
        b'A'..=b'F' => Some(c - b'A' + 10),
        _ => None,
    }
}

pub fn parse_hex(s: &str) -> Option<Vec<u8>> {
    let b = s.as_bytes();
    if b.len() % 2 != 0 {
        return None;
    }
    let mut out = Vec::with_capacity(b.len() / 2);
    for i in (0..b.len()).step_by(2) {
        out.push(hexval(b[i])? * 16 + hexval(b[i + 1])?);
    }
    Some(out)
}

/// `-` or `.`-separated segments, each `HEX` or `HEX*N`
pub fn parse_bytes(s: &str) -> Option<Vec<u8>> {
    if s == "-" {
        return Some(vec![]);
    }
    let mut out = Vec::new();
    for seg in s.split('.') {
        let mut it = seg.split('*');
        let h = parse_hex(it.next()?)?;
        match it.next() {
            None => out.extend_from_slice(&h),
            Some(n) => {
                let k: usize = n.parse().ok()?;
                for _ in 0..k {
                    out.extend_from_slice(&h);
                }
            }
        }
        if it.next().is_some() {
            return None;
        }
    }
    Some(out)
}

pub fn fnv64(bs: &[u8]) -> u64 {
    let mut h: u64 = 14695981039346656037;
    for b in bs {
        h ^= *b as u64;
        h = h.wrapping_mul(1099511628211);
    }
    h
}

pub fn show_bytes(bs: &[u8]) -> String {
    if bs.len() <= 512 {
        hex(bs)
    } else {
        format!("h{}:{:016x}", bs.len(), fnv64(bs))
    }
}

pub fn b01(b: bool) -> &'static str {
    if b {
        "1"
    } else {
        "0"
    }
}
