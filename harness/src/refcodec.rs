//! Independent AMF0 reference codec written from the AMF0 specification (sections 2.2-2.10, 2.12);
//! shares no code with the library.  Used only by oracles.
use crate::amftext::V;

pub struct Pick(pub u64);
impl Pick {
    pub fn next(&mut self) -> u64 {
        self.0 = self.0.wrapping_add(0x9E3779B97F4A7C15);
        let mut z = self.0;
        z = (z ^ (z >> 30)).wrapping_mul(0xBF58476D1CE4E5B9);
        z = (z ^ (z >> 27)).wrapping_mul(0x94D049BB133111EB);
        z ^ (z >> 31)
    }
}

/// canonical encoding (textual key order, plain objects, `true` = 1)
pub fn encode(vs: &[V]) -> Vec<u8> {
    let mut out = vec![];
    for v in vs { enc(v, &mut out, &mut None); }
    out
}

/// a conformant but differently-choosing encoder: shuffled property order, ECMA arrays with an
/// arbitrary count field, any non-zero byte for `true`
pub fn encode_variant(vs: &[V], seed: u64) -> Vec<u8> {
    let mut out = vec![];
    let mut p = Some(Pick(seed));
    for v in vs { enc(v, &mut out, &mut p); }
    out
}

fn enc(v: &V, out: &mut Vec<u8>, p: &mut Option<Pick>) {
    match v {
        V::Number(b) => { out.push(0); out.extend_from_slice(&b.to_be_bytes()); }
        V::Boolean(b) => {
            out.push(1);
            let byte = if !*b { 0 } else { match p { Some(pk) => { let x = (pk.next() % 255) as u8 + 1; if pk.next() % 2 == 0 { 1 } else { x } } None => 1 } };
            out.push(byte);
        }
        V::Str(s) => { out.push(2); out.extend_from_slice(&(s.len() as u16).to_be_bytes()); out.extend_from_slice(s); }
        V::Object(ps) => {
            let mut order: Vec<usize> = (0..ps.len()).collect();
            let mut ecma = false;
            if let Some(pk) = p {
                for i in (1..order.len()).rev() { let j = (pk.next() % (i as u64 + 1)) as usize; order.swap(i, j); }
                ecma = pk.next() % 3 == 0;
            }
            if ecma {
                out.push(8);
                let cnt: u32 = match p { Some(pk) => match pk.next() % 4 { 0 => ps.len() as u32, 1 => 0, 2 => u32::MAX, _ => pk.next() as u32 }, None => ps.len() as u32 };
                out.extend_from_slice(&cnt.to_be_bytes());
            } else {
                out.push(3);
            }
            for i in order {
                let (k, v) = &ps[i];
                out.extend_from_slice(&(k.len() as u16).to_be_bytes());
                out.extend_from_slice(k);
                enc(v, out, p);
            }
            out.extend_from_slice(&[0, 0, 9]);
        }
        V::Array(vs) => {
            out.push(10);
            out.extend_from_slice(&(vs.len() as u32).to_be_bytes());
            for v in vs { enc(v, out, p); }
        }
        V::Null => out.push(5),
        V::Undefined => out.push(6),
    }
}

/// strict specification decoder: the whole input must be a sequence of complete values
pub fn decode(bs: &[u8]) -> Result<Vec<V>, String> {
    let mut pos = 0;
    let mut out = vec![];
    while pos < bs.len() {
        out.push(dec(bs, &mut pos, 0)?);
    }
    Ok(out)
}

fn need<'a>(bs: &'a [u8], pos: &mut usize, n: usize) -> Result<&'a [u8], String> {
    if bs.len() - *pos < n { return Err(format!("short at {}", *pos)); }
    let s = &bs[*pos..*pos + n];
    *pos += n;
    Ok(s)
}

fn dec(bs: &[u8], pos: &mut usize, depth: usize) -> Result<V, String> {
    if depth > 100000 { return Err("depth".into()); }
    let m = need(bs, pos, 1)?[0];
    match m {
        0 => { let b = need(bs, pos, 8)?; let mut a = [0u8; 8]; a.copy_from_slice(b); Ok(V::Number(u64::from_be_bytes(a))) }
        1 => Ok(V::Boolean(need(bs, pos, 1)?[0] != 0)),
        2 => { let l = need(bs, pos, 2)?; let n = ((l[0] as usize) << 8) | l[1] as usize; Ok(V::Str(need(bs, pos, n)?.to_vec())) }
        3 | 8 => {
            if m == 8 { need(bs, pos, 4)?; }
            let mut ps: Vec<(Vec<u8>, V)> = vec![];
            loop {
                let l = need(bs, pos, 2)?;
                let n = ((l[0] as usize) << 8) | l[1] as usize;
                if n == 0 {
                    let e = need(bs, pos, 1)?[0];
                    if e != 9 { return Err("empty name not followed by object-end".into()); }
                    return Ok(V::Object(ps));
                }
                let k = need(bs, pos, n)?.to_vec();
                let v = dec(bs, pos, depth + 1)?;
                if let Some(slot) = ps.iter_mut().find(|(k2, _)| *k2 == k) { slot.1 = v; } else { ps.push((k, v)); }
            }
        }
        5 => Ok(V::Null),
        6 => Ok(V::Undefined),
        10 => {
            let c = need(bs, pos, 4)?;
            let n = u32::from_be_bytes([c[0], c[1], c[2], c[3]]);
            let mut vs = vec![];
            for _ in 0..n { vs.push(dec(bs, pos, depth + 1)?); }
            Ok(V::Array(vs))
        }
        x => Err(format!("marker {}", x)),
    }
}
