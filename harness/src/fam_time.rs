//! `time a b` — every operator of `RtmpTimestamp`, including the mixed `u32` forms.
use rml_rtmp::time::RtmpTimestamp;
use std::cmp::Ordering;
use crate::util::b01;

fn ord(o: Ordering) -> &'static str {
    match o {
        Ordering::Less => "lt",
        Ordering::Equal => "eq",
        Ordering::Greater => "gt",
    }
}

pub fn time_op(a: u32, b: u32) -> String {
    let ta = RtmpTimestamp::new(a);
    let tb = RtmpTimestamp::new(b);
    let add = (ta + tb).value;
    let sub = (ta - tb).value;
    let c = ta.cmp(&tb);
    let gt = ta > tb;
    let lt = ta < tb;
    let ge = ta >= tb;
    let le = ta <= tb;
    let eq = ta == tb;
    // every mixed form must agree with the timestamp/timestamp form; report which one does not
    let mut bad = vec![];
    if (ta + b).value != add { bad.push("add_u32"); }
    if (ta - b).value != sub { bad.push("sub_u32"); }
    if ta.partial_cmp(&tb) != Some(c) { bad.push("partial_cmp"); }
    if ta.partial_cmp(&b) != Some(c) { bad.push("ts_cmp_u32"); }
    if a.partial_cmp(&tb) != Some(c) { bad.push("u32_cmp_ts"); }
    if (ta > b) != gt || (a > tb) != gt { bad.push("gt_u32"); }
    if (ta < b) != lt || (a < tb) != lt { bad.push("lt_u32"); }
    if (ta >= b) != ge || (a >= tb) != ge { bad.push("ge_u32"); }
    if (ta <= b) != le || (a <= tb) != le { bad.push("le_u32"); }
    if (ta == b) != eq || (a == tb) != eq { bad.push("eq_u32"); }
    if (ta != tb) == eq { bad.push("ne"); }
    let mut t = RtmpTimestamp::new(0);
    t.set(a);
    if t.value != a { bad.push("set"); }
    let mut s = format!("{} {} {} {} {} {} {} {}", add, sub, ord(c), b01(gt), b01(lt), b01(ge), b01(le), b01(eq));
    if !bad.is_empty() {
        s.push_str(" MIXED-DISAGREE:");
        s.push_str(&bad.join(","));
    }
    s
}

/// direct oracle for C20 on the implementation
pub fn laws(a: u32, b: u32) -> String {
    let ta = RtmpTimestamp::new(a);
    let tb = RtmpTimestamp::new(b);
    let m: u64 = 1 << 32;
    let mut bad: Vec<&str> = vec![];
    if (ta + tb).value as u64 != (a as u64 + b as u64) % m || (ta + b).value != (ta + tb).value { bad.push("add"); }
    if (ta - tb).value as u64 != (a as u64 + m - b as u64) % m || (ta - b).value != (ta - tb).value { bad.push("sub"); }
    if ((ta + tb) - tb) != ta || ((ta - tb) + tb) != ta || ((ta + b) - b) != ta || ((ta - b) + b) != ta { bad.push("inverse"); }
    if (ta.cmp(&tb) == Ordering::Equal) != (a == b) || (ta == tb) != (a == b) { bad.push("eq"); }
    if (ta < tb) != (tb > ta) || (ta > tb) != (tb < ta) || ((ta < tb) && (ta > tb)) { bad.push("antisym"); }
    let ahead = |x: u32, y: u32| -> bool { let d = (y as u64 + m - x as u64) % m; d >= 1 && d <= (1u64 << 31) - 1 };
    if (tb > ta) != ahead(a, b) || (ta > tb) != ahead(b, a) { bad.push("later"); }
    if (ta > b) != (ta > tb) || (a > tb) != (ta > tb) || (ta < b) != (ta < tb) || (a < tb) != (ta < tb)
        || (ta == b) != (ta == tb) || (a == tb) != (ta == tb) { bad.push("u32"); }
    // the total order (`Ord::cmp`, hence `max`, `min`, sorting) is the same order as the operators'
    let c = ta.cmp(&tb);
    if ta.partial_cmp(&tb) != Some(c) || (c == Ordering::Less) != (ta < tb) || (c == Ordering::Greater) != (ta > tb)
        || (std::cmp::max(ta, tb) == tb) != (c != Ordering::Greater) || (std::cmp::min(ta, tb) == ta) != (c != Ordering::Greater) { bad.push("total_order"); }
    if bad.is_empty() { "! ok".into() } else { format!("! FAIL {} {} {}", bad.join(","), a, b) }
}
