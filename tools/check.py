#!/usr/bin/env python3
"""The one entry point registered in MANIFEST.json.

    tools/check.py <ID> [--tier quick|thorough] [--replay FILE] [--keep]

1. proof:           lake build of the property's theorem module, `#print axioms` audit of every
                    theorem in it, source scan for forbidden constructs (thorough: leanchecker);
2. correspondence:  the Rust harness (real library, /repo working tree, hooks on, overflow checks on)
                    and the compiled Lean model interpret the same generated op lines; outputs diffed;
3. search:          oracle ops (`!…`) judge the property directly on the implementation.
Exit 0 iff no VIOLATION line was printed.  Evidence is rewritten on every run.
"""
import sys, os, json, time, re, hashlib, subprocess, argparse, shutil
from concurrent.futures import ThreadPoolExecutor

sys.path.insert(0, os.path.dirname(os.path.abspath(__file__)))
from common import *
import families
import registry

ALLOWED_AXIOMS = {"propext", "Classical.choice", "Quot.sound"}
FORBIDDEN = re.compile(r"\b(sorry|admit|native_decide|bv_decide|implemented_by|unsafe)\b|^\s*axiom\s|maxHeartbeats\s+0")

T0 = time.time()


def log(*a):
    print(*a, flush=True)


# ----------------------------------------------------------------------------- proof engine

def strip_comments(src):
    out, i, depth = [], 0, 0
    while i < len(src):
        if src.startswith("/-", i):
            depth += 1; i += 2; continue
        if depth and src.startswith("-/", i):
            depth -= 1; i += 2; continue
        if depth:
            if src[i] == "\n": out.append("\n")
            i += 1; continue
        if src.startswith("--", i):
            j = src.find("\n", i)
            i = len(src) if j < 0 else j
            continue
        out.append(src[i]); i += 1
    return "".join(out)


def lean_sources():
    res = []
    for root, _, fs in os.walk(os.path.join(LEAN, "Rml")):
        for f in fs:
            if f.endswith(".lean"):
                res.append(os.path.join(root, f))
    return sorted(res)


def proof_engine(pid, spec, tier):
    """returns dict(obligations, discharged, theorems, problems, checker_cmd)"""
    problems = []
    mods = spec["lean"]
    with Lock("lake"):
        rc, out = run(["lake", "build"] + mods + ["rmlmodel"], cwd=LEAN, timeout=3600)
    if rc != 0:
        problems.append("lake build failed:\n" + out[-4000:])
    # forbidden constructs anywhere in the model / lemma / property sources
    for p in lean_sources():
        code = strip_comments(open(p, encoding="utf-8").read())
        for ln, line in enumerate(code.split("\n"), 1):
            if FORBIDDEN.search(line):
                problems.append(f"forbidden construct in {p}:{ln}: {line.strip()}")
    theorems = []
    for m in mods:
        path = os.path.join(LEAN, m.replace(".", "/") + ".lean")
        code = strip_comments(open(path, encoding="utf-8").read())
        ns = None
        for line in code.split("\n"):
            mm = re.match(r"\s*namespace\s+(\S+)", line)
            if mm and ns is None:
                ns = mm.group(1)
            mm = re.match(r"\s*(?:private\s+|protected\s+)?theorem\s+(\S+)", line)
            if mm:
                theorems.append(((ns + ".") if ns else "") + mm.group(1))
    audit_dir = os.path.join(BUILD, "audit")
    os.makedirs(audit_dir, exist_ok=True)
    audit_file = os.path.join(audit_dir, pid + ".lean")
    with open(audit_file, "w") as f:
        for m in mods:
            f.write(f"import {m}\n")
        for t in theorems:
            f.write(f"#print axioms {t}\n")
    discharged = 0
    axioms_seen = set()
    if rc == 0:
        rc2, out2 = run(["lake", "env", "lean", audit_file], cwd=LEAN, timeout=1800)
        if rc2 != 0:
            problems.append("axiom audit failed:\n" + out2[-3000:])
        text = out2.replace("\n  ", " ").replace("\n ", " ")
        for t in theorems:
            m1 = re.search(r"'" + re.escape(t) + r"' depends on axioms: \[([^\]]*)\]", text)
            m0 = re.search(r"'" + re.escape(t) + r"' does not depend on any axioms", text)
            if m0:
                discharged += 1
            elif m1:
                axs = {a.strip() for a in m1.group(1).split(",") if a.strip()}
                axioms_seen |= axs
                if axs <= ALLOWED_AXIOMS:
                    discharged += 1
                else:
                    problems.append(f"theorem {t} depends on non-standard axioms {sorted(axs - ALLOWED_AXIOMS)}")
            else:
                problems.append(f"theorem {t}: no axiom report (not proved?)")
        if tier == "thorough":
            for m in mods:
                rc3, out3 = run(["lake", "env", "leanchecker", m], cwd=LEAN, timeout=3600)
                if rc3 != 0:
                    problems.append(f"leanchecker rejected {m}:\n" + out3[-2000:])
    cmd = f"cd /verif/lean && lake build {' '.join(mods)} && lake env lean {os.path.relpath(audit_file, LEAN)}"
    if tier == "thorough":
        cmd += " && lake env leanchecker " + " ".join(mods)
    return dict(obligations=len(theorems), discharged=discharged, theorems=theorems,
                problems=problems, checker_cmd=cmd, axioms=sorted(axioms_seen))


# ----------------------------------------------------------------------------- correspondence engine

def build_harness():
    with Lock("cargo"):
        # the lock file of the repository pins the dependency versions (offline registry)
        src_lock = os.path.join(REPO, "Cargo.lock")
        dst_lock = os.path.join(HARNESS_DIR, "Cargo.lock")
        if os.path.exists(src_lock) and not os.path.exists(dst_lock):
            shutil.copy(src_lock, dst_lock)
        rc, out = run(["cargo", "build", "--release", "--offline"], cwd=HARNESS_DIR, timeout=3600)
    return rc, out


def first_tok(s):
    return s.split(" ", 1)[0] if s else ""


def run_shard(workdir, name, cases, timeout):
    """cases: list of list[str] (ops without the case header).  Returns per-line records."""
    ops_path = os.path.join(workdir, name + ".ops")
    impl_path = os.path.join(workdir, name + ".impl")
    min_path = os.path.join(workdir, name + ".min")
    model_path = os.path.join(workdir, name + ".model")
    lines = []
    owner = []
    for ci, ops in enumerate(cases):
        lines.append(f"case {ci}"); owner.append(ci)
        for o in ops:
            lines.append(o); owner.append(ci)
    with open(ops_path, "w") as f:
        f.write("\n".join(lines) + "\n")
    crashed = None
    try:
        with open(ops_path) as fi, open(impl_path, "w") as fo:
            p = subprocess.run([HARNESS_BIN, "run"], stdin=fi, stdout=fo, stderr=subprocess.DEVNULL,
                               env=ENV, timeout=timeout)
        if p.returncode != 0:
            crashed = f"harness exited with status {p.returncode}"
    except subprocess.TimeoutExpired:
        crashed = f"harness did not finish within {timeout}s"
    impl = open(impl_path).read().split("\n")
    if impl and impl[-1] == "":
        impl.pop()
    with open(min_path, "w") as f:
        for i, l in enumerate(lines):
            if l.startswith("?"):
                f.write(l + " => " + (impl[i] if i < len(impl) else "") + "\n")
            else:
                f.write(l + "\n")
    with open(min_path) as fi, open(model_path, "w") as fo:
        pm = subprocess.run([MODEL_BIN], stdin=fi, stdout=fo, stderr=subprocess.PIPE, env=ENV, timeout=timeout * 4)
    model = open(model_path).read().split("\n")
    if model and model[-1] == "":
        model.pop()
    model_err = None
    if pm.returncode != 0 or len(model) != len(lines):
        model_err = f"model driver exit {pm.returncode}, {len(model)} of {len(lines)} lines: {pm.stderr.decode(errors='replace')[-300:]}"
    return dict(lines=lines, owner=owner, impl=impl, model=model, crashed=crashed, model_err=model_err)


def compare(rec, fam):
    """-> (oracle_failures, mismatches) as lists of (case_index, line_index, text)"""
    fails, mism = [], []
    lines, impl, model, owner = rec["lines"], rec["impl"], rec["model"], rec["owner"]
    for i, l in enumerate(lines):
        if l.startswith("case "):
            continue
        im = impl[i] if i < len(impl) else None
        mo = model[i] if i < len(model) else None
        if im is None:
            if i == len(impl):
                fails.append((owner[i], i, f"implementation aborted or hung at this op ({rec['crashed']})"))
            continue
        if l.startswith("!"):
            if not im.startswith("! ok"):
                fails.append((owner[i], i, im))
            continue
        if fam.panic_is_failure and first_tok(im) == "panic":
            fails.append((owner[i], i, im))
        if " ORACLE-FAIL:" in im:
            # an independent tracker inside the harness judged the real code's behaviour against the property
            fails.append((owner[i], i, "! FAIL " + im[im.index(" ORACLE-FAIL:") + 13:]))
            im = im[:im.index(" ORACLE-FAIL:")]
        if " MIXED-DISAGREE:" in im:
            # C20: one entry point of the timestamp type (mixed u32 form, partial_cmp, set) disagrees with the others
            fails.append((owner[i], i, "! FAIL entry-points-disagree " + im[im.index(" MIXED-DISAGREE:") + 16:]))
        if " ALLOC-EXCEEDED" in im:
            fails.append((owner[i], i, "! FAIL allocation " + im[im.index(" ALLOC-EXCEEDED"):]))
            im = im[:im.index(" ALLOC-EXCEEDED")]
        if mo is None:
            mism.append((owner[i], i, "model produced no output: " + str(rec["model_err"])))
            continue
        if l.startswith("?"):
            if mo != "ok":
                mism.append((owner[i], i, f"impl={im} model-verdict={mo}"))
            continue
        if first_tok(im) == "panic" and first_tok(mo) == "panic":
            continue
        if im != mo:
            mism.append((owner[i], i, f"impl={im} model={mo}"))
    return fails, mism


def quick_eval(ops, workdir, tag):
    rec = run_shard(workdir, tag, [ops], 120)
    return rec


def shrink_case(ops, fam, workdir, kind, needle=None):
    """ddmin over op lines keeping the failure kind ('oracle' or 'mismatch')."""
    counter = [0]

    t_start = time.time()

    def test(sub):
        counter[0] += 1
        # bounded: a hanging op costs the watchdog limit per attempt
        if counter[0] > 400 or time.time() - t_start > 150:
            return False
        rec = quick_eval(sub, workdir, "shrink")
        f, m = compare(rec, fam)
        if kind == "oracle":
            return any((needle is None or first_words(x[2]) == needle) for x in f)
        return len(m) > 0 and not f

    try:
        if test(ops):
            return ddmin(ops, test)
    except Exception:
        pass
    return ops


def first_words(s, n=3):
    return " ".join(s.split(" ")[:n])


# ----------------------------------------------------------------------------- main

def main():
    ap = argparse.ArgumentParser()
    ap.add_argument("pid")
    ap.add_argument("--tier", default=os.environ.get("VERIF_TIER", "quick"))
    ap.add_argument("--replay")
    ap.add_argument("--no-proof", action="store_true", help="(debugging) skip the proof engine")
    args = ap.parse_args()
    pid = args.pid
    tier = args.tier if args.tier in ("quick", "thorough") else "quick"
    try:
        seed = int(os.environ.get("VERIF_SEED", "1"))
    except ValueError:
        seed = 1
    spec = registry.PROPS[pid]
    workdir = os.path.join(BUILD, "run", pid)
    shutil.rmtree(workdir, ignore_errors=True)
    os.makedirs(workdir, exist_ok=True)
    replay_dir = os.path.join(BUILD, "replay")
    os.makedirs(replay_dir, exist_ok=True)
    known = json.load(open(os.path.join(VERIF, "known_findings.json")))
    known_here = [k for k in known.get("known", []) if k["property"] == pid]

    violations = []   # (replay_path, suffix)
    notes = []

    # ---- builds
    if args.no_proof:
        proof = dict(obligations=0, discharged=0, theorems=[], problems=[], checker_cmd="(skipped)", axioms=[])
        with Lock("lake"):
            run(["lake", "build", "rmlmodel"], cwd=LEAN, timeout=3600)
    else:
        proof = proof_engine(pid, spec, tier)
    log(f"[{pid}] proof: {proof['discharged']}/{proof['obligations']} theorems discharged, axioms {proof['axioms']} ({time.time()-T0:.1f}s)")
    rc, out = build_harness()
    harness_ok = rc == 0
    if not harness_ok:
        path = os.path.join(replay_dir, f"{pid}-harness-build.log")
        open(path, "w").write("The correspondence harness no longer builds against /repo's working tree, so the\n"
                              "correspondence stream(s) " + ", ".join(spec["families"]) + f" of {pid} cannot be checked.\n\n" + out[-8000:])
        violations.append((path, "no-failing-input-found"))

    if args.replay:
        return do_replay(args.replay, pid)

    # ---- generate
    all_stats = {}
    evaluations = 0
    distinct = set()
    samples = []
    traces = 0
    oracle_fail_total, mismatch_total = [], []
    known_hits = {}
    if harness_ok and os.path.exists(MODEL_BIN):
        rng = Rng(seed)
        for fname in spec["families"]:
            fam = families.FAMILIES[fname]
            cases = []
            # corpus first
            cdir = os.path.join(VERIF, "corpus", fname)
            if os.path.isdir(cdir):
                for cf in sorted(os.listdir(cdir)):
                    if cf.endswith(".case"):
                        ops = [l for l in open(os.path.join(cdir, cf)).read().split("\n") if l and not l.startswith("#")]
                        cases.append(ops)
            ncorpus = len(cases)
            stats = {}
            for ops in fam.gen(rng.fork(fname), tier, pid, stats):
                cases.append(ops)
            all_stats[fname] = stats
            stats["corpus_cases"] = ncorpus
            stats["cases"] = len(cases)
            nshards = 16 if len(cases) >= 64 else 1
            shards = [cases[i::nshards] for i in range(nshards)]
            tmo = fam.timeout_s * (4 if tier == "thorough" else 1)
            with ThreadPoolExecutor(max_workers=16) as ex:
                recs = list(ex.map(lambda a: run_shard(workdir, f"{fname}-{a[0]}", a[1], tmo), enumerate(shards)))
            nlines = 0
            for si, rec in enumerate(recs):
                if rec["model_err"]:
                    notes.append(f"{fname} shard {si}: {rec['model_err']}")
                fails, mism = compare(rec, fam)
                nlines += sum(1 for l in rec["lines"] if not l.startswith("case "))
                # what the real code answered, per op kind (branches / error kinds reached)
                oc = stats.setdefault("impl_outcomes", {})
                for l, im in zip(rec["lines"], rec["impl"]):
                    if l.startswith("case ") or im is None:
                        continue
                    t = first_tok(im)
                    if t in ("!", "ok") and len(im.split(" ")) > 1:
                        t = t + " " + im.split(" ")[1]
                    key = l.split(" ", 1)[0] + " -> " + re.sub(r"[0-9a-f]{6,}|\d+", "#", t)[:40]
                    oc[key] = oc.get(key, 0) + 1
                for (ci, li, txt) in fails:
                    oracle_fail_total.append((fname, shards[si][ci], rec["lines"][li], txt))
                for (ci, li, txt) in mism:
                    mismatch_total.append((fname, shards[si][ci], rec["lines"][li], txt))
            for ops in cases:
                evaluations += 1
                if fam.nontrivial(ops):
                    distinct.add(hashlib.sha1("\n".join(ops).encode()).hexdigest())
            traces += len(cases)
            stats["op_lines"] = nlines
            for ops in cases[ncorpus:ncorpus + 2] + cases[-1:]:
                samples.append({"family": fname, "ops": [o if len(o) < 300 else o[:300] + "…" for o in ops[:12]]})
            log(f"[{pid}] family {fname}: {len(cases)} cases, {nlines} op lines ({time.time()-T0:.1f}s)")

    # ---- classify oracle failures
    unknown_fail = []
    for (fname, ops, line, txt) in oracle_fail_total:
        hit = None
        for k in known_here:
            if families.matches_known(k, fname, ops, line, txt):
                hit = k; break
        if hit:
            known_hits.setdefault(hit["id"], []).append((fname, ops, line, txt))
        else:
            unknown_fail.append((fname, ops, line, txt))

    for k in known_here:
        hits = known_hits.get(k["id"], [])
        if hits:
            log(f"KNOWN-FINDING: property={pid} {k['id']} {k['what']} (re-confirmed on {len(hits)} case(s) this run, e.g. `{hits[0][2][:120]}`)")
        else:
            notes.append(f"known finding {k['id']} was not reproduced in this run")
            log(f"[{pid}] note: known finding {k['id']} did not reproduce in this run (not suppressing anything)")

    seen_kinds = set()
    for (fname, ops, line, txt) in unknown_fail:
        kind = (fname, first_words(txt))
        if kind in seen_kinds:
            continue
        seen_kinds.add(kind)
        if len(seen_kinds) > 5:
            break
        fam = families.FAMILIES[fname]
        small = shrink_case(ops, fam, workdir, "oracle", first_words(txt))
        # a shrunk case must not have turned into a known finding
        path = os.path.join(replay_dir, f"{pid}-{fname}-oracle-{len(seen_kinds)}.json")
        json.dump({"property": pid, "family": fname, "kind": "implementation breaks the property (oracle op failed on the real code)",
                   "failing_op": line, "oracle_output": txt, "ops": small, "original_ops": ops if len(ops) < 200 else ops[:200],
                   "seed": seed, "tier": tier,
                   "replay": f"python3 /verif/tools/check.py {pid} --replay {path}"}, open(path, "w"), indent=1)
        violations.append((path, ""))

    if mismatch_total:
        fname, ops, line, txt = mismatch_total[0]
        fam = families.FAMILIES[fname]
        small = shrink_case(ops, fam, workdir, "mismatch")
        path = os.path.join(replay_dir, f"{pid}-{fname}-correspondence.json")
        json.dump({"property": pid, "family": fname,
                   "kind": "model disagreement: the Lean model and the implementation differ, so the theorems of "
                           + ", ".join(spec["lean"]) + " no longer speak about this code",
                   "correspondence_stream": fname, "theorems_no_longer_tied": proof["theorems"],
                   "first_differing_op": line, "difference": txt, "ops": small,
                   "mismatching_lines_total": len(mismatch_total), "seed": seed, "tier": tier,
                   "replay": f"python3 /verif/tools/check.py {pid} --replay {path}"}, open(path, "w"), indent=1)
        if unknown_fail:
            notes.append(f"correspondence also broken ({len(mismatch_total)} lines), see {path}")
        else:
            violations.append((path, "no-failing-input-found"))

    if proof["problems"] or proof["discharged"] != proof["obligations"]:
        path = os.path.join(replay_dir, f"{pid}-proof.txt")
        open(path, "w").write(f"Proof obligations of {pid} that no longer check:\n\n" + "\n\n".join(proof["problems"]) + "\n")
        violations.append((path, "" if unknown_fail else "no-failing-input-found"))

    for n in notes:
        log(f"[{pid}] note: {n}")

    # ---- evidence
    wall = time.time() - T0
    ev = {
        "property_id": pid, "tier": tier, "seed": seed, "level": "proof",
        "coverage": {
            "obligations": proof["obligations"], "discharged": proof["discharged"],
            "checker_cmd": proof["checker_cmd"],
            "trusted_base": registry.TRUSTED_BASE + spec.get("trusted", []),
            "theorems": proof["theorems"], "axioms_used": proof["axioms"],
            "evaluations": evaluations, "distinct_nontrivial": len(distinct),
            "rule": " | ".join(f"{f}: {families.FAMILIES[f].rule}" for f in spec["families"]),
            "samples": samples[:8],
            "traces_validated_against_impl": traces,
            "input_distribution": all_stats,
            "oracle_failures_known": {k: len(v) for k, v in known_hits.items()},
            "oracle_failures_unknown": len(unknown_fail),
            "model_disagreements": len(mismatch_total),
            "explanation": spec.get("explanation", ""),
        },
        "assumptions": spec.get("assumptions", []),
        "wall_s": round(wall, 2),
        "violations": len(violations),
    }
    os.makedirs(os.path.join(VERIF, "evidence"), exist_ok=True)
    # a debugging run without the proof engine describes less than the registered check covers: it goes to
    # build/, never to the committed evidence
    evdir = os.path.join(BUILD, "evidence-debug") if args.no_proof else os.path.join(VERIF, "evidence")
    if os.environ.get("VERIF_EVIDENCE_DIR"):
        # runs against a deliberately modified /repo (tools/seedtest.py) must not touch the committed evidence
        evdir = os.environ["VERIF_EVIDENCE_DIR"]
    os.makedirs(evdir, exist_ok=True)
    json.dump(ev, open(os.path.join(evdir, pid + ".json"), "w"), indent=1)

    for (path, suffix) in violations:
        log(f"VIOLATION property={pid} replay={path}" + (f" {suffix}" if suffix else ""))
    log(f"[{pid}] {'FAIL' if violations else 'ok'}: {evaluations} cases, {len(distinct)} distinct non-trivial, "
        f"{len(mismatch_total)} model disagreements, {len(unknown_fail)} unlisted oracle failures, {wall:.1f}s")
    sys.exit(1 if violations else 0)


def do_replay(path, pid):
    workdir = os.path.join(BUILD, "run", pid)
    if path.endswith(".json"):
        d = json.load(open(path))
        fname, ops = d["family"], d["ops"]
    else:
        fname = os.path.basename(os.path.dirname(os.path.abspath(path)))
        ops = [l for l in open(path).read().split("\n") if l and not l.startswith("#")]
    fam = families.FAMILIES[fname]
    rec = run_shard(workdir, "replay", [ops], 600)
    for i, l in enumerate(rec["lines"]):
        im = rec["impl"][i] if i < len(rec["impl"]) else "<no output: aborted/hung>"
        mo = rec["model"][i] if i < len(rec["model"]) else "<no output>"
        log(f"op    {l[:400]}\n impl  {im[:400]}\n model {mo[:400]}")
    fails, mism = compare(rec, fam)
    log(f"oracle failures: {len(fails)}; model disagreements: {len(mism)}")
    for f in fails:
        log("  oracle:", f[2][:300])
    for m in mism:
        log("  mismatch:", m[2][:300])
    if fails or mism:
        log(f"VIOLATION property={pid} replay={path}")
        sys.exit(1)
    sys.exit(0)


if __name__ == "__main__":
    main()
