"""Shared helpers for the /verif runner: paths, PRNG, process helpers, ddmin."""
import os, subprocess, json, hashlib, fcntl, time, re

VERIF = os.path.dirname(os.path.dirname(os.path.abspath(__file__)))
REPO = os.environ.get("VERIF_REPO", "/repo")
BUILD = os.path.join(VERIF, "build")
LEAN = os.path.join(VERIF, "lean")
HARNESS_DIR = os.path.join(VERIF, "harness")
CARGO_TARGET = os.path.join(BUILD, "cargo-target")
HARNESS_BIN = os.environ.get("VERIF_HARNESS_BIN") or os.path.join(CARGO_TARGET, "release", "rml-verif-harness")
MODEL_BIN = os.path.join(LEAN, ".lake", "build", "bin", "rmlmodel")
M32 = 1 << 32

ENV = dict(os.environ)
ENV.update({"CARGO_NET_OFFLINE": "true", "GOPROXY": "off", "PIP_NO_INDEX": "1"})


class Rng:
    """SplitMix64; every random choice of a run derives from one seed."""

    def __init__(self, seed):
        self.s = seed & 0xFFFFFFFFFFFFFFFF

    def next(self):
        self.s = (self.s + 0x9E3779B97F4A7C15) & 0xFFFFFFFFFFFFFFFF
        z = self.s
        z = ((z ^ (z >> 30)) * 0xBF58476D1CE4E5B9) & 0xFFFFFFFFFFFFFFFF
        z = ((z ^ (z >> 27)) * 0x94D049BB133111EB) & 0xFFFFFFFFFFFFFFFF
        return z ^ (z >> 31)

    def below(self, n):
        return self.next() % n if n > 0 else 0

    def range(self, lo, hi):  # inclusive
        return lo + self.below(hi - lo + 1)

    def choice(self, xs):
        return xs[self.below(len(xs))]

    def chance(self, num, den):
        return self.below(den) < num

    def bytes(self, n):
        out = bytearray()
        while len(out) < n:
            out += self.next().to_bytes(8, "little")
        return bytes(out[:n])

    def fork(self, tag):
        h = hashlib.sha256(f"{self.s}:{tag}".encode()).digest()
        return Rng(int.from_bytes(h[:8], "little"))


class Lock:
    def __init__(self, name):
        os.makedirs(BUILD, exist_ok=True)
        self.path = os.path.join(BUILD, name + ".lock")

    def __enter__(self):
        self.f = open(self.path, "w")
        fcntl.flock(self.f, fcntl.LOCK_EX)
        return self

    def __exit__(self, *a):
        fcntl.flock(self.f, fcntl.LOCK_UN)
        self.f.close()


def run(cmd, cwd=None, timeout=None, input=None):
    p = subprocess.run(cmd, cwd=cwd, env=ENV, stdout=subprocess.PIPE, stderr=subprocess.STDOUT,
                       timeout=timeout, input=input, text=True)
    return p.returncode, p.stdout


def hexb(bs):
    return bs.hex() if bs else "-"


def ddmin(items, test):
    """Classic delta debugging: smallest sublist (order kept) for which test(sublist) is True."""
    n = 2
    items = list(items)
    while len(items) >= 2:
        chunk = max(1, len(items) // n)
        subsets = [items[i:i + chunk] for i in range(0, len(items), chunk)]
        reduced = False
        for i in range(len(subsets)):
            comp = [x for j, s in enumerate(subsets) if j != i for x in s]
            if comp and test(comp):
                items = comp
                n = max(n - 1, 2)
                reduced = True
                break
        if not reduced:
            if chunk == 1:
                break
            n = min(len(items), n * 2)
    return items


def harvest_literals(files):
    """Integer literals present in the anchored source files (so a shifted constant is tested at its
    new edge)."""
    vals = set()
    for f in files:
        p = os.path.join(REPO, f)
        try:
            src = open(p, encoding="utf-8", errors="replace").read()
        except OSError:
            continue
        # drop the test modules: their literals are sample data, not thresholds
        cut = src.find("#[cfg(test)]")
        if cut >= 0:
            src = src[:cut]
        for m in re.finditer(r"\b(0x[0-9a-fA-F_]+|\d[\d_]*)(?:u8|u16|u32|u64|usize|i32|i64|f64)?\b", src):
            t = m.group(1).replace("_", "")
            try:
                v = int(t, 16) if t.startswith("0x") else int(t)
            except ValueError:
                continue
            if v < (1 << 33):
                vals.add(v)
    return sorted(vals)


def bump(stats, key, n=1):
    stats[key] = stats.get(key, 0) + n
