#!/usr/bin/env python3
"""Writes /verif/MANIFEST.json from tools/registry.py (so the two cannot drift)."""
import json, os, sys
sys.path.insert(0, os.path.dirname(os.path.abspath(__file__)))
import registry
VERIF = os.path.dirname(os.path.dirname(os.path.abspath(__file__)))
ids = [json.loads(l)["id"] for l in open(os.path.join(VERIF, "properties.jsonl"))]
checks = []
for pid in ids:
    if pid not in registry.PROPS or registry.PROPS[pid].get('level_text') == 'wip':
        continue
    s = registry.PROPS[pid]
    checks.append({
        "property_id": pid,
        "quick_cmd": f"python3 tools/check.py {pid} --tier quick",
        "thorough_cmd": f"python3 tools/check.py {pid} --tier thorough",
        "evidence_file": f"/verif/evidence/{pid}.json",
        "replay_cmd_template": f"python3 tools/check.py {pid} --replay {{path}}",
        "engine": "lean-proof+correspondence",
        "level_claimed": {"category": "proof", "text": s["level_text"], "design_ref": s.get("design_ref", "DESIGN.md §5 " + pid)},
        "level_note": s["level_note"],
        "technique": s.get("technique", "Lean 4 theorems (induction/invariants over a hand-written executable model) + differential correspondence check model vs. real code"),
    })
na = [{"property_id": pid, "reason": registry.NOT_APPLICABLE.get(pid, "not claimed yet: model, correspondence and theorems for this property are still being built (see DESIGN.md §10)")}
      for pid in ids if pid not in registry.PROPS or registry.PROPS[pid].get('level_text') == 'wip']
m = {
    "version": 1,
    "setup_cmd": "cd /verif && python3 tools/setup.py",
    "hooks": registry.HOOKS,
    "engines": [
        {"name": "lean-proof+correspondence", "path": "tools/check.py", "serves_properties": [c["property_id"] for c in checks],
         "kind_free_text": "Lean 4 machine-checked theorems about a hand-written executable model (lean/Rml), axiom audit per theorem; model tied to /repo on every run by a differential correspondence check (harness/ drives the real library, lean_exe rmlmodel interprets the same op lines) plus direct property oracles on the implementation that supply the failing input"}],
    "checks": checks,
    "not_applicable": na,
    "notes": registry.NOTES,
}
json.dump(m, open(os.path.join(VERIF, "MANIFEST.json"), "w"), indent=1)
print("claimed:", [c["property_id"] for c in checks]); print("not claimed:", [n["property_id"] for n in na])
