"""Generators of op-line cases per correspondence family, non-triviality rules, and the classifiers
that decide whether an oracle failure is one of the listed known findings."""
from common import *


class Family:
    name = ""
    rule = ""
    timeout_s = 300
    panic_is_failure = True
    anchored = []

    def gen(self, rng, tier, pid, stats):
        return []

    def nontrivial(self, ops):
        return len(ops) > 0


# ------------------------------------------------------------------------------------------- time
class TimeFamily(Family):
    name = "time"
    rule = ("one case = one pair (a,b): all operators incl. mixed u32 forms (`time a b`) and the direct law oracle "
            "(`!time.laws a b`); pairs from the boundary grid (protocol edges ∪ integer literals harvested from "
            "rtmp/src/time.rs ± 1) squared, plus random (a, a+d) with boundary-biased d; non-trivial = a ≠ b; "
            "distinct = distinct (a,b)")
    anchored = ["rtmp/src/time.rs"]

    def gen(self, rng, tier, pid, stats):
        edges = {0, 1, 2, (1 << 31) - 2, (1 << 31) - 1, 1 << 31, (1 << 31) + 1, M32 - 2, M32 - 1, 0xFFFFFF, 0x1000000}
        lits = harvest_literals(self.anchored)
        for v in lits:
            for d in (-1, 0, 1):
                edges.add((v + d) % M32)
        edges = sorted(edges)
        stats["grid_values"] = len(edges)
        stats["harvested_literals"] = [v for v in lits if v > 255][:20]
        for a in edges:
            for b in edges:
                bump(stats, "grid_pairs")
                yield [f"time {a} {b}", f"!time.laws {a} {b}"]
        n = 20000 if tier == "quick" else 300000
        for _ in range(n):
            a = rng.below(M32)
            k = rng.below(4)
            if k == 0:
                d = rng.choice(edges)
            elif k == 1:
                d = (rng.choice(edges) + rng.range(-3, 3)) % M32
            elif k == 2:
                d = rng.below(M32)
            else:
                d = rng.below(1 << rng.range(1, 32))
            b = (a + d) % M32
            dist = (b - a) % M32
            bump(stats, "dist_lt_2^31" if dist < (1 << 31) else ("dist_eq_2^31" if dist == (1 << 31) else "dist_gt_2^31"))
            if a + d >= M32:
                bump(stats, "wraps")
            yield [f"time {a} {b}", f"!time.laws {a} {b}"]

    def nontrivial(self, ops):
        t = ops[0].split(" ")
        return t[1] != t[2]


# -------------------------------------------------------------------------------------------- amf
import gen_amf as GA


def mutate(rng, b):
    b = bytearray(b)
    if not b:
        return bytes([rng.below(256)])
    k = rng.below(7)
    if k == 0:
        b[rng.below(len(b))] ^= 1 << rng.below(8)
    elif k == 1:
        del b[rng.below(len(b)):]
    elif k == 2:
        i = rng.below(len(b)); b[i:i] = rng.bytes(rng.range(1, 4))
    elif k == 3:
        i = rng.below(len(b)); del b[i:i + rng.range(1, 4)]
    elif k == 4:
        b[rng.below(len(b))] = rng.choice([0, 1, 2, 3, 5, 6, 8, 9, 10, 0xff, 0x80])
    elif k == 5:
        b += rng.bytes(rng.range(1, 6))
    else:
        i = rng.below(len(b)); b[i] = rng.below(256)
    return bytes(b)


class AmfFamily(Family):
    name = "amf"
    anchored = ["amf0/src/serialization.rs", "amf0/src/deserialization.rs", "amf0/src/lib.rs"]
    rule = ("one case = one generated value sequence V (type-directed: all 7 variants, numbers from NaN/inf/±0/subnormal "
            "edges or random bit patterns, strings incl. empty, 4-byte UTF-8, lengths 65534..70000, objects with 0..5 "
            "distinct names incl. prefixes of one another, and — in the 'bad' stream — empty and >65535-byte names; depth "
            "≤ 5, plus nesting chains around the depth limit 126..130) exercised by: ?amf.enc (encoder vs model modulo map "
            "order), !amf.rt (C04 oracle + reference decoder), !amf.refdec (foreign conformant encoding → library decoder), "
            "!amf.trunc (every truncation point), amf.dec of the canonical bytes and of 2 mutations (decoder vs model); "
            "fixed part: all 256 marker bytes × 3 tails, UTF-8 validity of malformed strings; non-trivial = the value "
            "sequence contains a container or a string; distinct = distinct op text")

    def gen(self, rng, tier, pid, stats):
        """Ops are tailored to the property so that a change which breaks only a sibling property does not
        disturb this one: C04 needs encoder + decoder-on-encoder-output; C12 needs everything; C19 the limits."""
        c12 = pid in ("C12", "C03")
        c04 = pid in ("C04", "C19")

        def for_value(vs, cuts=True):
            t = GA.texts(vs)
            ok = all(GA.expressible(v) for v in vs)
            ops = [f"?amf.enc {t}"]
            if c04:
                ops.append(f"!amf.rt {t}")
            if c12:
                ops.append(f"!amf.spec {t}")
            if ok:
                b = GA.encs(vs)
                if len(b) < 200000:
                    ops.append(f"amf.dec {GA.btok(b)}")
                    bump(stats, "decoder_inputs_canonical")
                if c12:
                    ops.append(f"!amf.refdec {t} {rng.below(1 << 32)}")
                    if len(b) < 4000 and cuts:
                        ops.append(f"!amf.trunc {t}")
                        for _ in range(2):
                            ops.append(f"amf.dec {GA.btok(mutate(rng, b))}")
                        ops.append(f"amf.dec {GA.btok(b[:rng.below(len(b) + 1)])}")
                        bump(stats, "decoder_inputs_mutated_or_cut", 3)
            return ops

        # fixed, seed-independent part --------------------------------------------------------
        if c12:
            tails = ["-", "00", "000000000000000000000000"]
            for m in range(256):
                ops = []
                for t in tails:
                    ops.append(f"amf.dec {m:02x}{'' if t == '-' else t}")
                    ops.append(f"!amf.marker {m} {t}")
                bump(stats, "marker_cases")
                yield ops
            # a name that occurs more than once in one object denotes its LAST value (wire order kept by the independent encoder)
            N1, N2, N3 = ("n", 0x3FF0000000000000), ("n", 0x4000000000000000), ("n", 0x4008000000000000)
            dups = [[("o", [(b"a", N1), (b"b", ("s", b"x")), (b"a", N2)])],
                    [("o", [(b"a", ("z",)), (b"a", ("u",))])],
                    [("o", [(b"a", ("u",)), (b"a", ("z",)), (b"a", ("b", True))])],
                    [("o", [(b"k", ("o", [(b"x", N1), (b"x", N2), (b"x", N3)])), (b"k", ("s", b"last"))]), N3],
                    [("a", [("o", [(b"a", N1), (b"a", ("a", [N3]))])]), ("s", b"after")],
                    [("s", b"cmd"), N1, ("o", [(b"app", ("s", b"first")), (b"tcUrl", ("s", b"u")), (b"app", ("s", b"second"))])],
                    [("o", [(b"a", N1), (b"b", N2), (b"b", N3), (b"a", ("o", [(b"a", N1), (b"a", N2)]))])]]
            for vs in dups:
                t = GA.texts(vs)
                bump(stats, "repeated_name_cases")
                yield [f"!amf.dupnames {t}"]
            # ... and wherever else a type marker is expected: after complete values, inside open containers
            prefixes = ["05", "0000000000000000" + "00", "02000161", "0502000161" + "0100", "0300016105000009",
                        "03000161", "0a00000002", "0a0000000205", "080000000100016b", "0300016103000162", "05" + "0a00000001",
                        "020003616263" + "03000161" + "0a00000003" + "05", "0300016105" + "000162"]
            for m in [4, 7, 11, 12, 13, 14, 15, 16, 17, 18, 64, 127, 128, 254, 255]:
                ops = []
                for pre in prefixes:
                    for t in ["-", "00", "000000000000000000000000"]:
                        ops.append(f"amf.dec {pre}{m:02x}{'' if t == '-' else t}")
                        ops.append(f"!amf.markerat {pre} {m} {t}")
                bump(stats, "marker_after_prefix_cases")
                yield ops
            bad_utf8 = ["80", "c0af", "c1bf", "e08080", "e09f80", "eda080", "edbfbf", "f08080af", "f0808080", "f4908080", "f5808080",
                        "c2", "e282", "f09f98", "ff", "fe", "c280", "e0a080", "ed9fbf", "ee8080", "f0908080", "f48fbfbf", "dfbf", "efbfbf",
                        "61c2", "c2c2", "e2e2", "f8888080"]
            yield [f"utf8 {h}" for h in bad_utf8] + [f"amf.dec 02{len(bytes.fromhex(h)):04x}{h}" for h in bad_utf8]
            # boolean bytes, ECMA arrays, duplicate names, sentinel positions
            yield ["amf.dec 0100", "amf.dec 0101", "amf.dec 0102", "amf.dec 01ff", "amf.dec 0180", "amf.dec 01",
                   "amf.dec 080000000000016105000009", "amf.dec 08ffffffff00016105000009",
                   "amf.dec 030001610500016106000009", "amf.dec 03000009", "amf.dec 030000", "amf.dec 03000005",
                   "amf.dec 0300016109", "amf.dec 03000161", "amf.dec 0a0000000205", "amf.dec 0a00000002050905", "amf.dec 050905",
                   "amf.dec 09", "amf.dec -", "amf.dec 0a00000000", "amf.dec 0a000000", "amf.dec 0200", "amf.dec 02000161",
                   "amf.dec 0000", "amf.dec 003ff0000000000000"]
        # nesting around the limit
        for kind in ("a", "o", "m"):
            for n in (1, 2, 126, 127, 128, 129, 130, 200):
                bump(stats, "nesting_chain_cases")
                yield for_value([GA.nest(kind, n)], cuts=False)
        # wide containers: element / property counts at powers of two, at the u16 edge, and at every integer literal
        # present in the anchored sources (±1), so that a count limit introduced there is met at its edge
        counts = {255, 256, 257, 1023, 1024, 1025, 4095, 4096, 4097, 65535, 65536, 65537}
        for v in harvest_literals(self.anchored):
            counts.update({v - 1, v, v + 1})
        cap = 70000 if tier == "quick" else 300000
        counts = sorted(c for c in counts if 16 <= c <= cap)
        stats["wide_container_counts"] = counts[:40]
        for n in counts:
            arr = ("a", [("z",)] * n)
            shapes = [[arr, ("b", True)], [("o", [(b"k", arr), (b"j", ("n", 5))])], [("a", [arr, ("u",)])]]
            if n <= 3000:
                shapes.append([("o", [(b"p%d" % i, ("b", i % 2 == 0)) for i in range(n)]), ("z",)])
            for vs in shapes:
                bump(stats, "wide_container_cases")
                if n <= 5000:
                    yield for_value(vs, cuts=False)       # model included (its list appends are quadratic: small n only)
                else:
                    t = GA.texts(vs)
                    yield ([f"!amf.rt {t}"] if c04 else []) + ([f"!amf.spec {t}", f"!amf.refdec {t} {rng.below(1 << 32)}"] if c12 else [])
        # long strings / names, empty names
        for n in (65534, 65535, 65536, 70000):
            yield for_value([("s", b"x" * n)], cuts=False) + for_value([("o", [(b"x" * n, ("z",))])], cuts=False)
        yield for_value([("o", [(b"", ("z",))])]) + for_value([("a", [("o", [(b"a", ("o", [(b"", ("b", True))]))])])])
        # random part ---------------------------------------------------------------------------
        n = 1500 if tier == "quick" else 20000
        for i in range(n):
            bad = rng.chance(1, 5)
            vs = [GA.gen_val(rng, rng.choice([0, 1, 2, 3, 5]), allow_bad=bad) for _ in range(rng.choice([1, 1, 2, 3]))]
            if rng.chance(1, 40):
                vs = []
            ok = all(GA.expressible(v) for v in vs)
            bump(stats, "expressible" if ok else "inexpressible")
            bump(stats, f"maxdepth_{max([GA.depth(v) for v in vs] + [0])}")
            yield for_value(vs)

    def nontrivial(self, ops):
        return any(("o{" in o or "a[" in o or " s" in o or o.startswith("amf.dec")) for o in ops)


class AmfAdvFamily(Family):
    name = "amfadv"
    timeout_s = 900
    anchored = ["amf0/src/deserialization.rs"]
    rule = ("C14 adversarial decoder inputs, each decoded by the real library on a thread with a 512 KiB stack under the "
            "counting allocator (oracle: returns, no abort, peak allocation ≤ 4·sizeof(Amf0Value)·len + 128 KiB): nested "
            "arrays/objects/ECMA arrays/mixtures at depth len/5 … len/8 up to the tier's size, count fields 2^32-1 with no "
            "elements, declared string length 65535 with 3 bytes, many tiny values, many properties; plus amf.dec "
            "correspondence on run-length encoded deep inputs around the limit; non-trivial = every case; distinct = distinct op text")

    def gen(self, rng, tier, pid, stats):
        big = 200_000 if tier == "quick" else 3_300_000
        for kind in ("arr", "obj", "ecma", "mix", "count"):
            for n in (1, 127, 128, 129, 1000, 20000, big):
                bump(stats, f"adv_{kind}")
                yield [f"!amf.adv {kind} {n} 512"]
        for kind in ("edge_obj", "edge_arr", "edge_ecma"):
            for n in (0, 1, 62, 63, 64, 125, 126, 127, 128, 129):
                bump(stats, "adv_edge")
                yield [f"!amf.adv {kind} {n} 512"]
        for m in range(256):
            bump(stats, "adv_run_of_one_byte")
            yield [f"!amf.adv run {m} 512"]
        for n in (0, 10, 70000):
            yield [f"!amf.adv strlen {n} 512"]
        for n in (1000, 100000, 1000000 if tier == "quick" else 16_000_000):
            yield [f"!amf.adv nulls {n} 512"]
        for n in (10, 1000, 100000 if tier == "quick" else 2_000_000):
            yield [f"!amf.adv props {n} 512"]
            yield [f"!amf.adv widearr {n} 512"]
        for unit in ("0a00000001", "03000161", "08ffffffff000161", "0a00000002"):
            for n in (127, 128, 129, 500, 5000):
                bump(stats, "deep_corr")
                yield [f"amf.dec {unit}*{n}", f"amf.dec {unit}*{n}.05"]
        yield ["amf.dec 0affffffff", "amf.dec 0affffffff05", "amf.dec 02ffff616263", "amf.dec 08ffffffff", "amf.dec 0affffffff*100"]
        for _ in range(50 if tier == "quick" else 500):
            # random mixtures of container openers with occasional closers
            parts = []
            for _ in range(rng.range(1, 300)):
                parts.append(rng.choice(["0a00000001", "0a00000003", "03000161", "0800000000000162", "000009", "05", "0100", "09"]))
            yield ["amf.dec " + "".join(parts)]


# ------------------------------------------------------------------------------------------ chunk
import gen_chunk as GC
import itertools


class ChunkFamily(Family):
    name = "chunk"
    timeout_s = 600
    anchored = ["rtmp/src/chunk_io/serializer.rs", "rtmp/src/chunk_io/deserializer.rs"]
    rule = ("one case = one serializer history (ser.msg / ser.setcs ops; alphabet built from header-relevant features: type ids "
            "of all five csid classes, stream ids, timestamp moves {equal, +small, same delta again, falling, delta = 0xFFFFFF / "
            "0xFFFFFE / > 2^24, absolute 0xFFFFFF edge, delta = previous absolute, wrap past 2^32, antipodal, random}, lengths "
            "{0, 1, cs-1, cs, cs+1, 2cs, 3cs+1, same as previous, small}, both flags, chunk-size changes {1,2,3,4,5,127,128,129,"
            "4096,65536,2^31-1,random}) followed, per property, by des.feedpk under drop masks and partitions (model vs real "
            "deserializer on the real serializer's bytes) and the oracles !chunk.rt / !chunk.ref / !chunk.nonempty; seed-independent "
            "part: all sequences of length ≤ 3 (quick: ≤ 2 plus a 1-in-5 sample of length 3) over a 38-symbol reduced alphabet, "
            "with every drop mask; non-trivial = at least two accepted packets; distinct = distinct op text")

    def tail_ops(self, pid, rng, drops, exhaustive_masks=False, total=0):
        ops = []
        n = len(drops)
        all1 = "1" * max(n, 1)
        if pid in ("C01", "C19", "C15"):
            sz = GC.rand_sizes(rng, total)
            ops += ["des.new", f"des.feedpk {all1} {sz}", f"!chunk.rt {all1} {sz}", f"!chunk.rt {all1} 1", "!chunk.nonempty"]
            if total <= 3000:
                ops += ["des.new", f"des.feedpk {all1} 1"]
        if pid == "C07":
            ops += [f"!chunk.ref {all1}", "des.new", f"des.feedpk {all1} all"]
        if pid == "C08":
            masks = []
            k = [i for i, d in enumerate(drops) if d]
            if exhaustive_masks and len(k) <= 4:
                for bits in itertools.product("01", repeat=len(k)):
                    m = list(all1)
                    for i, bch in zip(k, bits):
                        m[i] = bch
                    masks.append("".join(m))
            else:
                masks = [GC.rand_mask(rng, drops) for _ in range(3)] + ["".join("0" if d else "1" for d in drops) or "1"]
            for m in dict.fromkeys(masks):
                sz = GC.rand_sizes(rng, total)
                ops += ["des.new", f"des.feedpk {m} {sz}", f"!chunk.rt {m} {sz}", f"!chunk.ref {m}"]
            # … and by the marks the real serializer returned (whatever the generator believes is droppable)
            ops += [f"!chunk.rt flagged {GC.rand_sizes(rng, total)}", "!chunk.ref flagged", "!chunk.ref flagged2"]
        return ops

    def gen(self, rng, tier, pid, stats):
        if pid == "C19":
            # configuration values: every setter at its limits, payload lengths around the maximum
            for n in (0, 1, 2, 127, 128, (1 << 31) - 2, (1 << 31) - 1, 1 << 31, (1 << 31) + 1, M32 - 1):
                bump(stats, "setter_edge_cases")
                yield ["ser.new", f"ser.setcs {n} 0", f"ser.msg 8 1 0 0 0 {GC.payload_tok(1, 300)}", "ser.msg 9 1 5 0 0 -",
                       "des.new", "des.feedpk 111 7", "!chunk.rt 111 7", "!chunk.nonempty"]
                yield ["des.new", f"des.setcs {n}", "des.feed all 0500000000000308010000000a0b0c", "des.feed 1 0500000000000308010000000a0b0c"]
            for ln in ((16777214, 16777215, 16777216) if tier == "thorough" else (16777216,)):
                bump(stats, "payload_limit_cases")
                yield ["ser.new", "ser.setcs 65536 0", f"ser.msg 9 1 0 0 0 ab*{ln}"] + (["des.new", "des.feedpk 11 all", "!chunk.rt 11 100000"] if ln <= 16777215 else [])
            # the two limits together: a chunk size at or above the largest message (accepted up to 2^31-1) must not open a way
            # around the payload limit, and a maximal payload in ONE chunk must still round-trip
            for cs_ in (16777215, 16777216, 16777217, (1 << 31) - 1):
                for ln in ((16777215, 16777216) if tier == "thorough" else (16777216,)):
                    bump(stats, "payload_limit_with_huge_chunk_size")
                    yield ["ser.new", f"ser.setcs {cs_} 0", f"ser.msg 9 1 0 0 0 ab*{ln}"] + \
                          (["des.new", f"des.setcs {cs_}", "des.feedpk 1 all", "!chunk.rt 1 100000"] if ln <= 16777215 else []) + \
                          ["ser.msg 8 1 5 0 0 0102"]
            # a refused size is refused AND not honoured: both codecs keep working with the size in force before it
            for prev in (0, 1, 50, 128, 4096):
                for bad in (0, 1 << 31, (1 << 31) + 1, M32 - 1):
                    bump(stats, "refused_size_then_use")
                    yield [f"!cs.refused {prev} {bad} {rng.choice([1, 129, 300, 9000])}",
                           "ser.new"] + ([f"ser.setcs {prev} 0"] if prev else []) + [f"ser.msg 3 0 10 0 0 00000100", f"ser.setcs {bad} 20", "ser.msg 3 0 30 0 0 00000200", f"ser.msg 9 1 0 0 0 {GC.payload_tok(2, 300)}",
                           "des.new"] + ([f"des.setcs {prev}"] if prev else []) + [f"des.setcs {bad}", f"des.feedpk {'1111' if prev else '111'} all"]
            # a header that announces FEWER bytes than the message under way already holds is refused (InvalidMessageLength),
            # never accepted silently
            for held, announced in ((128, 10), (128, 127), (128, 0), (256, 200)):
                bump(stats, "shorter_length_cases")
                first = bytes([4]) + bytes(3) + (held + 100).to_bytes(3, "big") + bytes([9]) + (1).to_bytes(4, "little") + bytes(128)
                more = (bytes([0xC4]) + bytes(128)) if held == 256 else b""
                for hdr in (bytes([4]) + bytes(3) + announced.to_bytes(3, "big") + bytes([9]) + (1).to_bytes(4, "little"),
                            bytes([0x44]) + bytes(3) + announced.to_bytes(3, "big") + bytes([9])):
                    bs = first + more + hdr + bytes(announced)
                    yield ["des.new", f"des.feed all {hexb(bs)}", f"!des.shorter {held} {announced} {hexb(bs)}"]
        # seed-independent small-scope part
        alpha = GC.small_alphabet()
        stats["small_alphabet"] = len(alpha)
        maxlen = 3 if tier == "thorough" else 2
        k = 0
        for L in range(1, 4):
            for seq in itertools.product(alpha, repeat=L):
                k += 1
                if L > maxlen and k % 5 != 0:
                    continue
                if pid == "C19" and L > 1:
                    continue
                ops, drops = GC.small_case(seq)
                bump(stats, f"small_scope_len{L}")
                yield ops + self.tail_ops(pid, rng, drops, exhaustive_masks=True, total=600)
        # seeded random histories
        n = 1200 if tier == "quick" else 12000
        for _ in range(n):
            ops, sim = GC.gen_ser_ops(rng, rng.range(1, 12), stats, allow_raw_type1=False)
            bump(stats, "random_histories")
            yield ops + self.tail_ops(pid, rng, sim.drops, total=sim.total)
        # raw type-1 payloads handed to serialize (excluded from the theorems' hypothesis; model ≡ code still checked)
        if pid in ("C01", "C07"):
            for _ in range(60):
                ops, sim = GC.gen_ser_ops(rng, rng.range(2, 6), stats, allow_raw_type1=True)
                yield ops + ["des.new", f"des.feedpk {'1' * len(sim.drops)} all"]

    def nontrivial(self, ops):
        return sum(1 for o in ops if o.startswith("ser.msg") or o.startswith("ser.setcs")) >= 2


# ---------------------------------------------------------------------------------------- foreign
import gen_foreign as GF


def part_sizes(rng, total):
    if total > 3000:
        lo = max(total // 40, 64)
        return rng.choice(["all", str(rng.range(lo, 4 * lo)), ",".join(str(rng.range(lo, 3 * lo)) for _ in range(3))])
    return rng.choice(["all", "1", "1", str(rng.range(2, 9)), ",".join(str(rng.range(1, 30)) for _ in range(3)), "2,1,7,128"])


class ForeignFamily(Family):
    name = "foreign"
    timeout_s = 600
    anchored = ["rtmp/src/chunk_io/deserializer.rs"]
    rule = ("one case = one chunk stream produced by the harness-independent Python sender written from RTMP 1.0 §5.3.1 "
            "(csids 2..65599 in every legal 1/2/3-byte form, any legal header format per message, extended timestamps on first "
            "and continuation chunks with three continuation conventions, repeated full headers, zero-length messages, in-band "
            "chunk-size changes 1..2^31-1), fed to the real deserializer and the model under a partition (des.feed) and judged by "
            "!des.decoded against the messages the sender encoded; C16: interleaved variant; C15/C03: additionally mutated copies "
            "under two partitions (!des.split); C03: !des.alloc (a consumer keeping every decoded message holds at most 8 x received + "
            "one 16 MiB message + 1 MiB), also on streams that re-declare an announced 16 MiB length before the message is complete; non-trivial = ≥ 2 messages; distinct = distinct op text")

    def gen(self, rng, tier, pid, stats):
        n = 1500 if tier == "quick" else 15000
        if pid == "C16":
            n = n // 2
            for i in range(n):
                if i % 50 == 48:
                    # more chunk streams alive at once than any fixed-size history would hold
                    bs, expect = GF.encode_many_streams(rng, stats)
                    ov = False
                elif i % 3 == 2:
                    # streams that alternate without overlapping, each on a steady cadence (type-3 message starts)
                    bs, expect = GF.encode_alternating_cadence(rng, stats)
                    ov = False
                    bump(stats, "alternating_cadence")
                else:
                    bs, expect, ov = GF.encode_interleaved(rng, stats, rng.range(1, 4))
                bump(stats, "interleaved_overlapping" if ov else "interleaved_nonoverlapping")
                sz = part_sizes(rng, len(bs))
                yield [("note overlap" if ov else "note sequential"), "des.new", f"des.feed {sz} {hexb(bs)}",
                       "!des.decoded " + (" ".join(GF.show_msg(m) for m in expect) or "~"), f"spec.seq {hexb(bs)}"]
            return
        for i in range(n):
            big = rng.chance(1, 25)
            if pid == "C03" and i % 10 == 9:
                # a message whose announced length is RE-DECLARED by the next header on its chunk stream before it is
                # complete (announce up to 16 MiB, deliver one chunk, re-declare a little more than what is held): a
                # consumer that keeps the messages must not end up holding the announced sizes
                bs = bytearray()
                for _ in range(rng.range(3, 8)):
                    csid, typ = rng.range(2, 63), rng.choice([8, 9, 18, 22])
                    announced = rng.choice([0xFFFFFF, 0xFFFFFF, rng.range(1 << 20, 0xFFFFFF)])
                    bs += bytes([csid]) + bytes(3) + announced.to_bytes(3, "big") + bytes([typ]) + (1).to_bytes(4, "little") + rng.bytes(128)
                    total = 128 + rng.range(1, 128)
                    if rng.chance(1, 2):
                        bs += bytes([0x40 | csid]) + rng.range(0, 50).to_bytes(3, "big") + total.to_bytes(3, "big") + bytes([typ])
                    else:
                        bs += bytes([csid]) + rng.range(0, 5000).to_bytes(3, "big") + total.to_bytes(3, "big") + bytes([typ]) + (1).to_bytes(4, "little")
                    bs += rng.bytes(total - 128)
                bs = bytes(bs)
                bump(stats, "redeclared_length_streams")
                yield ["des.new", f"des.feed {part_sizes(rng, len(bs))} {hexb(bs)}", f"!des.alloc {hexb(bs)}",
                       f"!des.split all {part_sizes(rng, len(bs))} {hexb(bs)}"]
                continue
            if i % 50 == 48:
                bs, expect = GF.encode_many_streams(rng, stats)
            elif i % 8 == 7:
                bs, expect = GF.encode_alternating_cadence(rng, stats)
                bump(stats, "alternating_cadence")
            else:
                bs, expect = GF.encode_sequential(rng, stats, rng.range(1, 8), max_len=(70000 if big else 700))
            sz = part_sizes(rng, len(bs))
            ops = ["des.new", f"des.feed {sz} {hexb(bs)}"]
            if pid in ("C06", "C03"):
                ops.append("!des.decoded " + (" ".join(GF.show_msg(m) for m in expect) or "~"))
                ops.append(f"spec.feed {hexb(bs)}")
                ops.append(f"spec.seq {hexb(bs)}")
            if pid == "C03":
                ops.append(f"!des.alloc {hexb(bs)}")
            if pid in ("C15", "C03"):
                ops.append(f"!des.split all {part_sizes(rng, len(bs))} {hexb(bs)}")
                if len(bs) < 3000:
                    ops.append(f"!des.split 1 {part_sizes(rng, len(bs))} {hexb(bs)}")
                for _ in range(2):
                    mb = GF.mutate_stream(rng, bs)
                    s1, s2 = part_sizes(rng, len(mb)), part_sizes(rng, len(mb))
                    ops += ["des.new", f"des.feed {s1} {hexb(mb)}", f"!des.split {s1} {s2} {hexb(mb)}"]
                    bump(stats, "mutated_streams")
            yield ops

    def nontrivial(self, ops):
        return any(o.startswith("des.feed") and len(o) > 60 for o in ops)


# -------------------------------------------------------------------------------------------- msg
import gen_msg as GM


class MsgFamily(Family):
    name = "msg"
    panic_is_failure = False   # msg.to on ill-formed user-control input panics by design (debug_assert); model must say so too
    anchored = ["rtmp/src/messages/message_payload.rs", "rtmp/src/messages/types/user_control.rs",
                "rtmp/src/messages/types/set_peer_bandwidth.rs", "rtmp/src/messages/types/set_chunk_size.rs"]
    rule = ("one case = (a) a generated message of a random variant with boundary-biased u32 fields, all 9 user-control events, all "
            "3 limit types, AMF0 command/data arguments from the AMF0 generator: msg.to (model vs code; single-key maps so the bytes "
            "are deterministic), then msg.from of the produced body, !msg.rt (round trip + layout against an independent "
            "specification table / reference AMF0 decoder, multi-key maps allowed); (b) fixed part: all 256 type ids × bodies {empty, "
            "short, exact, long, AMF0-looking}: msg.from, !msg.unknown, !msg.alias; every user-control code 0..40 and limit byte 0..5; "
            "chunk sizes around 2^31; ill-formed user-control field combinations; non-trivial = every case; distinct = distinct op text")

    def gen(self, rng, tier, pid, stats):
        bodies = ["-", "00", "00000001", "0000000105", "000000010203040506070809", "0200016100000000000000000005",
                  "020003616263003ff0000000000000030000090101", "7fffffff", "80000000", "ffffffffff", "000600000005"]
        for t in range(256):
            ops = []
            for bd in bodies:
                ops.append(f"msg.from {t} {bd}")
                ops.append(f"!msg.unknown {t} {bd}")
            bump(stats, "type_id_cases")
            yield ops
        yield [f"!msg.alias {bd}" for bd in bodies] + [f"msg.from 17 00{bd if bd != '-' else ''}" for bd in bodies] + [f"msg.from 17 {bd}" for bd in bodies]
        yield [f"msg.from 4 {c:04x}0000000a0000000b" for c in range(41)] + [f"msg.from 4 {c:04x}0000" for c in (0, 3, 6)] + ["msg.from 4 00030000000a0000", "msg.from 4 00", "msg.from 4 -"]
        yield [f"msg.from 6 00000100{l:02x}" for l in range(6)] + ["msg.from 6 00000100", "msg.from 6 000001"]
        for n in (0, 1, (1 << 31) - 1, 1 << 31, (1 << 31) + 1, M32 - 1):
            yield [f"msg.to scs/{n}", f"!msg.rt scs/{n} 0 0", f"msg.from 1 {n:08x}", f"msg.from 1 {n:08x}ff"]
        yield ["msg.from 20 -", "msg.from 20 0200016100000000000000000005", "msg.from 20 02000161", "msg.from 20 020001610000000000000000000",
               "msg.from 20 000000000000000000020001610500", "msg.from 20 0200016102000162050", "msg.from 20 0200016100000000000000000005050505",
               "msg.from 20 09", "msg.from 20 02000161000000000000000000", "msg.from 18 -", "msg.from 18 09", "msg.from 18 0505"]
        # the aliased type ids on bodies that look like something else: a Number whose first payload byte is itself an
        # AMF0 marker (so that a reader which peeks for a format byte can be fooled), with and without the AMF3 format byte
        import gen_amf as GA2
        for m in list(range(0, 0x12)) + [0x40, 0x7f, 0xc0, 0xff]:
            tail = rng.bytes(7)
            rest = rng.choice([b"", GA2.enc(("s", b"hello")), GA2.enc(("z",)), bytes([2, 0, 5]) + b"hello"])
            bd = (bytes([0, m]) + tail + rest).hex()
            bump(stats, "alias_marker_lookalikes")
            yield [f"!msg.alias {bd}", f"msg.from 15 {bd}", f"msg.from 18 {bd}", f"msg.from 17 00{bd}", f"msg.from 17 {bd}", f"msg.from 20 {bd}",
                   f"!msg.alias {bd[2:]}", f"msg.from 15 {bd[2:]}", f"msg.from 17 {bd[2:]}"]
        for _ in range(150 if tier == "quick" else 1500):
            vals = [GA2.gen_val(rng, 0, allow_bad=False) for _ in range(rng.range(1, 4))]
            if not all(GA2.expressible(v) for v in vals):
                continue
            bd = GA2.encs(vals).hex() or "-"
            bump(stats, "alias_random_bodies")
            yield [f"!msg.alias {bd}", f"msg.from 15 {bd}", f"msg.from 17 00{bd if bd != '-' else ''}"]
        # nesting up to, at and beyond the limit both directions must agree on (the writer accepts exactly what the reader
        # accepts): every container kind, depths around the middle and the end of the range
        for kind in ("o", "a", "m"):
            for depth_ in (1, 31, 32, 33, 63, 64, 65, 66, 100, 126, 127, 128, 129, 130):
                v = GA2.nest(kind, depth_)
                bump(stats, "deep_nesting_messages")
                yield [f"!msg.rt data/{GA2.texts([v])} {GM.u32(rng)} {GM.u32(rng)}",
                       f"!msg.rt cmd/{GA2.btok(b'deep')}/{0:016x}/{GA2.text(('z',))}/{GA2.texts([v])} {GM.u32(rng)} {GM.u32(rng)}",
                       f"msg.to data/{GA2.texts([v])}"]
        n = 2500 if tier == "quick" else 30000
        for _ in range(n):
            wf = not rng.chance(1, 6)
            m = GM.gen_msg(rng, well_formed=wf, single_key=True)
            bump(stats, "variant_" + m.split("/")[0])
            m2 = GM.gen_msg(rng, well_formed=True, single_key=False)
            ops = [f"!msg.rt {m2} {GM.u32(rng)} {GM.u32(rng)}"]
            if wf:
                ops.append(f"!msg.rt {m} {GM.u32(rng)} {GM.u32(rng)}")
            else:
                bump(stats, "ill_formed_user_control")
            ops.append(f"msg.to {m}")     # last: an ill-formed user-control message trips a debug_assert (API misuse, mirrored as `panic`)
            yield ops

    def nontrivial(self, ops):
        return True


# --------------------------------------------------------------------------------------------- hs
import gen_hs as GH


class HsFamily(Family):
    name = "hs"
    timeout_s = 600
    anchored = ["rtmp/src/handshake/mod.rs"]
    rule = ("C11: for both roles and EVERY digest offset 0..727 a fill selecting that offset (hs.gen: model vs real packet, byte-exact "
            "under hook H1; !hs.p1: digest verified with the harness' own HMAC); for both roles, both position schemes and every "
            "offset a crafted peer packet 1 (Python hmac) → hs.proc (model vs real packets) and !hs.p2 (signature verified "
            "independently); digest-less, wrong-key and corrupted-digest packets → exact echo.  C05: exchanges between two real "
            "handshakes (and against a hand-written original-handshake client) under fragmentations {1 byte, random, packet-aligned, "
            "spanning, everything at once}, either/both/no side starting, trailing application bytes {0, 1, 300, 4096} (!hs.pair), and "
            "the same exchanges as hs.xfer schedules interpreted by model and implementation; non-trivial = every case; distinct = "
            "distinct op text")

    def gen(self, rng, tier, pid, stats):
        yield ["sha.selftest"]
        if pid in ("C11", "C03"):
            step = 1 if tier == "thorough" or pid == "C11" else 8
            for role in ("c", "s"):
                for o in range(0, 728, step):
                    f1 = GH.fill1_for_offset(rng, role, o)
                    bump(stats, "own_p1_offsets")
                    yield [f"hs.new a {role} {hexb(f1)} {hexb(rng.bytes(1536))}", "hs.gen a", f"!hs.p1 {role} {hexb(f1)}"]
            for role in ("c", "s"):
                key = GH.FP if role == "s" else GH.FMS      # the PEER's key
                for scheme in ("c", "s"):
                    for o in range(0, 728, step if tier == "thorough" else max(step, 2)):
                        p1 = GH.craft_p1(rng, scheme, o, key)
                        f1, f2 = rng.bytes(1524), rng.bytes(1536)
                        bump(stats, "received_p1_offsets")
                        yield [f"hs.new a {role} {hexb(f1)} {hexb(f2)}", f"hs.proc a 03{p1.hex()}", f"!hs.p2 {role} {p1.hex()} {hexb(f1)} {hexb(f2)}"]
                # digest-less / wrong key / corrupted digest → echo
                for kind in range(12):
                    if kind % 3 == 0: p1 = rng.bytes(1536)
                    elif kind % 3 == 1: p1 = GH.craft_p1(rng, rng.choice("cs"), rng.below(728), GH.FMS if role == "s" else GH.FP)
                    else: p1 = GH.craft_p1(rng, rng.choice("cs"), rng.below(728), key, valid=False)
                    f1, f2 = rng.bytes(1524), rng.bytes(1536)
                    bump(stats, "echo_cases")
                    yield [f"hs.new a {role} {hexb(f1)} {hexb(f2)}", f"hs.proc a 03{p1.hex()}", f"!hs.p2 {role} {p1.hex()} {hexb(f1)} {hexb(f2)}"]
                # one wrong bit in EACH of the 32 digest bytes in turn → no valid digest → echo
                for scheme in ("c", "s"):
                    for k in range(32):
                        p1 = GH.craft_p1(rng, scheme, rng.below(728), key, flip_at=k)
                        f1, f2 = rng.bytes(1524), rng.bytes(1536)
                        bump(stats, "digest_byte_flips")
                        yield [f"hs.new a {role} {hexb(f1)} {hexb(f2)}", f"hs.proc a 03{p1.hex()}", f"!hs.p2 {role} {p1.hex()} {hexb(f1)} {hexb(f2)}"]
        if pid in ("C05", "C03"):
            n = 150 if tier == "quick" else 1500
            parts = ["1", "all", "1536", "1537", "1535,2", "7,300", "3073", "2000,1000,73,1", "1,1536,1536", "40"]
            for i in range(n):
                starter = rng.choice(["a", "b", "both", "none"])
                ta = rng.bytes(rng.choice([0, 1, 300, 4096]))
                tb = rng.bytes(rng.choice([0, 1, 300, 4096]))
                peer = "orig" if rng.chance(1, 4) else "lib"
                sa = rng.choice(parts) if rng.chance(2, 3) else ",".join(str(rng.range(1, 2000)) for _ in range(3))
                sb = rng.choice(parts) if rng.chance(2, 3) else ",".join(str(rng.range(1, 2000)) for _ in range(3))
                bump(stats, f"pair_{peer}_{starter}")
                ops = [f"!hs.pair {starter} {sa} {sb} {hexb(ta)} {hexb(tb)} {peer}"]
                # the same kind of exchange, interpreted by model and implementation
                ops += [f"hs.new a c {hexb(rng.bytes(1524))} {hexb(rng.bytes(1536))}", f"hs.new b s {hexb(rng.bytes(1524))} {hexb(rng.bytes(1536))}"]
                ops += GH.exchange_ops(rng, starter, ta[:64], tb[:64], stats)
                yield ops
            # a bad version byte, input after completion, an original-handshake client (digest-less) byte by byte
            yield [f"hs.new a s {hexb(rng.bytes(1524))} {hexb(rng.bytes(1536))}", "hs.proc a 06"]
            yield [f"hs.new a s {hexb(rng.bytes(1524))} {hexb(rng.bytes(1536))}", "hs.proc a -", "hs.proc a -", "hs.proc a 03", f"hs.proc a {hexb(rng.bytes(1535))}",
                   f"hs.proc a {hexb(rng.bytes(1))}", f"hs.proc a {hexb(rng.bytes(1535))}", f"hs.proc a {hexb(rng.bytes(5))}", "hs.proc a 00"]

    def nontrivial(self, ops):
        return len(ops) > 1


# ------------------------------------------------------------------------------------------- sess
import gen_sess as GS


class ServerFamily(Family):
    name = "server"
    timeout_s = 900
    panic_is_failure = True
    anchored = ["rtmp/src/sessions/server/mod.rs"]
    rule = ("one case = one server-session history: random walk (length 1..25) over peer messages {connect with app variants / "
            "missing / non-string app, createStream, publish and play with every argument shape, closeStream, deleteStream, audio, "
            "video, @setDataFrame variants, ping and other user-control, unknown and malformed commands, ack / window / bandwidth / "
            "abort, SetChunkSize incl. 0 and 2^31, unknown type ids, several messages per call, a good message followed by a failing "
            "one in the same call} sent as chunk streams by the independent sender under random call partitions, interleaved with "
            "application calls {accept, reject (valid, stale, never-issued ids), send audio/video/metadata, ping, finish_playing} on "
            "stream ids from {0, created, closed, deleted, never created}; clock readings (hook H2) jump across 2^24 and 2^32 ms; every "
            "op is interpreted by the real session and the model, outbound packets are compared after reading them with the "
            "reference chunk reader (headers byte-exact, AMF0 bodies as sorted maps); float casts f64→u32/f32 on boundary patterns; "
            "non-trivial = ≥ 3 ops; distinct = distinct op text")

    def gen(self, rng, tier, pid, stats):
        yield [f"f64 {b:016x}" for b in GA.NUM_EDGES] + [f"f64 {GS.f64bits(x):016x}" for x in (4294967295.0, 4294967295.5, 4294967296.0, 0.999, 1e-46, 1e39, 3.4028235e38, 3.4028236e38, 16777217.0, 1.0000000596046448, 1.401298464324817e-45, 7e-46, 29.97)]
        yield [f"f64 {rng.next():016x}" for _ in range(400)] + [f"f32 {rng.below(1 << 32):08x}" for _ in range(300)] + ["f32 00000001", "f32 007fffff", "f32 7f800000", "f32 7fc00001", "f32 ff800000", "f32 80000000", "f32 00800000"]
        yield [f"u32f {n}" for n in (0, 1, 2, 3, 255, 65535, 16777215, 16777216, 16777217, (1 << 31) - 1, 1 << 31, M32 - 1)] + [f"u32f {rng.below(M32)}" for _ in range(100)]
        if pid in ("C18", "C03"):
            for ms in [0, 1, 0xFFFFFF - 2000, 0xFFFFFF - 1, 0xFFFFFF, 0x1000000, M32 - 2000, M32 - 1, M32, M32 + 1, M32 + 0xFFFFFF, 5 * M32 + 7, rng.below(1 << 40), rng.below(1 << 34)]:
                bump(stats, "uptime_runs_real_clock")
                yield [f"!sess.uptime s {ms}", f"!sess.uptime c {ms}"]
        n = 700 if tier == "quick" else 8000
        for _ in range(n):
            yield GS.server_case(rng, stats, rng.range(1, 25), pid)

    def nontrivial(self, ops):
        return len(ops) >= 3


class ClientFamily(Family):
    name = "client"
    timeout_s = 900
    anchored = ["rtmp/src/sessions/client/mod.rs"]
    rule = ("one case = one client-session history: random walk (length 1..25) over the public calls {request_connection, "
            "request_playback, request_publishing, stop_playback, stop_publishing, publish_metadata/audio/video, send_ping_request} "
            "and server messages {_result / _error with current, stale, never-issued and non-integral transaction ids, with / without / "
            "non-numeric stream id, onStatus with start codes, unknown and malformed codes, audio / video / onMetaData on the active or "
            "another stream, ping, ack / window / bandwidth / abort / SetChunkSize, unknown commands and type ids, malformed commands, "
            "two messages in one call with the second failing}; same comparison as the server family; non-trivial = ≥ 3 ops; distinct = "
            "distinct op text")

    def gen(self, rng, tier, pid, stats):
        n = 700 if tier == "quick" else 8000
        for _ in range(n):
            yield GS.client_case(rng, stats, rng.range(1, 25), pid)

    def nontrivial(self, ops):
        return len(ops) >= 3


class AckFamily(Family):
    name = "ack"
    timeout_s = 600
    anchored = ["rtmp/src/sessions/server/mod.rs", "rtmp/src/sessions/client/mod.rs"]
    rule = ("seed-independent: both session kinds × windows W = 1..8 × ALL call-size lists of length ≤ 4 over {0,1,2,3,W-1,W,W+1} "
            "(!ack.run: real session, padding = valid chunk bytes, acknowledgements compared with the counter: emitted iff reached, "
            "value, conservation, outstanding < W); sampled large windows incl. 2^32-1 and re-announcements; plus srv.in / cli.in "
            "sequences with a window (model vs real session, acknowledgement packets byte-exact under hook H2); non-trivial = list has "
            "≥ 2 calls; distinct = distinct op text")

    def gen(self, rng, tier, pid, stats):
        import itertools
        for kind in ("s", "c"):
            for w in range(1, 9):
                vals = sorted({0, 1, 2, 3, max(w - 1, 0), w, w + 1})
                for L in range(1, 5):
                    batch = []
                    for seq in itertools.product(vals, repeat=L):
                        batch.append(f"!ack.run {kind} {w} {','.join(map(str, seq))} _")
                        bump(stats, "exhaustive_small_scope_lists")
                    for i in range(0, len(batch), 200):
                        yield batch[i:i + 200]
        for kind in ("s", "c"):
            batch = []
            for w in (3, 60, 200):
                for w2 in (1, 3, 59, 60, 61, 500):
                    for idx in range(0, 4):
                        for sz in ("20,20,20,20", "1,61,0,130", "59,1,1,59", "70,70,70,70"):
                            batch.append(f"!ack.run {kind} {w} {sz} {idx}:{w2}")
                            bump(stats, "reannouncement_sweep")
            for i in range(0, len(batch), 100):
                yield batch[i:i + 100]
        n = 150 if tier == "quick" else 1500
        for _ in range(n):
            kind = rng.choice("sc")
            w = rng.choice([1, 2, 7, 100, 1000, 4096, 65536, 2500000, (1 << 31), M32 - 1, rng.range(1, 5000)])
            sizes = [rng.choice([0, 1, w % 7000, (w - 1) % 7000, (w + 1) % 7000, rng.range(0, 3000), rng.range(0, 50)]) for _ in range(rng.range(1, 12))]
            bump(stats, "sampled_window_runs")
            rewin = "_"
            if rng.chance(1, 2) and len(sizes) >= 2:
                rewin = f"{rng.below(len(sizes))}:{min(rng.choice([1, 2, 7, 50, 100, 1000, 4096, 2500000, w, w + 1, max(w - 1, 1)]), M32 - 1)}"
                bump(stats, "oracle_runs_with_reannouncement")
            ops = [f"!ack.run {kind} {w} {','.join(map(str, sizes))} {rewin}"]
            # the same kind of history through the model: window announcement, then padding in calls
            st = {"now": 0}
            ps = GS.PeerStream(rng, stats)
            w2 = rng.choice([1, 3, 10, 50, 100, 1000])
            if kind == "s":
                ops.append("srv.new 0 4096 1000000 2500000 0 464d53")
                pre = "srv.in"
            else:
                ops.append("cli.new 4096 1000000 2000 57494e _")
                pre = "cli.in"
            ops.append(f"{pre} {GS.rand_now(rng, st)} all {hexb(ps.msg(5, 0, w2.to_bytes(4, 'big')))}")
            pad = b"".join(ps.msg(22, 9, bytes([7]) * rng.choice([0, 5, 50])) for _ in range(12))
            sz = ",".join(str(rng.choice([0, 1, 2, w2 - 1 if w2 > 1 else 1, w2, w2 + 1, rng.range(1, 40)])) for _ in range(4))
            ops.append(f"{pre} {GS.rand_now(rng, st)} {sz} {hexb(pad)}")
            if rng.chance(1, 2):
                w3 = rng.choice([1, 5, 20, 500])
                ops.append(f"{pre} {GS.rand_now(rng, st)} all {hexb(ps.msg(5, 0, w3.to_bytes(4, 'big')))}")
                pad = b"".join(ps.msg(22, 9, bytes([8]) * rng.choice([0, 5, 50])) for _ in range(8))
                ops.append(f"{pre} {GS.rand_now(rng, st)} {rng.choice(['1', '3', '7,2', 'all'])} {hexb(pad)}")
                bump(stats, "window_reannounced")
            yield ops

    def nontrivial(self, ops):
        return True


class InteropFamily(Family):
    name = "interop"
    timeout_s = 900
    anchored = ["rtmp/src/sessions/client/mod.rs", "rtmp/src/sessions/server/mod.rs"]
    rule = ("one case = one scenario run by !interop: a REAL ClientSession against a REAL ServerSession exchanging their output bytes "
            "under seeded random fragmentation (1 byte … whole buffer) and interleaving of the two directions and of the application "
            "actions; both applications follow the documented contract (queue a call's packets, then react to its events; server accepts "
            "every request; client proceeds on each accepted event; stop after the last item / after playback was accepted and "
            "everything arrived); script: connect(app with/without trailing '/'), publish or play(key), items = metadata/audio/video with "
            "sizes {0, 1, cs-1, cs, cs+1, 64 KiB+1, random} and timestamps incl. ≥ 2^24, 2^32-1 and falling; configurations: chunk sizes "
            "{1,2,127,128,4096,65535,2^31-1,2^24+1000}² × windows {1,100,2500000,2^32-1}²; oracle: every item raised exactly once, in order, "
            "byte-identical with its timestamp, under the app name (minus one trailing '/') and stream key, connect completed on both "
            "sides, exactly one matching finished event at the server, no error, no stall; non-trivial = ≥ 1 item; distinct = distinct op text")

    def gen(self, rng, tier, pid, stats):
        sizes_cs = [1, 2, 127, 128, 4096, 65535, (1 << 31) - 1, (1 << 24) + 1000]
        wins = [0, 1, 100, 2500000, M32 - 1]
        n = 3000 if tier == "quick" else 40000
        # a deterministic sweep over all chunk-size pairs first
        combos = [(a, b) for a in sizes_cs for b in sizes_cs]
        for i in range(n):
            if i < len(combos):
                cs_c, cs_s = combos[i]
            else:
                cs_c, cs_s = rng.choice(sizes_cs), rng.choice(sizes_cs)
            win_c, win_s = rng.choice(wins), rng.choice(wins)
            kind = "pub" if i % 2 == 0 else "play"
            cs = cs_c if kind == "pub" else cs_s
            items = []
            tiny = cs <= 2
            for _ in range(rng.choice([0, 1, 2, 3, 5, 8, 12])):
                k = rng.choice("avm")
                size = rng.choice([0, 1, max(cs - 1, 0), cs, cs + 1, 65537, rng.range(0, 3000)])
                size = min(size, 3000 if tiny else 70000)
                ts = rng.choice([0, 40, 0xFFFFFF, 0x1000000, M32 - 1, rng.below(M32), 5])
                items.append(f"{k}:{0 if k == 'm' else size}:{0 if k == 'm' else ts}")
            bump(stats, f"scenario_{kind}")
            bump(stats, f"items_{len(items)}")
            app = rng.choice([b"live", b"live/", b"a/b", "é".encode()])
            key = rng.choice([b"key", b"k" * 40, "ключ".encode()])
            yield [f"!interop {kind} {cs_c} {cs_s} {win_c} {win_s} {rng.below(1 << 40)} {hexb(app)} {hexb(key)} {','.join(items) or '-'}"]

    def nontrivial(self, ops):
        return not ops[0].endswith(" -")


FAMILIES = {f.name: f for f in [TimeFamily(), AmfFamily(), AmfAdvFamily(), ChunkFamily(), ForeignFamily(), MsgFamily(), HsFamily(),
                                 ServerFamily(), ClientFamily(), AckFamily(), InteropFamily()]}


# ------------------------------------------------------------------------------- known findings
def matches_known(k, fname, ops, line, txt):
    """Is this oracle failure an instance of the listed known finding `k`?  The classifier is keyed by
    the specific failing input class so that any other violation of the same property is reported."""
    cls = k.get("classifier")
    if cls == "time-antipodal":
        # K3: only the `later` clause, only for pairs exactly 2^31 apart
        t = line.split(" ")
        if fname != "time" or t[0] != "!time.laws":
            return False
        a, b = int(t[1]), int(t[2])
        if (b - a) % M32 != (1 << 31):
            return False
        return txt.startswith("! FAIL later") and "," not in txt.split(" ")[2]
    if cls == "session-error-drops-results":
        # K2b: only the two-partition oracle, only when BOTH partitions report the same error and differ solely in what was
        # delivered before it (results of messages completed in the same call as the failing one are dropped with the Err)
        return fname in ("server", "client") and line.startswith("!sess.split") and "error-partitions-differ-in-delivered-results" in txt
    if cls == "session-after-input-error":
        # K2: only the decodability oracle, only after a handle_input call of this history returned Err
        return fname in ("server", "client") and line.startswith("!sess.decodable") and "after-input-error" in txt
    if cls == "chunk-interleave-overlap":
        # K1: only streams the generator marked as overlapping interleavings, only the decoded-messages oracle
        return fname == "foreign" and len(ops) > 0 and ops[0] == "note overlap" and line.startswith("!des.decoded")
    return False
