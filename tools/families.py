"""Generators of op-line cases per correspondence family, non-triviality rules, and the classifiers
that decide whether an oracle failure is one of the listed known findings."""
from common import *


class Family:
    name = ""
    rule = ""
    timeout_s = 300
    panic_is_failure = True
    anchored = []

    def gen(self, rng, tier, pid, stats):
        return []

    def nontrivial(self, ops):
        return len(ops) > 0


def bump(stats, key, n=1):
    stats[key] = stats.get(key, 0) + n


# ------------------------------------------------------------------------------------------- time
class TimeFamily(Family):
    name = "time"
    rule = ("one case = one pair (a,b): all operators incl. mixed u32 forms (`time a b`) and the direct law oracle "
            "(`!time.laws a b`); pairs from the boundary grid (protocol edges ∪ integer literals harvested from "
            "rtmp/src/time.rs ± 1) squared, plus random (a, a+d) with boundary-biased d; non-trivial = a ≠ b; "
            "distinct = distinct (a,b)")
    anchored = ["rtmp/src/time.rs"]

    def gen(self, rng, tier, pid, stats):
        edges = {0, 1, 2, (1 << 31) - 2, (1 << 31) - 1, 1 << 31, (1 << 31) + 1, M32 - 2, M32 - 1, 0xFFFFFF, 0x1000000}
        lits = harvest_literals(self.anchored)
        for v in lits:
            for d in (-1, 0, 1):
                edges.add((v + d) % M32)
        edges = sorted(edges)
        stats["grid_values"] = len(edges)
        stats["harvested_literals"] = [v for v in lits if v > 255][:20]
        for a in edges:
            for b in edges:
                bump(stats, "grid_pairs")
                yield [f"time {a} {b}", f"!time.laws {a} {b}"]
        n = 20000 if tier == "quick" else 300000
        for _ in range(n):
            a = rng.below(M32)
            k = rng.below(4)
            if k == 0:
                d = rng.choice(edges)
            elif k == 1:
                d = (rng.choice(edges) + rng.range(-3, 3)) % M32
            elif k == 2:
                d = rng.below(M32)
            else:
                d = rng.below(1 << rng.range(1, 32))
            b = (a + d) % M32
            dist = (b - a) % M32
            bump(stats, "dist_lt_2^31" if dist < (1 << 31) else ("dist_eq_2^31" if dist == (1 << 31) else "dist_gt_2^31"))
            if a + d >= M32:
                bump(stats, "wraps")
            yield [f"time {a} {b}", f"!time.laws {a} {b}"]

    def nontrivial(self, ops):
        t = ops[0].split(" ")
        return t[1] != t[2]


FAMILIES = {f.name: f for f in [TimeFamily()]}


# ------------------------------------------------------------------------------- known findings
def matches_known(k, fname, ops, line, txt):
    """Is this oracle failure an instance of the listed known finding `k`?  The classifier is keyed by
    the specific failing input class so that any other violation of the same property is reported."""
    cls = k.get("classifier")
    if cls == "time-antipodal":
        # K3: only the `later` clause, only for pairs exactly 2^31 apart
        t = line.split(" ")
        if fname != "time" or t[0] != "!time.laws":
            return False
        a, b = int(t[1]), int(t[2])
        if (b - a) % M32 != (1 << 31):
            return False
        return txt.startswith("! FAIL later") and "," not in txt.split(" ")[2]
    return False
