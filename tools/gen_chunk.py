"""Generators for the chunk layer families."""
from common import *
import itertools

CS_VALUES = [1, 2, 3, 4, 5, 127, 128, 129, 4096, 65536, (1 << 31) - 1, 1 << 24, (1 << 24) + 1, (1 << 24) + 100, (1 << 30) + 7]   # sizes ≥ 2^24 whose low 24 bits are small: every size above the longest message means "never split"
TYPES = [8, 9, 18, 20, 4, 3, 15, 0, 255, 1, 19, 6]


def csid_for(t):
    if 1 <= t <= 6: return 2
    if t in (18, 19): return 3
    if t == 9: return 4
    if t == 8: return 5
    return 6


def payload_tok(i, n):
    """n bytes whose content depends on the message index i (so mixed-up bytes are visible)"""
    if n == 0:
        return "-"
    a, b = (i * 7 + 1) & 0xff, (i * 13 + 5) & 0xff
    if n == 1:
        return f"{a:02x}"
    tok = f"{a:02x}{b:02x}*{n // 2}" if n >= 4 else (f"{a:02x}{b:02x}" * (n // 2))
    if n % 2:
        tok += f".{(a ^ 0x55):02x}" if n >= 4 else f"{(a ^ 0x55):02x}"
    return tok


class SerSim:
    """what the generator needs to know about the sender: current chunk size, last ts per csid"""

    def __init__(self):
        self.cs = 128
        self.last_ts = {}
        self.last_delta = {}
        self.last_len = {}
        self.n = 0
        self.drops = []     # droppable flag per accepted packet
        self.total = 0      # estimate of the bytes produced

    def ts_move(self, rng, csid):
        prev = self.last_ts.get(csid)
        if prev is None:
            return rng.choice([0, 1, 1000, 0xFFFFFE, 0xFFFFFF, 0x1000000, 0x1000001, M32 - 1, M32 - 5, rng.below(M32)])
        pd = self.last_delta.get(csid, prev)
        k = rng.below(12)
        if k == 0: return prev
        if k == 1: return (prev + rng.range(1, 50)) % M32
        if k == 2: return (prev + pd) % M32                      # equal delta again → format 3 candidates
        if k == 3: return (prev - rng.range(1, 50)) % M32        # falling
        if k == 4: return (prev + 0xFFFFFF) % M32                # delta exactly saturating
        if k == 5: return (prev + 0xFFFFFE) % M32
        if k == 6: return (prev + 0x1000000 + rng.below(1000)) % M32
        if k == 7: return rng.choice([0xFFFFFF, 0xFFFFFE, 0x1000000, 0, M32 - 1])
        if k == 8: return (prev + prev) % M32                    # delta = previous absolute value
        if k == 9: return (M32 - rng.range(1, 3) + rng.range(0, 5)) % M32   # around the wrap
        if k == 10: return (prev + (1 << 31) + rng.range(-1, 1)) % M32
        return rng.below(M32)

    def length(self, rng, csid):
        cs = min(self.cs, 70000)
        k = rng.below(11)
        if k == 0: return 0
        if k == 1: return 1
        if k == 2: return max(cs - 1, 0)
        if k == 3: return cs
        if k == 4: return cs + 1
        if k == 5: return 2 * cs
        if k == 6: return 3 * cs + 1
        if k == 7: return self.last_len.get(csid, 5)
        if k == 8: return rng.range(1, 300)
        if k == 9: return rng.choice([4, 5, 3])
        return rng.range(0, 20)


def gen_ser_ops(rng, nmsgs, stats, allow_raw_type1=False):
    sim = SerSim()
    ops = ["ser.new"]
    cadence = None      # (typ, msid, len, delta, remaining): a run of messages that compress to format 3
    for i in range(nmsgs):
        if cadence is None and rng.chance(1, 6):
            t = rng.choice([8, 9, 18, 20, 4])
            cadence = (t, rng.choice([1, 1, 0, 5]), min(sim.length(rng, csid_for(t)), 4 * min(sim.cs, 500) + 1),
                       rng.choice([0, 10, 40, 0xFFFFFE, 0xFFFFFF, 0x1000000, rng.below(M32)]), rng.range(3, 7))
        if cadence is not None:
            typ, msid, ln, delta, rem = cadence
            csid = csid_for(typ)
            prev = sim.last_ts.get(csid)
            ts = delta if prev is None else (prev + delta) % M32
            ln = min(ln, 200000, int((2e7 * sim.cs) ** 0.5))
            force = 1 if rng.chance(1, 15) else 0
            drop = 1 if rng.chance(1, 3) else 0
            ops.append(f"ser.msg {typ} {msid} {ts} {force} {drop} {payload_tok(i, ln)}")
            sim.last_delta[csid] = ts if prev is None else (ts - prev) % M32
            sim.last_ts[csid] = ts; sim.last_len[csid] = ln
            sim.drops.append(bool(drop))
            sim.total += ln + 16 + (ln // max(sim.cs, 1)) * 5
            bump(stats, "cadence_msgs")
            if drop: bump(stats, "droppable")
            cadence = None if rem <= 1 or rng.chance(1, 10) else (typ, msid, ln, delta, rem - 1)
            continue
        if rng.chance(1, 40):
            # a REFUSED chunk-size change (no packet): it must leave no trace - not in the size, not in the header history
            ops.append(f"ser.setcs {rng.choice([0, 1 << 31, M32 - 1])} {rng.choice([0, 5, 0xFFFFFF, rng.below(M32)])}")
            bump(stats, "setcs_refused")
            continue
        if rng.chance(1, 7):
            n = rng.choice(CS_VALUES + [rng.range(1, 400)])
            ts = rng.choice([0, 5, 0xFFFFFF, rng.below(M32)])
            ops.append(f"ser.setcs {n} {ts}")
            sim.cs = n
            sim.drops.append(False)
            sim.total += 20
            sim.last_ts[2] = ts; sim.last_delta[2] = ts; sim.last_len[2] = 4
            bump(stats, "setcs")
            continue
        typ = rng.choice(TYPES)
        if typ == 1 and not allow_raw_type1:
            typ = 2
        csid = csid_for(typ)
        msid = rng.choice([1, 1, 1, 0, 5, M32 - 1])
        ts = sim.ts_move(rng, csid)
        ln = sim.length(rng, csid)
        # the Lean model is quadratic in (payload length × number of chunks): keep that product bounded
        ln = min(ln, 200000, int((2e7 * sim.cs) ** 0.5))
        force = 1 if rng.chance(1, 6) else 0
        drop = 1 if rng.chance(1, 3) else 0
        ops.append(f"ser.msg {typ} {msid} {ts} {force} {drop} {payload_tok(i, ln)}")
        prev = sim.last_ts.get(csid)
        sim.last_delta[csid] = ts if prev is None else (ts - prev) % M32
        sim.last_ts[csid] = ts; sim.last_len[csid] = ln
        sim.drops.append(bool(drop))
        sim.total += ln + 16 + (ln // max(sim.cs, 1)) * 5
        bump(stats, f"len_class_{'0' if ln == 0 else ('le_cs' if ln <= sim.cs else 'multi')}")
        if ts >= 0xFFFFFF: bump(stats, "ts_ge_ffffff")
        if force: bump(stats, "force_uncompressed")
        if drop: bump(stats, "droppable")
    return ops, sim


def rand_sizes(rng, total=0):
    """partition of the byte stream into input calls; fine-grained partitions only for short streams (the
    model's feed is O(buffer) per call)"""
    if total > 3000:
        lo = max(total // 40, 64)
        k = rng.below(3)
        if k == 0: return "all"
        if k == 1: return str(rng.range(lo, lo * 4))
        return ",".join(str(rng.range(lo, lo * 3)) for _ in range(3))
    k = rng.below(6)
    if k == 0: return "all"
    if k == 1: return "1"
    if k == 2: return str(rng.range(2, 20))
    if k == 3: return ",".join(str(rng.range(1, 40)) for _ in range(rng.range(2, 5)))
    if k == 4: return ",".join(str(rng.choice([1, 2, 3, 128, 129, 4096, 11])) for _ in range(3))
    return str(rng.range(100, 5000))


def rand_mask(rng, drops):
    return "".join(("0" if (d and rng.chance(1, 2)) else "1") for d in drops) or "1"


# reduced alphabet for the seed-independent small-scope part: (typ, msid, ts-move, len-class, force, drop)
def small_alphabet():
    syms = []
    for typ in (8, 9):
        for move in ("same", "+10", "-10", "sat", "big"):
            for ln in ("0", "3", "cs+1"):
                syms.append((typ, 1, move, ln, 0, 0))
    syms += [(8, 1, "+10", "3", 1, 0), (8, 1, "+10", "3", 0, 1), (8, 2, "+10", "3", 0, 0), (8, 1, "+10", "cs+1", 0, 1),
             (8, 1, "+10", "cs+1", 1, 0), ("setcs", 3), ("setcs", 200), (20, 1, "+10", "3", 0, 0)]
    return syms


def small_case(seq):
    cs = 128
    last = {}
    ops = ["ser.new"]
    drops = []
    for i, sym in enumerate(seq):
        if sym[0] == "setcs":
            ops.append(f"ser.setcs {sym[1]} 7")
            cs = sym[1]; drops.append(False); last[2] = 7
            continue
        typ, msid, move, ln, force, drop = sym
        c = csid_for(typ)
        prev = last.get(c, 1000)
        ts = {"same": prev, "+10": prev + 10, "-10": (prev - 10) % M32, "sat": (prev + 0xFFFFFF) % M32, "big": (prev + 0x1000005) % M32}[move]
        n = {"0": 0, "3": 3, "cs+1": cs + 1}[ln]
        ops.append(f"ser.msg {typ} {msid} {ts} {force} {drop} {payload_tok(i, n)}")
        last[c] = ts; drops.append(bool(drop))
    return ops, drops
