"""AMF0 value generator (type-directed) with its text form and an own Python encoder."""
from common import *

NUM_EDGES = [0x0000000000000000, 0x8000000000000000, 0x3FF0000000000000, 0x4000000000000000, 0x7FF0000000000000,
             0xFFF0000000000000, 0x7FF8000000000000, 0x7FF0000000000001, 0xFFFFFFFFFFFFFFFF, 0x7FF4000000000000,
             0x0000000000000001, 0x000FFFFFFFFFFFFF, 0x41EFFFFFFFE00000, 0x41F0000000000000, 0xC1E0000000000000,
             0x4008000000000000, 0x4059000000000000, 0xBFF0000000000000]

UTF8_SAMPLES = ["", "a", "app", "live", "onStatus", "é", "日本語", "😀", "a\u0000b", "key/with/slash", "߿", "￿", "\U0010ffff"]


def gen_str(rng, long_ok=True):
    k = rng.below(20)
    if k < 12:
        return rng.choice(UTF8_SAMPLES).encode("utf-8")
    if k < 15:
        return bytes(rng.range(0x20, 0x7e) for _ in range(rng.range(1, 12)))
    if k < 17:
        return "".join(chr(rng.choice([rng.range(0x20, 0x7e), rng.range(0x80, 0x7ff), rng.range(0x800, 0xd7ff), rng.range(0x10000, 0x10ffff)])) for _ in range(rng.range(1, 6))).encode("utf-8")
    if long_ok and k == 17:
        return b"x" * rng.choice([65535, 65536, 65534, 70000])
    if long_ok and k == 18:
        return ("é" * rng.choice([32767, 32768])).encode() + rng.choice([b"", b"a"])
    return b"p" + bytes([rng.range(0x61, 0x7a)])


def gen_name(rng, allow_bad):
    if allow_bad and rng.chance(1, 12):
        return rng.choice([b"", b"n" * 65536, b"n" * 65535, b"n" * 70000])
    s = gen_str(rng, long_ok=False)
    return s if s else b"k"


def gen_val(rng, depth, allow_bad=True, size=[0]):
    k = rng.below(10) if depth > 0 else rng.below(6)
    if k == 0:
        return ("n", rng.choice(NUM_EDGES) if rng.chance(1, 2) else rng.next())
    if k == 1:
        return ("b", rng.chance(1, 2))
    if k in (2, 3):
        return ("s", gen_str(rng, long_ok=allow_bad))
    if k == 4:
        return ("z",)
    if k == 5:
        return ("u",)
    if k in (6, 7):
        n = rng.choice([0, 1, 1, 2, 2, 3, 5])
        props, seen = [], set()
        for _ in range(n):
            name = gen_name(rng, allow_bad)
            # names that are prefixes of one another
            if props and rng.chance(1, 4):
                name = props[-1][0][:40] + b"x"
            if name in seen:
                continue
            seen.add(name)
            props.append((name, gen_val(rng, depth - 1, allow_bad)))
        return ("o", props)
    n = rng.choice([0, 1, 2, 3, 4])
    return ("a", [gen_val(rng, depth - 1, allow_bad) for _ in range(n)])


def btok(b):
    """byte token with run-length compression for long uniform runs"""
    if not b:
        return "-"
    if len(b) > 64:
        # split into runs of a repeated unit (1 or 2 bytes)
        for unit in (1, 2):
            if len(b) >= 2 * unit and len(b) % unit == 0 and b == b[:unit] * (len(b) // unit):
                return f"{b[:unit].hex()}*{len(b)//unit}"
        # prefix-run + tail
        for unit in (1, 2):
            u = b[:unit]
            n = 0
            while b[n * unit:(n + 1) * unit] == u:
                n += 1
            if n > 32:
                rest = b[n * unit:]
                return f"{u.hex()}*{n}" + ("." + btok(rest) if rest else "")
    return b.hex()


def text(v):
    t = v[0]
    if t == "n":
        return "n%016x" % v[1]
    if t == "b":
        return "t" if v[1] else "f"
    if t == "s":
        return "s" + btok(v[1])
    if t == "z":
        return "z"
    if t == "u":
        return "u"
    if t == "o":
        return "o{" + ",".join(btok(k) + "=" + text(x) for k, x in v[1]) + "}"
    return "a[" + ",".join(text(x) for x in v[1]) + "]"


def texts(vs):
    return ";".join(text(v) for v in vs) if vs else "~"


def enc(v):
    t = v[0]
    if t == "n":
        return b"\x00" + v[1].to_bytes(8, "big")
    if t == "b":
        return b"\x01" + (b"\x01" if v[1] else b"\x00")
    if t == "s":
        return b"\x02" + (len(v[1]) & 0xffff).to_bytes(2, "big") + v[1]
    if t == "z":
        return b"\x05"
    if t == "u":
        return b"\x06"
    if t == "o":
        return b"\x03" + b"".join((len(k) & 0xffff).to_bytes(2, "big") + k + enc(x) for k, x in v[1]) + b"\x00\x00\x09"
    return b"\x0a" + len(v[1]).to_bytes(4, "big") + b"".join(enc(x) for x in v[1])


def encs(vs):
    return b"".join(enc(v) for v in vs)


def depth(v):
    if v[0] == "o":
        return 1 + max([depth(x) for _, x in v[1]] + [0])
    if v[0] == "a":
        return 1 + max([depth(x) for x in v[1]] + [0])
    return 0


def expressible(v, d=0):
    t = v[0]
    if t == "s":
        return len(v[1]) <= 65535
    if t == "o":
        return d < 128 and all(0 < len(k) <= 65535 and expressible(x, d + 1) for k, x in v[1])
    if t == "a":
        return d < 128 and all(expressible(x, d + 1) for x in v[1])
    return True


def nest(kind, n, leaf=("z",)):
    v = leaf
    for i in range(n):
        if kind == "a" or (kind == "m" and i % 2 == 0):
            v = ("a", [v])
        else:
            v = ("o", [(b"k", v)])
    return v
