#!/usr/bin/env python3
"""Which lines of the real library does the correspondence run execute?  (auxiliary, not a check)
Builds the harness with -C instrument-coverage (nightly toolchain + its llvm-tools), runs every property's
quick op streams through it, and writes coverage/summary.json + coverage/uncovered.txt under /verif."""
import os, subprocess, sys, json, glob, shutil
from common import VERIF, BUILD, HARNESS_DIR, ENV, REPO

TOOLS = os.path.expanduser("~/.rustup/toolchains/nightly-x86_64-unknown-linux-gnu/lib/rustlib/x86_64-unknown-linux-gnu/bin")
COV_TARGET = os.path.join(BUILD, "cov-target")
RAW = os.path.join(BUILD, "cov-raw")

def main():
    env = dict(ENV); env["RUSTFLAGS"] = "-C instrument-coverage"; env["CARGO_TARGET_DIR"] = COV_TARGET
    env["LLVM_PROFILE_FILE"] = os.path.join(BUILD, "cov-build", "b-%p-%m.profraw")   # build scripts are instrumented too
    r = subprocess.run(["cargo", "+nightly", "build", "--release", "--offline"], cwd=HARNESS_DIR, env=env)
    if r.returncode: return 1
    binp = os.path.join(COV_TARGET, "release", "rml-verif-harness")
    if "--report" not in sys.argv:
        shutil.rmtree(RAW, ignore_errors=True); os.makedirs(RAW)
    env2 = dict(ENV); env2["VERIF_HARNESS_BIN"] = binp; env2["LLVM_PROFILE_FILE"] = os.path.join(RAW, "h-%p-%m.profraw")
    ids = [a for a in sys.argv[1:] if not a.startswith("--")] or [f"C{i:02d}" for i in range(1, 21)]
    for pid in ([] if "--report" in sys.argv else ids):
        c = subprocess.run([sys.executable, os.path.join(VERIF, "tools", "check.py"), pid, "--no-proof"], env=env2,
                           stdout=subprocess.PIPE, stderr=subprocess.STDOUT, text=True)
        print(c.stdout.strip().split("\n")[-1], flush=True)
    prof = os.path.join(BUILD, "cov.profdata")
    subprocess.check_call([os.path.join(TOOLS, "llvm-profdata"), "merge", "-sparse", "-o", prof] + glob.glob(os.path.join(RAW, "*.profraw")))
    out = subprocess.run([os.path.join(TOOLS, "llvm-cov"), "export", "-format=lcov", "-instr-profile", prof, binp],
                         stdout=subprocess.PIPE, text=True).stdout
    files = {}; cur = None
    for line in out.split("\n"):
        if line.startswith("SF:"):
            cur = line[3:]; files[cur] = {}
        elif line.startswith("DA:") and cur:
            ln, cnt = line[3:].split(",")[:2]; files[cur][int(ln)] = files[cur].get(int(ln), 0) + int(cnt)
    summary = {}; unc = []
    for f, lines in sorted(files.items()):
        if not f.startswith(REPO + "/") or "/src/" not in f: continue
        src = open(f, errors="replace").read().split("\n")
        # library code only: stop at the test module
        cut = len(src) + 1
        for i, l in enumerate(src):
            if l.strip().startswith("#[cfg(test)]") and i + 1 < len(src) and "mod" in src[i + 1] and "{" in src[i + 1]:
                cut = i + 1; break
        ls = {k: v for k, v in lines.items() if k < cut}
        if not ls: continue
        cov = sum(1 for v in ls.values() if v > 0)
        rel = f[len(REPO) + 1:]
        summary[rel] = {"lines": len(ls), "covered": cov, "percent": round(100.0 * cov / len(ls), 1)}
        for k in sorted(ls):
            if ls[k] == 0: unc.append(f"{rel}:{k}: {src[k - 1].strip()[:110]}")
    tot = sum(v["lines"] for v in summary.values()); cv = sum(v["covered"] for v in summary.values())
    os.makedirs(os.path.join(VERIF, "coverage"), exist_ok=True)
    json.dump({"total_lines": tot, "covered": cv, "percent": round(100.0 * cv / max(tot, 1), 1), "files": summary},
              open(os.path.join(VERIF, "coverage", "summary.json"), "w"), indent=1)
    open(os.path.join(VERIF, "coverage", "uncovered.txt"), "w").write("\n".join(unc) + "\n")
    print(f"library lines executed by the quick correspondence runs: {cv}/{tot} = {100.0 * cv / max(tot, 1):.1f}%")
    return 0

if __name__ == "__main__":
    sys.exit(main())
