#!/usr/bin/env python3
"""Confirm a seeded change (produced independently by a sub-agent) and run the registered checks against it.

    tools/seedtest.py <seeded_out dir> <name> <PID> [more PIDs]

1. in a scratch worktree: the full existing suite passes with the patch; the demonstration fails with it and
   passes without it;  2. the patch is applied to /repo, each check's quick command is run, the patch is undone;
3. /verif/seeded/<name>/ gets patch.diff, the demonstration and meta.json."""
import sys, os, subprocess, json, shutil, re, time
src, name, pids = sys.argv[1], sys.argv[2], sys.argv[3:]
VERIF = os.path.dirname(os.path.dirname(os.path.abspath(__file__)))
WT = "/tmp/seed/confirm"
env = dict(os.environ, CARGO_NET_OFFLINE="true", CARGO_TARGET_DIR="/tmp/seed/confirm-target")

def sh(cmd, cwd=None, timeout=3600, e=None):
    p = subprocess.run(cmd, shell=True, cwd=cwd, env=e or env, stdout=subprocess.PIPE, stderr=subprocess.STDOUT, text=True, timeout=timeout)
    return p.returncode, p.stdout

patch = os.path.join(src, "patch.diff")
demo = os.path.join(src, "seeded_demo.rs")
if not os.path.isdir(WT):
    print(sh(f"git -C /repo worktree add -q --detach {WT} HEAD")[1])
sh("git checkout -q -- . && git clean -fdq && git checkout -q --detach $(git -C /repo rev-parse HEAD)", cwd=WT)
meta = {"name": name, "breaks": pids[0], "checked_against": pids, "base_commit": sh("git -C /repo rev-parse --short HEAD")[1].strip()}
rc, out = sh(f"git apply {patch}", cwd=WT)
if rc != 0:
    print("patch does not apply:", out); sys.exit(2)
crate = "amf0" if "amf0/src" in open(patch).read() and "rtmp/src" not in open(patch).read() else "rtmp"
if "rml_rtmp" in open(demo).read():
    crate = "rtmp"      # the demonstration drives the rtmp crate even though the change is in amf0
rc, out = sh("cargo test --workspace --offline 2>&1 | grep 'test result'", cwd=WT)
fails = [l for l in out.split("\n") if "test result" in l and " 0 failed" not in l]
meta["suite_with_patch"] = "passes" if not fails and "test result" in out else "FAILS: " + "; ".join(fails)
os.makedirs(os.path.join(WT, crate, "tests"), exist_ok=True)
shutil.copy(demo, os.path.join(WT, crate, "tests", "seeded_demo.rs"))
rc1, out1 = sh(f"cargo test -p {'rml_amf0' if crate == 'amf0' else 'rml_rtmp'} --offline --test seeded_demo 2>&1 | tail -15", cwd=WT)
with_fail = "FAILED" in out1 or "panicked" in out1 or "failed" in out1.split("test result")[-1] and " 0 failed" not in out1
sh(f"git apply -R {patch}", cwd=WT)
rc2, out2 = sh(f"cargo test -p {'rml_amf0' if crate == 'amf0' else 'rml_rtmp'} --offline --test seeded_demo 2>&1 | tail -8", cwd=WT)
without_pass = "test result: ok" in out2
meta["demo_with_patch"] = "fails" if with_fail else "DOES NOT FAIL"
meta["demo_without_patch"] = "passes" if without_pass else "DOES NOT PASS"
sh("git checkout -q -- . && git clean -fdq", cwd=WT)
print(json.dumps(meta, indent=1))
confirmed = meta["suite_with_patch"] == "passes" and with_fail and without_pass
# ---- run the checks against /repo with the patch applied
results = {}
if confirmed:
    rc, out = sh(f"git -C /repo apply {os.path.abspath(patch)}")
    if rc != 0:
        print("cannot apply to /repo:", out); sys.exit(2)
    try:
        for pid in pids:
            t = time.time()
            rc, out = sh(f"python3 tools/check.py {pid} --tier quick", cwd=VERIF, timeout=3600,
                         e=dict(os.environ, VERIF_EVIDENCE_DIR=os.path.join(VERIF, "build", "evidence-seeded")))
            v = [l for l in out.split("\n") if l.startswith("VIOLATION")]
            results[pid] = {"exit": rc, "violation_lines": v[:3], "wall_s": round(time.time() - t, 1)}
            rep = None
            for l in v:
                m = re.search(r"replay=(\S+)", l)
                if m and os.path.exists(m.group(1)) and rep is None:
                    rep = m.group(1)
            if rep:
                os.makedirs(os.path.join(VERIF, "seeded", name), exist_ok=True)
                shutil.copy(rep, os.path.join(VERIF, "seeded", name, f"replay-{pid}" + os.path.splitext(rep)[1]))
    finally:
        print(sh("git -C /repo checkout -- . && git -C /repo status --short")[1])
meta["checks"] = results
meta["caught_by"] = [p for p, r in results.items() if r["exit"] != 0 and r["violation_lines"]]
meta["needs_to_manifest"] = open(os.path.join(src, "notes.md")).read()[:3000] if os.path.exists(os.path.join(src, "notes.md")) else ""
dst = os.path.join(VERIF, "seeded", name)
os.makedirs(dst, exist_ok=True)
if os.path.abspath(src) != os.path.abspath(dst):
    shutil.copy(patch, os.path.join(dst, "patch.diff"))
    shutil.copy(demo, os.path.join(dst, "seeded_demo.rs"))
    if os.path.exists(os.path.join(src, "notes.md")):
        shutil.copy(os.path.join(src, "notes.md"), os.path.join(dst, "notes.md"))
meta["confirmed"] = confirmed
json.dump(meta, open(os.path.join(dst, "meta.json"), "w"), indent=1)
print("CONFIRMED" if confirmed else "NOT CONFIRMED", "caught by:", meta["caught_by"])
for p, r in results.items():
    print(p, r["exit"], r["violation_lines"][:1])
