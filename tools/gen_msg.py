"""RTMP message generator (text form of tools' line protocol)."""
from common import *
import gen_amf as GA

U32_EDGES = [0, 1, 2, 127, 128, 255, 256, 65535, 65536, 0xFFFFFF, 0x1000000, (1 << 31) - 1, 1 << 31, (1 << 31) + 1, M32 - 1]
UC_CODES = [0, 1, 2, 3, 4, 6, 7, 31, 32]
NAMES = [b"connect", b"createStream", b"publish", b"play", b"deleteStream", b"closeStream", b"_result", b"_error", b"onStatus",
         b"FCPublish", b"releaseStream", b"@setDataFrame", b"onMetaData", b"", b"x", "é".encode()]


def u32(rng):
    return rng.choice(U32_EDGES) if rng.chance(2, 3) else rng.below(M32)


def small_val(rng, depth, single_key):
    """AMF0 value whose encoding does not depend on map order when single_key"""
    # now and then a value the AMF0 encoder refuses (empty / oversize name, oversize string): converting such a
    # message must fail cleanly and leave no trace for the messages converted after it
    v = GA.gen_val(rng, depth, allow_bad=rng.chance(1, 10))
    if single_key:
        v = strip_keys(v)
    return v


def strip_keys(v):
    if v[0] == "o":
        return ("o", [(k, strip_keys(x)) for k, x in v[1][:1]])
    if v[0] == "a":
        return ("a", [strip_keys(x) for x in v[1]])
    return v


def gen_msg(rng, well_formed=True, single_key=False):
    k = rng.below(14)
    if k == 0:
        t = rng.choice([0, 7, 10, 11, 12, 13, 14, 16, 19, 21, 22, 100, 255])
        return f"unknown/{t}/{GA.btok(rng.bytes(rng.choice([0, 1, 4, 9, 200])))}"
    if k == 1: return f"abort/{u32(rng)}"
    if k == 2: return f"ack/{u32(rng)}"
    if k in (3, 4):
        name = rng.choice(NAMES)
        tid = rng.choice(GA.NUM_EDGES) if rng.chance(1, 2) else rng.next()
        obj = small_val(rng, 2, single_key)
        args = [small_val(rng, 2, single_key) for _ in range(rng.choice([0, 0, 1, 2, 3]))]
        return f"cmd/{GA.btok(name)}/{tid:016x}/{GA.text(obj)}/{GA.texts(args)}"
    if k == 5:
        vals = [small_val(rng, 2, single_key) for _ in range(rng.choice([0, 1, 2, 3]))]
        return f"data/{GA.texts(vals)}"
    if k == 6: return f"audio/{GA.btok(rng.bytes(rng.choice([0, 1, 5, 300, 1000])))}"
    if k == 7: return f"video/{GA.btok(rng.bytes(rng.choice([0, 1, 5, 300, 1000])))}"
    if k == 8: return f"scs/{u32(rng)}"
    if k == 9: return f"spb/{u32(rng)}/{rng.below(3)}"
    if k in (10, 11, 12):
        c = rng.choice(UC_CODES)
        s, l, t = "_", "_", "_"
        if c == 3: s, l = u32(rng), u32(rng)
        elif c in (6, 7): t = u32(rng)
        else: s = u32(rng)
        if not well_formed and rng.chance(1, 2):
            # drop a required field or add a superfluous one
            f = rng.below(3)
            if f == 0: s = "_" if s != "_" else u32(rng)
            elif f == 1: l = "_" if l != "_" else u32(rng)
            else: t = "_" if t != "_" else u32(rng)
        return f"uc/{c}/{s}/{l}/{t}"
    return f"wack/{u32(rng)}"
