#!/usr/bin/env python3
"""Regenerates the machine-derived tables of DESIGN.md in place:
   * §9b as-built table (registry + evidence: Lean modules, families, theorem counts, axioms),
   * §11 seeded-changes table (build/seedall.json + seeded/<name>/{meta.json,notes.md}).
   Text around the tables is left alone."""
import json, os, sys, re
sys.path.insert(0, os.path.dirname(os.path.abspath(__file__)))
import registry

VERIF = os.path.dirname(os.path.dirname(os.path.abspath(__file__)))
D = os.path.join(VERIF, "DESIGN.md")


def asbuilt():
    rows = ["| id | Lean property modules | correspondence families | theorems audited (axioms) | known findings |", "|---|---|---|---|---|"]
    known = json.load(open(os.path.join(VERIF, "known_findings.json")))
    for pid in sorted(registry.PROPS):
        r = registry.PROPS[pid]
        ev = {}
        try:
            ev = json.load(open(os.path.join(VERIF, "evidence", pid + ".json")))
        except Exception:
            pass
        n, ax = "?", "?"
        def find(o, key):
            if isinstance(o, dict):
                if key in o:
                    return o[key]
                for v in o.values():
                    x = find(v, key)
                    if x is not None:
                        return x
            if isinstance(o, list):
                for v in o:
                    x = find(v, key)
                    if x is not None:
                        return x
            return None
        th = find(ev, "theorems")
        if isinstance(th, list):
            n = str(len(th))
        a = find(ev, "axioms_used")
        if isinstance(a, list):
            ax = ", ".join(a) or "none"
        ks = [k.get("id", "?") for k in known.get("known", []) if k.get("property") == pid]
        rows.append(f"| {pid} | {', '.join(m.replace('Rml.Props.', 'Props/') for m in r['lean'])} | {', '.join(r['families'])} | {n} ({ax}) | {', '.join(ks) or '—'} |")
    return "\n".join(rows)


def seeded():
    sa = json.load(open(os.path.join(VERIF, "build", "seedall.json")))
    rows = ["| seeded change | breaks | reported by (quick tier, seed 1) | what it does |", "|---|---|---|---|"]
    for name in sorted(sa):
        meta = json.load(open(os.path.join(VERIF, "seeded", name, "meta.json")))
        pid = meta.get("breaks") or name[:3].upper()
        rep = []
        for k, v in sa[name].items():
            kind = v["kind"] if isinstance(v, dict) else v
            kind = {"failing-input": "failing input", "correspondence-only": "correspondence only",
                    "missed": "not reported (outside that property's scope)"}.get(kind, str(kind))
            rep.append(f"{k}: {kind}")
        notes = ""
        np_ = os.path.join(VERIF, "seeded", name, "notes.md")
        if os.path.exists(np_):
            for line in open(np_).read().split("\n"):
                l = line.strip()
                if l and not l.startswith("#"):
                    notes = l
                    break
        rows.append(f"| `{name}` | {pid} | {'; '.join(rep)} | {notes.replace('|', '/')[:100]} |")
    return "\n".join(rows), len(sa)


def filemap():
    import glob
    rows = ["| dir | file | lines | theorems | what it is (first sentence of its header) |", "|---|---|---|---|---|"]
    tot_l = tot_t = 0
    for sub in ["Model", "Spec", "Lemmas", "Props"]:
        for f in sorted(glob.glob(os.path.join(VERIF, "lean", "Rml", sub, "*.lean"))):
            s = open(f).read()
            n = s.count("\n")
            th = len(re.findall(r"^theorem ", s, re.M))
            tot_l += n
            tot_t += th
            m = re.search(r"/-\s*\n?(.*?)-/", s, re.S)
            desc = " ".join(m.group(1).split()) if m else ""
            desc = re.split(r"(?<=[.:;])\s", desc)[0][:150].replace("|", "/")
            rows.append(f"| {sub} | {os.path.basename(f)[:-5]} | {n} | {th} | {desc} |")
    rows.append(f"| | **total** | **{tot_l}** | **{tot_t}** | |")
    return "\n".join(rows)


def replace_table(d, header_prefix, new):
    i = d.index(header_prefix)
    j = d.index("\n\n", i)
    return d[:i] + new + d[j:]


def asbuilt_bullets(d):
    """each property section's `* **[as built]**` bullet = the registry's level_text (so the two cannot drift apart)"""
    lines = d.split("\n")
    cur, done = None, set()
    for i, l in enumerate(lines):
        m = re.match(r"### (C\d\d) ", l)
        if m:
            cur = m.group(1)
        elif l.startswith("* **[as built]**") and cur in registry.PROPS and cur not in done:
            r = registry.PROPS[cur]
            lines[i] = "* **[as built]** %s  (Lean: %s; families: %s.)" % (r["level_text"], ", ".join(r["lean"]), ", ".join(r["families"]))
            done.add(cur)
    return "\n".join(lines), len(done)


def main():
    d = open(D).read()
    marker = "| id | Lean property modules | correspondence families | theorems audited (axioms) | known findings |"
    if marker not in d:
        anchor = "--------------------------------------------------------------------------------\n## 10. Order of work"
        d = d.replace(anchor, "**[as built]** (generated by `tools/gen_design_tables.py` from `tools/registry.py` and the evidence files; the "
                      "lemma files behind each property module are its transitive imports under `lean/Rml/Lemmas`):\n\n" + asbuilt() + "\n\n" + anchor)
    else:
        d = replace_table(d, marker, asbuilt())
    fm_marker = "| dir | file | lines | theorems | what it is (first sentence of its header) |"
    if fm_marker not in d:
        anchor = "--------------------------------------------------------------------------------\n## 10. Order of work"
        d = d.replace(anchor, "**[as built] Lean file map** (generated):\n\n" + filemap() + "\n\n" + anchor)
    else:
        d = replace_table(d, fm_marker, filemap())
    tbl, n = seeded()
    d = replace_table(d, "| seeded change | breaks | reported by (quick tier, seed 1) | what it does |", tbl)
    d, nb = asbuilt_bullets(d)
    open(D, "w").write(d)
    print("tables regenerated;", n, "seeded changes;", nb, "as-built bullets")


if __name__ == "__main__":
    main()
