"""Generators for the session families: a light protocol simulator that emits peer messages (as chunk
stream bytes from the independent sender) and application calls, with ids drawn from {valid, stale,
never issued} and stream ids from {0, created, closed, deleted, never created}."""
from common import *
import gen_amf as GA
import gen_foreign as GF
import struct


def f64bits(x):
    return struct.unpack(">Q", struct.pack(">d", float(x)))[0]


def num(x):
    return ("n", f64bits(x))


def s(x):
    return ("s", x if isinstance(x, bytes) else x.encode())


def obj(**kw):
    return ("o", [(k.encode(), v) for k, v in kw.items()])


def cmd_body(name, tid, cobj, args):
    return GA.encs([s(name), ("n", tid) if isinstance(tid, int) and tid > 1 << 40 else num(tid), cobj] + list(args))


APPS = [b"live", b"live/", b"app//", b"", b"a", "é".encode(), b"x" * 200]
KEYS = [b"key", b"stream1", b"", b"k" * 100, "ключ".encode()]
WEIRD_NUMS = [0.0, 1.0, 2.0, 3.0, -1.0, -2.0, -0.0, 1.5, 4294967295.0, 4294967296.0, 1e300, float("nan"), float("inf"), -5.0, 0.999]


class PeerStream:
    """chunk stream towards a session, produced by the independent sender"""

    def __init__(self, rng, stats):
        self.rng = rng
        self.sender = GF.Sender(rng, stats)
        self.ts = rng.choice([0, 0, 1000, 0xFFFFF0, M32 - 50])

    def msg(self, typ, msid, data, csid=None, ts=None):
        rng = self.rng
        if ts is None:
            self.ts = (self.ts + rng.choice([0, 1, 20, 40, 1000])) % M32
            ts = self.ts
        if csid is None:
            csid = {1: 2, 2: 2, 3: 2, 4: 2, 5: 2, 6: 2, 8: 4, 9: 6, 18: 5, 20: 3}.get(typ, 7)
            if rng.chance(1, 10):
                csid = GF.pick_csid(rng)
        out = b"".join(self.sender.chunks_of(csid, typ, msid, ts, data))
        self.sender.completed(typ, data)
        return out


def rand_now(rng, state):
    k = rng.below(12)
    if k < 8:
        state["now"] += rng.choice([0, 1, 5, 40, 1000])
    elif k == 8:
        state["now"] = max(state["now"], 0xFFFFFF - 3) + rng.below(8)
    elif k == 9:
        state["now"] = max(state["now"], M32 - 3) + rng.below(8)
    elif k == 10:
        state["now"] += 1 << 24
    else:
        state["now"] += rng.below(1 << 33)
    return state["now"]


def part(rng, n):
    if n > 3000:
        return "all"
    return rng.choice(["all", "all", "all", "1", str(rng.range(2, 50)), ",".join(str(rng.range(1, 60)) for _ in range(3))])


def meta_text(rng):
    def u():
        return "_" if rng.chance(1, 2) else str(rng.choice([0, 1, 7, 1920, 1080, 44100, M32 - 1, rng.below(M32)]))
    fr = "_" if rng.chance(1, 2) else str(rng.choice([0x41F00000, 0x42700000, 0x3F800000, 0, 0x7F800000, 0x7FC00000, 0x00000001, 0x41EFC28F, rng.below(1 << 32)]))
    st = rng.choice(["_", "t", "f"])
    enc = rng.choice(["_", "_", b"obs".hex(), "é".encode().hex(), "-"])
    return ",".join([u(), u(), u(), fr, u(), u(), u(), u(), u(), st, enc])


def meta_object(rng):
    props = []
    names = [b"width", b"height", b"videocodecid", b"videodatarate", b"framerate", b"audiocodecid", b"audiodatarate",
             b"audiosamplerate", b"audiochannels", b"stereo", b"encoder", b"other", b"duration"]
    for nm in names:
        if rng.chance(1, 2):
            continue
        k = rng.below(8)
        if k < 5:
            v = ("n", rng.choice(GA.NUM_EDGES + [f64bits(x) for x in (30.0, 29.97, 1920.0, 0.1, 4294967295.5, 16777217.0, 1e39, 1e-46)]))
        elif k == 5:
            v = ("b", rng.chance(1, 2))
        elif k == 6:
            v = s(rng.choice([b"obs", b"", "é".encode()]))
        else:
            v = ("z",)
        props.append((nm, v))
    return ("o", props)


# ------------------------------------------------------------------------------------------------ server
class ServerSim:
    def __init__(self):
        self.connected = False
        self.next_req = 0
        self.out = {}          # id -> (kind, sid)
        self.done = []         # ids already answered
        self.next_stream = 1
        self.streams = {}      # sid -> state
        self.gone = []         # deleted sids


def server_case(rng, stats, length, pid):
    st = {"now": 0}
    sim = ServerSim()
    ps = PeerStream(rng, stats)
    cs = rng.choice([1, 2, 127, 128, 4096, 4096, 65535, (1 << 31) - 1, (1 << 24) + 100])
    win = rng.choice([0, 1, 100, 2500000, M32 - 1])
    ops = [f"srv.new 0 {cs} {win} {rng.choice([0, 2500000, M32 - 1])} {rng.below(2)} {hexb(rng.choice([b'FMS/3,0,1,1233', b'', 'é'.encode()]))}"]

    def pick_sid():
        k = rng.below(6)
        live = list(sim.streams)
        if k < 3 and live: return rng.choice(live)
        if k == 3 and sim.gone: return rng.choice(sim.gone)
        if k == 4: return 0
        return rng.choice([sim.next_stream, 77, M32 - 1])

    def pick_id():
        k = rng.below(6)
        if k < 3 and sim.out: return rng.choice(list(sim.out))
        if k == 3 and sim.done: return rng.choice(sim.done)
        if k == 4: return sim.next_req
        return rng.choice([999, M32 - 1, 0])

    def feed(data):
        if pid == "C03" and data and rng.chance(1, 5):
            data = GF.mutate_stream(rng, data)      # the stream may desynchronise from here on: that is the point
            bump(stats, "mutated_inputs")
        now = rand_now(rng, st)
        if pid == "C15" and data and len(data) < 3000:
            ops.append(f"!sess.split s {rng.choice(['all', '1'])} {part(rng, len(data))} {now} {hexb(data)}")
            if rng.chance(1, 3):
                md = GF.mutate_stream(rng, data)
                ops.append(f"!sess.split s {part(rng, len(md))} {part(rng, len(md))} {now} {hexb(md)}")
        ops.append(f"srv.in {now} {part(rng, len(data))} {hexb(data)}")

    # mostly-valid prefix of random depth, so that walks reach the deep states (connected, publishing, playing)
    depth = rng.choice([0, 1, 2, 3, 4, 5, 5, 5, 5, 5])
    if depth >= 1:
        app = rng.choice([b"live", b"live/", b"a", "é".encode()])
        feed(ps.msg(20, 0, cmd_body("connect", 1.0, ("o", [(b"app", s(app)), (b"objectEncoding", num(rng.choice([0, 3])))]), [])))
        rid = sim.next_req; sim.out[rid] = ("conn", 0); sim.next_req += 1
        if depth >= 2:
            ops.append(f"srv.accept {rand_now(rng, st)} {rid}"); sim.out.pop(rid); sim.done.append(rid); sim.connected = True
        if depth >= 3:
            feed(ps.msg(20, 0, cmd_body("createStream", 2.0, ("z",), [])))
            sid = sim.next_stream; sim.streams[sid] = "created"; sim.next_stream += 1
            if depth >= 4:
                kind = rng.choice(["pub", "play"])
                if kind == "pub":
                    feed(ps.msg(20, sid, cmd_body("publish", 0.0, ("z",), [s(rng.choice([b"key", b"stream1"])), s(rng.choice(["live", "record", "append"]))])))
                else:
                    feed(ps.msg(20, sid, cmd_body("play", 0.0, ("z",), [s(rng.choice([b"key", b"stream1"]))])))
                rid = sim.next_req; sim.out[rid] = (kind, sid); sim.next_req += 1
                sibs = []
                if rng.chance(1, 3):
                    # sibling requests: several undecided requests for the SAME stream, decided below in any order
                    # (deciding one must not decide, or lose, the others)
                    for _ in range(rng.range(1, 2)):
                        k2 = rng.choice(["pub", "play"])
                        if k2 == "pub":
                            feed(ps.msg(20, sid, cmd_body("publish", 0.0, ("z",), [s(rng.choice([b"key", b"other"])), s("live")])))
                        else:
                            feed(ps.msg(20, sid, cmd_body("play", 0.0, ("z",), [s(rng.choice([b"key", b"other"]))])))
                        sibs.append(sim.next_req); sim.out[sim.next_req] = (k2, sid); sim.next_req += 1
                    bump(stats, "srv_sibling_requests")
                if depth >= 5:
                    order = sorted([rid] + sibs, key=lambda _: rng.below(1 << 30))
                    for r in order:
                        k_, _sd = sim.out.pop(r); sim.done.append(r)
                        if r == rid or rng.chance(2, 3):
                            ops.append(f"srv.accept {rand_now(rng, st)} {r}")
                            sim.streams[sid] = "publishing" if k_ == "pub" else "playing"
                        else:
                            ops.append(f"srv.reject {rand_now(rng, st)} {r} {hexb(b'NetStream.Play.Failed')} {hexb(b'no')}")
        if depth >= 5 and rng.chance(1, 4):
            # a second connection request that the application rejects: the accepted connection and its streams stand
            feed(ps.msg(20, 0, cmd_body("connect", 3.0, ("o", [(b"app", s(rng.choice([b"other", app])))]), [])))
            rid2 = sim.next_req; sim.next_req += 1
            ops.append(f"srv.reject {rand_now(rng, st)} {rid2} {hexb(b'NetConnection.Connect.Rejected')} -"); sim.done.append(rid2)
            for _ in range(rng.range(1, 2)):
                feed(ps.msg(rng.choice([8, 9]), sid, rng.bytes(rng.choice([1, 5, 200]))))
            if rng.chance(1, 2):
                feed(ps.msg(20, sid, cmd_body("play", 0.0, ("z",), [s(rng.choice(KEYS))])))
                sim.out[sim.next_req] = ("play", sid); sim.next_req += 1
            bump(stats, "srv_rejected_second_connect")
        bump(stats, f"srv_warm_depth_{depth}")

    for _ in range(length):
        a = rng.below(30)
        bump(stats, "srv_action_%02d" % a)
        if a == 0:      # connect
            app = rng.choice(APPS)
            k = rng.below(8)
            if k == 0: cobj = ("z",)
            elif k == 1: cobj = obj(app=num(5))
            elif k == 2: cobj = obj(flashVer=s("x"))
            else:
                props = [(b"app", s(app))]
                if rng.chance(1, 2): props.append((b"objectEncoding", rng.choice([num(0), num(3), s("x"), ("n", GA.NUM_EDGES[6])])))
                if rng.chance(1, 2): props.append((b"tcUrl", s("rtmp://x/" )))
                cobj = ("o", props)
                sim.out[sim.next_req] = ("conn", 0); sim.next_req += 1
            feed(ps.msg(20, 0, cmd_body("connect", rng.choice([1.0, 0.0, 7.0]), cobj, [])))
        elif a == 1:    # createStream
            feed(ps.msg(20, 0, cmd_body("createStream", rng.choice([2.0, 4.0, 1e10]), ("z",), [])))
            sim.streams[sim.next_stream] = "created"; sim.next_stream += 1
        elif a in (2, 3):    # publish
            sid = pick_sid()
            k = rng.below(8)
            if k == 0: args = []
            elif k == 1: args = [s(rng.choice(KEYS))]
            elif k == 2: args = [num(1), s("live")]
            elif k == 3: args = [s(rng.choice(KEYS)), num(2)]
            elif k == 4: args = [s(rng.choice(KEYS)), s("bogus")]
            else: args = [s(rng.choice(KEYS)), s(rng.choice(["live", "LIVE", "record", "Append", "append"]))] + ([("z",)] if rng.chance(1, 4) else [])
            if k >= 5 and sim.connected:
                sim.out[sim.next_req] = ("pub", sid); sim.next_req += 1
            feed(ps.msg(20, sid, cmd_body("publish", rng.choice([0.0, 5.0]), ("z",), args)))
        elif a in (4, 5):    # play
            sid = pick_sid()
            k = rng.below(8)
            if k == 0: args = []
            elif k == 1: args = [num(3)]
            else:
                args = [s(rng.choice(KEYS))]
                for _ in range(rng.below(4)):
                    args.append(rng.choice([num(x) for x in WEIRD_NUMS] + [("b", True), ("b", False), s("x"), ("z",)]))
            if k >= 2 and sim.connected:
                sim.out[sim.next_req] = ("play", sid); sim.next_req += 1
            feed(ps.msg(20, sid, cmd_body("play", 0.0, ("z",), args)))
        elif a in (6, 7):    # closeStream / deleteStream
            sid = pick_sid()
            name = "closeStream" if a == 6 else "deleteStream"
            args = rng.choice([[num(sid)], [num(sid), ("z",)], [], [s("x")], [num(x) for x in [rng.choice(WEIRD_NUMS)]]])
            if args and args[0] == num(sid) and sim.connected and sid in sim.streams:
                if a == 7:
                    del sim.streams[sid]; sim.gone.append(sid)
                else:
                    sim.streams[sid] = "created"
            feed(ps.msg(20, rng.choice([0, sid]), cmd_body(name, 0.0, ("z",), args)))
            if a == 7 and sid in sim.gone and rng.chance(1, 2):
                # epilogue: the peer keeps using the deleted stream (publish again, outstanding accepts, late media)
                if rng.chance(1, 2) and sim.connected:
                    sim.out[sim.next_req] = ("pub", sid); sim.next_req += 1
                    feed(ps.msg(20, sid, cmd_body("publish", 0.0, ("z",), [s(rng.choice(KEYS)), s("live")])))
                for rid in [r for r, (k_, sd) in sim.out.items() if sd == sid][:2]:
                    ops.append(f"srv.accept {rand_now(rng, st)} {rid}")
                    sim.out.pop(rid); sim.done.append(rid)
                feed(ps.msg(rng.choice([8, 9]), sid, rng.bytes(5)))
                bump(stats, "srv_deleted_stream_epilogue")
        elif a in (8, 9, 10):    # audio / video
            sid = pick_sid()
            data = rng.bytes(rng.choice([0, 1, 5, 200, 5000]))
            feed(ps.msg(8 if a == 8 else 9, sid, data))
        elif a == 11:   # @setDataFrame
            sid = pick_sid()
            k = rng.below(8)
            if k == 0: vals = [s("@setDataFrame")]
            elif k == 1: vals = [s("@setDataFrame"), s("onMetaData")]
            elif k == 2: vals = [s("@setDataFrame"), s("other"), ("z",)]
            elif k == 3: vals = [s("onMetaData"), meta_object(rng)]
            elif k == 4: vals = [s("@setDataFrame"), s("onMetaData"), ("z",)]
            elif k == 5: vals = []
            else: vals = [s("@setDataFrame"), s("onMetaData"), meta_object(rng)] + ([num(1)] if rng.chance(1, 4) else [])
            feed(ps.msg(rng.choice([18, 18, 15]), sid, GA.encs(vals)))
        elif a == 12:   # ping request / response / other user control
            code = rng.choice([6, 6, 7, 0, 3, 31])
            body = code.to_bytes(2, "big") + rng.below(M32).to_bytes(4, "big") + (rng.below(M32).to_bytes(4, "big") if code == 3 else b"")
            feed(ps.msg(4, 0, body))
        elif a == 13:   # unknown command / malformed command
            k = rng.below(6)
            if k == 0: body = cmd_body(rng.choice(["FCPublish", "releaseStream", "getStreamLength", "_checkbw", "x"]), 3.0, ("z",), [s("k")])
            elif k == 1: body = GA.encs([s("connect")])
            elif k == 2: body = GA.encs([num(1), num(2), num(3)])
            elif k == 3: body = GA.encs([s("play"), s("notanumber"), ("z",)])
            elif k == 4: body = b""
            else: body = rng.bytes(rng.range(1, 12))
            feed(ps.msg(rng.choice([20, 20, 17]), rng.choice([0, 1]), (b"\\x00" if False else b"") + body))
        elif a == 14:   # acknowledgement / window ack / set peer bandwidth / abort
            typ = rng.choice([3, 5, 5, 6, 2])
            body = rng.choice([rng.below(M32), 0, 1, 10, 100, M32 - 1]).to_bytes(4, "big") + (bytes([rng.below(4)]) if typ == 6 else b"")
            if rng.chance(1, 10): body = body[:rng.below(4)]
            feed(ps.msg(typ, 0, body))
        elif a == 15:   # set chunk size from the peer
            n = rng.choice([1, 2, 100, 128, 4096, 65536, 0x7FFFFFFF, 0x1000000, 0x1000001, 0x1000003]) if not rng.chance(1, 10) else rng.choice([0, 0x80000000])
            feed(ps.msg(1, 0, n.to_bytes(4, "big")))
        elif a == 16:   # unknown message type
            feed(ps.msg(rng.choice([0, 7, 10, 16, 19, 22, 255]), rng.choice([0, 1]), rng.bytes(rng.below(10))))
        elif a in (17, 18, 19):   # accept
            rid = pick_id()
            ops.append(f"srv.accept {rand_now(rng, st)} {rid}")
            if rid in sim.out:
                kind, sid = sim.out.pop(rid); sim.done.append(rid)
                if kind == "conn": sim.connected = True
                elif sid in sim.streams: sim.streams[sid] = "publishing" if kind == "pub" else "playing"
        elif a == 20:   # reject
            rid = pick_id()
            ops.append(f"srv.reject {rand_now(rng, st)} {rid} {hexb(rng.choice([b'NetConnection.Connect.Rejected', b'', 'é'.encode()]))} {hexb(rng.choice([b'no', b'', b'd' * 50]))}")
            if rid in sim.out:
                sim.out.pop(rid); sim.done.append(rid)
        elif a in (21, 22):   # send media
            data = rng.bytes(rng.choice([0, 1, 100, 5000]))
            if rng.chance(1, 3):   # a cadence: same kind, stream, length and timestamp step, so headers compress to format 3
                kind, sid, t0, dt = rng.choice('av'), pick_sid(), rng.choice([0, 40, 0xFFFFF0, rng.below(M32)]), rng.choice([0, 10, 40, 0xFFFFFF, 0x1000000])
                data = data[:300]
                for j in range(rng.range(3, 6)):
                    ops.append(f"srv.media {kind} {sid} {(t0 + j * dt) % M32} {rng.below(2)} {hexb(data)}")
                continue
            ops.append(f"srv.media {rng.choice('av')} {pick_sid()} {rng.choice([0, 40, 0xFFFFFF, M32 - 1, rng.below(M32)])} {rng.below(2)} {hexb(data)}")
        elif a == 23:
            ops.append(f"srv.meta {rand_now(rng, st)} {pick_sid()} {meta_text(rng)}")
        elif a == 24:
            ops.append(f"srv.ping {rand_now(rng, st)}")
        elif a == 25:
            sid = pick_sid()
            ops.append(f"srv.finish {rand_now(rng, st)} {sid}")
            if sim.streams.get(sid) == "playing": sim.streams[sid] = "completed"
        elif a == 26:   # several messages in one input call
            data = b""
            for _ in range(rng.range(2, 4)):
                data += ps.msg(rng.choice([8, 9]), pick_sid(), rng.bytes(rng.choice([1, 10])))
            feed(data)
        elif a == 27:   # a valid message followed by an erroring one in the same call (K2 shape)
            data = ps.msg(4, 0, (6).to_bytes(2, "big") + (5).to_bytes(4, "big")) + ps.msg(20, 0, GA.encs([s("connect")]))
            feed(data)
        else:
            feed(b"")
        if pid == "C18" and rng.chance(1, 6):
            ops.append(f"!sess.decodable s {rng.below(1 << 30)}")
    if pid == "C18":
        ops.append(f"!sess.decodable s {rng.below(1 << 30)}")
        ops.append(f"!sess.decodable s {rng.below(1 << 30)}")
    return ops


# ------------------------------------------------------------------------------------------------ client
class ClientSim:
    def __init__(self):
        self.state = "disc"
        self.next_tid = 1
        self.txns = {}
        self.done = []
        self.active = None
        self.former = []     # streams that were active before a stop


def client_case(rng, stats, length, pid):
    st = {"now": 0}
    sim = ClientSim()
    ps = PeerStream(rng, stats)
    cs = rng.choice([1, 2, 127, 128, 4096, 4096, 65535, (1 << 31) - 1, (1 << 24) + 100])
    ops = [f"cli.new {cs} {rng.choice([0, 1, 100, 2500000, M32 - 1])} {rng.choice([0, 2000, M32 - 1])} {hexb(rng.choice([b'WIN 23,0,0,207', b'']))} {rng.choice(['_', hexb(b'rtmp://h/app')])}"]

    def feed(data):
        if pid == "C03" and data and rng.chance(1, 5):
            data = GF.mutate_stream(rng, data)
            bump(stats, "mutated_inputs")
        now = rand_now(rng, st)
        if pid == "C15" and data and len(data) < 3000:
            ops.append(f"!sess.split c {rng.choice(['all', '1'])} {part(rng, len(data))} {now} {hexb(data)}")
            if rng.chance(1, 3):
                md = GF.mutate_stream(rng, data)
                ops.append(f"!sess.split c {part(rng, len(md))} {part(rng, len(md))} {now} {hexb(md)}")
        ops.append(f"cli.in {now} {part(rng, len(data))} {hexb(data)}")

    def pick_tid():
        k = rng.below(6)
        if k < 3 and sim.txns: return float(rng.choice(list(sim.txns)))
        if k == 3 and sim.done: return float(rng.choice(sim.done))
        if k == 4: return float(sim.next_tid)
        return rng.choice(WEIRD_NUMS)

    def pick_sid():
        k = rng.below(5)
        if k < 3 and sim.active is not None: return sim.active
        if k < 3 and sim.former: return rng.choice(sim.former)     # late messages for a stream that was stopped
        if k == 3: return 0
        return rng.choice([1, 2, 77])

    depth = rng.choice([0, 1, 2, 3, 4, 5, 5, 5, 5, 5])
    if rng.chance(1, 3):
        # the peer announces a small acknowledgement window right away: acknowledgements then interleave with
        # everything the client sends on the protocol-control chunk stream
        feed(ps.msg(5, 0, rng.choice([30, 50, 100, 200, 1000]).to_bytes(4, "big")))
        bump(stats, "cli_small_window_first")
    if depth >= 1:
        ops.append(f"cli.connect {rand_now(rng, st)} {hexb(rng.choice([b'live', b'app/', b'a']))}")
        sim.txns[sim.next_tid] = "conn"; sim.next_tid += 1
        if depth >= 2:
            t = min(sim.txns); sim.txns.pop(t); sim.done.append(t)
            feed(ps.msg(20, 0, cmd_body("_result", float(t), obj(fmsVer=s("FMS/3,0,1,123"), capabilities=num(31)), [obj(level=s("status"), code=s("NetConnection.Connect.Success"), description=s("ok"))])))
            sim.state = "conn"
        if depth >= 3:
            kind = rng.choice(["play", "pub"])
            if kind == "play": ops.append(f"cli.play {rand_now(rng, st)} {hexb(b'key')}")
            else: ops.append(f"cli.publish {rand_now(rng, st)} {hexb(b'key')} {rng.choice(['live', 'record', 'append'])}")
            sim.txns[sim.next_tid] = kind; sim.next_tid += 1
            if depth >= 4:
                t = min(sim.txns); sim.txns.pop(t); sim.done.append(t)
                sid = rng.choice([1, 1, 2, 5])
                feed(ps.msg(20, 0, cmd_body("_result", float(t), ("z",), [num(float(sid))])))
                sim.active = sid; sim.state = "playreq" if kind == "play" else "pubreq"
                if depth >= 5:
                    feed(ps.msg(20, sid, cmd_body("onStatus", 0.0, ("z",), [obj(level=s("status"), code=s("NetStream.Play.Start" if kind == "play" else "NetStream.Publish.Start"), description=s("d"))])))
                    sim.state = "playing" if kind == "play" else "publishing"
        if depth == 2 and rng.chance(1, 3):
            # two stream requests outstanding at once, answered with DIFFERENT stream ids: the active stream is the one
            # returned last (the command for it went out on it); media on the other id is not this session's
            kinds = [rng.choice(["play", "pub"]) for _ in range(2)]
            tids = []
            for kd in kinds:
                if kd == "play": ops.append(f"cli.play {rand_now(rng, st)} {hexb(b'key')}")
                else: ops.append(f"cli.publish {rand_now(rng, st)} {hexb(b'key')} live")
                tids.append(sim.next_tid); sim.next_tid += 1
            ids = [rng.choice([1, 2]), rng.choice([3, 5])]
            for t, sidv in zip(tids, ids):
                feed(ps.msg(20, 0, cmd_body("_result", float(t), ("z",), [num(float(sidv))])))
            for sidv in (ids[1], ids[0], ids[1]):
                feed(ps.msg(rng.choice([8, 9]), sidv, rng.bytes(5)))
            ops.append(f"cli.stop {rand_now(rng, st)} {'play' if kinds[1] == 'play' else 'pub'}")
            bump(stats, "cli_two_stream_requests_two_ids")
            length = 0
        elif depth >= 2 and rng.chance(1, 4):
            # a stray status that answers no request of this session (refused as a state error): the session must be
            # exactly where it was - the calls its phase allows are still accepted, the others still refused
            code = rng.choice(["NetStream.Play.Start", "NetStream.Publish.Start"])
            if depth >= 5 and rng.chance(2, 3):
                code = "NetStream.Publish.Start" if sim.state == "playing" else "NetStream.Play.Start"
            feed(ps.msg(20, sim.active or 0, cmd_body("onStatus", 0.0, ("z",), [obj(level=s("status"), code=s(code), description=s("d"))])))
            for _ in range(rng.range(1, 3)):
                k = rng.below(5)
                if k == 0: ops.append(f"cli.media {rng.choice('av')} {rng.below(1000)} 0 {hexb(rng.bytes(5))}")
                elif k == 1: ops.append(f"cli.meta {rand_now(rng, st)} {meta_text(rng)}")
                elif k == 2: ops.append(f"cli.play {rand_now(rng, st)} {hexb(b'key2')}")
                elif k == 3: ops.append(f"cli.publish {rand_now(rng, st)} {hexb(b'key2')} live")
                else: ops.append(f"cli.connect {rand_now(rng, st)} {hexb(b'live')}")
            bump(stats, "cli_stray_status_then_calls")
            length = 0      # the walk's bookkeeping (sim) does not follow these calls: end the case here
        bump(stats, f"cli_warm_depth_{depth}")

    for _ in range(length):
        a = rng.below(24)
        bump(stats, "cli_action_%02d" % a)
        now = rand_now(rng, st)
        if a in (0, 1):
            ops.append(f"cli.connect {now} {hexb(rng.choice(APPS))}")
            if sim.state == "disc":
                sim.txns[sim.next_tid] = "conn"; sim.next_tid += 1
        elif a == 2:
            ops.append(f"cli.play {now} {hexb(rng.choice(KEYS))}")
            if sim.state == "conn":
                sim.txns[sim.next_tid] = "play"; sim.next_tid += 1
        elif a == 3:
            ops.append(f"cli.publish {now} {hexb(rng.choice(KEYS))} {rng.choice(['live', 'record', 'append'])}")
            if sim.state == "conn":
                sim.txns[sim.next_tid] = "pub"; sim.next_tid += 1
        elif a == 4:
            what = rng.choice(["play", "pub"])
            ops.append(f"cli.stop {now} {what}")
            if (what == "play" and sim.state in ("playreq", "playing")) or (what == "pub" and sim.state in ("pubreq", "publishing")):
                if sim.active is not None: sim.former.append(sim.active)
                sim.state = "conn"; sim.active = None
                if sim.former and rng.chance(1, 2):
                    # epilogue: late messages of the stopped stream
                    f = sim.former[-1]
                    if rng.chance(1, 2): feed(ps.msg(18, f, GA.encs([s("onMetaData"), meta_object(rng)])))
                    else: feed(ps.msg(rng.choice([8, 9]), f, rng.bytes(5)))
                    bump(stats, "cli_stopped_stream_epilogue")
        elif a == 5:
            ops.append(f"cli.meta {now} {meta_text(rng)}")
        elif a in (6, 7):
            if rng.chance(1, 3):
                kind, t0, dt = rng.choice('av'), rng.choice([0, 40, 0xFFFFF0, rng.below(M32)]), rng.choice([0, 10, 40, 0xFFFFFF, 0x1000000])
                data = rng.bytes(rng.choice([0, 1, 100, 300]))
                for j in range(rng.range(3, 6)):
                    ops.append(f"cli.media {kind} {(t0 + j * dt) % M32} {rng.below(2)} {hexb(data)}")
                continue
            ops.append(f"cli.media {rng.choice('av')} {rng.choice([0, 40, 0xFFFFFF, M32 - 1, rng.below(M32)])} {rng.below(2)} {hexb(rng.bytes(rng.choice([0, 1, 100, 5000])))}")
        elif a == 8:
            ops.append(f"cli.ping {now}")
        elif a in (9, 10, 11):   # _result
            tid = pick_tid()
            k = rng.below(6)
            if k == 0: args = []
            elif k == 1: args = [s("x")]
            elif k == 2: args = [num(rng.choice(WEIRD_NUMS))]
            else: args = [num(rng.choice([1.0, 1.0, 2.0, 5.0]))] + ([("z",)] if rng.chance(1, 4) else [])
            cobj = rng.choice([("z",), obj(fmsVer=s("FMS/3"), capabilities=num(31))])
            feed(ps.msg(20, 0, cmd_body("_result", tid, cobj, args)))
            t = int(tid) if tid == tid and 0 <= tid < 2 ** 32 else None
            if t in sim.txns:
                kind = sim.txns.pop(t); sim.done.append(t)
                if kind == "conn": sim.state = "conn"
                elif args and args[0][0] == "n":
                    v = struct.unpack(">d", args[0][1].to_bytes(8, "big"))[0]
                    sim.active = int(v) if v == v and 0 <= v < 2 ** 32 else 0
                    sim.state = "playreq" if kind == "play" else "pubreq"
        elif a == 12:           # _error
            tid = pick_tid()
            args = rng.choice([[], [obj(description=s("nope"), code=s("c"))], [obj(code=s("c"))], [s("x")], [obj(description=num(1))]])
            feed(ps.msg(20, 0, cmd_body("_error", tid, ("z",), args)))
            t = int(tid) if tid == tid and 0 <= tid < 2 ** 32 else None
            if t in sim.txns:
                sim.txns.pop(t); sim.done.append(t)
        elif a in (13, 14):     # onStatus
            k = rng.below(8)
            code = rng.choice(["NetStream.Play.Start", "NetStream.Publish.Start", "NetStream.Play.Reset", "NetStream.Data.Start", "", "x"])
            if k == 0: args = []
            elif k == 1: args = [s("x")]
            elif k == 2: args = [obj(level=s("status"))]
            elif k == 3: args = [obj(code=num(1))]
            else: args = [obj(level=s("status"), code=s(code), description=s("d"))]
            feed(ps.msg(20, pick_sid(), cmd_body("onStatus", 0.0, ("z",), args)))
            if k >= 4:
                if code == "NetStream.Play.Start" and sim.state == "playreq": sim.state = "playing"
                if code == "NetStream.Publish.Start" and sim.state == "pubreq": sim.state = "publishing"
        elif a in (15, 16):     # audio/video
            feed(ps.msg(rng.choice([8, 9]), pick_sid(), rng.bytes(rng.choice([0, 1, 5, 200, 5000]))))
        elif a == 17:           # onMetaData
            k = rng.below(6)
            if k == 0: vals = [s("onMetaData")]
            elif k == 1: vals = [s("onMetaData"), ("z",)]
            elif k == 2: vals = [s("other"), meta_object(rng)]
            elif k == 3: vals = []
            else: vals = [s("onMetaData"), meta_object(rng)]
            feed(ps.msg(18, pick_sid(), GA.encs(vals)))
        elif a == 18:           # ping / user control
            code = rng.choice([6, 6, 7, 0, 1, 4, 32])
            feed(ps.msg(4, 0, code.to_bytes(2, "big") + rng.below(M32).to_bytes(4, "big")))
        elif a == 19:           # ack / window / bandwidth / abort / chunk size
            typ = rng.choice([3, 5, 5, 6, 2, 1])
            n = rng.choice([rng.below(M32), 0, 1, 10, 100, 4096, M32 - 1]) if typ != 1 else rng.choice([1, 128, 4096, 65536, 0, 0x80000000, 0x1000000, 0x1000001, 0x1000003, 0x7FFFFFFF])
            feed(ps.msg(typ, 0, n.to_bytes(4, "big") + (bytes([rng.below(4)]) if typ == 6 else b"")))
        elif a == 20:           # unknown command / unknown type
            if rng.chance(1, 2):
                feed(ps.msg(20, 0, cmd_body(rng.choice(["onBWDone", "close", "x"]), 0.0, ("z",), [num(8192)])))
            else:
                feed(ps.msg(rng.choice([0, 7, 22, 255]), 0, rng.bytes(rng.below(8))))
        elif a == 21:           # malformed command
            feed(ps.msg(20, 0, rng.choice([b"", GA.encs([s("_result")]), GA.encs([num(1), num(2), num(3)]), rng.bytes(rng.range(1, 9))])))
        elif a == 22:           # a full accept flow for whatever is outstanding (keeps walks from stalling)
            if sim.txns:
                t = min(sim.txns)
                kind = sim.txns.pop(t); sim.done.append(t)
                feed(ps.msg(20, 0, cmd_body("_result", float(t), ("z",), [num(1.0)] if kind != "conn" else [obj(code=s("NetConnection.Connect.Success"))])))
                if kind == "conn": sim.state = "conn"
                else:
                    sim.active = 1; sim.state = "playreq" if kind == "play" else "pubreq"
                    feed(ps.msg(20, 1, cmd_body("onStatus", 0.0, ("z",), [obj(level=s("status"), code=s("NetStream.Play.Start" if kind == "play" else "NetStream.Publish.Start"), description=s("d"))])))
                    sim.state = "playing" if kind == "play" else "publishing"
            else:
                feed(b"")
        else:                   # two messages in one call, the second one failing (K2 shape)
            feed(ps.msg(4, 0, (6).to_bytes(2, "big") + (9).to_bytes(4, "big")) + ps.msg(20, 0, cmd_body("onStatus", 0.0, ("z",), [])))
        if pid == "C18" and rng.chance(1, 6):
            ops.append(f"!sess.decodable c {rng.below(1 << 30)}")
    if pid == "C18":
        ops.append(f"!sess.decodable c {rng.below(1 << 30)}")
        ops.append(f"!sess.decodable c {rng.below(1 << 30)}")
    return ops
