#!/usr/bin/env python3
"""MANIFEST.setup_cmd: build the Lean project (model, lemmas, theorems, driver) and the Rust harness
from files on disk only."""
import os, sys, shutil
sys.path.insert(0, os.path.dirname(os.path.abspath(__file__)))
from common import *
os.makedirs(BUILD, exist_ok=True)
rc, out = run(["lake", "build"], cwd=LEAN, timeout=7200)
print(out[-3000:])
if rc != 0:
    sys.exit(1)
if os.path.exists(os.path.join(REPO, "Cargo.lock")) and not os.path.exists(os.path.join(HARNESS_DIR, "Cargo.lock")):
    shutil.copy(os.path.join(REPO, "Cargo.lock"), os.path.join(HARNESS_DIR, "Cargo.lock"))
rc, out = run(["cargo", "build", "--release", "--offline"], cwd=HARNESS_DIR, timeout=7200)
print(out[-3000:])
sys.exit(0 if rc == 0 else 1)
