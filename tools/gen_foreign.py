"""A foreign RTMP chunk-stream encoder written from RTMP 1.0 §5.3.1: makes every choice the
specification leaves to a sender (csid and its 1/2/3-byte form, header format wherever legal, extended
timestamps, continuation conventions, in-band chunk size changes, optional interleaving)."""
from common import *


def fnv64(bs):
    h = 14695981039346656037
    for b in bs:
        h ^= b
        h = (h * 1099511628211) & 0xFFFFFFFFFFFFFFFF
    return h


def show_bytes(bs):
    if len(bs) <= 512:
        return bs.hex() if bs else "-"
    return f"h{len(bs)}:{fnv64(bs):016x}"


def show_msg(m):
    typ, msid, ts, data = m
    return f"{typ}:{msid}:{ts}:{show_bytes(data)}"


def basic_header(fmt, csid, form):
    if form == 1:
        return bytes([(fmt << 6) | csid])
    if form == 2:
        return bytes([(fmt << 6) | 0, csid - 64])
    v = csid - 64
    return bytes([(fmt << 6) | 1, v & 0xff, v >> 8])


def pick_csid(rng):
    k = rng.below(10)
    if k < 4: return rng.range(2, 8)
    if k == 4: return rng.choice([63, 62])
    if k == 5: return rng.choice([64, 65, 319, 318])
    if k == 6: return rng.choice([320, 321, 65599, 65598])
    if k == 7: return rng.range(64, 319)
    if k == 8: return rng.range(320, 65599)
    return rng.range(2, 63)


def pick_form(rng, csid):
    forms = []
    if csid <= 63: forms.append(1)
    if 64 <= csid <= 319: forms.append(2)
    if csid >= 64: forms.append(3)
    return rng.choice(forms)


class Sender:
    def __init__(self, rng, stats):
        self.rng = rng
        self.stats = stats
        self.cs = 128
        self.hdr = {}     # csid -> dict(ts, delta, len, typ, msid, field)
        self.form = {}    # csid -> basic header form in use (a sender may vary it; we do, per chunk)

    def first_chunk_header(self, csid, typ, msid, ts, ln):
        """choose a legal format; returns (header bytes without basic header, fmt, new hdr entry)"""
        rng = self.rng
        p = self.hdr.get(csid)
        options = [0]
        if p is not None and p["msid"] == msid:
            options.append(1)
            if p["len"] == ln and p["typ"] == typ:
                options.append(2)
                if (p["ts"] + p["delta"]) % M32 == ts:
                    options.append(3)
        # prefer the most compressed form half of the time
        fmt = options[-1] if rng.chance(1, 2) else rng.choice(options)
        bump(self.stats, f"first_fmt{fmt}")
        if fmt == 0:
            v = ts
            delta = ts
        elif fmt in (1, 2):
            delta = (ts - p["ts"]) % M32
            v = delta
        else:
            delta = p["delta"]
            v = delta
        out = b""
        field = min(v, 0xFFFFFF)
        if fmt <= 2:
            out += field.to_bytes(3, "big")
        else:
            field = p["field"]
        if fmt <= 1:
            out += ln.to_bytes(3, "big") + bytes([typ])
        if fmt == 0:
            out += msid.to_bytes(4, "little")
        if field == 0xFFFFFF:
            out += v.to_bytes(4, "big")
            bump(self.stats, "ext_first")
        ent = dict(ts=ts, delta=delta, len=ln, typ=typ, msid=msid, field=field)
        return out, fmt, ent

    def chunks_of(self, csid, typ, msid, ts, data, style=None):
        """yield the chunks (bytes) of one message under the current chunk size"""
        rng = self.rng
        ln = len(data)
        hdr, fmt, ent = self.first_chunk_header(csid, typ, msid, ts, ln)
        self.hdr[csid] = ent
        first = basic_header(fmt, csid, pick_form(rng, csid)) + hdr + data[:self.cs]
        yield first
        pos = min(self.cs, ln)
        style = style if style is not None else rng.below(4)
        while pos < ln:
            # continuation: type 3 (extended field, if the governing field is saturated: delta, absolute time, or junk)
            if style == 3 and rng.chance(1, 2):
                # a repeat of the identical full header (the spec only says SHOULD use type 3)
                v = ts
                f = min(v, 0xFFFFFF)
                h = basic_header(0, csid, pick_form(rng, csid)) + f.to_bytes(3, "big") + ln.to_bytes(3, "big") + bytes([typ]) + msid.to_bytes(4, "little")
                if f == 0xFFFFFF:
                    h += v.to_bytes(4, "big")
                self.hdr[csid] = dict(ts=ts, delta=ts, len=ln, typ=typ, msid=msid, field=f)
                bump(self.stats, "cont_repeat_full")
            else:
                h = basic_header(3, csid, pick_form(rng, csid))
                if self.hdr[csid]["field"] == 0xFFFFFF:
                    e = {0: self.hdr[csid]["delta"], 1: ts, 2: rng.below(M32), 3: self.hdr[csid]["delta"]}[style]
                    h += e.to_bytes(4, "big")
                    bump(self.stats, "ext_continuation")
                bump(self.stats, "cont_type3")
            yield h + data[pos:pos + self.cs]
            pos += self.cs

    def completed(self, typ, data):
        if typ == 1 and len(data) >= 4:
            v = int.from_bytes(data[:4], "big")
            if 1 <= v <= 0x7FFFFFFF:
                self.cs = v


def gen_messages(rng, n, max_len=700):
    msgs = []
    last_ts = {}
    for i in range(n):
        typ = rng.choice([8, 9, 18, 20, 4, 3, 15, 0, 255, 22, 2])
        msid = rng.choice([1, 1, 1, 0, 7, M32 - 1])
        k = rng.below(10)
        prev = last_ts.get(typ, rng.choice([0, 1000, 0xFFFFF0, 0x1000000, M32 - 20]))
        if k < 3: ts = (prev + rng.range(0, 40)) % M32
        elif k == 3: ts = prev
        elif k == 4: ts = (prev + 0xFFFFFF) % M32
        elif k == 5: ts = (prev + 0x1000000 + rng.below(50)) % M32
        elif k == 6: ts = rng.choice([0xFFFFFF, 0xFFFFFE, 0x1000000, M32 - 1, 0])
        elif k == 7: ts = (prev - rng.range(1, 30)) % M32
        else: ts = rng.below(M32)
        last_ts[typ] = ts
        k = rng.below(9)
        ln = [0, 1, 5, 127, 128, 129, 300, rng.range(0, max_len), rng.range(0, 40)][k]
        data = bytes(((i * 31 + j * 7 + 3) & 0xff) for j in range(ln))
        msgs.append((typ, msid, ts, data))
    return msgs


def encode_sequential(rng, stats, nmsgs, cs_changes=True, max_len=700):
    """returns (bytes, expected message list)"""
    s = Sender(rng, stats)
    out = bytearray()
    expect = []
    csids = [pick_csid(rng) for _ in range(rng.range(1, 4))]
    if rng.chance(1, 3):
        # chunk stream ids that a mis-computed multi-byte csid would confuse: same low byte / neighbouring high byte,
        # carries out of the "+ 64", the form boundaries
        base = rng.choice([rng.range(320, 65599), rng.range(64 + 192, 64 + 255) + 256 * rng.range(0, 254), rng.range(64, 319)])
        near = [base + d for d in (-256, 256, -64, 64, -1, 1, -512, 255, -255) if 2 <= base + d <= 65599]
        csids = [base] + [rng.choice(near) for _ in range(rng.range(1, 3))]
        bump(stats, "aliasing_csid_sets")
    for (typ, msid, ts, data) in gen_messages(rng, nmsgs, max_len):
        if cs_changes and rng.chance(1, 6):
            n = rng.choice([1, 2, 3, 64, 127, 128, 129, 200, 4096, 65536, 0x7FFFFFFF, rng.range(1, 500), 0x1000000, 0x1000001, 0x1000000 + rng.range(2, 200), 0x40000007]) if max_len <= 1000 else rng.choice([128, 4096, 65536, 0x7FFFFFFF, 70000, 0x1000000 + 1000])
            payload = n.to_bytes(4, "big") + (rng.bytes(rng.range(0, 3)) if rng.chance(1, 5) else b"")
            c = 2 if rng.chance(3, 4) else rng.choice(csids)
            t = rng.choice([0, ts])
            for ch in s.chunks_of(c, 1, 0, t, payload):
                out += ch
            s.completed(1, payload)
            expect.append((1, 0, t, payload))
            bump(stats, "inband_cs_change")
        c = rng.choice(csids)
        for ch in s.chunks_of(c, typ, msid, ts, data):
            out += ch
        s.completed(typ, data)
        expect.append((typ, msid, ts, data))
    return bytes(out), expect


def encode_many_streams(rng, stats):
    """many chunk streams alive at once (65..100 distinct ids, more than any fixed-size table would hold): every id
    sends a first message, then - after all the others have sent theirs - further messages whose headers the sender
    compresses against that id's own history.  Sequential (no chunk of another id inside a message).
    returns (bytes, expected message list)"""
    s = Sender(rng, stats)
    out = bytearray()
    expect = []
    n = rng.range(65, 100)
    csids = []
    while len(csids) < n:
        c = pick_csid(rng) if rng.chance(1, 2) else rng.range(2, 200)
        if c not in csids:
            csids.append(c)
    ts0 = {c: rng.choice([0, 1000, 0xFFFFF0, rng.below(M32)]) for c in csids}
    for rnd in range(rng.range(2, 3)):
        order = csids if rnd == 0 or rng.chance(1, 2) else list(reversed(csids))
        for c in order:
            typ, msid = (8 + (c % 2), 1 + (c % 3))
            ts = (ts0[c] + 40 * rnd) % M32
            ln = rng.choice([0, 1, 5, 100, 129, 300]) if rnd == 0 else rng.choice([1, 5, 100, 130])
            data = bytes(((c * 13 + j * 7 + rnd) & 0xff) for j in range(ln))
            for ch in s.chunks_of(c, typ, msid, ts, data):
                out += ch
            s.completed(typ, data)
            expect.append((typ, msid, ts, data))
    bump(stats, "many_stream_cases")
    return bytes(out), expect


def encode_interleaved(rng, stats, nrounds):
    """messages on distinct csids whose chunks are interleaved (each message's own chunks in order).
    returns (bytes, expected in completion order, overlapped: did any chunk of another csid fall inside a message?)"""
    s = Sender(rng, stats)
    out = bytearray()
    expect = []
    overlapped = False
    # a small pool of chunk streams used throughout the trace (so that later messages on a stream compress their
    # headers against earlier ones), one time in three a set that a mis-computed multi-byte id would confuse
    pool = []
    if rng.chance(1, 3):
        base = rng.choice([rng.range(320, 65599), rng.range(64 + 192, 64 + 255) + 256 * rng.range(0, 254), rng.range(64, 319)])
        near = [base + d for d in (-256, 256, -64, 64, -1, 1, -512, 255, -255) if 2 <= base + d <= 65599]
        pool = [base] + near[:rng.range(1, 3)]
        bump(stats, "aliasing_csid_sets")
    while len(pool) < 4:
        c = pick_csid(rng)
        if c not in pool:
            pool.append(c)
    nrounds = nrounds + rng.range(0, 3)
    for _ in range(nrounds):
        k = rng.range(1, 3)
        csids = []
        while len(csids) < k:
            c = rng.choice(pool[:3]) if rng.chance(3, 4) else rng.choice(pool)
            if c not in csids:
                csids.append(c)
        msgs = gen_messages(rng, k, max_len=600)
        msgs = [(t if t != 1 else 8, m, ts, d) for (t, m, ts, d) in msgs]
        streams = [list(s.chunks_of(c, *m, style=rng.choice([0, 1, 2]))) for c, m in zip(csids, msgs)]
        idx = [0] * k
        started = set()
        while any(idx[i] < len(streams[i]) for i in range(k)):
            live = [i for i in range(k) if idx[i] < len(streams[i])]
            i = rng.choice(live)
            if any((j in started) and j != i and idx[j] < len(streams[j]) for j in range(k)):
                overlapped = True
            out += streams[i][idx[i]]
            idx[i] += 1
            started.add(i)
            if idx[i] == len(streams[i]):
                expect.append(msgs[i])
    return bytes(out), expect, overlapped


def encode_alternating_cadence(rng, stats):
    """several chunk streams, each carrying a steady cadence (same type, stream, length and timestamp step, so that a
    conformant sender compresses message starts down to type 3), whole messages alternating between the streams WITHOUT
    overlapping; lengths are chosen around and above the chunk size so that type-3-started messages span chunks.
    returns (bytes, expected messages)"""
    s = Sender(rng, stats)
    out = bytearray()
    expect = []
    k = rng.range(2, 3)
    csids = []
    while len(csids) < k:
        c = pick_csid(rng)
        if c not in csids:
            csids.append(c)
    cad = {}
    for c in csids:
        ln = rng.choice([s.cs + 1, 2 * s.cs, 2 * s.cs + 1, 3 * s.cs + 5, s.cs - 1, 1, rng.range(1, 500)])
        cad[c] = dict(typ=rng.choice([8, 9, 18]), msid=rng.choice([1, 1, 7]), ln=ln,
                      step=rng.choice([0, 20, 40, 0xFFFFFF, 0x1000000]), ts=rng.choice([0, 1000, 0xFFFFF0, M32 - 100]))
    n = 0
    for _ in range(rng.range(3, 7)):
        order = list(csids)
        if rng.chance(1, 2):
            order.reverse()
        for c in order:
            if rng.chance(1, 6):
                continue
            d = cad[c]
            d["ts"] = (d["ts"] + d["step"]) % M32
            data = bytes(((n * 31 + j * 7 + 3) & 0xff) for j in range(d["ln"]))
            n += 1
            for ch in s.chunks_of(c, d["typ"], d["msid"], d["ts"], data, style=rng.choice([0, 1])):
                out += ch
            expect.append((d["typ"], d["msid"], d["ts"], data))
    return bytes(out), expect


def mutate_stream(rng, b):
    b = bytearray(b)
    if not b:
        return bytes([rng.below(256)])
    for _ in range(rng.range(1, 3)):
        k = rng.below(8)
        i = rng.below(len(b))
        if k == 0: b[i] ^= 1 << rng.below(8)
        elif k == 1: del b[i:]
        elif k == 2: b[i:i] = rng.bytes(rng.range(1, 4))
        elif k == 3: del b[i:i + rng.range(1, 4)]
        elif k == 4: b[i] = rng.choice([0x00, 0x40, 0x80, 0xc0, 0xff, 0x3f, 0x01, 0x41, 0xc1, 0x03, 0x43, 0x83, 0xc3])
        elif k == 5: b[i:i + 3] = bytes([255, 255, 255])
        elif k == 6: b[i:i + 1] = bytes([0x40 | (b[i] & 0x3f)])
        else: b[i:i + 1] = bytes([(b[i] & 0xc0) | rng.range(2, 8)])
        if not b:
            break
    return bytes(b)
