"""Property → artefacts.  One entry per claimed property."""

TRUSTED_BASE = [
    "Lean 4.33.0 kernel (thorough tier: re-checked by leanchecker); axioms allowed: propext, Classical.choice, Quot.sound (audited per theorem with #print axioms on every run)",
    "no sorry/admit/axiom/native_decide/bv_decide/implemented_by/unsafe in /verif/lean/Rml (source scan on every run)",
    "the hand-written Lean model says what the Rust code does: CHECKED on every run by the correspondence run (same op lines interpreted by /verif/harness against /repo's working tree and by the compiled model), strength bounded by the generators whose distribution is printed in input_distribution",
    "the Rust harness, the line protocol and its canonical text forms, tools/check.py",
    "modelled rather than verified: std collections, bytes/byteorder crates, String::from_utf8, hmac/sha2, rand, SystemTime, Rust integer cast and wrapping semantics",
]

HOOKS = {
    "guard": "cargo feature `verif-hooks` of rml_rtmp (off by default)",
    "enable": "the harness crate /verif/harness depends on /repo/rtmp by path with features = [\"verif-hooks\"] (harness/Cargo.toml); H1 = rml_rtmp::handshake::verif_hooks (deterministic handshake fill), H2 = session clock shift",
    "baseline_off_cmd": "cd /repo && cargo test --workspace --no-fail-fast --offline",
    "source_commits": ["19ee666", "18d9cf5", "03b9f02"],
    "add_only": True,
}

NOT_APPLICABLE = {}

NOTES = ("Technique family: machine-checked proof in Lean 4. Every claimed property = theorems in lean/Rml/Props/<id>.lean about the "
         "hand-written model in lean/Rml/Model, tied to /repo by the correspondence run of tools/check.py. See DESIGN.md.")

PROPS = {
    "C09": dict(
        lean=["Rml.Props.C09"], families=["server"],
        level_text="Proved on the byte-level model of the server session, for EVERY state (hence after every history): publish/play before an accepted connection request are never surfaced — only an `_error` packet, no request recorded (C09_gate_publish/_play); `connected` and the app name arise only from accepting a connection request (C09_connected_by_accept); a surfaced request carries the id nextReq (C09_fresh_id_publish) and, by the history invariant Inv (preserved by every input call — whatever bytes arrive, failing or not — and by accept: C09_inv_handleInput, C09_inv_accept), that id and the next stream id were never issued before (C09_fresh_ids); an id that is not outstanding is refused with NO state change and answering consumes the id, so a second accept/reject is refused (C09_unknown_id_refused, _answer_consumes, _second_answer_refused); createStream issues nextStream and answers `_result` with the caller's transaction id on stream 0; media events are raised iff the stream is currently publishing, tagged with its key and the accepted app name (C09_media_iff_publishing, _accept_publish_sets_publishing); close/delete of a publishing stream raises exactly one finished event and a repeat raises none (C09_finished_once); ping requests are answered with PingResponse of the same timestamp (C09_ping_echo).",
        level_note="Trusted: Lean kernel; the session model (Rml/Model/ServerSession.lean, ~350 lines, composed from the deserializer, message, AMF0 and serializer models) is tied to the real ServerSession by the `server` family: random walks over the property's alphabet with a mostly-valid warm-up prefix, ids from {valid, stale, never issued}, every op interpreted by both sides under hook H2; outbound packets compared after the reference chunk reader (headers byte-exact, AMF0 maps sorted). Request/stream counters are unbounded Nat in the model (u32 in Rust: < 2^32 requests per session assumed). Depends on fixes F5, F6, F11.",
    ),
    "C10": dict(
        lean=["Rml.Props.C10"], families=["client"],
        level_text="Proved on the byte-level model of the client session, for EVERY state: each public request from a state that does not permit it is refused, emits nothing and changes nothing (C10_guard_connect/_stream/_publish); a permitted request registers exactly one transaction under the fresh id nextTxn (C10_connect_registers, _stream_registers); a result or error for a transaction id whose `f64 as u32` is not outstanding is reported as unknown and not applied (C10_unknown_transaction); a connect result moves to Connected with the requested app, emits window-ack, accepted event, SetChunkSize in that order and switches the serializer to the configured chunk size (C10_connect_result); a createStream result requires a numeric stream id, makes `f64 as u32` of it the active stream and moves to Play/PublishRequested with the play (+ buffer length) or publish command (C10_create_result); start statuses apply only from the matching requested state (C10_status); media events only for the active stream while play is requested or running (C10_media_gate); stop emits deleteStream(active id) on that stream and returns to Connected, and is a no-op elsewhere (C10_stop, _stop_noop, _stop_message); ping requests are echoed (C10_ping_echo).",
        level_note="Trusted: Lean kernel; client session model tied to the real ClientSession by the `client` family (random walks with warm-up prefix, transaction ids from {current, stale, never issued, non-integral, NaN}, every op interpreted by both sides under hook H2). Transaction counter unbounded Nat in the model (u32 in Rust).",
    ),
    "C17": dict(
        lean=["Rml.Props.C17"], families=["ack"],
        level_text="Proved for EVERY window W ≥ 1 and EVERY list of call sizes on the acknowledgement step both session models run at the head of handle_input (Sess.ackStep): an acknowledgement is emitted in exactly the calls in which the count since the previous one reaches W and reports that count (C17_step, C17_emit_iff); fewer than W bytes are outstanding after every call, for every fragmentation (C17_outstanding_lt, _run); Σ reported + outstanding = Σ call sizes, i.e. no byte is acknowledged twice or never (C17_conservation); nothing is counted before a window is known; the saturating counter of fix F10 never exceeds u32::MAX and still acknowledges when the window is reached; both session models call exactly this step with the window known before the call (C17_server/_client_uses_ackStep).",
        level_note="Trusted: Lean kernel; 'since the window was learned' read call-granularly (DESIGN §9a.3); count < 2^32 in the value/conservation theorems (4 GiB outstanding is refused by saturation instead). Model tied to code by the `ack` family: both session kinds, W = 1..8 × ALL size lists of length ≤ 4 over {0,1,2,3,W-1,W,W+1} on the real sessions against an independent counter, large windows sampled, and srv.in/cli.in correspondences with acknowledgement packets compared byte-exactly (hook H2). Depends on fix F10.",
    ),
    "C05": dict(
        lean=["Rml.Props.C05"], families=["hs"],
        level_text="PARTIAL proof, with hmac and both random fills arbitrary. Proved: the five-stage loop of process_bytes equals a straight-line closed form for EVERY state and input (processBytes_eq_procSpec); against ANY peer stream 3‖p1‖p2‖tail (digest-bearing or original) a party, in either start mode, emits 3‖own p1‖answer (3073 bytes), completes and returns exactly `tail` (C05_one_call_fresh/_started, C05_emits_3073); no input shorter than 3073 bytes completes it (C05_no_early_completion); bad version byte and post-completion input are refused. NOT yet a theorem: the same for every partition into calls and every two-party schedule; covered by hs.xfer schedules interpreted by model and real code (byte-exact under hook H1) and the !hs.pair oracle on real handshakes incl. an original-handshake peer under many fragmentations and trailing data.",
        level_note="Trusted: Lean kernel; HMAC-SHA256 and the random fill are parameters (the driver instantiates HMAC with its own SHA-256, self-tested on standard vectors); model tied to code byte-exactly under hook H1 (deterministic fill). Fragmentation clause currently rests on differential testing.",
    ),
    "C11": dict(
        lean=["Rml.Props.C11"], families=["hs"],
        level_text="Proved for both roles, EVERY random fill and an arbitrary 32-byte-valued hmac: every generated packet 1 has time 0, version 128.0.7.2 and, at the offset its own bytes select under the role's scheme, the HMAC of the rest of the packet under the role's key — writing the digest moves neither the offset bytes nor the hashed message (C11_p1), and a prober of both positions finds it (C11_p1_found_by_prober); every one of the 728 offsets of each scheme is selected by some fill (C11_offsets_onto); packet 2 in answer to a packet 1 with a digest under either scheme/any offset keeps its 1504 random bytes and ends with HMAC(HMAC(digest, key‖crud), those bytes) (C11_p2_digest); in answer to a digest-less packet 1 it is an exact echo (C11_p2_echo).",
        level_note="That `hmac` IS HMAC-SHA256 with the Adobe keys is checked, not proved: the driver's own SHA-256 (self-tested) reproduces the real library's packets byte-for-byte for all 728 own-packet offsets of both roles and all 2×728 received-packet offsets (hook H1), and the harness verifies digests/signatures with independent code. Trusted: Lean kernel; sha2/hmac crates.",
    ),
    "C13": dict(
        lean=["Rml.Props.C13"], families=["msg"],
        level_text="Proved for all field values on the model of rtmp/src/messages/**: C13_roundtrip (every well-formed message of every variant — all u32 values, all 9 user-control events, all 3 limit types, arbitrary AMF0 argument lists via C04, arbitrary audio/video bytes — converts to a payload that converts back to an equal message), C13_layout (type ids and body layouts written out from RTMP 1.0 §5.4/§7.1 in the theorem statement), C13_alias (15≡18, 17≡20 with optional leading zero), C13_unknown (all unassigned ids pass through untouched in both directions), C13_chunk_size_range (rejected ⇔ > 2^31-1, both directions).",
        level_note="Trusted: Lean kernel; well-formedness predicate C13.WF (u32 ranges, exactly the fields of the event type, Rust type guarantees for AMF0 parts); model tied to code by the `msg` family (all 256 type ids × 11 bodies, all event and limit codes, boundary-biased random messages) incl. an independent layout table in the harness. Ill-formed user-control messages trip debug_assert! in the library (API misuse): mirrored as explicit outcome `panic`, excluded by WF. Depends on fix F5.",
    ),
    "C01": dict(
        lean=["Rml.Props.C01", "Rml.Props.C15"], families=["chunk"],
        level_text="PARTIAL proof. Proved for all inputs on the models of serializer.rs / deserializer.rs: the serializer accepts exactly payloads ≤ 16,777,215 bytes (C01_accepts), every accepted message yields a non-empty packet incl. empty payloads (C01_nonempty), and what the deserializer returns is independent of how the bytes are split into calls, for every byte string (C01_any_partition = Thm P). NOT yet a theorem: the round-trip equation for every history (Thm B ∘ Thm A); it is covered by the byte-exact correspondence run (model ≡ real serializer and real deserializer on ~13,000 histories incl. all length-≤2/3 sequences over a 38-symbol alphabet) and the direct round-trip oracle on the real code.",
        level_note="Trusted: Lean kernel, standard axioms; hand model tied to code by the `chunk` family (generator-bounded); the round-trip clause itself currently rests on differential testing, not on a theorem. Depends on fixes F1 (empty payload), F2 (chunk size 0).",
    ),
    "C06": dict(
        lean=["Rml.Props.C06", "Rml.Props.C15"], families=["foreign"],
        level_text="PARTIAL proof. Proved for all inputs: the deserializer's basic-header reader equals the specification reader's on every byte string, and reads every csid 2..65599 in each legal 1/2/3-byte form with every format (C06_basic_header, C06_csid_form1/2/3); decoding is independent of fragmentation (Thm P). NOT yet a theorem: agreement with the specification reader (Rml/Spec/Chunk.lean) on every legal sequential stream (Thm B); covered by the `foreign` family: an independent sender written from RTMP 1.0 §5.3.1 exercising every sender freedom; real deserializer, Lean model, Lean specification reader and Rust reference decoder must all agree with the messages that were encoded.",
        level_note="Trusted: adequacy of Spec/Chunk.lean w.r.t. RTMP 1.0 §5.3.1 (human-read, 120 lines); Lean kernel; correspondence bounded by the foreign sender's generator (distribution in evidence). Depends on fix F4 (extended timestamp delta).",
    ),
    "C07": dict(
        lean=["Rml.Props.C07"], families=["chunk"],
        level_text="PARTIAL proof. Proved for every chunk the serializer model can emit: csids legal (2..6) and minimally encoded in one byte; a compressed format is chosen only when the omitted fields equal the stored predecessor's; 24-bit field = min(field, 0xFFFFFF) with the 32-bit extended field present exactly when field ≥ 0xFFFFFF; no piece exceeds the chunk size in force and the pieces are the payload; a new chunk size is announced under the old size before its first use. NOT yet a theorem: that the specification reader decodes the output of every history into exactly those messages (Thm A); covered by the correspondence run and by the independent reference decoder oracle (!chunk.ref) on the real serializer's bytes.",
        level_note="Trusted: Lean kernel; model tied to serializer.rs byte-exactly by the `chunk` family; the Rust reference decoder is cross-checked against the Lean specification reader on every run (spec.feed). Depends on fix F1.",
    ),
    "C08": dict(
        lean=["Rml.Props.C08"], families=["chunk"],
        level_text="PARTIAL proof. Proved for every serializer state: the first chunk of a message has exactly the format firstFmt computes (addChunk_first_byte), which is the full format 0 whenever the header last sent on that chunk stream was in a droppable packet (C08_full_header_after_droppable); the stored header carries the flag of the packet it was sent in (C08_flag_recorded); chunk-size announcements are never droppable. NOT yet a theorem: decodability of the surviving packets for every history and every subset (Thm B ∘ Thm A with drops); covered by correspondence under drop masks (ALL masks for the small-scope histories) plus the round-trip and reference-decoder oracles on the real code.",
        level_note="Trusted: Lean kernel; model tied to code by the `chunk` family; subsets are enumerated exhaustively only for small-scope histories, sampled otherwise. Depends on fix F1.",
    ),
    "C15": dict(
        lean=["Rml.Props.C15"], families=["chunk", "foreign"],
        level_text="Deserializer part fully proved: Thm P (C15_des, C15_des_partition) — for EVERY deserializer state and EVERY byte stream (valid or not), any two partitions into calls (any number, any sizes incl. empty) deliver the same messages and the same error after the same messages, and leave the same state when there is no error; the drain loop never stops for lack of fuel (C15_des_no_fuel). Proof: prefix-monotonicity of each of the 7 stages + a strictly decreasing measure 8·|buffer|+rank(stage). Session part (events/responses, K2) is added with the session models.",
        level_note="Trusted: Lean kernel; the model's `feed` is the documented consumer loop (get_next_message(bytes), then (&[]) until None, honouring SetChunkSize) — tied to the real ChunkDeserializer by des.feed correspondence on library-produced, foreign and mutated streams under many partitions, plus the direct two-partition oracle (!des.split). Not mirrored: one dead store (DESIGN.md §1).",
    ),
    "C16": dict(
        lean=["Rml.Props.C16"], families=["foreign"],
        level_text="The property is FALSE of the library (known finding K1): machine-checked counterexample C16_counterexample (a chunk of another chunk stream arriving mid-message makes the deserializer fail) against C16_spec_reads_it (the specification reader delivers both messages). The check replays interleaved streams from the independent sender on the real deserializer on every run: failures on overlapping interleavings are the listed finding; any failure on a non-overlapping multi-stream trace, or any model/implementation disagreement about what goes wrong, is a violation.",
        level_note="Known finding K1 in known_findings.json, keyed by 'a chunk on another chunk stream arrives while a message is partially reassembled'. Trusted: Lean kernel (decide +kernel on concrete streams), Spec/Chunk.lean adequacy, foreign sender.",
    ),
    "C19": dict(
        lean=["Rml.Props.C19"], families=["chunk", "amf"],
        level_text="Proved on the models: both chunk-size setters refuse exactly 0 and values > 2^31-1 and honour every other value; payloads are refused exactly above 16,777,215 bytes; every reachable serializer state has chunk size ≥ 1 (induction over arbitrary histories), hence no operation ever reaches the model's explicit divergence outcome `.hang` (C19_no_hang), the slicing loop runs ≤ len+1 times; AMF0 strings/names > 65,535 bytes are refused. Session constructors: they pass the configured value to exactly these setters (checked with the session models). Runtime half (real time/memory) is observed by the harness under a per-shard timeout, not proved.",
        level_note="Trusted: Lean kernel; model tied to code by the `chunk` family's configuration-edge cases (all setter edges, 16 MiB±1 payloads) and the `amf` family's length edges. Depends on fixes F2 (chunk size 0) and F7 (AMF0 names).",
    ),
    "C04": dict(
        lean=["Rml.Props.C04"], families=["amf"],
        level_text="Theorem C04_roundtrip: for EVERY value sequence (unbounded size, any nesting the encoder accepts, all 2^64 number patterns, any UTF-8, any enumeration order of every map) the encoder model's output is decoded by the decoder model, consuming all bytes, to exactly that sequence; C04_errors characterises exactly when encoding is refused (string/name > 65535 bytes, empty name, nesting > 128). Proved via the specification relation (encoder ⊆ spec, decoder inverts spec) by mutual structural induction. The model is tied to amf0/src by the `amf` correspondence family on every run.",
        level_note="Trusted: Lean kernel + standard axioms; Val.WF (valid UTF-8, distinct names per map, <2^32 elements per Vec) are the Rust type guarantees and are hypotheses; HashMap = association list (model), encoder correspondence is modulo map enumeration order (the model re-encodes in the wire order the implementation chose and must reproduce its bytes exactly); correspondence strength is bounded by the generator (see evidence input_distribution). Depends on fix commits F7 (names), F8 (depth), recorded in known_findings.json.",
        assumptions=["Vec lengths < 2^32 (cannot be reached in memory)"],
    ),
    "C14": dict(
        lean=["Rml.Props.C14"], families=["amfadv"],
        level_text="Logic half proved for EVERY byte string (no length bound): C14_terminates (the decoder model is total and its fuel is never exhausted), C14_depth (the deepest recursion level of the instrumented decoder never exceeds MAX_NESTING_DEPTH = 128, however deep the input nests), C14_alloc (values constructed + buffer bytes requested ≤ input length + 65535: counts are never used as sizes, only one u16 string length is trusted before reading), C14_ghost_is_decoder (the instrumented model computes exactly the decoder model's results). Runtime half MEASURED, not proved: the real decoder runs adversarial inputs (nesting len/5, counts 2^32-1, declared string lengths) on a 512 KiB thread stack under a counting allocator.",
        level_note="Trusted: Lean kernel + standard axioms; that the ghost counters are placed where the Rust code recurses/allocates (inspection of Rml/Model/Amf0Ghost.lean against deserialization.rs); decoder model tied to the code by amf.dec correspondence incl. run-length-encoded deep inputs around the limit; real stack frame sizes and allocator behaviour are measurements (3 frames per nesting level, ≤ 2 KiB per level in the harness build). Depends on fix F8 (depth limit).",
    ),
    "C12": dict(
        lean=["Rml.Props.C12"], families=["amf"],
        level_text="The AMF0 document is formalised as the inductive relation Spec.Amf0.Encodes (any property order, ECMA arrays with any count, any non-zero true byte). Theorems: C12_encode_spec (every encoder output is in the relation), C12_decode_spec (EVERY encoding in the relation, within the nesting limit, decodes to the value it denotes, consuming everything), C12_unsupported (all 247 other markers are errors at any position). Truncation clause: checked by the oracle at every cut point and by model/implementation correspondence on cuts and mutations; its theorem is not proved yet (see DESIGN.md).",
        level_note="Trusted: adequacy of the 40-line relation w.r.t. the AMF0 document (human-read); Lean kernel; model tied to code by the `amf` family incl. an independent Rust reference codec (harness/src/refcodec.rs) used as oracle in both directions, all 256 markers, every truncation point. Depends on fix F9 (boolean non-zero = true).",
    ),
    "C20": dict(
        lean=["Rml.Props.C20"],
        families=["time"],
        trusted=["u32 values are modelled as Nat < 2^32 with the wrap written out (Rml/Model/Time.lean)"],
        assumptions=["K3: pairs exactly 2^31 apart are excluded from C20_later_iff_partial (known finding, see known_findings.json)"],
        level_text="All u32 pairs are covered by Lean theorems (add/sub exact and inverse, order agrees with equality, antisymmetry, later-iff away from distance 2^31, and the machine-checked antipodal counterexample that is known finding K3); the model of time.rs is 25 lines and is tied to the code by running every operator, incl. all mixed u32 forms, on a boundary grid and random pairs on every run.",
        level_note="Trusted: Lean kernel + 3 standard axioms; Nat-mod-2^32 model of u32 checked against the real RtmpTimestamp by the `time` correspondence family (bounded by its generator: grid of protocol edges and harvested literals squared + random boundary-biased pairs). K3 (distance exactly 2^31) is a listed known finding.",
        explanation="Theorems over all u32 pairs about the model of time.rs; model tied to the code by running every operator (incl. all mixed u32 forms) on grid + random pairs.",
    ),
}
