"""Property → artefacts.  One entry per claimed property."""

TRUSTED_BASE = [
    "Lean 4.33.0 kernel (thorough tier: re-checked by leanchecker); axioms allowed: propext, Classical.choice, Quot.sound (audited per theorem with #print axioms on every run)",
    "no sorry/admit/axiom/native_decide/bv_decide/implemented_by/unsafe in /verif/lean/Rml (source scan on every run)",
    "the hand-written Lean model says what the Rust code does: CHECKED on every run by the correspondence run (same op lines interpreted by /verif/harness against /repo's working tree and by the compiled model), strength bounded by the generators whose distribution is printed in input_distribution",
    "the Rust harness, the line protocol and its canonical text forms, tools/check.py",
    "modelled rather than verified: std collections, bytes/byteorder crates, String::from_utf8, hmac/sha2, rand, SystemTime, Rust integer cast and wrapping semantics",
]

HOOKS = {
    "guard": "cargo feature `verif-hooks` of rml_rtmp (off by default)",
    "enable": "the harness crate /verif/harness depends on /repo/rtmp by path; hooks (none needed so far) would be enabled through the feature in harness/Cargo.toml",
    "baseline_off_cmd": "cd /repo && cargo test --workspace --no-fail-fast --offline",
    "source_commits": [],
    "add_only": True,
}

NOT_APPLICABLE = {}

NOTES = ("Technique family: machine-checked proof in Lean 4. Every claimed property = theorems in lean/Rml/Props/<id>.lean about the "
         "hand-written model in lean/Rml/Model, tied to /repo by the correspondence run of tools/check.py. See DESIGN.md.")

PROPS = {
    "C01": dict(lean=["Rml.Props.C20"], families=["chunk"], level_text="wip", level_note="wip"),
    "C07": dict(lean=["Rml.Props.C20"], families=["chunk"], level_text="wip", level_note="wip"),
    "C08": dict(lean=["Rml.Props.C20"], families=["chunk"], level_text="wip", level_note="wip"),
    "C19": dict(lean=["Rml.Props.C20"], families=["chunk"], level_text="wip", level_note="wip"),
    "C04": dict(
        lean=["Rml.Props.C04"], families=["amf"],
        level_text="Theorem C04_roundtrip: for EVERY value sequence (unbounded size, any nesting the encoder accepts, all 2^64 number patterns, any UTF-8, any enumeration order of every map) the encoder model's output is decoded by the decoder model, consuming all bytes, to exactly that sequence; C04_errors characterises exactly when encoding is refused (string/name > 65535 bytes, empty name, nesting > 128). Proved via the specification relation (encoder ⊆ spec, decoder inverts spec) by mutual structural induction. The model is tied to amf0/src by the `amf` correspondence family on every run.",
        level_note="Trusted: Lean kernel + standard axioms; Val.WF (valid UTF-8, distinct names per map, <2^32 elements per Vec) are the Rust type guarantees and are hypotheses; HashMap = association list (model), encoder correspondence is modulo map enumeration order (the model re-encodes in the wire order the implementation chose and must reproduce its bytes exactly); correspondence strength is bounded by the generator (see evidence input_distribution). Depends on fix commits F7 (names), F8 (depth), recorded in known_findings.json.",
        assumptions=["Vec lengths < 2^32 (cannot be reached in memory)"],
    ),
    "C14": dict(
        lean=["Rml.Props.C14"], families=["amfadv"],
        level_text="Logic half proved for EVERY byte string (no length bound): C14_terminates (the decoder model is total and its fuel is never exhausted), C14_depth (the deepest recursion level of the instrumented decoder never exceeds MAX_NESTING_DEPTH = 128, however deep the input nests), C14_alloc (values constructed + buffer bytes requested ≤ input length + 65535: counts are never used as sizes, only one u16 string length is trusted before reading), C14_ghost_is_decoder (the instrumented model computes exactly the decoder model's results). Runtime half MEASURED, not proved: the real decoder runs adversarial inputs (nesting len/5, counts 2^32-1, declared string lengths) on a 512 KiB thread stack under a counting allocator.",
        level_note="Trusted: Lean kernel + standard axioms; that the ghost counters are placed where the Rust code recurses/allocates (inspection of Rml/Model/Amf0Ghost.lean against deserialization.rs); decoder model tied to the code by amf.dec correspondence incl. run-length-encoded deep inputs around the limit; real stack frame sizes and allocator behaviour are measurements (3 frames per nesting level, ≤ 2 KiB per level in the harness build). Depends on fix F8 (depth limit).",
    ),
    "C12": dict(
        lean=["Rml.Props.C12"], families=["amf"],
        level_text="The AMF0 document is formalised as the inductive relation Spec.Amf0.Encodes (any property order, ECMA arrays with any count, any non-zero true byte). Theorems: C12_encode_spec (every encoder output is in the relation), C12_decode_spec (EVERY encoding in the relation, within the nesting limit, decodes to the value it denotes, consuming everything), C12_unsupported (all 247 other markers are errors at any position). Truncation clause: checked by the oracle at every cut point and by model/implementation correspondence on cuts and mutations; its theorem is not proved yet (see DESIGN.md).",
        level_note="Trusted: adequacy of the 40-line relation w.r.t. the AMF0 document (human-read); Lean kernel; model tied to code by the `amf` family incl. an independent Rust reference codec (harness/src/refcodec.rs) used as oracle in both directions, all 256 markers, every truncation point. Depends on fix F9 (boolean non-zero = true).",
    ),
    "C20": dict(
        lean=["Rml.Props.C20"],
        families=["time"],
        trusted=["u32 values are modelled as Nat < 2^32 with the wrap written out (Rml/Model/Time.lean)"],
        assumptions=["K3: pairs exactly 2^31 apart are excluded from C20_later_iff_partial (known finding, see known_findings.json)"],
        level_text="All u32 pairs are covered by Lean theorems (add/sub exact and inverse, order agrees with equality, antisymmetry, later-iff away from distance 2^31, and the machine-checked antipodal counterexample that is known finding K3); the model of time.rs is 25 lines and is tied to the code by running every operator, incl. all mixed u32 forms, on a boundary grid and random pairs on every run.",
        level_note="Trusted: Lean kernel + 3 standard axioms; Nat-mod-2^32 model of u32 checked against the real RtmpTimestamp by the `time` correspondence family (bounded by its generator: grid of protocol edges and harvested literals squared + random boundary-biased pairs). K3 (distance exactly 2^31) is a listed known finding.",
        explanation="Theorems over all u32 pairs about the model of time.rs; model tied to the code by running every operator (incl. all mixed u32 forms) on grid + random pairs.",
    ),
}
