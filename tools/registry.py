"""Property → artefacts.  One entry per claimed property."""

TRUSTED_BASE = [
    "Lean 4.33.0 kernel (thorough tier: re-checked by leanchecker); axioms allowed: propext, Classical.choice, Quot.sound (audited per theorem with #print axioms on every run)",
    "no sorry/admit/axiom/native_decide/bv_decide/implemented_by/unsafe in /verif/lean/Rml (source scan on every run)",
    "the hand-written Lean model says what the Rust code does: CHECKED on every run by the correspondence run (same op lines interpreted by /verif/harness against /repo's working tree and by the compiled model), strength bounded by the generators whose distribution is printed in input_distribution",
    "the Rust harness, the line protocol and its canonical text forms, tools/check.py",
    "modelled rather than verified: std collections, bytes/byteorder crates, String::from_utf8, hmac/sha2, rand, SystemTime, Rust integer cast and wrapping semantics",
]

HOOKS = {
    "guard": "cargo feature `verif-hooks` of rml_rtmp (off by default)",
    "enable": "the harness crate /verif/harness depends on /repo/rtmp by path; hooks (none needed so far) would be enabled through the feature in harness/Cargo.toml",
    "baseline_off_cmd": "cd /repo && cargo test --workspace --no-fail-fast --offline",
    "source_commits": [],
    "add_only": True,
}

NOT_APPLICABLE = {}

NOTES = ("Technique family: machine-checked proof in Lean 4. Every claimed property = theorems in lean/Rml/Props/<id>.lean about the "
         "hand-written model in lean/Rml/Model, tied to /repo by the correspondence run of tools/check.py. See DESIGN.md.")

PROPS = {
    "C20": dict(
        lean=["Rml.Props.C20"],
        families=["time"],
        trusted=["u32 values are modelled as Nat < 2^32 with the wrap written out (Rml/Model/Time.lean)"],
        assumptions=["K3: pairs exactly 2^31 apart are excluded from C20_later_iff_partial (known finding, see known_findings.json)"],
        level_text="All u32 pairs are covered by Lean theorems (add/sub exact and inverse, order agrees with equality, antisymmetry, later-iff away from distance 2^31, and the machine-checked antipodal counterexample that is known finding K3); the model of time.rs is 25 lines and is tied to the code by running every operator, incl. all mixed u32 forms, on a boundary grid and random pairs on every run.",
        level_note="Trusted: Lean kernel + 3 standard axioms; Nat-mod-2^32 model of u32 checked against the real RtmpTimestamp by the `time` correspondence family (bounded by its generator: grid of protocol edges and harvested literals squared + random boundary-biased pairs). K3 (distance exactly 2^31) is a listed known finding.",
        explanation="Theorems over all u32 pairs about the model of time.rs; model tied to the code by running every operator (incl. all mixed u32 forms) on grid + random pairs.",
    ),
}
