"""Handshake generators: fills selecting each digest offset, crafted peer packets, exchange schedules."""
from common import *
import hmac as pyhmac, hashlib

FMS = b"Genuine Adobe Flash Media Server 001"
FP = b"Genuine Adobe Flash Player 001"


def hm(msg, key):
    return pyhmac.new(key, msg, hashlib.sha256).digest()


def four_bytes_with_residue(rng, o):
    """4 bytes whose sum ≡ o (mod 728)"""
    target = o + 728 if (o + 728 <= 1020 and rng.chance(1, 2)) else o
    bs = [0, 0, 0, 0]
    rem = target
    for i in range(4):
        lo = max(0, rem - 255 * (3 - i))
        hi = min(255, rem)
        bs[i] = rng.range(lo, hi)
        rem -= bs[i]
    return bytes(bs)


def fill1_for_offset(rng, role, o):
    f = bytearray(rng.bytes(1524))
    four = four_bytes_with_residue(rng, o)
    if role == "c":
        f[0:4] = four           # packet bytes 8..11
    else:
        f[764:768] = four       # packet bytes 772..775
    return bytes(f)


def craft_p1(rng, scheme, o, key, valid=True, flip_at=None):
    """a peer packet 1 with a digest under `key` at offset index o of the given scheme ('c' = 8-based, 's' = 772-based)"""
    p = bytearray(rng.bytes(1536))
    p[0:4] = rng.choice([bytes(4), rng.bytes(4)])
    # the version field: what real peers send, random, and all zero (a digest-bearing packet need not have a version)
    p[4:8] = rng.choice([bytes(4), rng.bytes(4), bytes([128, 0, 7, 2]), bytes([9, 0, 124, 2]), bytes([0, 0, 0, 1])])
    four = four_bytes_with_residue(rng, o)
    if scheme == "c":
        p[8:12] = four
        off = o + 12
    else:
        p[772:776] = four
        off = o + 776
    d = hm(bytes(p[:off] + p[off + 32:]), key)
    p[off:off + 32] = d
    if flip_at is not None:
        p[off + flip_at] ^= 1 << rng.below(8)
    elif not valid:
        # exactly one bit wrong: in the first, the last, or any byte of the digest (every one of the 32 bytes
        # must be compared), or in a byte the digest covers
        k = rng.choice([off, off + 31, off + 30, off + rng.below(32), off + rng.below(32)])
        if rng.chance(1, 5):
            k = rng.choice([i for i in (rng.below(1536), rng.below(1536), 1535, 12) if not (off <= i < off + 32)] or [0])
            if (scheme == "c" and 8 <= k < 12) or (scheme == "s" and 772 <= k < 776):
                k = 1535 if off + 32 <= 1535 else 0
        p[k] ^= 1 << rng.below(8)
    return bytes(p)


def exchange_ops(rng, starter, tail_a, tail_b, stats):
    """xfer schedule for two library handshakes (a = client, b = server); returns ops"""
    ops = []
    out = {"a": 0, "b": 0}
    emitted = {"a": 0, "b": 0}
    recv = {"a": 0, "b": 0}
    tails = {"a": tail_a, "b": tail_b}
    appended = {"a": False, "b": False}

    def emit(x, n):
        out[x] += n; emitted[x] += n

    def on_receive(x, n):
        before = recv[x]
        recv[x] += n
        if emitted[x] == 0 and True:
            emit(x, 1537)               # first process call generates p0+p1
        if before < 1537 <= recv[x]:
            emit(x, 1536)               # answer to the peer's packet 1

    if starter in ("a", "both"):
        ops.append("hs.gen a"); emit("a", 1537)
    if starter in ("b", "both"):
        ops.append("hs.gen b"); emit("b", 1537)
    if starter == "none":
        ops.append("hs.proc a -"); emit("a", 1537)
    guard = 0
    while (out["a"] or out["b"]) and guard < 400:
        guard += 1
        for x in ("a", "b"):
            if not appended[x] and emitted[x] >= 3073:
                if tails[x]:
                    ops.append(f"hs.append {x} {hexb(tails[x])}")
                    out[x] += len(tails[x])
                appended[x] = True
        cands = [x for x in ("a", "b") if out[x]]
        src = rng.choice(cands)
        dst = "b" if src == "a" else "a"
        if recv[dst] >= 3073:
            # the peer has completed: further bytes belong to the application, do not hand them to the handshake
            out[src] = 0
            continue
        k = rng.below(6)
        n = [1, rng.range(1, 40), rng.range(1, 2000), 1536, 1537, out[src]][k]
        n = max(1, min(n, out[src]))
        # never split so that the completing call is followed by another one
        ops.append(f"hs.xfer {src} {dst} {n}")
        out[src] -= n
        on_receive(dst, n)
        bump(stats, "xfer_ops")
    return ops
