#!/usr/bin/env python3
"""Re-run every kept seeded change (/verif/seeded/<name>/patch.diff) against the current checks:
apply to /repo, run the quick checks named in meta.json (correspondence + oracles only, no proof
engine), undo.  Writes build/seedall.json and prints one line per seed.  /repo must be clean."""
import json, os, subprocess, sys, glob
from common import VERIF, REPO, ENV

def sh(cmd, **kw):
    return subprocess.run(cmd, stdout=subprocess.PIPE, stderr=subprocess.STDOUT, text=True, env=ENV, **kw)

def main():
    only = sys.argv[1:]
    if sh(["git", "-C", REPO, "status", "--porcelain", "--untracked-files=no"]).stdout.strip():
        print("refusing: /repo has uncommitted changes"); return 2
    out = {}
    for d in sorted(glob.glob(os.path.join(VERIF, "seeded", "*"))):
        name = os.path.basename(d)
        if only and name not in only:
            continue
        meta = json.load(open(os.path.join(d, "meta.json")))
        pids = meta.get("checked_against") or [meta["breaks"]]
        r = sh(["git", "-C", REPO, "apply", os.path.join(d, "patch.diff")])
        if r.returncode != 0:
            print(f"{name}: patch does not apply: {r.stdout.strip()[:200]}"); out[name] = {"error": "apply"}; continue
        res = {}
        try:
            for pid in pids:
                c = sh([sys.executable, os.path.join(VERIF, "tools", "check.py"), pid, "--no-proof"])
                vl = [l for l in c.stdout.split("\n") if l.startswith("VIOLATION")]
                kind = "missed"
                if vl:
                    kind = "failing-input" if any(not l.endswith("no-failing-input-found") for l in vl) else "correspondence-only"
                res[pid] = {"exit": c.returncode, "kind": kind, "violations": vl[:3]}
        finally:
            sh(["git", "-C", REPO, "checkout", "--", "."])
        out[name] = res
        print(name, {k: v["kind"] for k, v in res.items()}, flush=True)
    os.makedirs(os.path.join(VERIF, "build"), exist_ok=True)
    path = os.path.join(VERIF, "build", "seedall.json")
    if only and os.path.exists(path):
        # a partial run updates the entries it re-ran and keeps the others
        merged = json.load(open(path))
        merged.update(out)
        out = merged
    json.dump(out, open(path, "w"), indent=1)
    missed = [n for n, r in out.items() if not any(v.get("kind") == "failing-input" or v.get("kind") == "correspondence-only" for v in r.values() if isinstance(v, dict))]
    print("missed:", missed)
    return 1 if missed else 0

if __name__ == "__main__":
    sys.exit(main())
