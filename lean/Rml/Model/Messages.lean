/-
Model of `rtmp/src/messages/**` (after fix F5): `RtmpMessage` ↔ (type id, body).
u32 fields are `Nat`s (< 2^32 for well-formed messages); strings are UTF-8 bytes; `f64` is its bit
pattern; AMF0 bodies go through the AMF0 model.  The `debug_assert!`s of the user-control writer
are the explicit outcome `.panic` (the harness builds with debug assertions on).
-/
import Rml.Model.Amf0
import Rml.Model.Chunk
namespace Rml.Msgs
open Rml Rml.Bytes Rml.Amf0

inductive Limit where
  | hard | soft | dynamic
deriving Repr, DecidableEq, Inhabited

inductive UcEvent where
  | streamBegin | streamEof | streamDry | setBufferLength | streamIsRecorded
  | pingRequest | pingResponse | bufferEmpty | bufferReady
deriving Repr, DecidableEq, Inhabited

inductive RtmpMsg where
  | unknown (typ : Nat) (data : Bytes)
  | abort (streamId : Nat)
  | ack (seq : Nat)
  | amf0Command (name : Bytes) (tid : Nat) (obj : Val) (args : List Val)
  | amf0Data (vals : List Val)
  | audio (data : Bytes)
  | setChunkSize (size : Nat)
  | setPeerBandwidth (size : Nat) (lim : Limit)
  | userControl (ev : UcEvent) (streamId : Option Nat) (bufLen : Option Nat) (ts : Option Nat)
  | video (data : Bytes)
  | windowAck (size : Nat)
deriving Repr, Inhabited

/-- `get_message_type_id` -/
def typeId : RtmpMsg → Nat
  | .unknown t _ => t
  | .abort _ => 2
  | .ack _ => 3
  | .amf0Command .. => 20
  | .amf0Data _ => 18
  | .audio _ => 8
  | .setChunkSize _ => 1
  | .setPeerBandwidth .. => 6
  | .userControl .. => 4
  | .video _ => 9
  | .windowAck _ => 5

inductive SerErr where
  | invalidChunkSize
  | amf (e : EncErr)
  | panic                 -- a debug_assert! in user_control.rs fired (field missing for the event type)
deriving Repr, DecidableEq

def ucCode : UcEvent → Nat
  | .streamBegin => 0 | .streamEof => 1 | .streamDry => 2 | .setBufferLength => 3
  | .streamIsRecorded => 4 | .pingRequest => 6 | .pingResponse => 7 | .bufferEmpty => 31 | .bufferReady => 32

def limCode : Limit → Nat
  | .hard => 0 | .soft => 1 | .dynamic => 2

/-- `user_control::serialize` -/
def ucBody (ev : UcEvent) (sid bl ts : Option Nat) : Except SerErr Bytes :=
  match ev with
  | .setBufferLength =>
    match sid, bl with
    | some s, some l => .ok (be16 3 ++ be32 s ++ be32 l)
    | _, _ => .error .panic
  | .pingRequest | .pingResponse =>
    match ts with
    | some t => .ok (be16 (ucCode ev) ++ be32 t)
    | none => .error .panic
  | _ =>
    match sid with
    | some s => .ok (be16 (ucCode ev) ++ be32 s)
    | none => .error .panic

/-- `MessagePayload::from_rtmp_message`: type id and body -/
def toPayload (m : RtmpMsg) : Except SerErr (Nat × Bytes) :=
  match m with
  | .unknown t d => .ok (t, d)
  | .abort s => .ok (2, be32 s)
  | .ack s => .ok (3, be32 s)
  | .amf0Command name tid obj args =>
    match encode ([.str name, .number tid, obj] ++ args) with
    | .ok b => .ok (20, b)
    | .error e => .error (.amf e)
  | .amf0Data vals =>
    match encode vals with
    | .ok b => .ok (18, b)
    | .error e => .error (.amf e)
  | .audio d => .ok (8, d)
  | .setChunkSize n => if n > 2147483647 then .error .invalidChunkSize else .ok (1, be32 n)
  | .setPeerBandwidth n l => .ok (6, be32 n ++ [b (limCode l)])
  | .userControl ev s l t =>
    match ucBody ev s l t with
    | .ok body => .ok (4, body)
    | .error e => .error e
  | .video d => .ok (9, d)
  | .windowAck n => .ok (5, be32 n)

inductive DeErr where
  | invalidFormat          -- InvalidMessageFormat
  | amf (e : DecErr)       -- Amf0DeserializationError
  | io                     -- Io (body too short)
deriving Repr, DecidableEq

/-- `cursor.read_u32::<BigEndian>()` -/
def rdU32 : Bytes → Option (Nat × Bytes)
  | a :: b :: c :: d :: r => some (rd32 a b c d, r)
  | _ => none
def rdU16 : Bytes → Option (Nat × Bytes)
  | a :: b :: r => some (rd16 a b, r)
  | _ => none
def rdU8 : Bytes → Option (Nat × Bytes)
  | a :: r => some (a.toNat, r)
  | _ => none

def ucOfCode (c : Nat) : Option UcEvent :=
  if c = 0 then some .streamBegin else if c = 1 then some .streamEof else if c = 2 then some .streamDry
  else if c = 3 then some .setBufferLength else if c = 4 then some .streamIsRecorded
  else if c = 6 then some .pingRequest else if c = 7 then some .pingResponse
  else if c = 31 then some .bufferEmpty else if c = 32 then some .bufferReady else none

/-- `user_control::deserialize` -/
def ucParse (data : Bytes) : Except DeErr RtmpMsg :=
  match rdU16 data with
  | none => .error .io
  | some (c, r) =>
    match ucOfCode c with
    | none => .error .invalidFormat
    | some ev =>
      match rdU32 r with
      | none => .error .io
      | some (x, r') =>
        match ev with
        | .setBufferLength =>
          match rdU32 r' with
          | none => .error .io
          | some (l, _) => .ok (.userControl ev (some x) (some l) none)
        | .pingRequest | .pingResponse => .ok (.userControl ev none none (some x))
        | _ => .ok (.userControl ev (some x) none none)

/-- `amf0_command::deserialize` -/
def cmdParse (data : Bytes) : Except DeErr RtmpMsg :=
  match decode data with
  | .error e => .error (.amf e)
  | .ok vals =>
    match vals with
    | v0 :: v1 :: v2 :: args =>
      match v0 with
      | .str name =>
        match v1 with
        | .number tid => .ok (.amf0Command name tid v2 args)
        | _ => .error .invalidFormat
      | _ => .error .invalidFormat
    | _ => .error .invalidFormat

def dataParse (data : Bytes) : Except DeErr RtmpMsg :=
  match decode data with
  | .error e => .error (.amf e)
  | .ok vals => .ok (.amf0Data vals)

/-- `MessagePayload::to_rtmp_message` -/
def fromPayload (typ : Nat) (data : Bytes) : Except DeErr RtmpMsg :=
  if typ = 1 then
    match rdU32 data with
    | none => .error .io
    | some (n, _) => if n > 2147483647 then .error .invalidFormat else .ok (.setChunkSize n)
  else if typ = 2 then
    match rdU32 data with | none => .error .io | some (n, _) => .ok (.abort n)
  else if typ = 3 then
    match rdU32 data with | none => .error .io | some (n, _) => .ok (.ack n)
  else if typ = 4 then ucParse data
  else if typ = 5 then
    match rdU32 data with | none => .error .io | some (n, _) => .ok (.windowAck n)
  else if typ = 6 then
    match rdU32 data with
    | none => .error .io
    | some (n, r) =>
      match rdU8 r with
      | none => .error .io
      | some (l, _) =>
        if l = 0 then .ok (.setPeerBandwidth n .hard) else if l = 1 then .ok (.setPeerBandwidth n .soft)
        else if l = 2 then .ok (.setPeerBandwidth n .dynamic) else .error .invalidFormat
  else if typ = 8 then .ok (.audio data)
  else if typ = 9 then .ok (.video data)
  else if typ = 18 ∨ typ = 15 then dataParse data
  else if typ = 20 then cmdParse data
  else if typ = 17 then
    match data with
    | x :: r => if x = 0 then cmdParse r else cmdParse data
    | [] => cmdParse data
  else .ok (.unknown typ data)

end Rml.Msgs
