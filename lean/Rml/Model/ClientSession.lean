/-
Model of `rtmp/src/sessions/client/mod.rs` (after fix F10).
-/
import Rml.Model.SessionCommon
namespace Rml.Cli
open Rml Rml.Chunk Rml.Amf0 Rml.Msgs Rml.Sess

inductive CState where
  | disconnected | connected | playRequested | playing | publishRequested | publishing
deriving Repr, DecidableEq, Inhabited

inductive PublishType where
  | live | record | append
deriving Repr, DecidableEq, Inhabited

inductive Purpose where
  | play (key : Bytes)
  | publish (key : Bytes) (t : PublishType)
deriving Repr, DecidableEq, Inhabited

inductive Txn where
  | connection (app : Bytes)
  | createStream (p : Purpose)
deriving Repr, DecidableEq, Inhabited

inductive Event where
  | connectionAccepted
  | connectionRejected (desc : Bytes)
  | playbackAccepted
  | publishAccepted
  | metadata (m : Metadata)
  | video (ts : Nat) (data : Bytes)
  | audio (ts : Nat) (data : Bytes)
  | unhandleableCommand (name : Bytes) (tid : Nat) (obj : Val) (args : List Val)
  | unknownTransactionResult (tid : Nat) (obj : Val) (args : List Val)
  | unhandleableOnStatus (code : Bytes)
  | ackReceived (n : Nat)
  | pingResponse (ts : Nat)
deriving Repr, Inhabited

inductive Res where
  | out (p : Ser.Packet)
  | ev (e : Event)
  | unhandled (m : Msg)
deriving Repr, Inhabited

structure Config where
  flashVersion : Bytes
  bufferLengthMs : Nat
  windowAckSize : Nat
  chunkSize : Nat
  tcUrl : Option Bytes
deriving Repr

structure State where
  cfg : Config
  ser : Ser.State := {}
  des : Des.State := {}
  nextTxn : Nat := 1
  txns : List (Nat × Txn) := []
  st : CState := .disconnected
  app : Option Bytes := none
  activeStream : Option Nat := none
  window : Option Nat := none
  since : Nat := 0
deriving Repr

def send (s : State) (m : RtmpMsg) (ts msid : Nat) (drop : Bool := false) : Except Err (State × Ser.Packet) :=
  match sendMsg s.ser m ts msid false drop with
  | .error e => .error e
  | .ok (ser', p) => .ok ({ s with ser := ser' }, p)

/-- `request_connection` -/
def requestConnection (s : State) (now : Nat) (app : Bytes) : State × Except Err Res :=
  if s.st ≠ .disconnected then (s, .error .cantConnect) else
  let tid := s.nextTxn
  let s1 := { s with nextTxn := tid + 1, txns := mapInsert tid (.connection app) s.txns }
  let props : List (Bytes × Val) :=
    [(str "app", .str app), (str "flashVer", .str s.cfg.flashVersion), (str "objectEncoding", .number 0)] ++
    (match s.cfg.tcUrl with | some u => [(str "tcUrl", .str u)] | none => [])
  match send s1 (.amf0Command (str "connect") (F64.ofU32 tid) (.object props) []) (epoch now) 0 with
  | .error e => (s1, .error e)
  | .ok (s2, p) => (s2, .ok (.out p))

/-- `request_playback` / `request_publishing` -/
def requestStream (s : State) (now : Nat) (purpose : Purpose) : State × Except Err Res :=
  if s.st ≠ .connected then (s, .error .invalidState) else
  let tid := s.nextTxn
  let s1 := { s with nextTxn := tid + 1, txns := mapInsert tid (.createStream purpose) s.txns }
  match send s1 (.amf0Command (str "createStream") (F64.ofU32 tid) .null []) (epoch now) 0 with
  | .error e => (s1, .error e)
  | .ok (s2, p) => (s2, .ok (.out p))

/-- `stop_playback` (`play = true`) / `stop_publishing` -/
def stop (s : State) (now : Nat) (play : Bool) : State × Except Err (List Res) :=
  let active := if play then (s.st = .playing ∨ s.st = .playRequested) else (s.st = .publishing ∨ s.st = .publishRequested)
  if ¬ active then (s, .ok []) else
  let s1 := { s with st := .connected, activeStream := none }
  match s.activeStream with
  | none => (s1, .ok [])
  | some sid =>
    match send s1 (.amf0Command (str "deleteStream") 0 .null [.number (F64.ofU32 sid)]) (epoch now) sid with
    | .error e => (s1, .error e)
    | .ok (s2, p) => (s2, .ok [.out p])

/-- `send_ping_request` -/
def sendPing (s : State) (now : Nat) : State × Except Err (Ser.Packet × Nat) :=
  match send s (.userControl .pingRequest none none (some (epoch now))) (epoch now) 0 with
  | .error e => (s, .error e)
  | .ok (s', p) => (s', .ok (p, epoch now))

/-- the guard shared by `publish_metadata`, `publish_video_data`, `publish_audio_data` -/
def publishGuard (s : State) : Except Err Nat :=
  if s.st ≠ .publishing then .error .invalidState else
  match s.activeStream with
  | none => .error .noActiveStream
  | some sid => .ok sid

def publishMetadata (s : State) (now : Nat) (m : Metadata) : State × Except Err Res :=
  match publishGuard s with
  | .error e => (s, .error e)
  | .ok sid =>
    match send s (.amf0Data [.str (str "@setDataFrame"), .str (str "onMetaData"), .object (metadataProps m)]) (epoch now) sid with
    | .error e => (s, .error e)
    | .ok (s', p) => (s', .ok (.out p))

def publishMedia (s : State) (video : Bool) (data : Bytes) (ts : Nat) (drop : Bool) : State × Except Err Res :=
  match publishGuard s with
  | .error e => (s, .error e)
  | .ok sid =>
    match send s (if video then .video data else .audio data) ts sid drop with
    | .error e => (s, .error e)
    | .ok (s', p) => (s', .ok (.out p))

/-- `handle_video_data` / `handle_audio_data` -/
def handleMedia (s : State) (video : Bool) (streamId : Nat) (data : Bytes) (ts : Nat) : Except Err (List Res) :=
  if s.st ≠ .playRequested ∧ s.st ≠ .playing then .error .invalidState else
  match s.activeStream with
  | none => .ok []
  | some a => if a ≠ streamId then .ok [] else .ok [.ev (if video then .video ts data else .audio ts data)]

/-- `handle_amf0_data` -/
def handleData (s : State) (vals : List Val) (streamId : Nat) : List Res :=
  match vals with
  | [] => []
  | first :: rest =>
    match s.activeStream with
    | none => []
    | some a =>
      if a ≠ streamId then [] else
      match first with
      | .str f =>
        if f = str "onMetaData" then
          match rest with
          | .object props :: _ => [.ev (.metadata (applyMetadata props))]
          | _ => []
        else []
      | _ => []

/-- `handle_amf0_command_success_result` -/
def handleResult (s : State) (now tid : Nat) (obj : Val) (args : List Val) : Except Err (State × List Res) :=
  let key := F64.toU32 tid
  match mapGet key s.txns with
  | none => .ok (s, [.ev (.unknownTransactionResult tid obj args)])
  | some txn =>
    let s0 := { s with txns := mapRemove key s.txns }
    match txn with
    | .connection app =>
      let s1 := { s0 with st := .connected, app := some app }
      match send s1 (.windowAck s.cfg.windowAckSize) (epoch now) 0 with
      | .error e => .error e
      | .ok (s2, p1) =>
        match Ser.setMaxChunkSize s2.ser s.cfg.chunkSize 0 with
        | .err e => .error (.chunkSer e)
        | .hang => .error .hang
        | .ok (ser3, p2) => .ok ({ s2 with ser := ser3 }, [.out p1, .ev .connectionAccepted, .out p2])
    | .createStream purpose =>
      match args with
      | .number n :: _ =>
        let sid := F64.toU32 n
        let s1 := { s0 with activeStream := some sid }
        match purpose with
        | .play k =>
          let s2 := { s1 with st := .playRequested }
          match send s2 (.userControl .setBufferLength (some sid) (some s.cfg.bufferLengthMs) none) (epoch now) 0 with
          | .error e => .error e
          | .ok (s3, p1) =>
            match send s3 (.amf0Command (str "play") 0 .null [.str k]) (epoch now) sid with
            | .error e => .error e
            | .ok (s4, p2) => .ok (s4, [.out p1, .out p2])
        | .publish k t =>
          let s2 := { s1 with st := .publishRequested }
          let ts : Bytes := match t with | .live => str "live" | .record => str "record" | .append => str "append"
          match send s2 (.amf0Command (str "publish") 0 .null [.str k, .str ts]) (epoch now) sid with
          | .error e => .error e
          | .ok (s3, p) => .ok (s3, [.out p])
      | _ => .error .createStreamNoNumber

/-- state after an error inside `handle_amf0_command_success_result` (the transaction is consumed and
    the fields assigned before the failing step keep their new values) -/
def handleResultErrState (s : State) (tid : Nat) (args : List Val) : State :=
  let key := F64.toU32 tid
  match mapGet key s.txns with
  | none => s
  | some txn =>
    let s0 := { s with txns := mapRemove key s.txns }
    match txn with
    | .connection app => { s0 with st := .connected, app := some app }
    | .createStream _ =>
      match args with
      | .number _ :: _ => s0
      | _ => s0

/-- `handle_amf0_command_failed_result` -/
def handleError (s : State) (tid : Nat) (obj : Val) (args : List Val) : Except Err (State × List Res) :=
  let key := F64.toU32 tid
  match mapGet key s.txns with
  | none => .ok (s, [.ev (.unknownTransactionResult tid obj args)])
  | some txn =>
    let s0 := { s with txns := mapRemove key s.txns }
    match txn with
    | .connection _ =>
      let desc : Bytes := match args with
        | .object props :: _ => (match propGet (str "description") props with | some (.str d) => d | _ => [])
        | _ => []
      .ok (s0, [.ev (.connectionRejected desc)])
    | .createStream _ => .error .createStreamFailed

/-- `handle_on_status_command` -/
def handleOnStatus (s : State) (args : List Val) : Except Err (State × List Res) :=
  match args with
  | .object props :: _ =>
    match propGet (str "code") props with
    | some (.str code) =>
      if code = str "NetStream.Play.Start" then
        if s.st = .playRequested then .ok ({ s with st := .playing }, [.ev .playbackAccepted]) else .error .invalidState
      else if code = str "NetStream.Publish.Start" then
        if s.st = .publishRequested then .ok ({ s with st := .publishing }, [.ev .publishAccepted]) else .error .invalidState
      else .ok (s, [.ev (.unhandleableOnStatus code)])
    | _ => .error .invalidOnStatus
  | _ => .error .invalidOnStatus

/-- the dispatch inside the loop of `handle_input`; returns the state even on error -/
def handleMessage (s : State) (now : Nat) (p : Msg) (m : RtmpMsg) : State × Except Err (List Res) :=
  match m with
  | .ack n => (s, .ok [.ev (.ackReceived n)])
  | .amf0Command name tid obj args =>
    if name = str "_result" then
      match handleResult s now tid obj args with
      | .ok (s', rs) => (s', .ok rs)
      | .error e => (handleResultErrState s tid args, .error e)
    else if name = str "_error" then
      match handleError s tid obj args with
      | .ok (s', rs) => (s', .ok rs)
      | .error e => ({ s with txns := mapRemove (F64.toU32 tid) s.txns }, .error e)
    else if name = str "onStatus" then
      match handleOnStatus s args with
      | .ok (s', rs) => (s', .ok rs)
      | .error e => (s, .error e)
    else (s, .ok [.ev (.unhandleableCommand name tid obj args)])
  | .amf0Data vals => (s, .ok (handleData s vals p.msid))
  | .audio d => (s, match handleMedia s false p.msid d p.ts with | .ok r => .ok r | .error e => .error e)
  | .video d => (s, match handleMedia s true p.msid d p.ts with | .ok r => .ok r | .error e => .error e)
  | .userControl ev _ _ ts =>
    match ev with
    | .pingRequest =>
      match send s (.userControl .pingResponse none none ts) (epoch now) 0 with
      | .error e => (s, .error e)
      | .ok (s', pk) => (s', .ok [.out pk])
    | .pingResponse => (s, .ok [.ev (.pingResponse (ts.getD 0))])
    | _ => (s, .ok [])
  | .windowAck n => ({ s with window := some n }, .ok [])
  | .setChunkSize n =>
    match Des.setMaxChunkSize s.des.core n with
    | .error e => (s, .error (.chunkDes e))
    | .ok c => ({ s with des := { s.des with core := c } }, .ok [])
  | .abort _ => (s, .ok [.unhandled p])
  | .setPeerBandwidth _ _ => (s, .ok [.unhandled p])
  | .unknown _ _ => (s, .ok [.unhandled p])

def msgLoop : Nat → State → Nat → List Res → State × Except Err (List Res)
  | 0, s, _, _ => (s, .error .hang)
  | f + 1, s, now, acc =>
    let n := Des.next s.des
    let s1 := { s with des := { core := n.core, buf := n.buf } }
    match n.err with
    | some e => (s1, .error (.chunkDes e))
    | none =>
      match n.msg with
      | none => (s1, .ok acc)
      | some p =>
        match fromPayload p.typ p.data with
        | .error e => (s1, .error (.msgDes e))
        | .ok m =>
          match handleMessage s1 now p m with
          | (s2, .error e) => (s2, .error e)
          | (s2, .ok rs) => msgLoop f s2 now (acc ++ rs)

/-- `ClientSession::handle_input` -/
def handleInput (s : State) (now : Nat) (bytes : Bytes) : State × Except Err (List Res) :=
  let (since, ack) := ackStep s.window s.since bytes.length
  let s0 := { s with des := { s.des with buf := s.des.buf ++ bytes } }
  match ack with
  | none => msgLoop (bytes.length + s.des.buf.length + 2) { s0 with since := since } now []
  | some n =>
    match send s0 (.ack n) (epoch now) 0 with
    | .error e => ({ s0 with since := min (s.since + bytes.length % 4294967296) 4294967295 }, .error e)
    | .ok (s1, p) => msgLoop (bytes.length + s.des.buf.length + 2) { s1 with since := since } now [.out p]

end Rml.Cli
