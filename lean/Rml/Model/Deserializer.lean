/-
Model of `rtmp/src/chunk_io/deserializer.rs` (after fixes F2, F3, F4): a seven-stage resumable
parser over an input buffer.

`stageStep` is one iteration of the loop in `get_next_message`: it runs the current stage on the
buffer and either asks for more bytes (state untouched — the one dead store of the Rust code,
`current_header_format` written before a 2/3-byte csid turns out to be incomplete, is not
mirrored: that field is overwritten by the next `form_header` before it is read), fails, or
advances, possibly completing a message.
-/
import Rml.Model.Chunk
namespace Rml.Des
open Rml Rml.Bytes Rml.Chunk

/-- `ChunkHeader` as the deserializer stores it -/
structure Hdr where
  csid : Nat := 0
  ts : Nat := 0
  field : Nat := 0      -- timestamp_field: the 24-bit field as read
  len : Nat := 0
  typ : Nat := 0
  msid : Nat := 0
deriving Repr, DecidableEq, Inhabited

inductive Stage where
  | csid | its | mlen | mtyp | msid | ext | payload
deriving Repr, DecidableEq, Inhabited

/-- everything but the input buffer -/
structure Core where
  maxCs : Nat := initialChunkSize
  fmt : Fmt := .f0
  cur : Hdr := {}
  stage : Stage := .csid
  pdata : Bytes := []                 -- current_payload_data
  prev : List (Nat × Hdr) := []       -- previous_headers
deriving Repr, DecidableEq, Inhabited

inductive Err where
  | noPrevious (csid : Nat)    -- NoPreviousChunkOnStream
  | invalidLength              -- InvalidMessageLength (fix F3)
  | invalidMaxChunkSize        -- InvalidMaxChunkSize (setter)
  | fuel                       -- model artefact: never produced (Rml/Lemmas/DesFuel)
deriving Repr, DecidableEq

/-- fixed-width readers: `none` = not enough bytes -/
def take1 : Bytes → Option (Nat × Bytes)
  | x :: r => some (x.toNat, r)
  | _ => none
def take3 : Bytes → Option (Nat × Bytes)
  | x0 :: x1 :: x2 :: r => some (rd24 x0 x1 x2, r)
  | _ => none
def take4be : Bytes → Option (Nat × Bytes)
  | x0 :: x1 :: x2 :: x3 :: r => some (rd32 x0 x1 x2 x3, r)
  | _ => none
def take4le : Bytes → Option (Nat × Bytes)
  | x0 :: x1 :: x2 :: x3 :: r => some (rd32 x3 x2 x1 x0, r)
  | _ => none

def fmtOf (x : Nat) : Fmt :=
  if x / 64 = 0 then .f0 else if x / 64 = 1 then .f1 else if x / 64 = 2 then .f2 else .f3

/-- `get_format` + `get_csid`: format, chunk stream id, rest -/
def basicHdr : Bytes → Option (Fmt × Nat × Bytes)
  | [] => none
  | x :: r =>
    if x.toNat % 64 = 0 then
      match r with
      | y :: r' => some (fmtOf x.toNat, y.toNat + 64, r')
      | _ => none
    else if x.toNat % 64 = 1 then
      match r with
      | y :: z :: r' => some (fmtOf x.toNat, z.toNat * 256 + y.toNat + 64, r')
      | _ => none
    else some (fmtOf x.toNat, x.toNat % 64, r)

inductive Step where
  | needMore
  | err (e : Err)
  | ok (c : Core) (rest : Bytes) (msg : Option Msg)
deriving Repr

/-- one stage of `get_next_message`'s loop -/
def stageStep (c : Core) (buf : Bytes) : Step :=
  match c.stage with
  | .csid =>            -- form_header
    match basicHdr buf with
    | none => .needMore
    | some (fmt, csid, rest) =>
      if fmt = .f0 then
        .ok { c with fmt := fmt, cur := { csid := csid }, stage := .its } rest none
      else match mapGet csid c.prev with
        | none => .err (.noPrevious csid)
        | some h => .ok { c with fmt := fmt, cur := h, prev := mapRemove csid c.prev, stage := .its } rest none
  | .its =>             -- get_initial_timestamp
    if c.fmt = .f3 then
      let cur := if c.pdata.isEmpty then { c.cur with ts := add32 c.cur.ts c.cur.field } else c.cur
      .ok { c with cur := cur, stage := .mlen } buf none
    else match take3 buf with
      | none => .needMore
      | some (t, rest) =>
        let ts := if c.fmt = .f0 then t else add32 c.cur.ts t
        .ok { c with cur := { c.cur with ts := ts, field := t }, stage := .mlen } rest none
  | .mlen =>            -- get_message_length
    if c.fmt = .f2 ∨ c.fmt = .f3 then .ok { c with stage := .mtyp } buf none
    else match take3 buf with
      | none => .needMore
      | some (l, rest) => .ok { c with cur := { c.cur with len := l }, stage := .mtyp } rest none
  | .mtyp =>            -- get_message_type_id
    if c.fmt = .f2 ∨ c.fmt = .f3 then .ok { c with stage := .msid } buf none
    else match take1 buf with
      | none => .needMore
      | some (t, rest) => .ok { c with cur := { c.cur with typ := t }, stage := .msid } rest none
  | .msid =>            -- get_message_stream_id
    if c.fmt ≠ .f0 then .ok { c with stage := .ext } buf none
    else match take4le buf with
      | none => .needMore
      | some (i, rest) => .ok { c with cur := { c.cur with msid := i }, stage := .ext } rest none
  | .ext =>             -- get_extended_timestamp
    if c.cur.field < maxTs24 then .ok { c with stage := .payload } buf none
    else match take4be buf with
      | none => .needMore
      | some (e, rest) =>
        let ts := if c.fmt = .f0 then e
                  else if c.pdata.isEmpty then add32 c.cur.ts (sub32 e maxTs24)
                  else c.cur.ts
        .ok { c with cur := { c.cur with ts := ts }, stage := .payload } rest none
  | .payload =>         -- get_message_data
    if c.cur.len < c.pdata.length then .err .invalidLength
    else
      let remaining := c.cur.len - c.pdata.length
      let n := if c.cur.len > c.maxCs then min remaining c.maxCs else c.cur.len
      if buf.length < n then .needMore
      else
        let pdata := c.pdata ++ buf.take n
        let rest := buf.drop n
        let prev := mapInsert c.cur.csid c.cur c.prev
        if pdata.length = c.cur.len then
          .ok { c with pdata := [], cur := {}, prev := prev, stage := .csid } rest
            (some { ts := c.cur.ts, typ := c.cur.typ, msid := c.cur.msid, data := pdata })
        else
          .ok { c with pdata := pdata, cur := {}, prev := prev, stage := .csid } rest none

/-- `ChunkDeserializer::set_max_chunk_size` -/
def setMaxChunkSize (c : Core) (n : Nat) : Except Err Core :=
  if n = 0 ∨ n > maxChunkSize then .error .invalidMaxChunkSize else .ok { c with maxCs := n }

/-- what a consumer that honours chunk-size changes does after a message (as the sessions do):
    a valid SetChunkSize payload is handed to `set_max_chunk_size`, whose verdict is final -/
def honour (c : Core) (m : Msg) : Except Err Core :=
  if m.typ = 1 then
    match parseSetChunkSize m.data with
    | some n => setMaxChunkSize c n
    | none => .ok c
  else .ok c

/-- result of draining a buffer -/
structure Run where
  core : Core
  buf : Bytes
  msgs : List Msg
  err : Option Err
deriving Repr

/-- repeat `stageStep` until more bytes are needed or an error occurs, collecting messages and
    honouring chunk-size changes; structural recursion on fuel -/
def runFuel : Nat → Core → Bytes → List Msg → Run
  | 0, c, buf, acc => { core := c, buf := buf, msgs := acc, err := some .fuel }
  | f + 1, c, buf, acc =>
    match stageStep c buf with
    | .needMore => { core := c, buf := buf, msgs := acc, err := none }
    | .err e => { core := c, buf := buf, msgs := acc, err := some e }
    | .ok c' rest none => runFuel f c' rest acc
    | .ok c' rest (some m) =>
      match honour c' m with
      | .error e => { core := c', buf := rest, msgs := acc ++ [m], err := some e }
      | .ok c'' => runFuel f c'' rest (acc ++ [m])

/-- every stage either consumes a byte or moves to a later stage, and a chunk has seven stages -/
def fuelFor (buf : Bytes) : Nat := 8 * buf.length + 8

/-- the deserializer proper: core state + input buffer -/
structure State where
  core : Core := {}
  buf : Bytes := []
deriving Repr

/-- one input call as a consumer makes it: `get_next_message(bytes)`, then `get_next_message(&[])`
    until `None`, honouring each decoded chunk-size change -/
def feed (s : State) (bytes : Bytes) : Run :=
  runFuel (fuelFor (s.buf ++ bytes)) s.core (s.buf ++ bytes) []

end Rml.Des

namespace Rml.Des
open Rml Rml.Chunk

/-- result of one `get_next_message` call -/
structure Next where
  core : Core
  buf : Bytes
  msg : Option Msg
  err : Option Err
deriving Repr

/-- one `get_next_message` call on the buffered bytes: run stages until a message completes, more
    bytes are needed, or a stage fails (the chunk size is NOT touched here: the caller reacts) -/
def nextFuel : Nat → Core → Bytes → Next
  | 0, c, buf => { core := c, buf := buf, msg := none, err := some .fuel }
  | f + 1, c, buf =>
    match stageStep c buf with
    | .needMore => { core := c, buf := buf, msg := none, err := none }
    | .err e => { core := c, buf := buf, msg := none, err := some e }
    | .ok c' rest none => nextFuel f c' rest
    | .ok c' rest (some m) => { core := c', buf := rest, msg := some m, err := none }

def next (s : State) : Next := nextFuel (fuelFor s.buf) s.core s.buf

end Rml.Des
