/-
What both session models share: the session clock, ASCII strings, status objects, stream
metadata, and the acknowledgement step at the head of `handle_input`.
-/
import Rml.Model.Serializer
import Rml.Model.Deserializer
import Rml.Model.Messages
import Rml.Model.F64
namespace Rml.Sess
open Rml Rml.Chunk Rml.Amf0 Rml.Msgs

/-- ASCII string literal as bytes -/
def str (s : String) : Bytes := s.toUTF8.data.toList

/-- `get_epoch`: uptime in ms (a u64 under hook H2), truncated to u32 -/
def epoch (uptimeMs : Nat) : Nat := uptimeMs % 4294967296

/-- `create_status_object(level, code, description)`; the model's enumeration order is fixed
    (the real `HashMap` order is arbitrary; outputs are compared as maps) -/
def statusObject (level code desc : Bytes) : Val :=
  .object [(str "level", .str level), (str "code", .str code), (str "description", .str desc)]

/-- `StreamMetadata` -/
structure Metadata where
  videoWidth : Option Nat := none
  videoHeight : Option Nat := none
  videoCodecId : Option Nat := none
  videoFrameRate : Option Nat := none      -- f32 bit pattern
  videoBitrateKbps : Option Nat := none
  audioCodecId : Option Nat := none
  audioBitrateKbps : Option Nat := none
  audioSampleRate : Option Nat := none
  audioChannels : Option Nat := none
  audioIsStereo : Option Bool := none
  encoder : Option Bytes := none
deriving Repr, DecidableEq, Inhabited

def numOf : Val → Option Nat
  | .number n => some n
  | _ => none

/-- one key of `apply_metadata_values` -/
def applyMeta (m : Metadata) (k : Bytes) (v : Val) : Metadata :=
  let u32 := (numOf v).map F64.toU32
  if k = str "width" then (match u32 with | some x => { m with videoWidth := some x } | none => m)
  else if k = str "height" then (match u32 with | some x => { m with videoHeight := some x } | none => m)
  else if k = str "videocodecid" then (match u32 with | some x => { m with videoCodecId := some x } | none => m)
  else if k = str "videodatarate" then (match u32 with | some x => { m with videoBitrateKbps := some x } | none => m)
  else if k = str "framerate" then (match numOf v with | some x => { m with videoFrameRate := some (F64.toF32 x) } | none => m)
  else if k = str "audiocodecid" then (match u32 with | some x => { m with audioCodecId := some x } | none => m)
  else if k = str "audiodatarate" then (match u32 with | some x => { m with audioBitrateKbps := some x } | none => m)
  else if k = str "audiosamplerate" then (match u32 with | some x => { m with audioSampleRate := some x } | none => m)
  else if k = str "audiochannels" then (match u32 with | some x => { m with audioChannels := some x } | none => m)
  else if k = str "stereo" then (match v with | .boolean x => { m with audioIsStereo := some x } | _ => m)
  else if k = str "encoder" then (match v with | .str x => { m with encoder := some x } | _ => m)
  else m

/-- `apply_metadata_values`: keys of a map are distinct, so the order does not matter -/
def applyMetadata (props : List (Bytes × Val)) : Metadata :=
  props.foldl (fun m (k, v) => applyMeta m k v) {}

/-- a property that is present only when the field is set -/
def optProp {α : Type} (name : Bytes) (mk : α → Val) (o : Option α) : List (Bytes × Val) :=
  match o with
  | some x => [(name, mk x)]
  | none => []

/-- the property map both `send_metadata` and `publish_metadata` build -/
def metadataProps (m : Metadata) : List (Bytes × Val) :=
  optProp (str "width") (fun x => Val.number (F64.ofU32 x)) m.videoWidth ++
  optProp (str "height") (fun x => Val.number (F64.ofU32 x)) m.videoHeight ++
  optProp (str "videocodecid") (fun x => Val.number (F64.ofU32 x)) m.videoCodecId ++
  optProp (str "videodatarate") (fun x => Val.number (F64.ofU32 x)) m.videoBitrateKbps ++
  optProp (str "framerate") (fun x => Val.number (F64.ofF32 x)) m.videoFrameRate ++
  optProp (str "audiocodecid") (fun x => Val.number (F64.ofU32 x)) m.audioCodecId ++
  optProp (str "audiodatarate") (fun x => Val.number (F64.ofU32 x)) m.audioBitrateKbps ++
  optProp (str "audiosamplerate") (fun x => Val.number (F64.ofU32 x)) m.audioSampleRate ++
  optProp (str "audiochannels") (fun x => Val.number (F64.ofU32 x)) m.audioChannels ++
  optProp (str "stereo") (fun x => Val.boolean x) m.audioIsStereo ++
  optProp (str "encoder") (fun x => Val.str x) m.encoder

/-- lookup / removal in a property map -/
def propGet (k : Bytes) : List (Bytes × Val) → Option Val
  | [] => none
  | (k', v) :: r => if k' = k then some v else propGet k r

/-- errors a session call can return (kinds, as the line protocol prints them) -/
inductive Err where
  | chunkDes (e : Des.Err)
  | chunkSer (e : Ser.Err)
  | msgSer (e : Msgs.SerErr)
  | msgDes (e : Msgs.DeErr)
  | invalidRequestId
  | noAppName
  | inactiveStream
  | cantConnect
  | invalidState
  | noActiveStream
  | createStreamFailed
  | createStreamNoNumber
  | invalidOnStatus
  | hang                     -- model artefact: unreachable (C19)
deriving Repr, DecidableEq

/-- serialize a message with the session's serializer: `into_message_payload` then `serialize` -/
def sendMsg (ser : Ser.State) (m : RtmpMsg) (ts msid : Nat) (force drop : Bool) : Except Err (Ser.State × Ser.Packet) :=
  match toPayload m with
  | .error e => .error (.msgSer e)
  | .ok (typ, body) =>
    match Ser.serialize ser { ts := ts, typ := typ, msid := msid, data := body } force drop with
    | .ok r => .ok r
    | .err e => .error (.chunkSer e)
    | .hang => .error .hang

/-- the acknowledgement step at the head of `handle_input` (both sessions): count, compare `≥`,
    report the count, reset; saturating at u32::MAX (fix F10).
    Returns the new counter and the sequence number to acknowledge, if any. -/
def ackStep (window : Option Nat) (since : Nat) (n : Nat) : Nat × Option Nat :=
  match window with
  | none => (since, none)
  | some w =>
    let c := min (since + n % 4294967296) 4294967295
    if c ≥ w then (0, some c) else (c, none)

end Rml.Sess
