/-
Shared definitions of the chunk layer models: message payloads, header formats, association maps.
-/
import Rml.Model.Bytes
namespace Rml.Chunk
open Rml

/-- `MessagePayload` -/
structure Msg where
  ts : Nat
  typ : Nat
  msid : Nat
  data : Bytes
deriving Repr, DecidableEq, Inhabited

/-- `ChunkHeaderFormat` -/
inductive Fmt where
  | f0 | f1 | f2 | f3
deriving Repr, DecidableEq, Inhabited

def Fmt.toNat : Fmt → Nat
  | .f0 => 0 | .f1 => 1 | .f2 => 2 | .f3 => 3

abbrev M32 : Nat := 4294967296
def maxTs24 : Nat := 16777215           -- MAX_INITIAL_TIMESTAMP
def maxMsgLen : Nat := 16777215
def maxChunkSize : Nat := 2147483647
def initialChunkSize : Nat := 128

/-- `HashMap<u32, _>` as an association list: `insert` replaces or appends, `remove` deletes -/
def mapGet {α : Type} (k : Nat) : List (Nat × α) → Option α
  | [] => none
  | (k', v) :: r => if k' = k then some v else mapGet k r

def mapRemove {α : Type} (k : Nat) : List (Nat × α) → List (Nat × α)
  | [] => []
  | (k', v) :: r => if k' = k then mapRemove k r else (k', v) :: mapRemove k r

def mapInsert {α : Type} (k : Nat) (v : α) (m : List (Nat × α)) : List (Nat × α) :=
  (k, v) :: mapRemove k m

/-- wrapping u32 addition / subtraction (`RtmpTimestamp + u32`, `RtmpTimestamp - RtmpTimestamp`) -/
def add32 (a b : Nat) : Nat := (a + b) % M32
def sub32 (a b : Nat) : Nat := (a + M32 - b) % M32

/-- `set_chunk_size::deserialize` on a type-1 payload: the size a consumer that honours the message
    hands to `ChunkDeserializer::set_max_chunk_size` (`none`: the payload is not a valid SetChunkSize) -/
def parseSetChunkSize (data : Bytes) : Option Nat :=
  match data with
  | a :: b :: c :: d :: _ =>
    let v := Bytes.rd32 a b c d
    if v > maxChunkSize then none else some v
  | _ => none

end Rml.Chunk

namespace Rml.Chunk

theorem mapGet_mapRemove_self {α : Type} (k : Nat) (m : List (Nat × α)) : mapGet k (mapRemove k m) = none := by
  induction m with
  | nil => rfl
  | cons p r ih =>
    obtain ⟨k', v⟩ := p
    simp only [mapRemove]
    split
    · exact ih
    · rename_i h; simp only [mapGet, h, if_false]; exact ih

theorem mapGet_mapRemove_ne {α : Type} (k j : Nat) (h : j ≠ k) (m : List (Nat × α)) :
    mapGet j (mapRemove k m) = mapGet j m := by
  induction m with
  | nil => rfl
  | cons p r ih =>
    obtain ⟨k', v⟩ := p
    simp only [mapRemove]
    split
    · rename_i hk; subst hk; simp only [mapGet]; rw [if_neg (fun e => h e.symm)]; exact ih
    · simp only [mapGet]; split
      · rfl
      · exact ih

theorem mapGet_mapInsert_self {α : Type} (k : Nat) (v : α) (m : List (Nat × α)) : mapGet k (mapInsert k v m) = some v := by
  simp [mapInsert, mapGet]

theorem mapGet_mapInsert_ne {α : Type} (k j : Nat) (h : j ≠ k) (v : α) (m : List (Nat × α)) :
    mapGet j (mapInsert k v m) = mapGet j m := by
  simp only [mapInsert, mapGet]
  rw [if_neg (fun e => h e.symm)]
  exact mapGet_mapRemove_ne k j h m

/-- every key of the map is below `n` -/
def KeysBelow {α : Type} (n : Nat) (m : List (Nat × α)) : Prop := ∀ k, k ≥ n → mapGet k m = none

theorem KeysBelow.insert {α : Type} {n : Nat} {m : List (Nat × α)} (h : KeysBelow n m) (v : α) :
    KeysBelow (n + 1) (mapInsert n v m) := by
  intro k hk
  rw [mapGet_mapInsert_ne n k (by omega)]
  exact h k (by omega)

theorem KeysBelow.remove {α : Type} {n : Nat} {m : List (Nat × α)} (h : KeysBelow n m) (j : Nat) :
    KeysBelow n (mapRemove j m) := by
  intro k hk
  by_cases e : k = j
  · subst e; exact mapGet_mapRemove_self k m
  · rw [mapGet_mapRemove_ne j k e]; exact h k hk

theorem KeysBelow.update {α : Type} {n : Nat} {m : List (Nat × α)} (h : KeysBelow n m) (j : Nat) (hj : j < n) (v : α) :
    KeysBelow n (mapInsert j v m) := by
  intro k hk
  rw [mapGet_mapInsert_ne j k (by omega)]
  exact h k hk

end Rml.Chunk
