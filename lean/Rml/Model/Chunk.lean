/-
Shared definitions of the chunk layer models: message payloads, header formats, association maps.
-/
import Rml.Model.Bytes
namespace Rml.Chunk
open Rml

/-- `MessagePayload` -/
structure Msg where
  ts : Nat
  typ : Nat
  msid : Nat
  data : Bytes
deriving Repr, DecidableEq, Inhabited

/-- `ChunkHeaderFormat` -/
inductive Fmt where
  | f0 | f1 | f2 | f3
deriving Repr, DecidableEq, Inhabited

def Fmt.toNat : Fmt → Nat
  | .f0 => 0 | .f1 => 1 | .f2 => 2 | .f3 => 3

abbrev M32 : Nat := 4294967296
def maxTs24 : Nat := 16777215           -- MAX_INITIAL_TIMESTAMP
def maxMsgLen : Nat := 16777215
def maxChunkSize : Nat := 2147483647
def initialChunkSize : Nat := 128

/-- `HashMap<u32, _>` as an association list: `insert` replaces or appends, `remove` deletes -/
def mapGet {α : Type} (k : Nat) : List (Nat × α) → Option α
  | [] => none
  | (k', v) :: r => if k' = k then some v else mapGet k r

def mapRemove {α : Type} (k : Nat) : List (Nat × α) → List (Nat × α)
  | [] => []
  | (k', v) :: r => if k' = k then r else (k', v) :: mapRemove k r

def mapInsert {α : Type} (k : Nat) (v : α) (m : List (Nat × α)) : List (Nat × α) :=
  (k, v) :: mapRemove k m

/-- wrapping u32 addition / subtraction (`RtmpTimestamp + u32`, `RtmpTimestamp - RtmpTimestamp`) -/
def add32 (a b : Nat) : Nat := (a + b) % M32
def sub32 (a b : Nat) : Nat := (a + M32 - b) % M32

/-- `set_chunk_size::deserialize` on a type-1 payload: the size a consumer that honours the message
    hands to `ChunkDeserializer::set_max_chunk_size` (`none`: the payload is not a valid SetChunkSize) -/
def parseSetChunkSize (data : Bytes) : Option Nat :=
  match data with
  | a :: b :: c :: d :: _ =>
    let v := Bytes.rd32 a b c d
    if v > maxChunkSize then none else some v
  | _ => none

end Rml.Chunk
