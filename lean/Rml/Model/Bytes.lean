/-
Byte strings and fixed-width big/little-endian integers, as used by every model file.
A byte is a `UInt8`; a byte string is a `List UInt8` (oldest / lowest address first).
Machine integers are `Nat`s; truncations are written out.
-/
namespace Rml

abbrev Bytes := List UInt8

namespace Bytes

def b (n : Nat) : UInt8 := UInt8.ofNat n

/-- big-endian encodings (value is truncated to the width, as Rust's `as` casts / byteorder do for
    in-range values; callers pass in-range values) -/
def be16 (n : Nat) : Bytes := [b (n / 256), b n]
def be24 (n : Nat) : Bytes := [b (n / 65536), b (n / 256), b n]
def be32 (n : Nat) : Bytes := [b (n / 16777216), b (n / 65536), b (n / 256), b n]
def le32 (n : Nat) : Bytes := [b n, b (n / 256), b (n / 65536), b (n / 16777216)]
def be64 (n : Nat) : Bytes := be32 (n / 4294967296) ++ be32 n

def rd16 (x0 x1 : UInt8) : Nat := x0.toNat * 256 + x1.toNat
def rd24 (x0 x1 x2 : UInt8) : Nat := x0.toNat * 65536 + x1.toNat * 256 + x2.toNat
def rd32 (x0 x1 x2 x3 : UInt8) : Nat :=
  x0.toNat * 16777216 + x1.toNat * 65536 + x2.toNat * 256 + x3.toNat

/-- big-endian value of a whole byte string -/
def beVal : Bytes → Nat → Nat
  | [], acc => acc
  | x :: xs, acc => beVal xs (acc * 256 + x.toNat)

end Bytes
end Rml
