/-
The few `f64` operations the sessions use, on IEEE-754 bit patterns (`Nat < 2^64`):
Rust's saturating `f64 as u32`, the exact `u32 as f64`, `f64 as f32` (round to nearest even) and
the exact `f32 as f64`, and the comparisons against -2.0, -1.0 and 0.0.
Validated against the real casts by the `f64` correspondence ops on boundary and random patterns.
-/
namespace Rml.F64

def sign (b : Nat) : Nat := b / 9223372036854775808 % 2
def expo (b : Nat) : Nat := b / 4503599627370496 % 2048
def mant (b : Nat) : Nat := b % 4503599627370496

def isNaN (b : Nat) : Bool := expo b = 2047 ∧ mant b ≠ 0

/-- `x as u32`: NaN → 0, negative → 0, ≥ 2^32 → u32::MAX, else truncation toward zero -/
def toU32 (b : Nat) : Nat :=
  if isNaN b then 0
  else if sign b = 1 then 0
  else if expo b = 2047 then 4294967295
  else if expo b < 1023 then 0
  else
    let e := expo b - 1023                -- value = (2^52 + mant) · 2^(e-52)
    if e ≥ 32 then 4294967295
    else (4503599627370496 + mant b) / 2 ^ (52 - e)

/-- position of the highest set bit (`n > 0`) -/
def log2 (n : Nat) : Nat := Nat.log2 n

/-- `n as f64` for a `u32` (exact) -/
def ofU32 (n : Nat) : Nat :=
  if n = 0 then 0
  else
    let k := log2 n
    (1023 + k) * 4503599627370496 + (n * 2 ^ (52 - k)) % 4503599627370496

def negTwo : Nat := 0xC000000000000000
def negOne : Nat := 0xBFF0000000000000

/-- `x >= 0.0` -/
def geZero (b : Nat) : Bool := !isNaN b && (sign b = 0 || b = 9223372036854775808)

/-- round `m / 2^s` to nearest, ties to even -/
def rne (m s : Nat) : Nat :=
  let q := m / 2 ^ s
  let r := m % 2 ^ s
  let half := 2 ^ s / 2
  if s = 0 then m
  else if r > half then q + 1
  else if r < half then q
  else if q % 2 = 1 then q + 1 else q

/-- `x as f32`, as 32-bit pattern -/
def toF32 (b : Nat) : Nat :=
  let s := sign b * 2147483648
  if expo b = 2047 then
    if mant b = 0 then s + 2139095040                      -- infinity
    else s + 2139095040 + 4194304 + (mant b / 536870912) % 4194304   -- quiet NaN, payload truncated
  else if expo b = 0 then s                                 -- f64 zero / subnormal → ±0
  else
    let m := 4503599627370496 + mant b                      -- 53-bit significand
    let e : Int := (expo b : Int) - 1023
    if e ≥ -126 then
      let q := rne m 29                                     -- 24-bit significand, maybe 2^24
      let (q, e) := if q = 16777216 then (8388608, e + 1) else (q, e)
      if e > 127 then s + 2139095040
      else s + (Int.toNat (e + 127)) * 8388608 + (q - 8388608)
    else
      let shift := Int.toNat (-126 - e) + 29                -- subnormal f32
      if shift > 60 then s
      else s + rne m shift                                   -- may round up into the smallest normal: same formula

/-- `x as f64` for an `f32` bit pattern (exact) -/
def ofF32 (f : Nat) : Nat :=
  let s := (f / 2147483648 % 2) * 9223372036854775808
  let e := f / 8388608 % 256
  let m := f % 8388608
  if e = 255 then
    if m = 0 then s + 2047 * 4503599627370496
    else s + 2047 * 4503599627370496 + 2251799813685248 + (m % 4194304) * 536870912
  else if e = 0 then
    if m = 0 then s
    else
      let k := log2 m                                       -- value = m · 2^-149 = 2^(k-149) · (m / 2^k)
      s + (1023 + k - 149) * 4503599627370496 + (m * 2 ^ (52 - k)) % 4503599627370496
  else s + (e + 896) * 4503599627370496 + m * 536870912

end Rml.F64
