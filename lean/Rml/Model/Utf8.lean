/-
UTF-8 well-formedness as decided by Rust's `String::from_utf8` (Unicode Table 3-7: no overlong
forms, no surrogates, nothing above U+10FFFF).  Validated against the real `from_utf8` by the
`amf` correspondence family (malformed stream).
-/
import Rml.Model.Bytes
namespace Rml.Utf8

def cont (x : UInt8) : Bool := 0x80 ≤ x && x ≤ 0xBF

def valid : Bytes → Bool
  | [] => true
  | b0 :: rest =>
    if b0 ≤ 0x7F then valid rest
    else if 0xC2 ≤ b0 && b0 ≤ 0xDF then
      match rest with
      | b1 :: r => cont b1 && valid r
      | _ => false
    else if 0xE0 ≤ b0 && b0 ≤ 0xEF then
      match rest with
      | b1 :: b2 :: r =>
        (if b0 == 0xE0 then 0xA0 ≤ b1 && b1 ≤ 0xBF
         else if b0 == 0xED then 0x80 ≤ b1 && b1 ≤ 0x9F
         else cont b1) && cont b2 && valid r
      | _ => false
    else if 0xF0 ≤ b0 && b0 ≤ 0xF4 then
      match rest with
      | b1 :: b2 :: b3 :: r =>
        (if b0 == 0xF0 then 0x90 ≤ b1 && b1 ≤ 0xBF
         else if b0 == 0xF4 then 0x80 ≤ b1 && b1 ≤ 0x8F
         else cont b1) && cont b2 && cont b3 && valid r
      | _ => false
    else false

end Rml.Utf8
