/-
Model of `rtmp/src/chunk_io/serializer.rs` (after fixes F1, F2).
-/
import Rml.Model.Chunk
namespace Rml.Ser
open Rml Rml.Bytes Rml.Chunk

/-- `ChunkHeader` as the serializer stores it -/
structure Hdr where
  csid : Nat
  ts : Nat          -- timestamp
  field : Nat       -- timestamp_field (full 32-bit value; capped only when written)
  len : Nat
  typ : Nat
  msid : Nat
  drop : Bool       -- can_be_dropped
deriving Repr, DecidableEq, Inhabited

structure State where
  maxCs : Nat := initialChunkSize
  prev : List (Nat × Hdr) := []
deriving Repr

/-- `Packet` -/
structure Packet where
  bytes : Bytes
  drop : Bool
deriving Repr, DecidableEq

inductive Err where
  | messageTooLong        -- MessageTooLong
  | invalidMaxChunkSize   -- InvalidMaxChunkSize
deriving Repr, DecidableEq

/-- `get_csid_for_message_type` -/
def csidFor (typ : Nat) : Nat :=
  if 1 ≤ typ ∧ typ ≤ 6 then 2
  else if typ = 18 ∨ typ = 19 then 3
  else if typ = 9 then 4
  else if typ = 8 then 5
  else 6

/-- `get_header_format` -/
def headerFormat (cur prev : Hdr) : Fmt :=
  if cur.msid ≠ prev.msid then .f0
  else if cur.typ ≠ prev.typ ∨ cur.len ≠ prev.len then .f1
  else if cur.field ≠ prev.field then .f2
  else .f3

/-- `add_basic_header` … `add_extended_timestamp`: the header bytes of one chunk (csid is 2..6, so
    the basic header is one byte) -/
def headerBytes (fmt : Fmt) (h : Hdr) : Bytes :=
  [b (fmt.toNat * 64 + h.csid)] ++
  (if fmt = .f3 then [] else be24 (min h.field maxTs24)) ++
  (if fmt = .f3 ∨ fmt = .f2 then [] else be24 h.len ++ [b h.typ]) ++
  (if fmt = .f0 then le32 h.msid else []) ++
  (if h.field < maxTs24 then [] else be32 h.field)

/-- `add_chunk` -/
def addChunk (s : State) (force : Bool) (m : Msg) (cont : Bool) (slice : Bytes) (drop : Bool) :
    State × Bytes :=
  let csid := csidFor m.typ
  let h0 : Hdr := { csid := csid, ts := m.ts, field := 0, len := m.data.length, typ := m.typ,
                    msid := m.msid, drop := drop }
  let (fmt, h1) : Fmt × Hdr :=
    if force then (.f0, h0)
    else match mapGet csid s.prev with
      | none => (.f0, h0)
      | some p =>
        if cont then (.f3, { h0 with field := p.field })
        else if p.drop then (.f0, h0)
        else
          let h := { h0 with field := sub32 m.ts p.ts }
          (headerFormat h p, h)
  let h2 : Hdr := if fmt = .f0 then { h1 with field := h1.ts } else h1
  ({ s with prev := mapInsert csid h2 s.prev }, headerBytes fmt h2 ++ slice)

/-- the slicing loop of `serialize` for `cs ≥ 1` (fuel = payload length suffices: every iteration
    removes at least one byte) -/
def slicesFuel : Nat → Nat → Bytes → List Bytes
  | 0, _, _ => []
  | f + 1, cs, data => if data.isEmpty then [] else data.take cs :: slicesFuel f cs (data.drop cs)

/-- the slices a message is cut into; a message without payload is one empty slice (fix F1) -/
def slices (cs : Nat) (data : Bytes) : List Bytes :=
  if data.isEmpty then [[]] else slicesFuel data.length cs data

/-- the `for (idx, slice)` loop over `add_chunk` -/
def addChunks (s : State) (force : Bool) (m : Msg) (drop : Bool) : Bool → List Bytes → State × Bytes
  | _, [] => (s, [])
  | cont, sl :: rest =>
    let (s1, b1) := addChunk s force m cont sl drop
    let (s2, b2) := addChunks s1 force m drop true rest
    (s2, b1 ++ b2)

inductive Outcome (α : Type) where
  | ok (a : α)
  | err (e : Err)
  | hang          -- the slicing loop never terminates (max_chunk_size = 0, non-empty payload)
deriving Repr

/-- `ChunkSerializer::serialize` -/
def serialize (s : State) (m : Msg) (force drop : Bool) : Outcome (State × Packet) :=
  if m.data.length > maxMsgLen then .err .messageTooLong
  else if s.maxCs = 0 ∧ ¬ m.data.isEmpty then .hang
  else
    let (s', bytes) := addChunks s force m drop false (slices s.maxCs m.data)
    .ok (s', { bytes := bytes, drop := drop })

/-- `ChunkSerializer::set_max_chunk_size` -/
def setMaxChunkSize (s : State) (n : Nat) (ts : Nat) : Outcome (State × Packet) :=
  if n = 0 ∨ n > maxChunkSize then .err .invalidMaxChunkSize
  else
    match serialize s { ts := ts, typ := 1, msid := 0, data := be32 n } true false with
    | .ok (s', p) => .ok ({ s' with maxCs := n }, p)
    | .err e => .err e
    | .hang => .hang

end Rml.Ser
