/-
Instrumented copy of the AMF0 decoder model: the same three mutually recursive functions, which
additionally return two ghost counters —
  peak  : the largest `depth` argument of any `read_next_value` call in the call tree (the recursion
          depth of the Rust code is 3 stack frames per unit of `depth`), and
  alloc : values constructed + bytes of string/name buffers requested (`vec![0; length]` is
          requested BEFORE the bytes are read, so a declared length counts even if the read fails).
`Rml/Lemmas/Amf0Ghost.lean` proves that erasing the counters gives back exactly `readValue` /
`readProps` / `readArr`, so facts about the counters are facts about the decoder model.
-/
import Rml.Model.Amf0
namespace Rml.Amf0

structure Ghost where
  peak : Nat
  alloc : Nat
deriving Repr

mutual
def readValueG : Nat → Nat → Bytes → Except DecErr (Option Val × Bytes) × Ghost
  | 0, d, _ => (.error .fuel, ⟨d, 0⟩)
  | _ + 1, d, [] => (.ok (none, []), ⟨d, 0⟩)
  | f + 1, d, m :: rest =>
    if m = 9 then (.ok (none, rest), ⟨d, 0⟩)
    else if (m = 3 ∨ m = 8 ∨ m = 10) ∧ d ≥ maxDepth then (.error .tooDeep, ⟨d, 0⟩)
    else if m = 1 then
      match take1 rest with
      | none => (.error .io, ⟨d, 0⟩)
      | some (x, r) => (.ok (some (.boolean (x != 0)), r), ⟨d, 1⟩)
    else if m = 5 then (.ok (some .null, rest), ⟨d, 1⟩)
    else if m = 6 then (.ok (some .undefined, rest), ⟨d, 1⟩)
    else if m = 0 then
      match takeN 8 rest with
      | none => (.error .io, ⟨d, 0⟩)
      | some (x, r) => (.ok (some (.number (Bytes.beVal x 0)), r), ⟨d, 1⟩)
    else if m = 3 then
      match readPropsG f (d + 1) rest [] with
      | (.error e, g) => (.error e, ⟨max d g.peak, g.alloc⟩)
      | (.ok (v, r), g) => (.ok (some v, r), ⟨max d g.peak, g.alloc + 1⟩)
    else if m = 8 then
      match takeN 4 rest with
      | none => (.error .io, ⟨d, 0⟩)
      | some (_, r) =>
        match readPropsG f (d + 1) r [] with
        | (.error e, g) => (.error e, ⟨max d g.peak, g.alloc⟩)
        | (.ok (v, r'), g) => (.ok (some v, r'), ⟨max d g.peak, g.alloc + 1⟩)
    else if m = 2 then
      match takeN 2 rest with
      | none => (.error .io, ⟨d, 0⟩)
      | some (l, r) =>
        match takeN (Bytes.beVal l 0) r with
        | none => (.error .io, ⟨d, Bytes.beVal l 0⟩)
        | some (s, r') =>
          if Utf8.valid s then (.ok (some (.str s), r'), ⟨d, Bytes.beVal l 0 + 1⟩)
          else (.error .utf8, ⟨d, Bytes.beVal l 0⟩)
    else if m = 10 then
      match takeN 4 rest with
      | none => (.error .io, ⟨d, 0⟩)
      | some (c, r) =>
        match readArrG f (d + 1) (Bytes.beVal c 0) r [] with
        | (.error e, g) => (.error e, ⟨max d g.peak, g.alloc⟩)
        | (.ok (v, r'), g) => (.ok (some v, r'), ⟨max d g.peak, g.alloc + 1⟩)
    else (.error (.unknownMarker m), ⟨d, 0⟩)
def readPropsG : Nat → Nat → Bytes → List (Bytes × Val) → Except DecErr (Val × Bytes) × Ghost
  | 0, _, _, _ => (.error .fuel, ⟨0, 0⟩)
  | f + 1, d, bs, acc =>
    match takeN 2 bs with
    | none => (.error .io, ⟨0, 0⟩)
    | some (l, r) =>
      if Bytes.beVal l 0 = 0 then
        match take1 r with
        | none => (.error .io, ⟨0, 0⟩)
        | some (x, r') => if x = 9 then (.ok (.object acc, r'), ⟨0, 0⟩) else (.error .emptyName, ⟨0, 0⟩)
      else
        match takeN (Bytes.beVal l 0) r with
        | none => (.error .io, ⟨0, Bytes.beVal l 0⟩)
        | some (k, r') =>
          if Utf8.valid k then
            match readValueG f d r' with
            | (.error e, g) => (.error e, ⟨g.peak, Bytes.beVal l 0 + g.alloc⟩)
            | (.ok (none, _), g) => (.error .eof, ⟨g.peak, Bytes.beVal l 0 + g.alloc⟩)
            | (.ok (some v, r''), g) =>
              match readPropsG f d r'' (insertProp k v acc) with
              | (res, g') => (res, ⟨max g.peak g'.peak, Bytes.beVal l 0 + g.alloc + g'.alloc⟩)
          else (.error .utf8, ⟨0, Bytes.beVal l 0⟩)
def readArrG : Nat → Nat → Nat → Bytes → List Val → Except DecErr (Val × Bytes) × Ghost
  | 0, _, _, _, _ => (.error .fuel, ⟨0, 0⟩)
  | _ + 1, _, 0, bs, acc => (.ok (.array acc, bs), ⟨0, 0⟩)
  | f + 1, d, c + 1, bs, acc =>
    match readValueG f d bs with
    | (.error e, g) => (.error e, g)
    | (.ok (none, r), g) => (.ok (.array acc, r), g)
    | (.ok (some v, r), g) =>
      match readArrG f d c r (acc ++ [v]) with
      | (res, g') => (res, ⟨max g.peak g'.peak, g.alloc + g'.alloc⟩)
end

def readAllG : Nat → Bytes → List Val → Except DecErr (List Val × Bytes) × Ghost
  | 0, _, _ => (.error .fuel, ⟨0, 0⟩)
  | f + 1, bs, acc =>
    match readValueG f 0 bs with
    | (.error e, g) => (.error e, g)
    | (.ok (none, r), g) => (.ok (acc, r), g)
    | (.ok (some v, r), g) =>
      match readAllG f r (acc ++ [v]) with
      | (res, g') => (res, ⟨max g.peak g'.peak, g.alloc + g'.alloc⟩)

/-- `deserialize(bytes)` with its ghost counters -/
def decodeG (bs : Bytes) : Except DecErr (List Val × Bytes) × Ghost := readAllG (bs.length + 2) bs []

end Rml.Amf0
