/-
Model of `rtmp/src/sessions/server/mod.rs` (after fixes F6, F10; `accept_play_request` serializes
in the order given by the code at hand, see the comment there).  Byte level in, byte level out: the
session owns a deserializer model and a serializer model; every clock reading is the input `now`
(uptime in ms, hook H2).
-/
import Rml.Model.SessionCommon
namespace Rml.Srv
open Rml Rml.Chunk Rml.Amf0 Rml.Msgs Rml.Sess

inductive PublishMode where
  | live | record | append
deriving Repr, DecidableEq, Inhabited

inductive StreamState where
  | created
  | publishing (key : Bytes) (mode : PublishMode)
  | playing (key : Bytes)
  | completed
deriving Repr, DecidableEq, Inhabited

inductive Req where
  | connection (app : Bytes) (tid : Nat)
  | publish (key : Bytes) (mode : PublishMode) (streamId : Nat)
  | play (key : Bytes) (streamId : Nat)
deriving Repr, DecidableEq, Inhabited

inductive PlayStart where
  | liveOrRecorded | liveOnly | startTime (s : Nat)
deriving Repr, DecidableEq, Inhabited

inductive Event where
  | connectionRequested (id : Nat) (app : Bytes)
  | publishRequested (id : Nat) (app key : Bytes) (mode : PublishMode)
  | publishFinished (app key : Bytes)
  | metadataChanged (app key : Bytes) (m : Metadata)
  | audio (app key : Bytes) (data : Bytes) (ts : Nat)
  | video (app key : Bytes) (data : Bytes) (ts : Nat)
  | unhandleableCommand (name : Bytes) (tid : Nat) (obj : Val) (args : List Val)
  | playRequested (id : Nat) (app key : Bytes) (start : PlayStart) (duration : Option Nat) (reset : Bool) (streamId : Nat)
  | playFinished (app key : Bytes)
  | ackReceived (n : Nat)
  | pingResponse (ts : Nat)
deriving Repr, Inhabited

inductive Res where
  | out (p : Ser.Packet)
  | ev (e : Event)
  | unhandled (m : Msg)
deriving Repr, Inhabited

structure Config where
  fmsVersion : Bytes
  chunkSize : Nat
  peerBandwidth : Nat
  windowAckSize : Nat
  sendOnBwDone : Bool
deriving Repr

structure State where
  ser : Ser.State := {}
  des : Des.State := {}
  app : Option Bytes := none                    -- connected_app_name
  reqs : List (Nat × Req) := []                 -- outstanding_requests
  nextReq : Nat := 0
  connected : Bool := false                     -- current_state == Connected
  fmsVersion : Bytes := []
  objectEncoding : Nat := 0                     -- f64 bits
  streams : List (Nat × StreamState) := []      -- active_streams
  nextStream : Nat := 1
  window : Option Nat := none                   -- peer_window_ack_size
  since : Nat := 0                              -- bytes_received_since_last_ack
deriving Repr

/-- one outbound message through the session's serializer -/
def send (s : State) (m : RtmpMsg) (ts msid : Nat) (force : Bool := false) (drop : Bool := false) :
    Except Err (State × Ser.Packet) :=
  match sendMsg s.ser m ts msid force drop with
  | .error e => .error e
  | .ok (ser', p) => .ok ({ s with ser := ser' }, p)

/-- `ServerSession::new` -/
def new (c : Config) (now : Nat) : Except Err (State × List Res) :=
  let s0 : State := { fmsVersion := c.fmsVersion }
  match Ser.setMaxChunkSize s0.ser c.chunkSize 0 with
  | .err e => .error (.chunkSer e)
  | .hang => .error .hang
  | .ok (ser1, p1) =>
    let s1 := { s0 with ser := ser1 }
    match send s1 (.windowAck c.windowAckSize) (epoch now) 0 true with
    | .error e => .error e
    | .ok (s2, p2) =>
      match send s2 (.userControl .streamBegin (some 0) none none) (epoch now) 0 true with
      | .error e => .error e
      | .ok (s3, p3) =>
        match send s3 (.setPeerBandwidth c.peerBandwidth .dynamic) (epoch now) 0 true with
        | .error e => .error e
        | .ok (s4, p4) =>
          if c.sendOnBwDone then
            match send s4 (.amf0Command (str "onBWDone") 0 .null [.number 0x40C0000000000000]) (epoch now) 0 true with
            | .error e => .error e
            | .ok (s5, p5) => .ok (s5, [.out p1, .out p2, .out p3, .out p4, .out p5])
          else .ok (s4, [.out p1, .out p2, .out p3, .out p4])

def commandMsg (name : Bytes) (tid : Nat) (obj : Val) (args : List Val) : RtmpMsg := .amf0Command name tid obj args

/-- `create_error_packet` / `create_error_response` -/
def errorPacket (s : State) (now : Nat) (code desc : Bytes) (tid streamId : Nat) : Except Err (State × Ser.Packet) :=
  send s (commandMsg (str "_error") tid .null [statusObject (str "_error") code desc]) (epoch now) streamId

def errorOut (s : State) (now : Nat) (code desc : Bytes) (tid streamId : Nat) : Except Err (State × List Res) :=
  match errorPacket s now code desc tid streamId with
  | .error e => .error e
  | .ok (s', p) => .ok (s', [.out p])

def lower (b : Bytes) : Bytes := b.map fun c => if 65 ≤ c ∧ c ≤ 90 then c + 32 else c

/-- `handle_command_connect` -/
def cmdConnect (s : State) (tid : Nat) (obj : Val) : Except Err (State × List Res) :=
  match obj with
  | .object props =>
    match propGet (str "app") props with
    | some (.str app) =>
      let app := if app.getLast? = some 47 then app.dropLast else app
      let oe := match propGet (str "objectEncoding") props with
        | some (.number n) => n
        | _ => 0
      let id := s.nextReq
      .ok ({ s with objectEncoding := oe, nextReq := id + 1, reqs := mapInsert id (.connection app tid) s.reqs },
           [.ev (.connectionRequested id app)])
    | _ => .error .noAppName
  | _ => .error .noAppName

def finishedEvents (app : Bytes) : StreamState → List Res
  | .publishing key _ => [.ev (.publishFinished app key)]
  | .playing key => [.ev (.playFinished app key)]
  | _ => []

/-- `handle_command_close_stream` / `handle_command_delete_stream` -/
def cmdCloseOrDelete (s : State) (args : List Val) (delete : Bool) : State × List Res :=
  if ¬ s.connected then (s, []) else
  match s.app with
  | none => (s, [])
  | some app =>
    match args with
    | .number x :: _ =>
      let sid := F64.toU32 x
      match mapGet sid s.streams with
      | none => (s, [])
      | some st =>
        let streams := if delete then mapRemove sid s.streams else mapInsert sid .created s.streams
        ({ s with streams := streams }, finishedEvents app st)
    | _ => (s, [])

/-- `handle_command_create_stream` -/
def cmdCreateStream (s : State) (now tid : Nat) : Except Err (State × List Res) :=
  let sid := s.nextStream
  let s1 := { s with nextStream := sid + 1, streams := mapInsert sid .created s.streams }
  match send s1 (commandMsg (str "_result") tid .null [.number (F64.ofU32 sid)]) (epoch now) 0 with
  | .error e => .error e
  | .ok (s2, p) => .ok (s2, [.out p])

/-- `handle_command_publish` -/
def cmdPublish (s : State) (now streamId tid : Nat) (args : List Val) : Except Err (State × List Res) :=
  let invalid := errorOut s now (str "NetStream.Publish.Start") (str "Invalid publish arguments") tid streamId
  let notConn := errorOut s now (str "NetStream.Publish.Start") (str "Can't publish before connecting") tid streamId
  match args with
  | a0 :: a1 :: _ =>
    if ¬ s.connected then notConn else
    match s.app with
    | none => notConn
    | some app =>
      match a0 with
      | .str key =>
        match a1 with
        | .str rawMode =>
          let m := lower rawMode
          let mode : Option PublishMode :=
            if m = str "live" then some .live else if m = str "append" then some .append
            else if m = str "record" then some .record else none
          match mode with
          | none =>
            match send s (commandMsg (str "_error") tid .null
                [statusObject (str "error") (str "NetStream.Publish.Start") (str "Invalid publish mode given")])
                (epoch now) streamId with
            | .error e => .error e
            | .ok (s', p) => .ok (s', [.out p])
          | some mode =>
            let id := s.nextReq
            .ok ({ s with nextReq := id + 1, reqs := mapInsert id (.publish key mode streamId) s.reqs },
                 [.ev (.publishRequested id app key mode)])
        | _ => invalid
      | _ => invalid
  | _ => invalid

/-- `handle_command_play` -/
def cmdPlay (s : State) (now streamId tid : Nat) (args : List Val) : Except Err (State × List Res) :=
  let invalid := errorOut s now (str "NetStream.Play.Start") (str "Invalid play arguments") tid streamId
  let notConn := errorOut s now (str "NetStream.Play.Start") (str "Can't play before connecting") tid streamId
  match args with
  | [] => invalid
  | a0 :: rest =>
    if ¬ s.connected then notConn else
    match s.app with
    | none => notConn
    | some app =>
      match a0 with
      | .str key =>
        let start : PlayStart := match rest with
          | .number x :: _ =>
            if x = F64.negTwo then .liveOrRecorded else if x = F64.negOne then .liveOnly
            else if F64.geZero x then .startTime (F64.toU32 x) else .liveOrRecorded
          | _ => .liveOrRecorded
        let duration : Option Nat := match rest.drop 1 with
          | .number x :: _ => if F64.geZero x then some (F64.toU32 x) else none
          | _ => none
        let reset : Bool := match rest.drop 2 with
          | .boolean x :: _ => x
          | _ => false
        let id := s.nextReq
        .ok ({ s with nextReq := id + 1, reqs := mapInsert id (.play key streamId) s.reqs },
             [.ev (.playRequested id app key start duration reset streamId)])
      | _ => invalid

/-- `handle_amf0_command` -/
def handleCommand (s : State) (now streamId : Nat) (name : Bytes) (tid : Nat) (obj : Val) (args : List Val) :
    Except Err (State × List Res) :=
  if name = str "connect" then cmdConnect s tid obj
  else if name = str "closeStream" then .ok (cmdCloseOrDelete s args false)
  else if name = str "createStream" then cmdCreateStream s now tid
  else if name = str "deleteStream" then .ok (cmdCloseOrDelete s args true)
  else if name = str "play" then cmdPlay s now streamId tid args
  else if name = str "publish" then cmdPublish s now streamId tid args
  else .ok (s, [.ev (.unhandleableCommand name tid obj args)])

/-- the stream key if `streamId` is currently publishing -/
def publishingKey (s : State) (streamId : Nat) : Option Bytes :=
  match mapGet streamId s.streams with
  | some (.publishing key _) => some key
  | _ => none

/-- `handle_amf0_data` (+ `handle_amf0_data_set_data_frame`) -/
def handleData (s : State) (vals : List Val) (streamId : Nat) : List Res :=
  match vals with
  | .str f :: rest =>
    if f = str "@setDataFrame" then
      match rest with
      | .str g :: v1 :: _ =>
        if g ≠ str "onMetaData" then [] else
        match s.app with
        | none => []
        | some app =>
          match publishingKey s streamId with
          | none => []
          | some key =>
            let md := match v1 with
              | .object props => applyMetadata props
              | _ => {}
            [.ev (.metadataChanged app key md)]
      | _ => []
    else []
  | _ => []

/-- `handle_audio_data` / `handle_video_data` -/
def handleMedia (s : State) (video : Bool) (data : Bytes) (streamId ts : Nat) : List Res :=
  if ¬ s.connected then [] else
  match s.app with
  | none => []
  | some app =>
    match publishingKey s streamId with
    | none => []
    | some key => if video then [.ev (.video app key data ts)] else [.ev (.audio app key data ts)]

/-- the dispatch inside the loop of `handle_input` for one decoded message -/
def handleMessage (s : State) (now : Nat) (p : Msg) (m : RtmpMsg) : Except Err (State × List Res) :=
  match m with
  | .abort _ => .ok (s, [])
  | .ack n => .ok (s, [.ev (.ackReceived n)])
  | .amf0Command name tid obj args => handleCommand s now p.msid name tid obj args
  | .amf0Data vals => .ok (s, handleData s vals p.msid)
  | .audio d => .ok (s, handleMedia s false d p.msid p.ts)
  | .video d => .ok (s, handleMedia s true d p.msid p.ts)
  | .setChunkSize n =>
    match Des.setMaxChunkSize s.des.core n with
    | .error e => .error (.chunkDes e)
    | .ok c => .ok ({ s with des := { s.des with core := c } }, [])
  | .setPeerBandwidth _ _ => .ok (s, [])
  | .userControl ev _ _ ts =>
    match ev with
    | .pingRequest =>
      match send s (.userControl .pingResponse none none ts) (epoch now) 0 with
      | .error e => .error e
      | .ok (s', pk) => .ok (s', [.out pk])
    | .pingResponse => .ok (s, [.ev (.pingResponse (ts.getD 0))])
    | _ => .ok (s, [])
  | .windowAck n => .ok ({ s with window := some n }, [])
  | .unknown _ _ => .ok (s, [.unhandled p])

/-- the message loop of `handle_input`: on an error the results gathered so far are dropped and the
    state keeps every change made up to that point (known finding K2) -/
def msgLoop : Nat → State → Nat → List Res → State × Except Err (List Res)
  | 0, s, _, _ => (s, .error .hang)
  | f + 1, s, now, acc =>
    let n := Des.next s.des
    let s1 := { s with des := { core := n.core, buf := n.buf } }
    match n.err with
    | some e => (s1, .error (.chunkDes e))
    | none =>
      match n.msg with
      | none => (s1, .ok acc)
      | some p =>
        match fromPayload p.typ p.data with
        | .error e => (s1, .error (.msgDes e))
        | .ok m =>
          match handleMessage s1 now p m with
          | .error e => (s1, .error e)
          | .ok (s2, rs) => msgLoop f s2 now (acc ++ rs)

/-- `ServerSession::handle_input` -/
def handleInput (s : State) (now : Nat) (bytes : Bytes) : State × Except Err (List Res) :=
  let (since, ack) := ackStep s.window s.since bytes.length
  let s0 := { s with des := { s.des with buf := s.des.buf ++ bytes } }
  match ack with
  | none => msgLoop (bytes.length + s.des.buf.length + 2) { s0 with since := since } now []
  | some n =>
    match send s0 (.ack n) (epoch now) 0 with
    | .error e => ({ s0 with since := min (s.since + bytes.length % 4294967296) 4294967295 }, .error e)
    | .ok (s1, p) => msgLoop (bytes.length + s.des.buf.length + 2) { s1 with since := since } now [.out p]

/-- `accept_request` -/
def acceptRequest (s : State) (now id : Nat) : State × Except Err (List Res) :=
  match mapGet id s.reqs with
  | none => (s, .error .invalidRequestId)
  | some req =>
    let s0 := { s with reqs := mapRemove id s.reqs }
    match req with
    | .connection app tid =>
      let s1 := { s0 with app := some app, connected := true }
      let obj : Val := .object [(str "fmsVer", .str s.fmsVersion), (str "capabilities", .number 0x403F000000000000)]
      let info : Val := match statusObject (str "status") (str "NetConnection.Connect.Success")
            (str "Successfully connected on app: " ++ app) with
        | .object ps => .object (ps ++ [(str "objectEncoding", .number s.objectEncoding)])
        | v => v
      match send s1 (commandMsg (str "_result") tid obj [info]) (epoch now) 0 with
      | .error e => (s1, .error e)
      | .ok (s2, p) => (s2, .ok [.out p])
    | .publish key mode sid =>
      match mapGet sid s0.streams with
      | none => (s0, .error .inactiveStream)
      | some _ =>
        let s1 := { s0 with streams := mapInsert sid (.publishing key mode) s0.streams }
        match send s1 (.userControl .streamBegin (some sid) none none) (epoch now) sid with
        | .error e => (s1, .error e)
        | .ok (s2, p1) =>
          match send s2 (commandMsg (str "onStatus") 0 .null [statusObject (str "status") (str "NetStream.Publish.Start")
              (str "Successfully started publishing on stream key " ++ key)]) (epoch now) sid with
          | .error e => (s2, .error e)
          | .ok (s3, p2) => (s3, .ok [.out p1, .out p2])
    | .play key sid =>
      match mapGet sid s0.streams with
      | none => (s0, .error .inactiveStream)
      | some _ =>
        let s1 := { s0 with streams := mapInsert sid (.playing key) s0.streams }
        let reset := commandMsg (str "onStatus") 0 .null [statusObject (str "status") (str "NetStream.Play.Reset") (str "Reset stream")]
        let begin_ : RtmpMsg := .userControl .streamBegin (some sid) none none
        let start := commandMsg (str "onStatus") 0 .null [statusObject (str "status") (str "NetStream.Play.Start")
              (str "Successfully started playback on stream key " ++ key)]
        let data1 : RtmpMsg := .amf0Data [.str (str "|RtmpSampleAccess"), .boolean false, .boolean false]
        let data2 : RtmpMsg := .amf0Data [.str (str "onStatus"), .object [(str "code", .str (str "NetStream.Data.Start"))]]
        -- serialized in the order the packets are returned
        match send s1 reset (epoch now) sid with
        | .error e => (s1, .error e)
        | .ok (s2, pr) =>
          match send s2 begin_ (epoch now) sid with
          | .error e => (s2, .error e)
          | .ok (s3, pb) =>
            match send s3 start (epoch now) sid with
            | .error e => (s3, .error e)
            | .ok (s4, ps) =>
              match send s4 data1 (epoch now) sid with
              | .error e => (s4, .error e)
              | .ok (s5, p1) =>
                match send s5 data2 (epoch now) sid with
                | .error e => (s5, .error e)
                | .ok (s6, p2) => (s6, .ok [.out pr, .out pb, .out ps, .out p1, .out p2])

/-- `reject_request` -/
def rejectRequest (s : State) (now id : Nat) (code desc : Bytes) : State × Except Err (List Res) :=
  match mapGet id s.reqs with
  | none => (s, .error .invalidRequestId)
  | some req =>
    let s0 := { s with reqs := mapRemove id s.reqs }
    let (tid, sid) : Nat × Nat := match req with
      | .connection _ tid => (tid, 0)
      | .publish _ _ sid => (0, sid)
      | .play _ sid => (0, sid)
    match errorPacket s0 now code desc tid sid with
    | .error e => (s0, .error e)
    | .ok (s1, p) => (s1, .ok [.out p])

/-- `send_video_data` / `send_audio_data` -/
def sendMedia (s : State) (video : Bool) (streamId : Nat) (data : Bytes) (ts : Nat) (drop : Bool) :
    State × Except Err Ser.Packet :=
  match send s (if video then .video data else .audio data) ts streamId false drop with
  | .error e => (s, .error e)
  | .ok (s', p) => (s', .ok p)

/-- `send_metadata` -/
def sendMetadata (s : State) (now streamId : Nat) (m : Metadata) : State × Except Err Ser.Packet :=
  match send s (.amf0Data [.str (str "onMetaData"), .object (metadataProps m)]) (epoch now) streamId with
  | .error e => (s, .error e)
  | .ok (s', p) => (s', .ok p)

/-- `send_ping_request` -/
def sendPing (s : State) (now : Nat) : State × Except Err (Ser.Packet × Nat) :=
  match send s (.userControl .pingRequest none none (some (epoch now))) (epoch now) 0 with
  | .error e => (s, .error e)
  | .ok (s', p) => (s', .ok (p, epoch now))

/-- `finish_playing` -/
def finishPlaying (s : State) (now streamId : Nat) : State × Except Err Ser.Packet :=
  match mapGet streamId s.streams with
  | some (.playing key) =>
    let s1 := { s with streams := mapInsert streamId .completed s.streams }
    match send s1 (commandMsg (str "onStatus") 0 .null [statusObject (str "status") (str "NetStream.Play.Complete")
        (str "Stream playback is completed for " ++ key)]) (epoch now) streamId with
    | .error e => (s1, .error e)
    | .ok (s2, p) => (s2, .ok p)
  | _ => (s, .error .inactiveStream)

end Rml.Srv
