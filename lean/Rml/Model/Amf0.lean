/-
Model of `amf0/src/{lib,serialization,deserialization}.rs` (after the fixes F7, F8, F9).

* `Val` mirrors `Amf0Value`; an `f64` is its 64-bit pattern; a `String` is its UTF-8 bytes;
  a `HashMap<String, Amf0Value>` is an association list.  For the encoder the list order is the
  (unspecified) iteration order of the map; the decoder builds the list with `insertProp`
  (`HashMap::insert`: an existing key keeps its position and gets the new value).
* The decoder is defined by structural recursion on fuel; `decode` supplies `length + 1`, which
  always suffices (`Rml/Lemmas/Amf0Fuel.lean`); fuel exhaustion is the explicit error `.fuel`, never
  a silent default.
-/
import Rml.Model.Bytes
import Rml.Model.Utf8
namespace Rml.Amf0
open Rml.Bytes

/-- `MAX_NESTING_DEPTH` -/
def maxDepth : Nat := 128

inductive Val where
  | number (bits : Nat)
  | boolean (b : Bool)
  | str (s : Bytes)
  | object (props : List (Bytes × Val))
  | array (vs : List Val)
  | null
  | undefined
deriving Repr, Inhabited

inductive EncErr where
  | tooLong      -- NormalStringTooLong
  | emptyName    -- EmptyObjectPropertyName
  | tooDeep      -- NestingTooDeep
deriving Repr, DecidableEq

mutual
/-- `serialize_value(value, bytes, depth)`; returns the bytes appended -/
def encVal (d : Nat) : Val → Except EncErr Bytes
  | .number n => .ok (0 :: be64 n)
  | .boolean b => .ok [1, if b then 1 else 0]
  | .str s => if s.length > 65535 then .error .tooLong else .ok (2 :: (be16 s.length ++ s))
  | .object ps =>
    if d ≥ maxDepth then .error .tooDeep else
    match encProps (d + 1) ps with
    | .error e => .error e
    | .ok body => .ok (3 :: (body ++ [0, 0, 9]))
  | .array vs =>
    if d ≥ maxDepth then .error .tooDeep else
    match encList (d + 1) vs with
    | .error e => .error e
    | .ok body => .ok (10 :: (be32 vs.length ++ body))
  | .null => .ok [5]
  | .undefined => .ok [6]
/-- the property loop of `serialize_object` -/
def encProps (d : Nat) : List (Bytes × Val) → Except EncErr Bytes
  | [] => .ok []
  | (k, v) :: rest =>
    if k.length > 65535 then .error .tooLong
    else if k.length = 0 then .error .emptyName
    else match encVal d v with
      | .error e => .error e
      | .ok b => match encProps d rest with
        | .error e => .error e
        | .ok r => .ok (be16 k.length ++ k ++ b ++ r)
/-- the element loop of `serialize_strict_array`, and (with `d = 0`) of `serialize` -/
def encList (d : Nat) : List Val → Except EncErr Bytes
  | [] => .ok []
  | v :: rest =>
    match encVal d v with
    | .error e => .error e
    | .ok b => match encList d rest with
      | .error e => .error e
      | .ok r => .ok (b ++ r)
end

/-- `serialize(values)` -/
def encode (vs : List Val) : Except EncErr Bytes := encList 0 vs

inductive DecErr where
  | unknownMarker (m : UInt8)
  | emptyName          -- UnexpectedEmptyObjectPropertyName
  | eof                -- UnexpectedEof (property without a value)
  | io                 -- BufferReadError (read_exact hit the end of input)
  | utf8               -- StringParseError
  | tooDeep            -- NestingTooDeep
  | fuel               -- model artefact: unreachable (see Lemmas/Amf0Fuel)
deriving Repr, DecidableEq

/-- `HashMap::insert` on the association list -/
def insertProp (k : Bytes) (v : Val) : List (Bytes × Val) → List (Bytes × Val)
  | [] => [(k, v)]
  | (k', v') :: rest => if k' = k then (k', v) :: rest else (k', v') :: insertProp k v rest

/-- `read_exact` of `n` bytes -/
def takeN (n : Nat) (bs : Bytes) : Option (Bytes × Bytes) :=
  if bs.length < n then none else some (bs.take n, bs.drop n)

/-- `read_u8` -/
def take1 : Bytes → Option (UInt8 × Bytes)
  | [] => none
  | x :: r => some (x, r)

mutual
/-- `read_next_value(bytes, depth)`: `none` = end of input or object-end marker -/
def readValue : Nat → Nat → Bytes → Except DecErr (Option Val × Bytes)
  | 0, _, _ => .error .fuel
  | _ + 1, _, [] => .ok (none, [])
  | f + 1, d, m :: rest =>
    if m = 9 then .ok (none, rest)
    else if (m = 3 ∨ m = 8 ∨ m = 10) ∧ d ≥ maxDepth then .error .tooDeep
    else if m = 1 then
      match take1 rest with
      | none => .error .io
      | some (x, r) => .ok (some (.boolean (x != 0)), r)
    else if m = 5 then .ok (some .null, rest)
    else if m = 6 then .ok (some .undefined, rest)
    else if m = 0 then
      match takeN 8 rest with
      | none => .error .io
      | some (x, r) => .ok (some (.number (beVal x 0)), r)
    else if m = 3 then
      match readProps f (d + 1) rest [] with
      | .error e => .error e
      | .ok (v, r) => .ok (some v, r)
    else if m = 8 then
      match takeN 4 rest with
      | none => .error .io
      | some (_, r) =>
        match readProps f (d + 1) r [] with
        | .error e => .error e
        | .ok (v, r') => .ok (some v, r')
    else if m = 2 then
      match takeN 2 rest with
      | none => .error .io
      | some (l, r) =>
        match takeN (beVal l 0) r with
        | none => .error .io
        | some (s, r') => if Utf8.valid s then .ok (some (.str s), r') else .error .utf8
    else if m = 10 then
      match takeN 4 rest with
      | none => .error .io
      | some (c, r) =>
        match readArr f (d + 1) (beVal c 0) r [] with
        | .error e => .error e
        | .ok (v, r') => .ok (some v, r')
    else .error (.unknownMarker m)
/-- the loop of `parse_object` around `parse_object_property` -/
def readProps : Nat → Nat → Bytes → List (Bytes × Val) → Except DecErr (Val × Bytes)
  | 0, _, _, _ => .error .fuel
  | f + 1, d, bs, acc =>
    match takeN 2 bs with
    | none => .error .io
    | some (l, r) =>
      if beVal l 0 = 0 then
        match take1 r with
        | none => .error .io
        | some (x, r') => if x = 9 then .ok (.object acc, r') else .error .emptyName
      else
        match takeN (beVal l 0) r with
        | none => .error .io
        | some (k, r') =>
          if Utf8.valid k then
            match readValue f d r' with
            | .error e => .error e
            | .ok (none, _) => .error .eof
            | .ok (some v, r'') => readProps f d r'' (insertProp k v acc)
          else .error .utf8
/-- the loop of `parse_strict_array` -/
def readArr : Nat → Nat → Nat → Bytes → List Val → Except DecErr (Val × Bytes)
  | 0, _, _, _, _ => .error .fuel
  | _ + 1, _, 0, bs, acc => .ok (.array acc, bs)
  | f + 1, d, c + 1, bs, acc =>
    match readValue f d bs with
    | .error e => .error e
    | .ok (none, r) => .ok (.array acc, r)
    | .ok (some v, r) => readArr f d c r (acc ++ [v])
end

/-- the loop of `deserialize`; also returns what the reader has not consumed -/
def readAll : Nat → Bytes → List Val → Except DecErr (List Val × Bytes)
  | 0, _, _ => .error .fuel
  | f + 1, bs, acc =>
    match readValue f 0 bs with
    | .error e => .error e
    | .ok (none, r) => .ok (acc, r)
    | .ok (some v, r) => readAll f r (acc ++ [v])

/-- `deserialize(bytes)` together with the unread rest of the input -/
def decodeRest (bs : Bytes) : Except DecErr (List Val × Bytes) := readAll (bs.length + 2) bs []

/-- `deserialize(bytes)` -/
def decode (bs : Bytes) : Except DecErr (List Val) :=
  match decodeRest bs with
  | .error e => .error e
  | .ok (vs, _) => .ok vs

end Rml.Amf0

namespace Rml.Amf0

mutual
/-- number of containers on the deepest path -/
def Val.depth : Val → Nat
  | .object ps => 1 + depthProps ps
  | .array vs => 1 + depthList vs
  | _ => 0
def depthProps : List (Bytes × Val) → Nat
  | [] => 0
  | (_, v) :: r => max v.depth (depthProps r)
def depthList : List Val → Nat
  | [] => 0
  | v :: r => max v.depth (depthList r)
end

/- what the Rust types guarantee of every `Amf0Value`: strings and names are valid UTF-8, the names
   of one map are pairwise distinct, an `f64` has 64 bits, a `Vec` in memory has < 2^32 elements
   (explicit hypothesis: 2^32 values need > 200 GB) -/
mutual
def Val.WF : Val → Prop
  | .number n => n < 18446744073709551616
  | .str s => Utf8.valid s = true
  | .object ps => WFProps ps ∧ (ps.map Prod.fst).Nodup
  | .array vs => WFList vs ∧ vs.length < 4294967296
  | _ => True
def WFProps : List (Bytes × Val) → Prop
  | [] => True
  | (k, v) :: r => Utf8.valid k = true ∧ v.WF ∧ WFProps r
def WFList : List Val → Prop
  | [] => True
  | v :: r => v.WF ∧ WFList r
end

end Rml.Amf0
