/-
Model of `rtmp/src/time.rs`.

`RtmpTimestamp` is a `u32` wrapper.  A `u32` is modelled as a `Nat` below `M = 2^32`;
wrapping arithmetic is written out.  `compare` mirrors the private `compare` function
(max/min, difference, adjacency threshold 2^31-1, then the plain or the reversed
integer comparison).
-/
namespace Rml.Time

abbrev M : Nat := 4294967296

/-- `add_values`: `(Wrapping(a) + Wrapping(b)).0` -/
def add (a b : Nat) : Nat := (a + b) % M

/-- `sub_values`: `(Wrapping(a) - Wrapping(b)).0` (for `a b < M`) -/
def sub (a b : Nat) : Nat := (a + M - b) % M

def maxAdjacent : Nat := 2147483647

/-- plain `u32::cmp` -/
def cmpNat (a b : Nat) : Ordering :=
  if a < b then .lt else if a = b then .eq else .gt

/-- the private `compare(value1, value2)` -/
def tsCompare (a b : Nat) : Ordering :=
  let mx := max a b
  let mn := min a b
  let d := mx - mn
  if d ≤ maxAdjacent then cmpNat a b else cmpNat b a

/-- `a > b`, `a < b`, … as derived by Rust from `partial_cmp` / `cmp` -/
def tsGt (a b : Nat) : Bool := tsCompare a b == .gt
def tsLt (a b : Nat) : Bool := tsCompare a b == .lt
def tsGe (a b : Nat) : Bool := tsCompare a b != .lt
def tsLe (a b : Nat) : Bool := tsCompare a b != .gt
/-- derived `PartialEq` on the struct / the hand-written `PartialEq<u32>` -/
def tsEq (a b : Nat) : Bool := a == b

end Rml.Time
