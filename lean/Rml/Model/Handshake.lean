/-
Model of `rtmp/src/handshake/mod.rs`.

Parameters (arbitrary in every theorem): `hmac input key` (HMAC-SHA256 in the real code; the driver
instantiates it with its own SHA-256) and the two random fills a handshake consumes at most once
each (1524 bytes for packet 1, 1536 bytes for packet 2).
-/
import Rml.Model.Bytes
namespace Rml.Hs
open Rml

inductive Role where
  | server | client
deriving Repr, DecidableEq, Inhabited

inductive Stage where
  | needToSend | waitP0 | waitP1 | waitP2 | complete
deriving Repr, DecidableEq, Inhabited

abbrev Hmac := Bytes → Bytes → Bytes      -- input → key → 32 bytes

def packetSize : Nat := 1536
def digestLen : Nat := 32
def sigStart : Nat := 1504

/-- "Genuine Adobe Flash Media Server 001" -/
def fmsKey : Bytes := [71, 101, 110, 117, 105, 110, 101, 32, 65, 100, 111, 98, 101, 32, 70, 108, 97, 115, 104, 32,
  77, 101, 100, 105, 97, 32, 83, 101, 114, 118, 101, 114, 32, 48, 48, 49]
/-- "Genuine Adobe Flash Player 001" -/
def fpKey : Bytes := [71, 101, 110, 117, 105, 110, 101, 32, 65, 100, 111, 98, 101, 32, 70, 108, 97, 115, 104, 32,
  80, 108, 97, 121, 101, 114, 32, 48, 48, 49]
def crud : Bytes := [0xf0, 0xee, 0xc2, 0x4a, 0x80, 0x68, 0xbe, 0xe8, 0x2e, 0x00, 0xd0, 0xd1, 0x02, 0x9e, 0x7e, 0x57,
  0x6e, 0xec, 0x5d, 0x2d, 0x29, 0x80, 0x6f, 0xab, 0x93, 0xb8, 0xe6, 0x36, 0xcf, 0xeb, 0x31, 0xae]

/-- the constant a party keys its OWN packet-1 digest with -/
def ownKey : Role → Bytes
  | .server => fmsKey
  | .client => fpKey
/-- the constant the PEER's packet-1 digest is keyed with -/
def peerKey : Role → Bytes
  | .server => fpKey
  | .client => fmsKey

def at_ (p : Bytes) (i : Nat) : Nat := (p.getD i 0).toNat

/-- `get_client_digest_offset` / `get_server_digest_offset` -/
def clientOffset (p : Bytes) : Nat := (at_ p 8 + at_ p 9 + at_ p 10 + at_ p 11) % 728 + 12
def serverOffset (p : Bytes) : Nat := (at_ p 772 + at_ p 773 + at_ p 774 + at_ p 775) % 728 + 776

def ownOffset : Role → Bytes → Nat
  | .server => serverOffset
  | .client => clientOffset

/-- the packet with the 32 bytes at `off` cut out (`calc_hmac_from_parts` input) -/
def withoutDigest (p : Bytes) (off : Nat) : Bytes := p.take off ++ p.drop (off + digestLen)
def digestAt (p : Bytes) (off : Nat) : Bytes := (p.drop off).take digestLen
def putAt (p : Bytes) (off : Nat) (d : Bytes) : Bytes := p.take off ++ d ++ p.drop (off + d.length)

/-- `generate_outbound_p0_and_p1`: packet 1 and its digest, from the 1524 fill bytes -/
def genP1 (hmac : Hmac) (role : Role) (fill : Bytes) : Bytes × Bytes :=
  let base : Bytes := [0, 0, 0, 0, 128, 0, 7, 2] ++ fill ++ [0, 0, 0, 0]
  let off := ownOffset role base
  let digest := hmac (withoutDigest base off) (ownKey role)
  (putAt base off digest, digest)

/-- `get_digest_for_received_packet` -/
def digestFor (hmac : Hmac) (packet key : Bytes) : Option Bytes :=
  let o1 := clientOffset packet
  let o2 := serverOffset packet
  if hmac (withoutDigest packet o1) key = digestAt packet o1 then some (digestAt packet o1)
  else if hmac (withoutDigest packet o2) key = digestAt packet o2 then some (digestAt packet o2)
  else none

/-- packet 2 in answer to a received packet 1, from the 1536 fill bytes -/
def genP2 (hmac : Hmac) (role : Role) (received fill : Bytes) : Bytes :=
  match digestFor hmac received (peerKey role) with
  | none => received                       -- original handshake: echo
  | some d =>
    let h1 := hmac d (ownKey role ++ crud)
    let h2 := hmac (fill.take sigStart) h1
    putAt fill sigStart h2

structure State where
  role : Role
  fill1 : Bytes          -- random bytes for packet 1 (1524)
  fill2 : Bytes          -- random bytes for packet 2 (1536)
  stage : Stage := .needToSend
  buf : Bytes := []      -- input_buffer
  sentP1 : Bytes := List.replicate 1536 0
deriving Repr

inductive Err where
  | badVersion             -- BadVersionId
  | alreadyCompleted       -- HandshakeAlreadyCompleted
deriving Repr, DecidableEq

/-- what one stage of the `process_bytes` loop does: new state, response bytes, left-over bytes -/
def stageStep (hmac : Hmac) (s : State) : Except Err (State × Bytes × Bytes) :=
  match s.stage with
  | .needToSend =>
    let (p1, _) := genP1 hmac s.role s.fill1
    .ok ({ s with stage := .waitP0, sentP1 := p1 }, 3 :: p1, [])
  | .waitP0 =>
    match s.buf with
    | [] => .ok (s, [], [])
    | c :: rest => if c ≠ 3 then .error .badVersion else .ok ({ s with stage := .waitP1, buf := rest }, [], [])
  | .waitP1 =>
    if s.buf.length < packetSize then .ok (s, [], [])
    else
      let received := s.buf.take packetSize
      .ok ({ s with stage := .waitP2, buf := s.buf.drop packetSize }, genP2 hmac s.role received s.fill2, [])
  | .waitP2 =>
    if s.buf.length < packetSize then .ok (s, [], [])
    else .ok ({ s with stage := .complete, buf := [] }, [], s.buf.drop packetSize)
  | .complete => .error .alreadyCompleted

/-- the loop of `process_bytes`: continue while the stage changes and is not `Complete` -/
def loop (hmac : Hmac) : Nat → State → Bytes → Bytes → Except Err (State × Bytes × Bytes)
  | 0, s, resp, left => .ok (s, resp, left)
  | f + 1, s, resp, left =>
    match stageStep hmac s with
    | .error e => .error e
    | .ok (s', r, l) =>
      if s'.stage = .complete ∨ s'.stage = s.stage then .ok (s', resp ++ r, left ++ l)
      else loop hmac f s' (resp ++ r) (left ++ l)

inductive Result where
  | inProgress (response : Bytes)
  | completed (response : Bytes) (remaining : Bytes)
deriving Repr, DecidableEq

/-- `Handshake::process_bytes` (five stages: the loop runs at most five times) -/
def processBytes (hmac : Hmac) (s : State) (data : Bytes) : Except Err (State × Result) :=
  match loop hmac 6 { s with buf := s.buf ++ data } [] [] with
  | .error e => .error e
  | .ok (s', resp, left) =>
    if s'.stage = .complete then .ok (s', .completed resp left) else .ok (s', .inProgress resp)

/-- `Handshake::generate_outbound_p0_and_p1` called directly (it does not look at the stage) -/
def generateP0P1 (hmac : Hmac) (s : State) : State × Bytes :=
  let (p1, _) := genP1 hmac s.role s.fill1
  ({ s with stage := .waitP0, sentP1 := p1 }, 3 :: p1)

end Rml.Hs
