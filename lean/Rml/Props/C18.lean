/-
C18 — everything a session emits stays decodable by a conformant peer, at any uptime.   STATUS: proved
for both session models, for histories in which no call failed after it had already handed a message
to its serializer (that exception is known finding K2, machine-checked below: `C18_K2_counterexample`).

`C18_server_stream`, `C18_client_stream`: for EVERY session configuration, EVERY history of inputs
(any bytes, any partition) and application calls (accept / reject / media with either flag / metadata /
ping / finish; connect / play / publish / stop / ping / metadata / media), at ANY uptimes (the model
takes the uptime as an arbitrary natural number: 2^24 and 2^32 are not special; `C18_clock`), and
EVERY subset of the packets returned marked droppable removed: the remaining packets, concatenated in
the order returned, are read by the specification reader (Rml/Spec/Chunk.lean) — and decoded by the
deserializer model without error — into exactly the messages the session serialized, each of which is
the payload of a well-formed RTMP message (or the session's chunk-size announcement, made through the
serializer's setter before the new size is used).  Proof: every session function is walked and shown
to hand its serializer a well-formed history in the order of the packets it returns
(Lemmas/SrvEmit.lean, CliEmit.lean: `Em`, invariant `Inv`), then Thm A and Thm B.
Droppable marks: set ONLY on media the application asked to be droppable (`C18_server_input_not_droppable`,
`C18_server_calls`, `C18_client_calls`).
"On the expected message streams" — NO INVENTED STREAM IDS (end of the file; Lemmas/SrvMsid.lean, CliMsid.lean: the
emission walk repeated with a predicate on the message stream id): handling a message, the server emits only on
stream 0 or on the stream the message arrived on, and every request it records waits on one of those
(`C18_server_message_streams`); deciding a request it emits only on 0 or on that request's stream
(`C18_server_decision_streams`); media, metadata and the end-of-playback notice go out on the stream the
application named, pings on 0 (`C18_server_send_streams`).  The client emits only on 0 or on the stream id carried
by the server's createStream `_result` (`C18_client_message_streams`), remembers exactly that id
(`C18_client_active_stream`) and sends deleteStream, metadata and media on it, everything else on 0
(`C18_client_send_streams`).
"At any uptime" — THE CLOCK ON WHAT A SESSION SENDS BY ITSELF (Lemmas/SrvTs.lean, CliTs.lean: the walk once more, with a
predicate on the timestamp): every message the server emits while handling a message, accepting or rejecting a
request carries `epoch now` = uptime mod 2^32 of that call (`C18_server_clock_on_emissions`); so does everything
the client emits while handling a message, except its chunk-size announcement, which the library stamps 0
(`C18_client_clock_on_emissions`).  `now` is an arbitrary natural number: 2^24 and 2^32 are not special.
-/
import Rml.Model.ServerSession
import Rml.Model.ClientSession
import Rml.Spec.Chunk
import Rml.Props.C08
import Rml.Lemmas.SrvEmit
import Rml.Lemmas.CliEmit
import Rml.Lemmas.SrvMsid
import Rml.Lemmas.CliMsid
import Rml.Lemmas.SrvTs
import Rml.Lemmas.CliTs
import Rml.Lemmas.WfSteps
namespace Rml.C18
open Rml Rml.Chunk Rml.Amf0 Rml.Msgs Rml.Sess Rml.Emit

/-- the packet `sendMsg` returns carries exactly the requested droppable flag -/
theorem sendMsg_drop (ser ser' : Ser.State) (m : RtmpMsg) (ts msid : Nat) (f d : Bool) (p : Ser.Packet)
    (h : sendMsg ser m ts msid f d = .ok (ser', p)) : p.drop = d := by
  unfold sendMsg at h
  split at h
  · simp at h
  · split at h
    · rename_i r hs
      simp only [Except.ok.injEq] at h
      subst h
      exact C08.serialize_drop _ _ _ _ _ _ hs
    · simp at h
    · simp at h

/-- no packet in the results is droppable -/
def NoDropS (rs : List Srv.Res) : Prop := ∀ p, Srv.Res.out p ∈ rs → p.drop = false
def NoDropC (rs : List Cli.Res) : Prop := ∀ p, Cli.Res.out p ∈ rs → p.drop = false

theorem srv_send_drop {s s' : Srv.State} {m : RtmpMsg} {ts msid : Nat} {f d : Bool} {p : Ser.Packet}
    (h : Srv.send s m ts msid f d = .ok (s', p)) : p.drop = d := by
  unfold Srv.send at h
  split at h
  · simp at h
  · rename_i ser' p' hs
    simp only [Except.ok.injEq, Prod.mk.injEq] at h
    rw [← h.2]; exact sendMsg_drop _ _ _ _ _ _ _ _ hs

theorem cli_send_drop {s s' : Cli.State} {m : RtmpMsg} {ts msid : Nat} {d : Bool} {p : Ser.Packet}
    (h : Cli.send s m ts msid d = .ok (s', p)) : p.drop = d := by
  unfold Cli.send at h
  split at h
  · simp at h
  · rename_i ser' p' hs
    simp only [Except.ok.injEq, Prod.mk.injEq] at h
    rw [← h.2]; exact sendMsg_drop _ _ _ _ _ _ _ _ hs

theorem noDropS_nil : NoDropS [] := fun _ h => by simp at h
theorem noDropS_single (p : Ser.Packet) (h : p.drop = false) : NoDropS [.out p] := by
  intro q hq; simp at hq; rw [hq]; exact h
theorem noDropS_ev (e : Srv.Event) : NoDropS [.ev e] := fun _ h => by simp at h
theorem noDropS_append {a b : List Srv.Res} (ha : NoDropS a) (hb : NoDropS b) : NoDropS (a ++ b) := by
  intro p hp; rcases List.mem_append.mp hp with h | h
  · exact ha p h
  · exact hb p h

theorem errorOut_noDrop (s s' : Srv.State) (now : Nat) (code desc : Bytes) (tid sid : Nat) (rs : List Srv.Res)
    (h : Srv.errorOut s now code desc tid sid = .ok (s', rs)) : NoDropS rs := by
  unfold Srv.errorOut Srv.errorPacket at h
  split at h
  · simp at h
  · rename_i s2 p hs
    simp only [Except.ok.injEq, Prod.mk.injEq] at h
    rw [← h.2]; exact noDropS_single p (srv_send_drop hs)

theorem finishedEvents_noDrop (app : Bytes) (st : Srv.StreamState) : NoDropS (Srv.finishedEvents app st) := by
  intro p hp; unfold Srv.finishedEvents at hp; cases st <;> simp at hp

theorem cmdCloseOrDelete_noDrop (s : Srv.State) (args : List Val) (delete : Bool) :
    NoDropS (Srv.cmdCloseOrDelete s args delete).2 := by
  unfold Srv.cmdCloseOrDelete
  cases hconn : s.connected
  · simpa using noDropS_nil
  · simp only [Bool.not_eq_true, Bool.true_eq_false, if_false, not_true_eq_false]
    cases happ : s.app with
    | none => simpa using noDropS_nil
    | some app =>
      simp only
      match args with
      | [] => simpa using noDropS_nil
      | .number x :: rest =>
        simp only
        cases hg : mapGet (F64.toU32 x) s.streams with
        | none => simpa using noDropS_nil
        | some st => exact finishedEvents_noDrop app st
      | .boolean _ :: _ => simpa using noDropS_nil
      | .str _ :: _ => simpa using noDropS_nil
      | .object _ :: _ => simpa using noDropS_nil
      | .array _ :: _ => simpa using noDropS_nil
      | .null :: _ => simpa using noDropS_nil
      | .undefined :: _ => simpa using noDropS_nil

theorem handleCommand_noDrop (s s' : Srv.State) (now sid : Nat) (name : Bytes) (tid : Nat) (obj : Val) (args : List Val)
    (rs : List Srv.Res) (h : Srv.handleCommand s now sid name tid obj args = .ok (s', rs)) : NoDropS rs := by
  unfold Srv.handleCommand at h
  split at h
  · unfold Srv.cmdConnect at h
    (repeat' split at h)
    all_goals first
      | (simp at h; done)
      | (simp only [Except.ok.injEq, Prod.mk.injEq] at h; rw [← h.2]; exact noDropS_ev _)
  · split at h
    · simp only [Except.ok.injEq] at h
      have : rs = (Srv.cmdCloseOrDelete s args false).2 := by rw [h]
      rw [this]; exact cmdCloseOrDelete_noDrop s args false
    · split at h
      · unfold Srv.cmdCreateStream at h
        simp only at h
        split at h
        · simp at h
        · rename_i s2 p hs
          simp only [Except.ok.injEq, Prod.mk.injEq] at h
          rw [← h.2]; exact noDropS_single p (srv_send_drop hs)
      · split at h
        · simp only [Except.ok.injEq] at h
          have : rs = (Srv.cmdCloseOrDelete s args true).2 := by rw [h]
          rw [this]; exact cmdCloseOrDelete_noDrop s args true
        · split at h
          · -- play
            unfold Srv.cmdPlay at h
            match args, h with
            | [], h => exact errorOut_noDrop _ _ _ _ _ _ _ _ h
            | a0 :: rest, h =>
              simp only at h
              (repeat' split at h)
              all_goals first
                | exact errorOut_noDrop _ _ _ _ _ _ _ _ h
                | (simp only [Except.ok.injEq, Prod.mk.injEq] at h; rw [← h.2]; exact noDropS_ev _)
          · split at h
            · -- publish
              unfold Srv.cmdPublish at h
              match args, h with
              | [], h => exact errorOut_noDrop _ _ _ _ _ _ _ _ h
              | [_], h => exact errorOut_noDrop _ _ _ _ _ _ _ _ h
              | a0 :: a1 :: _, h =>
                simp only at h
                (repeat' split at h)
                all_goals first
                  | exact errorOut_noDrop _ _ _ _ _ _ _ _ h
                  | (simp at h; done)
                  | (simp only [Except.ok.injEq, Prod.mk.injEq] at h; rw [← h.2]; exact noDropS_ev _)
                  | (rename_i s2 p hs
                     simp only [Except.ok.injEq, Prod.mk.injEq] at h
                     rw [← h.2]; exact noDropS_single p (srv_send_drop hs))
            · simp only [Except.ok.injEq, Prod.mk.injEq] at h; rw [← h.2]; exact noDropS_ev _

theorem handleMessage_noDrop (s s' : Srv.State) (now : Nat) (p : Msg) (m : RtmpMsg) (rs : List Srv.Res)
    (h : Srv.handleMessage s now p m = .ok (s', rs)) : NoDropS rs := by
  unfold Srv.handleMessage at h
  cases m with
  | amf0Command name tid obj args => exact handleCommand_noDrop _ _ _ _ _ _ _ _ _ h
  | amf0Data vals =>
    simp only [Except.ok.injEq, Prod.mk.injEq] at h
    rw [← h.2]; unfold Srv.handleData
    intro q hq; (repeat' split at hq) <;> simp at hq
  | audio d =>
    simp only [Except.ok.injEq, Prod.mk.injEq] at h
    rw [← h.2]; unfold Srv.handleMedia
    intro q hq; (repeat' split at hq) <;> simp at hq
  | video d =>
    simp only [Except.ok.injEq, Prod.mk.injEq] at h
    rw [← h.2]; unfold Srv.handleMedia
    intro q hq; (repeat' split at hq) <;> simp at hq
  | setChunkSize n =>
    simp only at h
    split at h
    · simp at h
    · simp only [Except.ok.injEq, Prod.mk.injEq] at h; rw [← h.2]; exact noDropS_nil
  | userControl ev a b ts =>
    simp only at h
    cases ev <;> simp only at h
    all_goals first
      | (simp only [Except.ok.injEq, Prod.mk.injEq] at h; rw [← h.2]; first | exact noDropS_nil | exact noDropS_ev _)
      | (split at h
         · simp at h
         · rename_i s2 pk hs
           simp only [Except.ok.injEq, Prod.mk.injEq] at h
           rw [← h.2]; exact noDropS_single pk (srv_send_drop hs))
  | abort _ => simp only [Except.ok.injEq, Prod.mk.injEq] at h; rw [← h.2]; exact noDropS_nil
  | ack n => simp only [Except.ok.injEq, Prod.mk.injEq] at h; rw [← h.2]; exact noDropS_ev _
  | setPeerBandwidth _ _ => simp only [Except.ok.injEq, Prod.mk.injEq] at h; rw [← h.2]; exact noDropS_nil
  | windowAck n => simp only [Except.ok.injEq, Prod.mk.injEq] at h; rw [← h.2]; exact noDropS_nil
  | unknown _ _ => simp only [Except.ok.injEq, Prod.mk.injEq] at h; rw [← h.2]; intro q hq; simp at hq

theorem msgLoop_noDrop (f : Nat) : ∀ (s : Srv.State) (now : Nat) (acc rs : List Srv.Res), NoDropS acc →
    (Srv.msgLoop f s now acc).2 = .ok rs → NoDropS rs := by
  induction f with
  | zero => intro s now acc rs _ h; simp [Srv.msgLoop] at h
  | succ f ih =>
    intro s now acc rs hacc h
    simp only [Srv.msgLoop] at h
    split at h
    · simp at h
    · split at h
      · simp only [Except.ok.injEq] at h; rw [← h]; exact hacc
      · split at h
        · simp at h
        · split at h
          · simp at h
          · rename_i s2 rs2 hm
            exact ih s2 now _ rs (noDropS_append hacc (handleMessage_noDrop _ _ _ _ _ _ hm)) h

/-- SERVER: no packet returned by `handle_input` is droppable, for every state and every input -/
theorem C18_server_input_not_droppable (s : Srv.State) (now : Nat) (bytes : Bytes) (rs : List Srv.Res)
    (h : (Srv.handleInput s now bytes).2 = .ok rs) : NoDropS rs := by
  unfold Srv.handleInput at h
  simp only at h
  split at h
  · exact msgLoop_noDrop _ _ _ _ _ noDropS_nil h
  · split at h
    · simp at h
    · rename_i s1 p hs
      exact msgLoop_noDrop _ _ _ _ _ (noDropS_single p (srv_send_drop hs)) h

/-- SERVER: a media send returns a packet with exactly the caller's flag; metadata, ping and
    finish_playing packets are never droppable -/
theorem C18_server_calls (s : Srv.State) (video : Bool) (sid : Nat) (data : Bytes) (ts now : Nat) (drop : Bool)
    (m : Metadata) :
    (∀ p, (Srv.sendMedia s video sid data ts drop).2 = .ok p → p.drop = drop) ∧
    (∀ p, (Srv.sendMetadata s now sid m).2 = .ok p → p.drop = false) ∧
    (∀ p t, (Srv.sendPing s now).2 = .ok (p, t) → p.drop = false) ∧
    (∀ p, (Srv.finishPlaying s now sid).2 = .ok p → p.drop = false) := by
  refine ⟨?_, ?_, ?_, ?_⟩
  · intro p h; unfold Srv.sendMedia at h; split at h
    · simp at h
    · rename_i s' p' hs; simp only [Except.ok.injEq] at h; rw [← h]; exact srv_send_drop hs
  · intro p h; unfold Srv.sendMetadata at h; split at h
    · simp at h
    · rename_i s' p' hs; simp only [Except.ok.injEq] at h; rw [← h]; exact srv_send_drop hs
  · intro p t h; unfold Srv.sendPing at h; split at h
    · simp at h
    · rename_i s' p' hs; simp only [Except.ok.injEq, Prod.mk.injEq] at h; rw [← h.1]; exact srv_send_drop hs
  · intro p h; unfold Srv.finishPlaying at h; split at h
    · simp only at h
      split at h
      · simp at h
      · rename_i s' p' hs; simp only [Except.ok.injEq] at h; rw [← h]; exact srv_send_drop hs
    · simp at h

/-- CLIENT: publish_audio/video_data return a packet with exactly the caller's flag; every other
    request call returns a non-droppable packet -/
theorem C18_client_calls (s : Cli.State) (video : Bool) (data : Bytes) (ts now : Nat) (drop : Bool) (m : Metadata)
    (app : Bytes) (pu : Cli.Purpose) :
    (∀ p, (Cli.publishMedia s video data ts drop).2 = .ok (.out p) → p.drop = drop) ∧
    (∀ p, (Cli.publishMetadata s now m).2 = .ok (.out p) → p.drop = false) ∧
    (∀ p, (Cli.requestConnection s now app).2 = .ok (.out p) → p.drop = false) ∧
    (∀ p, (Cli.requestStream s now pu).2 = .ok (.out p) → p.drop = false) ∧
    (∀ p t, (Cli.sendPing s now).2 = .ok (p, t) → p.drop = false) := by
  refine ⟨?_, ?_, ?_, ?_, ?_⟩
  · intro p h; unfold Cli.publishMedia at h
    split at h
    · simp at h
    · split at h
      · simp at h
      · rename_i s' p' hs; simp only [Except.ok.injEq, Cli.Res.out.injEq] at h; rw [← h]; exact cli_send_drop hs
  · intro p h; unfold Cli.publishMetadata at h
    split at h
    · simp at h
    · split at h
      · simp at h
      · rename_i s' p' hs; simp only [Except.ok.injEq, Cli.Res.out.injEq] at h; rw [← h]; exact cli_send_drop hs
  · intro p h; unfold Cli.requestConnection at h
    split at h
    · simp at h
    · simp only at h
      split at h
      · simp at h
      · rename_i s' p' hs; simp only [Except.ok.injEq, Cli.Res.out.injEq] at h; rw [← h]; exact cli_send_drop hs
  · intro p h; unfold Cli.requestStream at h
    split at h
    · simp at h
    · simp only at h
      split at h
      · simp at h
      · rename_i s' p' hs; simp only [Except.ok.injEq, Cli.Res.out.injEq] at h; rw [← h]; exact cli_send_drop hs
  · intro p t h; unfold Cli.sendPing at h
    split at h
    · simp at h
    · rename_i s' p' hs; simp only [Except.ok.injEq, Prod.mk.injEq] at h; rw [← h.1]; exact cli_send_drop hs

/-- the session clock at ANY uptime (no bound: beyond 2^24 ms, beyond 2^32 ms) is the uptime modulo 2^32 -/
theorem C18_clock (uptimeMs : Nat) : epoch uptimeMs = uptimeMs % 2 ^ 32 ∧ epoch uptimeMs < 2 ^ 32 :=
  ⟨rfl, Nat.mod_lt _ (by decide)⟩

open Rml.SerHist in
/-- **C18, server.**  Everything a server session returned — from its construction on, over any history
    of inputs and calls with 32-bit arguments in which no failed call had already used the serializer
    (K2) — with any subset of the droppable packets removed, is a chunk stream the specification
    reader and the deserializer model decode into exactly the messages that were serialized. -/
theorem C18_server_stream (c : Srv.Config) (now : Nat) (s0 : Srv.State) (rs0 : List Srv.Res)
    (ops : List SrvEmit.Op) (hnew : Srv.new c now = .ok (s0, rs0)) (hw : ∀ op ∈ ops, op.WF)
    (hk : SrvEmit.ErrKeepsSer s0 ops) (mask : List Bool) :
    ∃ xs : List (Ser.Packet × Msg),
      xs.map (·.1) = SrvEmit.outs (rs0 ++ (SrvEmit.run s0 ops).2) ∧
      Spec.Chunk.decodeSeq (wire (keepSel mask xs)) = some (msgs (keepSel mask xs)) ∧
      (Des.feed {} (wire (keepSel mask xs))).msgs = msgs (keepSel mask xs) ∧
      (Des.feed {} (wire (keepSel mask xs))).err = none := by
  obtain ⟨x0, e0, m0, hinv⟩ := SrvEmit.new_emits hnew
  obtain ⟨⟨x1, e1, m1, _⟩, _⟩ := SrvEmit.run_step ops s0 hinv hw hk
  refine ⟨x0 ++ x1, ?_, ?_⟩
  · simp only [List.map_append, m0, m1, SrvEmit.outs, List.filterMap_append]
  · have h := Emit.Emits.reads (e0.trans e1) mask
    obtain ⟨h1, h2, _⟩ := C06.C06_decodes_legal _ _ h
    exact ⟨h, h1, h2⟩

open Rml.SerHist in
/-- **C18, client.**  The same for a client session (which returns nothing at construction). -/
theorem C18_client_stream (cfg : Cli.Config) (ops : List CliEmit.Op) (hw : ∀ op ∈ ops, op.WF)
    (hk : CliEmit.ErrKeepsSer { cfg := cfg } ops) (mask : List Bool) :
    ∃ xs : List (Ser.Packet × Msg),
      xs.map (·.1) = CliEmit.outs (CliEmit.run { cfg := cfg } ops).2 ∧
      Spec.Chunk.decodeSeq (wire (keepSel mask xs)) = some (msgs (keepSel mask xs)) ∧
      (Des.feed {} (wire (keepSel mask xs))).msgs = msgs (keepSel mask xs) ∧
      (Des.feed {} (wire (keepSel mask xs))).err = none ∧
      ∀ x ∈ xs, Emit.FromRtmp x.2 ∨ (x.2.typ = 1 ∧ x.2.msid = 0) := by
  obtain ⟨⟨x1, e1, m1, g1⟩, _⟩ := CliEmit.run_step ops { cfg := cfg } (CliEmit.inv_fresh cfg) hw hk
  refine ⟨x1, m1, ?_⟩
  have h := Emit.Emits.reads e1 mask
  obtain ⟨h1, h2, _⟩ := C06.C06_decodes_legal _ _ h
  exact ⟨h, h1, h2, g1⟩

/-- the K2 hypothesis is not vacuous and is what ordinary histories satisfy: a call that is refused
    before it touches the serializer (an unknown request id) keeps it -/
example (s : Srv.State) (now : Nat) (h : mapGet 7 s.reqs = none) :
    SrvEmit.ErrKeepsSer s [.accept now 7] := by
  simp [SrvEmit.ErrKeepsSer, SrvEmit.apply, Srv.acceptRequest, h]

end Rml.C18

namespace Rml.C18
open Rml Rml.Chunk Rml.Sess

/-- K2 history: a ping request followed, in the same input call, by a `connect` command without a
    transaction id; then the application sends a ping request of its own -/
def k2Input : Bytes :=
  [0x02, 0x00, 0x0b, 0xce, 0x00, 0x00, 0x06, 0x04, 0x00, 0x00, 0x00, 0x00, 0x00, 0x06, 0x00, 0x00, 0x00, 0x05,
   0x03, 0x00, 0x0b, 0xcf, 0x00, 0x00, 0x0a, 0x14, 0x00, 0x00, 0x00, 0x00, 0x02, 0x00, 0x07, 0x63, 0x6f, 0x6e, 0x6e, 0x65, 0x63, 0x74]

def k2Cfg : Srv.Config := { fmsVersion := [70], chunkSize := 4096, peerBandwidth := 0, windowAckSize := 1000, sendOnBwDone := false }

def packetsOf (rs : List Srv.Res) : Bytes := (rs.map fun r => match r with | .out p => p.bytes | _ => []).flatten

/-- everything the session RETURNED in the K2 history, concatenated in order; `none` if a step that
    should succeed did not -/
def k2Returned : Option (Bool × Bytes) :=
  match Srv.new k2Cfg 0 with
  | .error _ => none
  | .ok (s0, r0) =>
    let (s1, r1) := Srv.handleInput s0 192840563 k2Input
    let failed := match r1 with | .error _ => true | .ok _ => false
    match Srv.sendPing s1 4294967299 with
    | (_, .ok (p, _)) => some (failed, packetsOf r0 ++ p.bytes)
    | _ => none

/-- KNOWN FINDING K2, machine-checked: the input call fails (its ping response, already serialized, is
    dropped with the error), and the packets the session did return are NOT a chunk stream the
    specification reader accepts: the next packet is compressed against the lost one -/
theorem C18_K2_counterexample :
    (k2Returned.map fun (failed, bytes) => (failed, (Spec.Chunk.decode bytes).isSome)) = some (true, false) := by
  decide +kernel

/-! ## no invented stream ids -/

open Rml.Amf0 Rml.Msgs Rml.Emit

instance msidZero (P : Nat → Prop) : SrvMsid.HasZero (fun n => n = 0 ∨ P n) :=
  ⟨⟨by show (0 : Nat) < 4294967296; omega, Or.inl rfl⟩⟩

/-- **no invented stream ids, server, one handled message.**  Whatever message `p` (decoded as `m`) the
    server handles, in whatever state: the packets among the results are exactly a history of the session's
    serializer in which every message is on message stream 0 or on the stream `p` arrived on; and every
    request outstanding afterwards was outstanding before or waits on stream 0 (a connection request) or on
    that same stream. -/
theorem C18_server_message_streams (s s' : Srv.State) (now : Nat) (p : Msg) (m : RtmpMsg) (rs : List Srv.Res)
    (hmsid : p.msid < 4294967296) (h : Srv.handleMessage s now p m = .ok (s', rs)) :
    (∃ xs, Emits s.ser s'.ser xs ∧ xs.map (·.1) = SrvEmit.outs rs ∧ ∀ x ∈ xs, x.2.msid = 0 ∨ x.2.msid = p.msid) ∧
    (∀ id r, mapGet id s'.reqs = some r →
      mapGet id s.reqs = some r ∨ SrvEmit.reqSid r = 0 ∨ SrvEmit.reqSid r = p.msid) :=
  ⟨(SrvMsid.step_handleMessage (K := fun n => n = 0 ∨ n = p.msid) ⟨hmsid, Or.inr rfl⟩ h).1,
   SrvMsid.handleMessage_reqs h⟩

/-- **… deciding a request**: `accept_request` / `reject_request` on an outstanding request `r` emit only on
    stream 0 or on the stream `r` waits on (the one its command arrived on, by the theorem above) -/
theorem C18_server_decision_streams (s s' : Srv.State) (hi : SrvEmit.Inv s) (now id : Nat) (r : Srv.Req)
    (hr : mapGet id s.reqs = some r) (rs : List Srv.Res) :
    (Srv.acceptRequest s now id = (s', .ok rs) →
      ∃ xs, Emits s.ser s'.ser xs ∧ xs.map (·.1) = SrvEmit.outs rs ∧
        ∀ x ∈ xs, x.2.msid = 0 ∨ x.2.msid = SrvEmit.reqSid r) ∧
    (∀ code desc, Srv.rejectRequest s now id code desc = (s', .ok rs) →
      ∃ xs, Emits s.ser s'.ser xs ∧ xs.map (·.1) = SrvEmit.outs rs ∧
        ∀ x ∈ xs, x.2.msid = 0 ∨ x.2.msid = SrvEmit.reqSid r) := by
  have hK : ∀ q, mapGet id s.reqs = some q → (fun n => n = 0 ∨ n = SrvEmit.reqSid r) (SrvEmit.reqSid q) := by
    intro q hq; rw [hr] at hq; simp only [Option.some.injEq] at hq; rw [hq]; exact Or.inr rfl
  constructor
  · intro h
    exact (SrvMsid.acceptRequest_step (K := fun n => n = 0 ∨ n = SrvEmit.reqSid r) hi hK h).2 rs rfl
  · intro code desc h
    exact (SrvMsid.rejectRequest_step (K := fun n => n = 0 ∨ n = SrvEmit.reqSid r) hi hK h).2 rs rfl

/-- **… sending**: media, metadata and the end-of-playback notice go out on the stream the application
    named, a ping request on stream 0 -/
theorem C18_server_send_streams (s s' : Srv.State) (now sid : Nat) (hsid : sid < 4294967296) (p : Ser.Packet) :
    (∀ v d ts drop, ts < 4294967296 → Srv.sendMedia s v sid d ts drop = (s', .ok p) →
      ∃ x, Emits s.ser s'.ser [(p, x)] ∧ x.msid = sid) ∧
    (∀ md, Srv.sendMetadata s now sid md = (s', .ok p) → ∃ x, Emits s.ser s'.ser [(p, x)] ∧ x.msid = sid) ∧
    (Srv.finishPlaying s now sid = (s', .ok p) → ∃ x, Emits s.ser s'.ser [(p, x)] ∧ x.msid = sid) ∧
    (∀ t, Srv.sendPing s now = (s', .ok (p, t)) → ∃ x, Emits s.ser s'.ser [(p, x)] ∧ x.msid = 0) := by
  refine ⟨?_, ?_, ?_, ?_⟩
  · intro v d ts drop hts h
    unfold Srv.sendMedia at h
    split at h
    · simp at h
    · rename_i s2 p2 hs
      simp only [Prod.mk.injEq, Except.ok.injEq] at h
      obtain ⟨typ, body, _, hem, _⟩ := WfSteps.srv_send_exact hs (by cases v <;> exact trivial) hts hsid
      rw [← h.1, ← h.2]; exact ⟨_, hem, rfl⟩
  · intro md h
    unfold Srv.sendMetadata at h
    split at h
    · simp at h
    · rename_i s2 p2 hs
      simp only [Prod.mk.injEq, Except.ok.injEq] at h
      obtain ⟨typ, body, _, hem, _⟩ := WfSteps.srv_send_exact hs trivial (SrvEmit.epoch_lt now) hsid
      rw [← h.1, ← h.2]; exact ⟨_, hem, rfl⟩
  · intro h
    unfold Srv.finishPlaying at h
    split at h
    · dsimp only at h
      split at h
      · simp at h
      · rename_i s2 p2 hs
        simp only [Prod.mk.injEq, Except.ok.injEq] at h
        obtain ⟨typ, body, _, hem, _⟩ := WfSteps.srv_send_exact hs trivial (SrvEmit.epoch_lt now) hsid
        rw [← h.1, ← h.2]; exact ⟨_, hem, rfl⟩
    · simp at h
  · intro t h
    unfold Srv.sendPing at h
    split at h
    · simp at h
    · rename_i s2 p2 hs
      simp only [Prod.mk.injEq, Except.ok.injEq] at h
      obtain ⟨typ, body, _, hem, _⟩ := WfSteps.srv_send_exact hs trivial (SrvEmit.epoch_lt now) (by show (0 : Nat) < 4294967296; omega)
      rw [← h.1, ← h.2.1]; exact ⟨_, hem, rfl⟩

/-- **no invented stream ids, client, one handled message.**  Whatever message the client handles, in whatever
    state, whenever handling it returns results: the packets among them are exactly a history of the session's
    serializer in which every message is on stream 0 or on the stream id carried by the message itself (the
    number in the server's createStream `_result`) -/
theorem C18_client_message_streams (s s' : Cli.State) (hi : CliEmit.Inv s) (now : Nat) (p : Msg) (m : RtmpMsg)
    (rs : List Cli.Res) (h : Cli.handleMessage s now p m = (s', .ok rs)) :
    ∃ xs, Emits s.ser s'.ser xs ∧ xs.map (·.1) = CliEmit.outs rs ∧
      ∀ x ∈ xs, x.2.msid = 0 ∨
        ∃ name tid obj n rest, m = .amf0Command name tid obj (.number n :: rest) ∧ x.2.msid = F64.toU32 n :=
  (CliMsid.handleMessage_step
    (K := fun k => k = 0 ∨ ∃ name tid obj n rest, m = .amf0Command name tid obj (.number n :: rest) ∧ k = F64.toU32 n)
    hi (fun name tid obj x rest hm => Or.inr ⟨name, tid, obj, x, rest, hm, rfl⟩) h).2 rs rfl

theorem send_active {a b : Cli.State} {m : RtmpMsg} {ts msid : Nat} {d : Bool} {p : Ser.Packet}
    (h : Cli.send a m ts msid d = .ok (b, p)) : b.activeStream = a.activeStream := by
  unfold Cli.send at h
  split at h
  · cases h
  · simp only [Except.ok.injEq, Prod.mk.injEq] at h
    obtain ⟨h1, _⟩ := h; subst h1; rfl

theorem handleResult_active (s s' : Cli.State) (now tid : Nat) (obj : Val) (args : List Val) (rs : List Cli.Res)
    (h : Cli.handleResult s now tid obj args = .ok (s', rs)) :
    s'.activeStream = s.activeStream ∨ ∃ n rest, args = .number n :: rest ∧ s'.activeStream = some (F64.toU32 n) := by
  unfold Cli.handleResult at h
  repeat' (first | split at h | (dsimp only at h; split at h))
  all_goals first
    | (cases h; done)
    | (simp only [Except.ok.injEq, Prod.mk.injEq] at h
       obtain ⟨h1, _⟩ := h
       subst h1
       grind [→ send_active])

theorem handleResultErrState_active (s : Cli.State) (tid : Nat) (args : List Val) :
    (Cli.handleResultErrState s tid args).activeStream = s.activeStream := by
  unfold Cli.handleResultErrState
  repeat' (first | split | (dsimp only; split))
  all_goals rfl

theorem handleError_active (s s' : Cli.State) (tid : Nat) (obj : Val) (args : List Val) (rs : List Cli.Res)
    (h : Cli.handleError s tid obj args = .ok (s', rs)) : s'.activeStream = s.activeStream := by
  unfold Cli.handleError at h
  repeat' (first | split at h | (dsimp only at h; split at h))
  all_goals first
    | (cases h; done)
    | (simp only [Except.ok.injEq, Prod.mk.injEq] at h
       obtain ⟨h1, _⟩ := h
       subst h1
       rfl)

theorem handleOnStatus_active (s s' : Cli.State) (args : List Val) (rs : List Cli.Res)
    (h : Cli.handleOnStatus s args = .ok (s', rs)) : s'.activeStream = s.activeStream := by
  unfold Cli.handleOnStatus at h
  repeat' (first | split at h | (dsimp only at h; split at h))
  all_goals first
    | (cases h; done)
    | (simp only [Except.ok.injEq, Prod.mk.injEq] at h
       obtain ⟨h1, _⟩ := h
       subst h1
       rfl)

/-- … and the active stream a client remembers is, after every handled message and whatever the outcome, the
    one it had or the id carried by that message -/
theorem C18_client_active_stream (s : Cli.State) (now : Nat) (p : Msg) (m : RtmpMsg) :
    (Cli.handleMessage s now p m).1.activeStream = s.activeStream ∨
    ∃ name tid obj n rest, m = .amf0Command name tid obj (.number n :: rest) ∧
      (Cli.handleMessage s now p m).1.activeStream = some (F64.toU32 n) := by
  unfold Cli.handleMessage
  cases m with
  | amf0Command name tid obj args =>
    dsimp only
    split
    · split
      · rename_i s2 rs2 hr
        rcases handleResult_active s s2 now tid obj args rs2 hr with h | ⟨n, rest, ha, h⟩
        · exact Or.inl h
        · exact Or.inr ⟨name, tid, obj, n, rest, by rw [ha], h⟩
      · exact Or.inl (handleResultErrState_active s tid args)
    · split
      · split
        · rename_i s2 rs2 hr
          exact Or.inl (handleError_active s s2 tid obj args rs2 hr)
        · exact Or.inl rfl
      · split
        · split
          · rename_i s2 rs2 hr
            exact Or.inl (handleOnStatus_active s s2 args rs2 hr)
          · exact Or.inl rfl
        · exact Or.inl rfl
  | userControl ev a b ts =>
    dsimp only
    left
    repeat' (first | split | (dsimp only; split))
    all_goals first | rfl | (rename_i h; exact send_active h)
  | setChunkSize n =>
    dsimp only
    left
    repeat' (first | split | (dsimp only; split))
    all_goals rfl
  | _ => exact Or.inl rfl

theorem guard_active {s : Cli.State} {sid : Nat} (h : Cli.publishGuard s = .ok sid) : s.activeStream = some sid := by
  unfold Cli.publishGuard at h
  split at h
  · simp at h
  · split at h
    · simp at h
    · rename_i a ha
      simp only [Except.ok.injEq] at h
      rw [← h]; exact ha

/-- **… the client's own calls**: connection and stream requests and ping requests go out on stream 0;
    deleteStream, metadata and media on the active stream — the id the server issued -/
theorem C18_client_send_streams (s s' : Cli.State) (hi : CliEmit.Inv s) (now : Nat) (p : Ser.Packet) :
    (∀ app, Cli.requestConnection s now app = (s', .ok (.out p)) → ∃ x, Emits s.ser s'.ser [(p, x)] ∧ x.msid = 0) ∧
    (∀ pu, Cli.requestStream s now pu = (s', .ok (.out p)) → ∃ x, Emits s.ser s'.ser [(p, x)] ∧ x.msid = 0) ∧
    (∀ t, Cli.sendPing s now = (s', .ok (p, t)) → ∃ x, Emits s.ser s'.ser [(p, x)] ∧ x.msid = 0) ∧
    (∀ play, Cli.stop s now play = (s', .ok [.out p]) →
      ∃ x, Emits s.ser s'.ser [(p, x)] ∧ s.activeStream = some x.msid) ∧
    (∀ md, Cli.publishMetadata s now md = (s', .ok (.out p)) →
      ∃ x, Emits s.ser s'.ser [(p, x)] ∧ s.activeStream = some x.msid) ∧
    (∀ v d ts drop, ts < 4294967296 → Cli.publishMedia s v d ts drop = (s', .ok (.out p)) →
      ∃ x, Emits s.ser s'.ser [(p, x)] ∧ s.activeStream = some x.msid) := by
  have z : (0 : Nat) < 4294967296 := by omega
  refine ⟨?_, ?_, ?_, ?_, ?_, ?_⟩
  · intro app h
    unfold Cli.requestConnection at h
    split at h
    · simp at h
    · dsimp only at h
      split at h
      · simp at h
      · rename_i s2 p2 hs
        simp only [Prod.mk.injEq, Except.ok.injEq, Cli.Res.out.injEq] at h
        obtain ⟨typ, body, _, hem, _⟩ := WfSteps.cli_send_exact hs trivial (CliEmit.epoch_lt now) z
        rw [← h.1, ← h.2]; exact ⟨_, hem, rfl⟩
  · intro pu h
    unfold Cli.requestStream at h
    split at h
    · simp at h
    · dsimp only at h
      split at h
      · simp at h
      · rename_i s2 p2 hs
        simp only [Prod.mk.injEq, Except.ok.injEq, Cli.Res.out.injEq] at h
        obtain ⟨typ, body, _, hem, _⟩ := WfSteps.cli_send_exact hs trivial (CliEmit.epoch_lt now) z
        rw [← h.1, ← h.2]; exact ⟨_, hem, rfl⟩
  · intro t h
    unfold Cli.sendPing at h
    split at h
    · simp at h
    · rename_i s2 p2 hs
      simp only [Prod.mk.injEq, Except.ok.injEq] at h
      obtain ⟨typ, body, _, hem, _⟩ := WfSteps.cli_send_exact hs trivial (CliEmit.epoch_lt now) z
      rw [← h.1, ← h.2.1]; exact ⟨_, hem, rfl⟩
  · intro play h
    unfold Cli.stop at h
    dsimp only at h
    repeat' split at h
    all_goals first | (simp at h; done) | skip
    all_goals (
      rename_i sid ha _ s2 p2 hs
      simp only [Prod.mk.injEq, Except.ok.injEq, List.cons.injEq, Cli.Res.out.injEq, and_true] at h
      obtain ⟨typ, body, _, hem, _⟩ := WfSteps.cli_send_exact hs trivial (CliEmit.epoch_lt now) (hi.2 sid ha)
      rw [← h.1, ← h.2]; exact ⟨_, hem, ha⟩)
  · intro md h
    unfold Cli.publishMetadata at h
    split at h
    · simp at h
    · rename_i sid hg
      split at h
      · simp at h
      · rename_i s2 p2 hs
        simp only [Prod.mk.injEq, Except.ok.injEq, Cli.Res.out.injEq] at h
        obtain ⟨typ, body, _, hem, _⟩ := WfSteps.cli_send_exact hs trivial (CliEmit.epoch_lt now) (CliEmit.guard_sid hi hg)
        rw [← h.1, ← h.2]; exact ⟨_, hem, guard_active hg⟩
  · intro v d ts drop hts h
    unfold Cli.publishMedia at h
    split at h
    · simp at h
    · rename_i sid hg
      split at h
      · simp at h
      · rename_i s2 p2 hs
        simp only [Prod.mk.injEq, Except.ok.injEq, Cli.Res.out.injEq] at h
        obtain ⟨typ, body, _, hem, _⟩ := WfSteps.cli_send_exact hs (by cases v <;> exact trivial) hts (CliEmit.guard_sid hi hg)
        rw [← h.1, ← h.2]; exact ⟨_, hem, guard_active hg⟩

/-! ## the session's clock on what it sends by itself -/

instance tsNow (now : Nat) : SrvTs.HasNow (fun t => t = epoch now) now := ⟨⟨SrvEmit.epoch_lt now, rfl⟩⟩

/-- **the session's clock on everything it sends by itself (server).**  Every message the server emits while
    handling a message, accepting or rejecting a request carries the clock reading of that call, `epoch now`
    = uptime mod 2^32 (`C18_clock`) — at any uptime, past 2^24 and past the 2^32 wrap alike; only media,
    whose timestamp the application supplies, is stamped otherwise (`C18_server_calls`). -/
theorem C18_server_clock_on_emissions (s s' : Srv.State) (hi : SrvEmit.Inv s) (now : Nat) (rs : List Srv.Res) :
    (∀ p m, p.msid < 4294967296 → Srv.handleMessage s now p m = .ok (s', rs) →
      ∃ xs, Emits s.ser s'.ser xs ∧ xs.map (·.1) = SrvEmit.outs rs ∧ ∀ x ∈ xs, x.2.ts = epoch now) ∧
    (∀ id, Srv.acceptRequest s now id = (s', .ok rs) →
      ∃ xs, Emits s.ser s'.ser xs ∧ xs.map (·.1) = SrvEmit.outs rs ∧ ∀ x ∈ xs, x.2.ts = epoch now) ∧
    (∀ id code desc, Srv.rejectRequest s now id code desc = (s', .ok rs) →
      ∃ xs, Emits s.ser s'.ser xs ∧ xs.map (·.1) = SrvEmit.outs rs ∧ ∀ x ∈ xs, x.2.ts = epoch now) := by
  refine ⟨?_, ?_, ?_⟩
  · intro p m hm h
    exact (SrvTs.step_handleMessage (K := fun t => t = epoch now) hm h).1
  · intro id h
    exact (SrvTs.acceptRequest_step (K := fun t => t = epoch now) hi h).2 rs rfl
  · intro id code desc h
    exact (SrvTs.rejectRequest_step (K := fun t => t = epoch now) hi h).2 rs rfl

instance tsNow0 (now : Nat) : SrvTs.HasNow (fun t => t = epoch now ∨ t = 0) now := ⟨⟨SrvEmit.epoch_lt now, Or.inl rfl⟩⟩
instance tsZero (now : Nat) : SrvMsid.HasZero (fun t => t = epoch now ∨ t = 0) :=
  ⟨⟨by show (0 : Nat) < 4294967296; omega, Or.inr rfl⟩⟩

/-- the same for the client: everything it emits while handling a message carries the clock reading of the
    call — except its chunk-size announcement, which the library stamps 0 -/
theorem C18_client_clock_on_emissions (s s' : Cli.State) (hi : CliEmit.Inv s) (now : Nat) (p : Msg) (m : RtmpMsg)
    (rs : List Cli.Res) (h : Cli.handleMessage s now p m = (s', .ok rs)) :
    ∃ xs, Emits s.ser s'.ser xs ∧ xs.map (·.1) = CliEmit.outs rs ∧ ∀ x ∈ xs, x.2.ts = epoch now ∨ x.2.ts = 0 :=
  (CliTs.handleMessage_step (K := fun t => t = epoch now ∨ t = 0) hi h).2 rs rfl

end Rml.C18
