/-
C15 — results do not depend on how the input byte stream is split across calls.
This file: the chunk deserializer part (Thm P), and at the end the session part: what both sessions
do with their input after the acknowledgement accounting (`drain`) is the same for `xs ++ ys` in one
call as for `xs`, then `ys` — same messages handled in the same order from the same states, same error
at the same message, same final state (`C15_server_session`, `C15_client_session`; proofs in
Lemmas/SrvPart.lean, CliPart.lean via `get_next_message` monotonicity and buffer-parametricity of
`handleMessage`).  What is NOT partition independent, by design or by defect: the acknowledgement packets
(a function of the call sizes, C17) and — known finding K2b — the results of an earlier piece when a
later piece fails (the two-call caller already holds them, the one-call caller gets only the error).  Model: Rml/Model/Deserializer.lean; `feed` is one
input call as a consumer makes it (get_next_message(bytes), then get_next_message(&[]) until None,
honouring every decoded chunk-size change, which is what both sessions do).
-/
import Rml.Lemmas.DesRun
import Rml.Lemmas.SrvPart
import Rml.Lemmas.CliPart
namespace Rml.C15
open Rml Rml.Chunk Rml.Des

/-- outcome of a sequence of input calls: everything delivered, the error (if any) that ended it,
    and the state the deserializer is left in -/
structure Out where
  msgs : List Msg
  err : Option Err
  st : State

/-- feed the calls one after another; a consumer stops at the first error -/
def feedAll (s : State) : List Bytes → Out
  | [] => ⟨[], none, s⟩
  | call :: rest =>
    let r := feed s call
    match r.err with
    | some e => ⟨r.msgs, some e, ⟨r.core, r.buf⟩⟩
    | none =>
      let o := feedAll ⟨r.core, r.buf⟩ rest
      ⟨r.msgs ++ o.msgs, o.err, o.st⟩

/-- Thm P for two pieces: feeding `xs` and then `ys` delivers exactly what feeding `xs ++ ys` in one
    call delivers — the same messages, the same error (if any) after the same messages, and, when
    there is no error, the same final state.  For EVERY state, EVERY byte strings. -/
theorem C15_des_two (s : State) (xs ys : Bytes) :
    (feedAll s [xs, ys]).msgs = (feed s (xs ++ ys)).msgs ∧
    (feedAll s [xs, ys]).err = (feed s (xs ++ ys)).err ∧
    ((feed s (xs ++ ys)).err = none →
      (feedAll s [xs, ys]).st = ⟨(feed s (xs ++ ys)).core, (feed s (xs ++ ys)).buf⟩) := by
  have key := run_append _ s.core (s.buf ++ xs) ys [] (Nat.lt_succ_self _)
  simp only [feedAll, feed_eq_run]
  rw [← List.append_assoc, key]
  cases he : (run s.core (s.buf ++ xs) []).err with
  | some e => simp
  | none =>
    simp only
    rw [run_acc _ _ _ (run s.core (s.buf ++ xs) []).msgs (Nat.lt_succ_self _)]
    cases (run (run s.core (s.buf ++ xs) []).core ((run s.core (s.buf ++ xs) []).buf ++ ys) []).err <;> simp

theorem feedAll_single (s : State) (call : Bytes) :
    (feedAll s [call]).msgs = (feed s call).msgs ∧ (feedAll s [call]).err = (feed s call).err ∧
    (feedAll s [call]).st = ⟨(feed s call).core, (feed s call).buf⟩ := by
  simp only [feedAll]
  cases (feed s call).err <;> simp

theorem feedAll_cons_err (s : State) (call : Bytes) (rest : List Bytes) (e : Err)
    (h : (feed s call).err = some e) :
    feedAll s (call :: rest) = ⟨(feed s call).msgs, some e, ⟨(feed s call).core, (feed s call).buf⟩⟩ := by
  simp only [feedAll, h]

theorem feedAll_cons_ok (s : State) (call : Bytes) (rest : List Bytes)
    (h : (feed s call).err = none) :
    feedAll s (call :: rest) =
      ⟨(feed s call).msgs ++ (feedAll ⟨(feed s call).core, (feed s call).buf⟩ rest).msgs,
       (feedAll ⟨(feed s call).core, (feed s call).buf⟩ rest).err,
       (feedAll ⟨(feed s call).core, (feed s call).buf⟩ rest).st⟩ := by
  simp only [feedAll, h]

/-- … hence for every partition into any number (≥ 1) of calls, of any sizes including empty ones -/
theorem C15_des_partition (rest : List Bytes) : ∀ (s : State) (call : Bytes),
    (feedAll s (call :: rest)).msgs = (feed s (call :: rest).flatten).msgs ∧
    (feedAll s (call :: rest)).err = (feed s (call :: rest).flatten).err ∧
    ((feed s (call :: rest).flatten).err = none →
      (feedAll s (call :: rest)).st =
        ⟨(feed s (call :: rest).flatten).core, (feed s (call :: rest).flatten).buf⟩) := by
  induction rest with
  | nil =>
    intro s call
    have h := feedAll_single s call
    simp only [List.flatten_cons, List.flatten_nil, List.append_nil]
    exact ⟨h.1, h.2.1, fun _ => h.2.2⟩
  | cons c2 rest ih =>
    intro s call
    have two := C15_des_two s call (c2 :: rest).flatten
    have hfl : (call :: c2 :: rest).flatten = call ++ (c2 :: rest).flatten := by simp
    rw [hfl]
    obtain ⟨t1, t2, t3⟩ := two
    cases he : (feed s call).err with
    | some e =>
      rw [feedAll_cons_err s call _ e he] at t1 t2 t3 ⊢
      exact ⟨t1, t2, t3⟩
    | none =>
      rw [feedAll_cons_ok s call _ he] at t1 t2 t3 ⊢
      have sg := feedAll_single ⟨(feed s call).core, (feed s call).buf⟩ (c2 :: rest).flatten
      have ih' := ih ⟨(feed s call).core, (feed s call).buf⟩ c2
      obtain ⟨i1, i2, i3⟩ := ih'
      obtain ⟨g1, g2, g3⟩ := sg
      simp only at t1 t2 t3 ⊢
      refine ⟨?_, ?_, ?_⟩
      · rw [i1, ← g1]; exact t1
      · rw [i2, ← g2]; exact t2
      · intro hc
        have h3 := t3 hc
        have hnone : (feed ⟨(feed s call).core, (feed s call).buf⟩ (c2 :: rest).flatten).err = none := by
          rw [← g2, t2]; exact hc
        rw [i3 hnone, ← g3]; exact h3

/-- the form the property is stated in: any two partitions of the same byte stream agree on every
    message delivered and on the error (same error, after the same messages) -/
theorem C15_des (s : State) (c1 : Bytes) (r1 : List Bytes) (c2 : Bytes) (r2 : List Bytes)
    (h : (c1 :: r1).flatten = (c2 :: r2).flatten) :
    (feedAll s (c1 :: r1)).msgs = (feedAll s (c2 :: r2)).msgs ∧
    (feedAll s (c1 :: r1)).err = (feedAll s (c2 :: r2)).err := by
  have a := C15_des_partition r1 s c1
  have b := C15_des_partition r2 s c2
  rw [h] at a
  exact ⟨a.1.trans b.1.symm, a.2.1.trans b.2.1.symm⟩

/-- the model's fuel is never what stops the loop: decoding stops only for lack of input or on a
    real error (also the "never loops without consuming input" half of C03 for this entry point) -/
theorem C15_des_no_fuel (s : State) (bytes : Bytes) : (feed s bytes).err ≠ some .fuel :=
  runFuel_no_fuel_err _ _ _ _ (mu_lt_fuelFor _ _)

/-- **C15, server session.**  For EVERY state, EVERY `xs`, `ys`: draining `xs ++ ys` in one call equals
    draining `xs` and then `ys`. -/
theorem C15_server_session (s : Srv.State) (now : Nat) (xs ys : Bytes) :
    SrvPart.drain s now (xs ++ ys) =
      match SrvPart.drain s now xs with
      | (s1, .ok r1) => SrvPart.mapOk r1 (SrvPart.drain s1 now ys)
      | (s1, .error e) => (BufS.withBuf s1 (s1.des.buf ++ ys), .error e) :=
  SrvPart.drain_two s now xs ys

/-- `drain` is `handle_input` whenever no acknowledgement is due in the call -/
theorem C15_server_input_is_drain (s : Srv.State) (now : Nat) (bytes : Bytes)
    (h : (Sess.ackStep s.window s.since bytes.length).2 = none) :
    Srv.handleInput s now bytes =
      SrvPart.drain { s with since := (Sess.ackStep s.window s.since bytes.length).1 } now bytes := by
  unfold Srv.handleInput SrvPart.drain
  cases ha : Sess.ackStep s.window s.since bytes.length with
  | mk since ack =>
    rw [ha] at h
    simp only at h
    subst h
    rfl

/-- **C15, client session.** -/
theorem C15_client_session (s : Cli.State) (now : Nat) (xs ys : Bytes) :
    CliPart.drain s now (xs ++ ys) =
      match CliPart.drain s now xs with
      | (s1, .ok r1) => CliPart.mapOk r1 (CliPart.drain s1 now ys)
      | (s1, .error e) => (BufC.withBuf s1 (s1.des.buf ++ ys), .error e) :=
  CliPart.drain_two s now xs ys

theorem C15_client_input_is_drain (s : Cli.State) (now : Nat) (bytes : Bytes)
    (h : (Sess.ackStep s.window s.since bytes.length).2 = none) :
    Cli.handleInput s now bytes =
      CliPart.drain { s with since := (Sess.ackStep s.window s.since bytes.length).1 } now bytes := by
  unfold Cli.handleInput CliPart.drain
  cases ha : Sess.ackStep s.window s.since bytes.length with
  | mk since ack =>
    rw [ha] at h
    simp only at h
    subst h
    rfl

/-- **C15, server session, any number of pieces.**  If draining a byte stream in one call succeeds,
    draining it piece by piece — ANY pieces, including empty ones — ends in the same state with the same
    results in the same order.  (When the one-call drain fails, the two agree on the error and on the state;
    what differs is only which results the caller has been handed before the error: K2b.) -/
theorem C15_server_session_partition (now : Nat) (rest : List Bytes) (s sF : Srv.State) (call : Bytes) (rs : List Srv.Res)
    (h : SrvPart.drain s now (call :: rest).flatten = (sF, .ok rs)) : SrvPart.drainAll s now call rest = (sF, .ok rs) :=
  SrvPart.drain_partition now rest s sF call rs h

theorem C15_client_session_partition (now : Nat) (rest : List Bytes) (s sF : Cli.State) (call : Bytes) (rs : List Cli.Res)
    (h : CliPart.drain s now (call :: rest).flatten = (sF, .ok rs)) : CliPart.drainAll s now call rest = (sF, .ok rs) :=
  CliPart.drain_partition now rest s sF call rs h

end Rml.C15
