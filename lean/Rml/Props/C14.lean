/-
C14 — AMF0 decoding uses bounded stack and memory on every input.
The logic half is proved here, for EVERY byte string (no length bound); the runtime half (real
stack frames, real allocator) is measured by the `amfadv` family on a 512 KiB thread stack under
a counting allocator.

`decodeG` is the decoder model instrumented with two ghost counters (Rml/Model/Amf0Ghost.lean):
`peak` = deepest `depth` argument of any `read_next_value` call, `alloc` = values constructed +
bytes of string/name buffers requested (a buffer is requested from the declared u16 length BEFORE
its bytes are read).  `C14_ghost_is_decoder` shows the instrumented model computes exactly the
decoder model's result, so the counters describe the decoder.
-/
import Rml.Lemmas.Amf0Ghost
namespace Rml.C14
open Rml Rml.Amf0

/-- the instrumented decoder is the decoder -/
theorem C14_ghost_is_decoder (bs : Bytes) : (decodeG bs).1 = decodeRest bs :=
  erase_readAll _ bs []

/-- decoding always terminates with a value or a proper error: the model is a total function and
    its fuel (input length + 2) is never exhausted, on any input -/
theorem C14_terminates (bs : Bytes) : decodeRest bs ≠ .error .fuel := by
  have h := bounds_readAll (bs.length + 2) bs [] (Nat.le_refl _)
  rw [← C14_ghost_is_decoder]
  unfold decodeG
  intro hc
  unfold Post at h
  rw [hc] at h
  exact h.2.1 rfl

/-- recursion depth never exceeds the nesting limit, however deeply the INPUT nests arrays and
    objects (it is refused instead) -/
theorem C14_depth (bs : Bytes) : (decodeG bs).2.peak ≤ maxDepth :=
  (bounds_readAll (bs.length + 2) bs [] (Nat.le_refl _)).1

/-- nothing is allocated from a declared count; what is allocated is paid for by input bytes, plus at
    most one u16-declared string buffer (whose bytes may turn out to be missing) -/
theorem C14_alloc (bs : Bytes) : (decodeG bs).2.alloc ≤ bs.length + 65535 := by
  have h := (bounds_readAll (bs.length + 2) bs [] (Nat.le_refl _)).2
  have hu := u16Max_eq
  cases hx : (decodeG bs).1 with
  | error e => unfold decodeG at hx; rw [hx] at h; exact hu ▸ h.2
  | ok a => unfold decodeG at hx; rw [hx] at h; simp only at h; unfold decodeG; omega

/-- the limit is what the library documents -/
theorem C14_limit : maxDepth = 128 := rfl

-- non-vacuity: 200 nested one-element arrays are refused, and the recursion stopped at 128
example : (match (decodeG ((List.replicate 200 [10, 0, 0, 0, 1]).flatten)).1 with
    | .error .tooDeep => true | _ => false) = true := by
  decide +kernel
example : (decodeG ((List.replicate 200 [10, 0, 0, 0, 1]).flatten)).2.peak = 128 := by decide +kernel
-- a count of 2^32-1 with no elements allocates one node
example : (decodeG [10, 0xFF, 0xFF, 0xFF, 0xFF]).2.alloc = 1 := by decide +kernel

end Rml.C14
