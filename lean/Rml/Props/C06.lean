/-
C06 — the chunk deserializer decodes every spec-conformant foreign chunk stream.   STATUS: proved
here for all inputs: (1) the deserializer reads every chunk stream id 2..65599 in each of its legal
1-, 2- and 3-byte forms, with every format, exactly as the specification reader does; (2) whatever it
decodes does not depend on the fragmentation (Thm P).  The full statement — for every byte string the
specification reader (Rml/Spec/Chunk.lean, restricted to one message in flight) accepts, the
deserializer model returns exactly the same messages and no error (Thm B, `C06_decodes_legal`) — is NOT
yet a theorem; it is covered by the `foreign` family: a sender written from §5.3.1 that exercises every
freedom the specification gives, checked against the real deserializer, the model, the Lean
specification reader and the Rust reference decoder on every run.
-/
import Rml.Model.Deserializer
import Rml.Spec.Chunk
import Rml.Props.C15
import Rml.Lemmas.Bytes
namespace Rml.C06
open Rml Rml.Bytes Rml.Chunk

theorem fmtOf_toNat (x : UInt8) : (Des.fmtOf x.toNat).toNat = x.toNat / 64 := by
  have := x.toNat_lt
  unfold Des.fmtOf
  split
  · simp [Fmt.toNat]; omega
  · split
    · simp [Fmt.toNat]; omega
    · split
      · simp [Fmt.toNat]; omega
      · simp [Fmt.toNat]; omega

/-- the implementation's basic-header reader IS the specification's, on every input -/
theorem C06_basic_header (bs : Bytes) :
    (Des.basicHdr bs).map (fun (f, c, r) => (f.toNat, c, r)) = Spec.Chunk.basic bs := by
  cases bs with
  | nil => rfl
  | cons x r =>
    simp only [Des.basicHdr, Spec.Chunk.basic]
    split
    · cases r with
      | nil => rfl
      | cons y r' => simp [fmtOf_toNat]
    · split
      · match r with
        | [] => rfl
        | [_] => rfl
        | y :: z :: r' => simp [fmtOf_toNat]; omega
      · simp [fmtOf_toNat]

/-- every chunk stream id 2..63 in the 1-byte form, with every format 0..3 -/
theorem C06_csid_form1 (fmt csid : Nat) (rest : Bytes) (hf : fmt ≤ 3) (hc : 2 ≤ csid ∧ csid ≤ 63) :
    (Des.basicHdr (b (fmt * 64 + csid) :: rest)).map (fun (f, c, r) => (f.toNat, c, r)) = some (fmt, csid, rest) := by
  rw [C06_basic_header]
  simp only [Spec.Chunk.basic, b_toNat]
  have h1 : (fmt * 64 + csid) % 256 % 64 = csid := by omega
  have h2 : (fmt * 64 + csid) % 256 / 64 = fmt := by omega
  have h3 : ¬ csid = 0 := by omega
  have h4 : ¬ csid = 1 := by omega
  simp [h1, h2, h3, h4]

/-- every chunk stream id 64..319 in the 2-byte form -/
theorem C06_csid_form2 (fmt csid : Nat) (rest : Bytes) (hf : fmt ≤ 3) (hc : 64 ≤ csid ∧ csid ≤ 319) :
    (Des.basicHdr (b (fmt * 64) :: b (csid - 64) :: rest)).map (fun (f, c, r) => (f.toNat, c, r))
      = some (fmt, csid, rest) := by
  rw [C06_basic_header]
  simp only [Spec.Chunk.basic, b_toNat]
  have h1 : (fmt * 64) % 256 % 64 = 0 := by omega
  have h2 : (fmt * 64) % 256 / 64 = fmt := by omega
  have h3 : (csid - 64) % 256 + 64 = csid := by omega
  simp [h1, h2, h3]

/-- every chunk stream id 64..65599 in the 3-byte form -/
theorem C06_csid_form3 (fmt csid : Nat) (rest : Bytes) (hf : fmt ≤ 3) (hc : 64 ≤ csid ∧ csid ≤ 65599) :
    (Des.basicHdr (b (fmt * 64 + 1) :: b (csid - 64) :: b ((csid - 64) / 256) :: rest)).map
      (fun (f, c, r) => (f.toNat, c, r)) = some (fmt, csid, rest) := by
  rw [C06_basic_header]
  simp only [Spec.Chunk.basic, b_toNat]
  have h1 : (fmt * 64 + 1) % 256 % 64 = 1 := by omega
  have h2 : (fmt * 64 + 1) % 256 / 64 = fmt := by omega
  have h3 : (csid - 64) % 256 + (csid - 64) / 256 % 256 * 256 + 64 = csid := by omega
  simp [h1, h2, h3]

/-- "all fragmentations": what is decoded from a foreign stream does not depend on how it arrives -/
theorem C06_any_fragmentation (c1 : Bytes) (r1 : List Bytes) (c2 : Bytes) (r2 : List Bytes)
    (h : (c1 :: r1).flatten = (c2 :: r2).flatten) :
    (C15.feedAll {} (c1 :: r1)).msgs = (C15.feedAll {} (c2 :: r2)).msgs ∧
    (C15.feedAll {} (c1 :: r1)).err = (C15.feedAll {} (c2 :: r2)).err :=
  C15.C15_des {} c1 r1 c2 r2 h

-- a foreign stream checked in the kernel (a test): csid 65599 in 3-byte form, format 0 with extended
-- timestamp, a format-3 continuation repeating the extended field, then a format-2 message
def demo : Bytes :=
  [0x01, 0xFF, 0xFF, 0xFF, 0xFF, 0xFF, 0, 0, 130, 9, 5, 0, 0, 0, 1, 0, 0, 44] ++ List.replicate 128 1 ++
  [0xC1, 0xFF, 0xFF, 1, 0, 0, 44, 1, 1] ++
  [0x81, 0xFF, 0xFF, 0, 0, 10] ++ List.replicate 128 2 ++ [0xC1, 0xFF, 0xFF, 2, 2]
example : ((Des.feed {} demo).msgs.map fun m => (m.typ, m.msid, m.ts, m.data.length))
    = [(9, 5, 16777260, 130), (9, 5, 16777270, 130)] ∧
    (Spec.Chunk.decode demo).map (·.map fun m => (m.typ, m.msid, m.ts, m.data.length))
    = some [(9, 5, 16777260, 130), (9, 5, 16777270, 130)] := by
  decide +kernel

end Rml.C06
