/-
C06 — the chunk deserializer decodes every spec-conformant foreign chunk stream.   STATUS: proved.

(1) `C06_decodes_legal` (Thm B): for EVERY byte string that the specification reader
    (Rml/Spec/Chunk.lean, written from RTMP 1.0 §5.3.1) accepts as the output of a sequential,
    strictly conformant sender — any chunk stream ids 2..65599 in any of their 1/2/3-byte forms, any
    legal choice of header format per message, extended timestamps, repeated full headers or type 3
    continuations (whatever their extended field holds), zero-length messages, in-band chunk-size
    changes — the deserializer model returns exactly the messages the specification reader returns,
    reports no error and leaves no byte buffered.
(2) `C06_decodes_legal_any_fragmentation`: the same under EVERY partition of the bytes into calls.
(3) the deserializer reads every basic header form exactly as the specification does.
Streams outside the class (messages interleaved across chunk streams) are known finding K1 (C16).
The tie between the model and deserializer.rs, and between the generator's foreign streams and the
class of (1) (`spec.seq`), is the `foreign` family.
-/
import Rml.Model.Deserializer
import Rml.Spec.Chunk
import Rml.Props.C15
import Rml.Lemmas.Bytes
import Rml.Lemmas.DesSpec
namespace Rml.C06
open Rml Rml.Bytes Rml.Chunk

theorem fmtOf_toNat (x : UInt8) : (Des.fmtOf x.toNat).toNat = x.toNat / 64 := by
  have := x.toNat_lt
  unfold Des.fmtOf
  split
  · simp [Fmt.toNat]; omega
  · split
    · simp [Fmt.toNat]; omega
    · split
      · simp [Fmt.toNat]; omega
      · simp [Fmt.toNat]; omega

/-- the implementation's basic-header reader IS the specification's, on every input -/
theorem C06_basic_header (bs : Bytes) :
    (Des.basicHdr bs).map (fun (f, c, r) => (f.toNat, c, r)) = Spec.Chunk.basic bs := by
  cases bs with
  | nil => rfl
  | cons x r =>
    simp only [Des.basicHdr, Spec.Chunk.basic]
    split
    · cases r with
      | nil => rfl
      | cons y r' => simp [fmtOf_toNat]
    · split
      · match r with
        | [] => rfl
        | [_] => rfl
        | y :: z :: r' => simp [fmtOf_toNat]; omega
      · simp [fmtOf_toNat]

/-- every chunk stream id 2..63 in the 1-byte form, with every format 0..3 -/
theorem C06_csid_form1 (fmt csid : Nat) (rest : Bytes) (hf : fmt ≤ 3) (hc : 2 ≤ csid ∧ csid ≤ 63) :
    (Des.basicHdr (b (fmt * 64 + csid) :: rest)).map (fun (f, c, r) => (f.toNat, c, r)) = some (fmt, csid, rest) := by
  rw [C06_basic_header]
  simp only [Spec.Chunk.basic, b_toNat]
  have h1 : (fmt * 64 + csid) % 256 % 64 = csid := by omega
  have h2 : (fmt * 64 + csid) % 256 / 64 = fmt := by omega
  have h3 : ¬ csid = 0 := by omega
  have h4 : ¬ csid = 1 := by omega
  simp [h1, h2, h3, h4]

/-- every chunk stream id 64..319 in the 2-byte form -/
theorem C06_csid_form2 (fmt csid : Nat) (rest : Bytes) (hf : fmt ≤ 3) (hc : 64 ≤ csid ∧ csid ≤ 319) :
    (Des.basicHdr (b (fmt * 64) :: b (csid - 64) :: rest)).map (fun (f, c, r) => (f.toNat, c, r))
      = some (fmt, csid, rest) := by
  rw [C06_basic_header]
  simp only [Spec.Chunk.basic, b_toNat]
  have h1 : (fmt * 64) % 256 % 64 = 0 := by omega
  have h2 : (fmt * 64) % 256 / 64 = fmt := by omega
  have h3 : (csid - 64) % 256 + 64 = csid := by omega
  simp [h1, h2, h3]

/-- every chunk stream id 64..65599 in the 3-byte form -/
theorem C06_csid_form3 (fmt csid : Nat) (rest : Bytes) (hf : fmt ≤ 3) (hc : 64 ≤ csid ∧ csid ≤ 65599) :
    (Des.basicHdr (b (fmt * 64 + 1) :: b (csid - 64) :: b ((csid - 64) / 256) :: rest)).map
      (fun (f, c, r) => (f.toNat, c, r)) = some (fmt, csid, rest) := by
  rw [C06_basic_header]
  simp only [Spec.Chunk.basic, b_toNat]
  have h1 : (fmt * 64 + 1) % 256 % 64 = 1 := by omega
  have h2 : (fmt * 64 + 1) % 256 / 64 = fmt := by omega
  have h3 : (csid - 64) % 256 + (csid - 64) / 256 % 256 * 256 + 64 = csid := by omega
  simp [h1, h2, h3]

/-- "all fragmentations": what is decoded from a foreign stream does not depend on how it arrives -/
theorem C06_any_fragmentation (c1 : Bytes) (r1 : List Bytes) (c2 : Bytes) (r2 : List Bytes)
    (h : (c1 :: r1).flatten = (c2 :: r2).flatten) :
    (C15.feedAll {} (c1 :: r1)).msgs = (C15.feedAll {} (c2 :: r2)).msgs ∧
    (C15.feedAll {} (c1 :: r1)).err = (C15.feedAll {} (c2 :: r2)).err :=
  C15.C15_des {} c1 r1 c2 r2 h

/-- **C06 (Thm B).**  Every stream of a sequential, strictly conformant sender is decoded to exactly
    the messages the specification assigns to it, without error, with nothing left buffered. -/
theorem C06_decodes_legal (bs : Bytes) (ms : List Msg) (h : Spec.Chunk.decodeSeq bs = some ms) :
    (Des.feed {} bs).msgs = ms ∧ (Des.feed {} bs).err = none ∧ (Des.feed {} bs).buf = [] :=
  DesSpec.feed_decodeSeq bs ms h

/-- … and under every fragmentation of the byte string into input calls -/
theorem C06_decodes_legal_any_fragmentation (c1 : Bytes) (r1 : List Bytes) (ms : List Msg)
    (h : Spec.Chunk.decodeSeq (c1 :: r1).flatten = some ms) :
    (C15.feedAll {} (c1 :: r1)).msgs = ms ∧ (C15.feedAll {} (c1 :: r1)).err = none := by
  obtain ⟨h1, h2, _⟩ := DesSpec.feed_decodeSeq _ ms h
  obtain ⟨p1, p2, _⟩ := C15.C15_des_partition r1 {} c1
  exact ⟨p1.trans h1, p2.trans h2⟩

/-- the strict sequential class is a sub-class of what the general specification reader accepts,
    with the same messages -/
theorem decodeSeqFuel_decodeFuel : ∀ (f : Nat) (s : Spec.Chunk.State) (cur : Option Nat) (bs : Bytes)
    (acc ms : List Msg), Spec.Chunk.decodeSeqFuel f s cur bs acc = some ms →
    Spec.Chunk.decodeFuel f s bs acc = some ms := by
  intro f
  induction f with
  | zero => intro s cur bs acc ms h; unfold Spec.Chunk.decodeSeqFuel at h; unfold Spec.Chunk.decodeFuel; exact h
  | succ f ih =>
    intro s cur bs acc ms h
    unfold Spec.Chunk.decodeSeqFuel at h
    unfold Spec.Chunk.decodeFuel
    by_cases he : bs.isEmpty = true
    · simp only [he, if_true] at h ⊢; exact h
    · simp only [he, Bool.false_eq_true, if_false] at h ⊢
      by_cases hso : Spec.Chunk.strictOk s cur bs = false
      · simp [hso] at h
      · simp only [hso] at h
        cases hc : Spec.Chunk.chunk s bs with
        | none => simp [hc] at h
        | some p =>
          obtain ⟨s', m, rest⟩ := p
          simp only [hc] at h ⊢
          by_cases hmo : Spec.Chunk.msgOk m = false
          · simp [hmo] at h
          · simp only [hmo] at h
            exact ih s' _ rest _ ms h

theorem C06_class_is_spec (bs : Bytes) (ms : List Msg) (h : Spec.Chunk.decodeSeq bs = some ms) :
    Spec.Chunk.decode bs = some ms :=
  decodeSeqFuel_decodeFuel _ _ _ _ _ _ h

-- a foreign stream checked in the kernel (a test, and the non-vacuity witness of `C06_decodes_legal`):
-- csid 65599 in 3-byte form, format 0 with extended timestamp, a format-3 continuation repeating the
-- extended field, then a format-2 message
def demo : Bytes :=
  [0x01, 0xFF, 0xFF, 0xFF, 0xFF, 0xFF, 0, 0, 130, 9, 5, 0, 0, 0, 1, 0, 0, 44] ++ List.replicate 128 1 ++
  [0xC1, 0xFF, 0xFF, 1, 0, 0, 44, 1, 1] ++
  [0x81, 0xFF, 0xFF, 0, 0, 10] ++ List.replicate 128 2 ++ [0xC1, 0xFF, 0xFF, 2, 2]
example : ((Des.feed {} demo).msgs.map fun m => (m.typ, m.msid, m.ts, m.data.length))
    = [(9, 5, 16777260, 130), (9, 5, 16777270, 130)] ∧
    (Spec.Chunk.decode demo).map (·.map fun m => (m.typ, m.msid, m.ts, m.data.length))
    = some [(9, 5, 16777260, 130), (9, 5, 16777270, 130)] ∧
    (Spec.Chunk.decodeSeq demo).map (·.map fun m => (m.typ, m.msid, m.ts, m.data.length))
    = some [(9, 5, 16777260, 130), (9, 5, 16777270, 130)] := by
  decide +kernel

end Rml.C06
