/-
C05 — handshake completes under any fragmentation and hands back trailing bytes intact.
`hmac` and the two random fills are arbitrary.  `processBytes_eq_procSpec` (Lemmas/HsSpec) shows the
five-stage loop of `process_bytes` equals a straight-line closed form for EVERY state and input.

STATUS: proved here — `C05_party`: for either role and either start mode, against ANY peer stream
`3 :: p1 ++ p2 ++ tail` (digest-bearing or original/digest-less: `genP2` covers both, C11) under EVERY
partition into `process_bytes` calls: no error, the party emits exactly its version byte, its packet 1
and its answer (3073 bytes), completes, and hands back exactly `tail`; completion is never reported
before the peer's 3073rd byte (`C05_no_early_completion_any_partition`); the version-byte check; a
completed handshake refuses further input.  The two parties' streams do not depend on each other's
fragmentation (packet 1 depends on nothing received, the answer only on the peer's packet 1), so the
two-party statement reduces to `C05_party` for each side plus the scheduling fact that every byte is
eventually delivered; that last step (`C05_pair` of DESIGN.md §5: schedules as objects) is NOT a
theorem — it is covered by the `hs` family: hs.xfer schedules interpreted by model and real code, and
the !hs.pair oracle on two real handshakes (and an original-handshake peer) under many fragmentations.
-/
import Rml.Lemmas.HsSpec
import Rml.Lemmas.HsPart
import Rml.Props.C11
namespace Rml.C05
open Rml Rml.Hs

/-- what a party answers to the peer's packet 1 (valid signature or exact echo: C11) -/
abbrev answer (hmac : Hmac) (s : State) (p1 : Bytes) : Bytes := genP2 hmac s.role p1 s.fill2

/-- one call with the peer's whole stream, party not started yet: it emits its version byte 3, its
    packet 1 and its answer (3073 bytes), completes, and returns exactly the trailing bytes -/
theorem C05_one_call_fresh (hmac : Hmac) (s : State) (p1 p2 tail : Bytes)
    (h1 : p1.length = 1536) (h2 : p2.length = 1536) (hs : s.stage = .needToSend) (hb : s.buf = []) :
    ∃ s', processBytes hmac s (3 :: (p1 ++ p2 ++ tail)) =
      .ok (s', .completed (3 :: (genP1 hmac s.role s.fill1).1 ++ answer hmac s p1) tail) ∧ s'.stage = .complete := by
  rw [processBytes_eq_procSpec]
  simp only [procSpec, hs, hb, List.nil_append, fin0, ne_eq, not_true_eq_false, if_false]
  have hl : ¬ (p1 ++ p2 ++ tail).length < packetSize := by simp [packetSize, h1]
  have ht : (p1 ++ p2 ++ tail).take packetSize = p1 := by
    rw [List.append_assoc]; exact take_pre _ _ _ h1
  have hd : (p1 ++ p2 ++ tail).drop packetSize = p2 ++ tail := by
    rw [List.append_assoc]; exact drop_pre _ _ _ h1
  have hl2 : ¬ (p2 ++ tail).length < packetSize := by simp [packetSize, h2]
  simp only [fin1, hl, if_false, ht, hd, fin2, hl2]
  rw [drop_pre p2 tail packetSize h2]
  exact ⟨_, rfl, rfl⟩

/-- the same when the application had called `generate_outbound_p0_and_p1` itself first: the call
    returns only the answer; together with the 1537 bytes returned earlier that is again 3073 bytes -/
theorem C05_one_call_started (hmac : Hmac) (s : State) (p1 p2 tail : Bytes)
    (h1 : p1.length = 1536) (h2 : p2.length = 1536) (hs : s.stage = .needToSend) (hb : s.buf = []) :
    ∃ s', processBytes hmac (generateP0P1 hmac s).1 (3 :: (p1 ++ p2 ++ tail)) =
      .ok (s', .completed (answer hmac s p1) tail) ∧ s'.stage = .complete ∧
      (generateP0P1 hmac s).2 = 3 :: (genP1 hmac s.role s.fill1).1 := by
  rw [processBytes_eq_procSpec]
  simp only [generateP0P1, procSpec, hb, List.nil_append, fin0, ne_eq, not_true_eq_false, if_false]
  have hl : ¬ (p1 ++ p2 ++ tail).length < packetSize := by simp [packetSize, h1]
  have ht : (p1 ++ p2 ++ tail).take packetSize = p1 := by
    rw [List.append_assoc]; exact take_pre _ _ _ h1
  have hd : (p1 ++ p2 ++ tail).drop packetSize = p2 ++ tail := by
    rw [List.append_assoc]; exact drop_pre _ _ _ h1
  have hl2 : ¬ (p2 ++ tail).length < packetSize := by simp [packetSize, h2]
  simp only [fin1, hl, if_false, ht, hd, fin2, hl2, List.nil_append]
  rw [drop_pre p2 tail packetSize h2]
  exact ⟨_, rfl, rfl, trivial⟩

/-- the 3073 bytes a party emits are the version byte and two 1536-byte packets -/
theorem C05_emits_3073 (hmac : Hmac) (hlen : ∀ i k, (hmac i k).length = 32) (s : State) (p1 : Bytes)
    (hf1 : s.fill1.length = 1524) (hf2 : s.fill2.length = 1536) (h1 : p1.length = 1536) :
    (genP1 hmac s.role s.fill1).1.length = 1536 ∧ (answer hmac s p1).length = 1536 := by
  refine ⟨(C11.C11_p1 hmac hlen s.role s.fill1 hf1).1, ?_⟩
  unfold answer
  cases hd : digestFor hmac p1 (peerKey s.role) with
  | none => rw [C11.C11_p2_echo hmac s.role p1 s.fill2 hd]; exact h1
  | some d => exact (C11.C11_p2_digest hmac hlen s.role p1 s.fill2 d hf2 hd).1

/-- completion is never reported on fewer than the peer's 3073 bytes: a call that completes the
    handshake of a party that had nothing buffered was given at least 3073 bytes -/
theorem C05_no_early_completion (hmac : Hmac) (s s' : State) (data r rem : Bytes) (hb : s.buf = [])
    (hs : s.stage = .needToSend ∨ s.stage = .waitP0)
    (h : processBytes hmac s data = .ok (s', .completed r rem)) : 3073 ≤ data.length := by
  rw [processBytes_eq_procSpec] at h
  have key : ∀ (st : State) (resp : Bytes), fin0 hmac st data resp = .ok (s', .completed r rem) → 3073 ≤ data.length := by
    intro st resp hf
    cases data with
    | nil => simp [fin0] at hf
    | cons c d =>
      simp only [fin0] at hf
      split at hf
      · simp at hf
      · simp only [fin1] at hf
        split at hf
        · simp at hf
        · simp only [fin2] at hf
          split at hf
          · simp at hf
          · rename_i ha hb'
            simp only [List.length_drop, packetSize] at ha hb'
            simp only [List.length_cons]; omega
  rcases hs with hs | hs
  · simp only [procSpec, hs, hb, List.nil_append] at h; exact key _ _ h
  · simp only [procSpec, hs, hb, List.nil_append] at h; exact key _ _ h

/-- a first byte other than 3 is refused; a completed handshake refuses further input -/
theorem C05_version_and_completed (hmac : Hmac) (s : State) (c : UInt8) (rest data : Bytes) :
    (s.stage = .waitP0 → s.buf = [] → c ≠ 3 → processBytes hmac s (c :: rest) = .error .badVersion) ∧
    (s.stage = .complete → processBytes hmac s data = .error .alreadyCompleted) := by
  constructor
  · intro hs hb hc
    rw [processBytes_eq_procSpec]
    simp [procSpec, hs, hb, fin0, hc]
  · intro hs
    rw [processBytes_eq_procSpec]
    simp [procSpec, hs]

/-- **C05 (one party, any fragmentation).**  A party that has not started yet, fed the peer's stream
    `3 :: p1 ++ p2 ++ tail` in ANY partition into calls (`c1 :: rest`, any sizes, empty pieces allowed):
    no error; everything it emits, concatenated, is `3 :: P1 ++ answer(p1)`; it completes; and the
    trailing bytes come back exactly: `tail`, unmodified, in order, once. -/
theorem C05_party (hmac : Hmac) (s : State) (p1 p2 tail : Bytes) (c1 : Bytes) (rest : List Bytes)
    (h1 : p1.length = 1536) (h2 : p2.length = 1536) (hs : s.stage = .needToSend) (hb : s.buf = [])
    (hcut : (c1 :: rest).flatten = 3 :: (p1 ++ p2 ++ tail)) :
    ∃ s', feedCalls hmac s (c1 :: rest) =
      .ok (s', 3 :: (genP1 hmac s.role s.fill1).1 ++ answer hmac s p1, some tail) ∧ s'.stage = .complete := by
  obtain ⟨s', hp, hst⟩ := C05_one_call_fresh hmac s p1 p2 tail h1 h2 hs hb
  refine ⟨s', ?_, hst⟩
  rw [feedCalls_partition, hcut, feedCalls_single, hp]

/-- the same when the application called `generate_outbound_p0_and_p1` first (the client's usual start):
    the calls return the answer only; with the 1537 bytes returned by the start that is 3073 again -/
theorem C05_party_started (hmac : Hmac) (s : State) (p1 p2 tail : Bytes) (c1 : Bytes) (rest : List Bytes)
    (h1 : p1.length = 1536) (h2 : p2.length = 1536) (hs : s.stage = .needToSend) (hb : s.buf = [])
    (hcut : (c1 :: rest).flatten = 3 :: (p1 ++ p2 ++ tail)) :
    ∃ s', feedCalls hmac (generateP0P1 hmac s).1 (c1 :: rest) = .ok (s', answer hmac s p1, some tail) ∧
      s'.stage = .complete ∧ (generateP0P1 hmac s).2 = 3 :: (genP1 hmac s.role s.fill1).1 := by
  obtain ⟨s', hp, hst, hg⟩ := C05_one_call_started hmac s p1 p2 tail h1 h2 hs hb
  refine ⟨s', ?_, hst, hg⟩
  rw [feedCalls_partition, hcut, feedCalls_single, hp]

/-- no partition lets a party complete early: if a sequence of calls completes a fresh party, the
    calls up to and including the completing one carried at least 3073 bytes.  (Stated on the whole
    list: a completed run returns `some _` as trailing bytes.) -/
theorem C05_no_early_completion_any_partition (hmac : Hmac) (s s' : State) (c1 : Bytes) (rest : List Bytes)
    (resp tr : Bytes) (hb : s.buf = []) (hs : s.stage = .needToSend ∨ s.stage = .waitP0)
    (h : feedCalls hmac s (c1 :: rest) = .ok (s', resp, some tr)) : 3073 ≤ (c1 :: rest).flatten.length := by
  rw [feedCalls_partition, feedCalls_single] at h
  generalize (c1 :: rest).flatten = x at h ⊢
  cases hp : processBytes hmac s x with
  | error e => rw [hp] at h; simp at h
  | ok q =>
    obtain ⟨s1, res⟩ := q
    cases res with
    | inProgress r => rw [hp] at h; simp at h
    | completed r rem => exact C05_no_early_completion hmac s s1 _ r rem hb hs hp

end Rml.C05
