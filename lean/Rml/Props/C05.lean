/-
C05 — handshake completes under any fragmentation and hands back trailing bytes intact.
`hmac` and the two random fills are arbitrary.  `processBytes_eq_procSpec` (Lemmas/HsSpec) shows the
five-stage loop of `process_bytes` equals a straight-line closed form for EVERY state and input.

STATUS: proved.
* one party (`C05_party`, `C05_party_started`): for either role and either start mode, against ANY peer
  stream `3 :: p1 ++ p2 ++ tail` (digest-bearing or original/digest-less: `genP2` covers both, C11) under
  EVERY partition into `process_bytes` calls: no error, exactly the version byte, packet 1 and the answer
  (3073 bytes) are emitted, the party completes and hands back exactly `tail`; no partition completes
  before the 3073rd byte; version-byte check; a completed handshake refuses input.
* two parties (`C05_pair_no_error`, `C05_pair_complete`; Lemmas/HsPair.lean): by the partition theorem what
  a party has emitted and handed back is a function of the bytes it has received so far (`emit`,
  `trailing`).  `Reach` generates every configuration two fresh parties can get into — a side is called
  with any number (possibly zero) of the bytes in flight towards it, in any order and interleaving; an
  application sends bytes after its side completed.  Every reachable configuration is error-free for
  every way the received bytes were cut into calls; every quiescent one (nothing in flight, both sides
  called) is a completed handshake: each side emitted exactly `3 :: P1 ++ answer(peer's P1)`, 3073 bytes,
  and handed back exactly the peer's application bytes.  (Nothing in flight is always reachable: bytes in
  flight can always be delivered.)  `hmac` and the fills are parameters.
-/
import Rml.Lemmas.HsSpec
import Rml.Lemmas.HsPart
import Rml.Lemmas.HsPair
import Rml.Props.C11
namespace Rml.C05
open Rml Rml.Hs

/-- what a party answers to the peer's packet 1 (valid signature or exact echo: C11) -/
abbrev answer (hmac : Hmac) (s : State) (p1 : Bytes) : Bytes := genP2 hmac s.role p1 s.fill2

/-- one call with the peer's whole stream, party not started yet: it emits its version byte 3, its
    packet 1 and its answer (3073 bytes), completes, and returns exactly the trailing bytes -/
theorem C05_one_call_fresh (hmac : Hmac) (s : State) (p1 p2 tail : Bytes)
    (h1 : p1.length = 1536) (h2 : p2.length = 1536) (hs : s.stage = .needToSend) (hb : s.buf = []) :
    ∃ s', processBytes hmac s (3 :: (p1 ++ p2 ++ tail)) =
      .ok (s', .completed (3 :: (genP1 hmac s.role s.fill1).1 ++ answer hmac s p1) tail) ∧ s'.stage = .complete := by
  rw [processBytes_eq_procSpec]
  simp only [procSpec, hs, hb, List.nil_append, fin0, ne_eq, not_true_eq_false, if_false]
  have hl : ¬ (p1 ++ p2 ++ tail).length < packetSize := by simp [packetSize, h1]
  have ht : (p1 ++ p2 ++ tail).take packetSize = p1 := by
    rw [List.append_assoc]; exact take_pre _ _ _ h1
  have hd : (p1 ++ p2 ++ tail).drop packetSize = p2 ++ tail := by
    rw [List.append_assoc]; exact drop_pre _ _ _ h1
  have hl2 : ¬ (p2 ++ tail).length < packetSize := by simp [packetSize, h2]
  simp only [fin1, hl, if_false, ht, hd, fin2, hl2]
  rw [drop_pre p2 tail packetSize h2]
  exact ⟨_, rfl, rfl⟩

/-- the same when the application had called `generate_outbound_p0_and_p1` itself first: the call
    returns only the answer; together with the 1537 bytes returned earlier that is again 3073 bytes -/
theorem C05_one_call_started (hmac : Hmac) (s : State) (p1 p2 tail : Bytes)
    (h1 : p1.length = 1536) (h2 : p2.length = 1536) (hs : s.stage = .needToSend) (hb : s.buf = []) :
    ∃ s', processBytes hmac (generateP0P1 hmac s).1 (3 :: (p1 ++ p2 ++ tail)) =
      .ok (s', .completed (answer hmac s p1) tail) ∧ s'.stage = .complete ∧
      (generateP0P1 hmac s).2 = 3 :: (genP1 hmac s.role s.fill1).1 := by
  rw [processBytes_eq_procSpec]
  simp only [generateP0P1, procSpec, hb, List.nil_append, fin0, ne_eq, not_true_eq_false, if_false]
  have hl : ¬ (p1 ++ p2 ++ tail).length < packetSize := by simp [packetSize, h1]
  have ht : (p1 ++ p2 ++ tail).take packetSize = p1 := by
    rw [List.append_assoc]; exact take_pre _ _ _ h1
  have hd : (p1 ++ p2 ++ tail).drop packetSize = p2 ++ tail := by
    rw [List.append_assoc]; exact drop_pre _ _ _ h1
  have hl2 : ¬ (p2 ++ tail).length < packetSize := by simp [packetSize, h2]
  simp only [fin1, hl, if_false, ht, hd, fin2, hl2, List.nil_append]
  rw [drop_pre p2 tail packetSize h2]
  exact ⟨_, rfl, rfl, trivial⟩

/-- the 3073 bytes a party emits are the version byte and two 1536-byte packets -/
theorem C05_emits_3073 (hmac : Hmac) (hlen : ∀ i k, (hmac i k).length = 32) (s : State) (p1 : Bytes)
    (hf1 : s.fill1.length = 1524) (hf2 : s.fill2.length = 1536) (h1 : p1.length = 1536) :
    (genP1 hmac s.role s.fill1).1.length = 1536 ∧ (answer hmac s p1).length = 1536 := by
  refine ⟨(C11.C11_p1 hmac hlen s.role s.fill1 hf1).1, ?_⟩
  unfold answer
  cases hd : digestFor hmac p1 (peerKey s.role) with
  | none => rw [C11.C11_p2_echo hmac s.role p1 s.fill2 hd]; exact h1
  | some d => exact (C11.C11_p2_digest hmac hlen s.role p1 s.fill2 d hf2 hd).1

/-- completion is never reported on fewer than the peer's 3073 bytes: a call that completes the
    handshake of a party that had nothing buffered was given at least 3073 bytes -/
theorem C05_no_early_completion (hmac : Hmac) (s s' : State) (data r rem : Bytes) (hb : s.buf = [])
    (hs : s.stage = .needToSend ∨ s.stage = .waitP0)
    (h : processBytes hmac s data = .ok (s', .completed r rem)) : 3073 ≤ data.length := by
  rw [processBytes_eq_procSpec] at h
  have key : ∀ (st : State) (resp : Bytes), fin0 hmac st data resp = .ok (s', .completed r rem) → 3073 ≤ data.length := by
    intro st resp hf
    cases data with
    | nil => simp [fin0] at hf
    | cons c d =>
      simp only [fin0] at hf
      split at hf
      · simp at hf
      · simp only [fin1] at hf
        split at hf
        · simp at hf
        · simp only [fin2] at hf
          split at hf
          · simp at hf
          · rename_i ha hb'
            simp only [List.length_drop, packetSize] at ha hb'
            simp only [List.length_cons]; omega
  rcases hs with hs | hs
  · simp only [procSpec, hs, hb, List.nil_append] at h; exact key _ _ h
  · simp only [procSpec, hs, hb, List.nil_append] at h; exact key _ _ h

/-- a first byte other than 3 is refused; a completed handshake refuses further input -/
theorem C05_version_and_completed (hmac : Hmac) (s : State) (c : UInt8) (rest data : Bytes) :
    (s.stage = .waitP0 → s.buf = [] → c ≠ 3 → processBytes hmac s (c :: rest) = .error .badVersion) ∧
    (s.stage = .complete → processBytes hmac s data = .error .alreadyCompleted) := by
  constructor
  · intro hs hb hc
    rw [processBytes_eq_procSpec]
    simp [procSpec, hs, hb, fin0, hc]
  · intro hs
    rw [processBytes_eq_procSpec]
    simp [procSpec, hs]

/-- **C05 (one party, any fragmentation).**  A party that has not started yet, fed the peer's stream
    `3 :: p1 ++ p2 ++ tail` in ANY partition into calls (`c1 :: rest`, any sizes, empty pieces allowed):
    no error; everything it emits, concatenated, is `3 :: P1 ++ answer(p1)`; it completes; and the
    trailing bytes come back exactly: `tail`, unmodified, in order, once. -/
theorem C05_party (hmac : Hmac) (s : State) (p1 p2 tail : Bytes) (c1 : Bytes) (rest : List Bytes)
    (h1 : p1.length = 1536) (h2 : p2.length = 1536) (hs : s.stage = .needToSend) (hb : s.buf = [])
    (hcut : (c1 :: rest).flatten = 3 :: (p1 ++ p2 ++ tail)) :
    ∃ s', feedCalls hmac s (c1 :: rest) =
      .ok (s', 3 :: (genP1 hmac s.role s.fill1).1 ++ answer hmac s p1, some tail) ∧ s'.stage = .complete := by
  obtain ⟨s', hp, hst⟩ := C05_one_call_fresh hmac s p1 p2 tail h1 h2 hs hb
  refine ⟨s', ?_, hst⟩
  rw [feedCalls_partition, hcut, feedCalls_single, hp]

/-- the same when the application called `generate_outbound_p0_and_p1` first (the client's usual start):
    the calls return the answer only; with the 1537 bytes returned by the start that is 3073 again -/
theorem C05_party_started (hmac : Hmac) (s : State) (p1 p2 tail : Bytes) (c1 : Bytes) (rest : List Bytes)
    (h1 : p1.length = 1536) (h2 : p2.length = 1536) (hs : s.stage = .needToSend) (hb : s.buf = [])
    (hcut : (c1 :: rest).flatten = 3 :: (p1 ++ p2 ++ tail)) :
    ∃ s', feedCalls hmac (generateP0P1 hmac s).1 (c1 :: rest) = .ok (s', answer hmac s p1, some tail) ∧
      s'.stage = .complete ∧ (generateP0P1 hmac s).2 = 3 :: (genP1 hmac s.role s.fill1).1 := by
  obtain ⟨s', hp, hst, hg⟩ := C05_one_call_started hmac s p1 p2 tail h1 h2 hs hb
  refine ⟨s', ?_, hst, hg⟩
  rw [feedCalls_partition, hcut, feedCalls_single, hp]

/-- no partition lets a party complete early: if a sequence of calls completes a fresh party, the
    calls up to and including the completing one carried at least 3073 bytes.  (Stated on the whole
    list: a completed run returns `some _` as trailing bytes.) -/
theorem C05_no_early_completion_any_partition (hmac : Hmac) (s s' : State) (c1 : Bytes) (rest : List Bytes)
    (resp tr : Bytes) (hb : s.buf = []) (hs : s.stage = .needToSend ∨ s.stage = .waitP0)
    (h : feedCalls hmac s (c1 :: rest) = .ok (s', resp, some tr)) : 3073 ≤ (c1 :: rest).flatten.length := by
  rw [feedCalls_partition, feedCalls_single] at h
  generalize (c1 :: rest).flatten = x at h ⊢
  cases hp : processBytes hmac s x with
  | error e => rw [hp] at h; simp at h
  | ok q =>
    obtain ⟨s1, res⟩ := q
    cases res with
    | inProgress r => rw [hp] at h; simp at h
    | completed r rem => exact C05_no_early_completion hmac s s1 _ r rem hb hs hp

/-- **C05, two parties, any schedule: nobody errs.**  In every configuration two fresh parties can reach
    (`HsPair.Reach`: any order and sizes of deliveries, any interleaving of the two directions, first calls
    with or without data, application bytes after completion), side A — however the bytes it has received
    were cut into calls — has not erred, has emitted exactly `emit`, and has handed back exactly `trailing`.
    (Side B: the statement is symmetric under swapping the roles of the two parties in `Reach`.) -/
theorem C05_pair_no_error (hmac : Hmac) (a b : State) (actA actB : Bool) (recvA recvB appA appB : Bytes)
    (ha : a.stage = .needToSend ∧ a.buf = []) (hb : b.stage = .needToSend ∧ b.buf = [])
    (hr : HsPair.Reach hmac a b actA actB recvA recvB appA appB)
    (c1 : Bytes) (r1 : List Bytes) (hcalls : (c1 :: r1).flatten = recvA) :
    match feedCalls hmac a (c1 :: r1) with
    | .ok (_, out, tr) => out = HsPair.emit hmac a recvA ∧ tr = HsPair.trailing recvA
    | .error _ => False :=
  HsPair.no_error hmac a b actA actB recvA recvB appA appB ha hb (HsPair.reach_consistent hr) c1 r1 hcalls

/-- **C05, two parties: every schedule that delivers everything completes both sides.**  A reachable
    configuration with nothing in flight in which both sides have been called: each side emitted exactly
    its version byte 3, its packet 1 and its answer to the peer's packet 1 (3073 bytes), and handed back
    exactly the bytes the peer's application sent after its handshake — unmodified, in order, once. -/
theorem C05_pair_complete (hmac : Hmac) (hlen : ∀ i k, (hmac i k).length = 32) (a b : State)
    (recvA recvB appA appB : Bytes)
    (hfa : a.fill1.length = 1524 ∧ a.fill2.length = 1536) (hfb : b.fill1.length = 1524 ∧ b.fill2.length = 1536)
    (_hr : HsPair.Reach hmac a b true true recvA recvB appA appB)
    (hA : recvA = HsPair.wireOf hmac true b recvB appB) (hB : recvB = HsPair.wireOf hmac true a recvA appA) :
    HsPair.emit hmac a recvA = 3 :: (genP1 hmac a.role a.fill1).1 ++ genP2 hmac a.role (genP1 hmac b.role b.fill1).1 a.fill2 ∧
    HsPair.emit hmac b recvB = 3 :: (genP1 hmac b.role b.fill1).1 ++ genP2 hmac b.role (genP1 hmac a.role a.fill1).1 b.fill2 ∧
    (HsPair.emit hmac a recvA).length = 3073 ∧ (HsPair.emit hmac b recvB).length = 3073 ∧
    HsPair.trailing recvA = some appB ∧ HsPair.trailing recvB = some appA :=
  HsPair.quiescent_complete hmac hlen a b recvA recvB appA appB hfa hfb hA hB

end Rml.C05
