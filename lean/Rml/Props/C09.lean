/-
C09 — the server session follows the request/stream state machine in every history.
Model: Rml/Model/ServerSession.lean, tied to rtmp/src/sessions/server/mod.rs by the `server` family.
The theorems are about EVERY state (hence every history that leads to it) unless they are stated
as invariants over histories (`Inv`, preserved by every operation, hence true in all reachable states).
-/
import Rml.Model.ServerSession
namespace Rml.C09
open Rml Rml.Chunk Rml.Amf0 Rml.Msgs Rml.Sess Rml.Srv

/-- results that are only outbound packets (no event, nothing surfaced) -/
def OnlyPackets (rs : List Res) : Prop := ∀ r ∈ rs, ∃ p, r = .out p

/-- `send` only advances the serializer -/
theorem send_ok {s s' : State} {m : RtmpMsg} {ts msid : Nat} {f d : Bool} {p : Ser.Packet}
    (h : send s m ts msid f d = .ok (s', p)) : ∃ ser', s' = { s with ser := ser' } := by
  unfold send at h
  split at h
  · simp at h
  · rename_i ser' p' _
    simp only [Except.ok.injEq, Prod.mk.injEq] at h
    exact ⟨ser', h.1.symm⟩

theorem errorOut_shape (s : State) (now : Nat) (code desc : Bytes) (tid sid : Nat) :
    (∃ e, errorOut s now code desc tid sid = .error e) ∨
    (∃ s' p, errorOut s now code desc tid sid = .ok (s', [.out p]) ∧ s'.reqs = s.reqs ∧ s'.nextReq = s.nextReq ∧
      s'.streams = s.streams ∧ s'.connected = s.connected ∧ s'.app = s.app ∧ s'.nextStream = s.nextStream) := by
  unfold errorOut errorPacket
  cases h : send s (commandMsg (str "_error") tid Val.null [statusObject (str "_error") code desc]) (epoch now) sid with
  | error e => left; exact ⟨e, rfl⟩
  | ok r =>
    obtain ⟨s', p⟩ := r
    obtain ⟨ser', rfl⟩ := send_ok h
    right; exact ⟨_, p, rfl, rfl, rfl, rfl, rfl, rfl, rfl⟩

/-- GATE: before a connection request was accepted, a publish request is never surfaced: it is answered
    with an `_error` response (or the call fails) and no request is recorded -/
theorem C09_gate_publish (s : State) (now sid tid : Nat) (args : List Val) (hc : s.connected = false) :
    (∃ e, cmdPublish s now sid tid args = .error e) ∨
    (∃ s' p, cmdPublish s now sid tid args = .ok (s', [.out p]) ∧ s'.reqs = s.reqs ∧ s'.nextReq = s.nextReq ∧ s'.streams = s.streams) := by
  have key : ∀ code desc, (∃ e, errorOut s now code desc tid sid = .error e) ∨
      (∃ s' p, errorOut s now code desc tid sid = .ok (s', [.out p]) ∧ s'.reqs = s.reqs ∧ s'.nextReq = s.nextReq ∧ s'.streams = s.streams) := by
    intro code desc
    rcases errorOut_shape s now code desc tid sid with h | ⟨s', p, h1, h2, h3, h4, _⟩
    · exact Or.inl h
    · exact Or.inr ⟨s', p, h1, h2, h3, h4⟩
  unfold cmdPublish
  match args with
  | [] => exact key _ _
  | [_] => exact key _ _
  | a0 :: a1 :: _ => simp only [hc, Bool.false_eq_true, not_false_eq_true, if_true]; exact key _ _

theorem C09_gate_play (s : State) (now sid tid : Nat) (args : List Val) (hc : s.connected = false) :
    (∃ e, cmdPlay s now sid tid args = .error e) ∨
    (∃ s' p, cmdPlay s now sid tid args = .ok (s', [.out p]) ∧ s'.reqs = s.reqs ∧ s'.nextReq = s.nextReq ∧ s'.streams = s.streams) := by
  have key : ∀ code desc, (∃ e, errorOut s now code desc tid sid = .error e) ∨
      (∃ s' p, errorOut s now code desc tid sid = .ok (s', [.out p]) ∧ s'.reqs = s.reqs ∧ s'.nextReq = s.nextReq ∧ s'.streams = s.streams) := by
    intro code desc
    rcases errorOut_shape s now code desc tid sid with h | ⟨s', p, h1, h2, h3, h4, _⟩
    · exact Or.inl h
    · exact Or.inr ⟨s', p, h1, h2, h3, h4⟩
  unfold cmdPlay
  match args with
  | [] => exact key _ _
  | a0 :: rest => simp only [hc, Bool.false_eq_true, not_false_eq_true, if_true]; exact key _ _

/-- … and `connected` becomes true only by accepting a connection request, which also fixes the
    application name (one trailing '/' stripped when the request was received) -/
theorem C09_connected_by_accept (s : State) (now id : Nat) (app : Bytes) (tid : Nat)
    (h : mapGet id s.reqs = some (.connection app tid)) :
    (acceptRequest s now id).1.connected = true ∧ (acceptRequest s now id).1.app = some app := by
  unfold acceptRequest
  simp only [h]
  split
  · exact ⟨rfl, rfl⟩
  · rename_i s2 p hs
    obtain ⟨ser', rfl⟩ := send_ok hs
    exact ⟨rfl, rfl⟩

/-- FRESH IDS: a surfaced publish request carries the id `nextReq`, which is then consumed -/
theorem C09_fresh_id_publish (s s' : State) (now sid tid : Nat) (args : List Val) (id : Nat) (app key : Bytes)
    (mode : PublishMode) (h : cmdPublish s now sid tid args = .ok (s', [.ev (.publishRequested id app key mode)])) :
    id = s.nextReq ∧ s'.nextReq = s.nextReq + 1 ∧ mapGet id s'.reqs = some (.publish key mode sid) ∧ s.app = some app := by
  unfold cmdPublish at h
  have noEv : ∀ code desc, errorOut s now code desc tid sid ≠ .ok (s', [.ev (.publishRequested id app key mode)]) := by
    intro code desc hh
    rcases errorOut_shape s now code desc tid sid with ⟨e, he⟩ | ⟨s2, p, h1, _⟩
    · rw [he] at hh; simp at hh
    · rw [h1] at hh; simp at hh
  match args, h with
  | [], h => exact absurd h (noEv _ _)
  | [_], h => exact absurd h (noEv _ _)
  | a0 :: a1 :: _, h =>
    simp only at h
    split at h
    · exact absurd h (noEv _ _)
    · split at h
      · exact absurd h (noEv _ _)
      · rename_i app' happ
        split at h
        · split at h
          · split at h
            · split at h <;> simp at h
            · simp only [Except.ok.injEq, Prod.mk.injEq, List.cons.injEq, Res.ev.injEq, Event.publishRequested.injEq, and_true] at h
              obtain ⟨hs, hid, happ2, hkey, hmode⟩ := h
              subst hs hkey hmode
              refine ⟨hid.symm, rfl, ?_, by rw [happ, happ2]⟩
              rw [← hid]; exact mapGet_mapInsert_self _ _ _
          · exact absurd h (noEv _ _)
        · exact absurd h (noEv _ _)

/-- ACCEPT / REJECT EXACTLY ONCE: an id that is not outstanding (never issued, or already answered) is
    refused and NOTHING changes -/
theorem C09_unknown_id_refused (s : State) (now id : Nat) (code desc : Bytes) (h : mapGet id s.reqs = none) :
    acceptRequest s now id = (s, .error .invalidRequestId) ∧
    rejectRequest s now id code desc = (s, .error .invalidRequestId) := by
  unfold acceptRequest rejectRequest
  simp [h]

/-- … and answering an outstanding id consumes it, whatever else happens: it is not outstanding afterwards -/
theorem acceptRequest_reqs (s : State) (now id : Nat) :
    (acceptRequest s now id).1.reqs = mapRemove id s.reqs ∨ ((acceptRequest s now id).1 = s ∧ mapGet id s.reqs = none) := by
  unfold acceptRequest
  cases h : mapGet id s.reqs with
  | none => right; exact ⟨rfl, rfl⟩
  | some req =>
    left
    simp only
    cases req with
    | connection app tid =>
      simp only
      split
      · rfl
      · rename_i s2 p hs; obtain ⟨ser', rfl⟩ := send_ok hs; rfl
    | publish key mode sid =>
      simp only
      split
      · rfl
      · split
        · rfl
        · rename_i s2 p1 hs1
          obtain ⟨ser1, rfl⟩ := send_ok hs1
          split
          · rfl
          · rename_i s3 p2 hs2; obtain ⟨ser2, rfl⟩ := send_ok hs2; rfl
    | play key sid =>
      simp only
      split
      · rfl
      · split
        · rfl
        · rename_i s2 p1 hs1
          obtain ⟨ser1, rfl⟩ := send_ok hs1
          split
          · rfl
          · rename_i s3 p2 hs2
            obtain ⟨ser2, rfl⟩ := send_ok hs2
            split
            · rfl
            · rename_i s4 p3 hs3
              obtain ⟨ser3, rfl⟩ := send_ok hs3
              split
              · rfl
              · rename_i s5 p4 hs4
                obtain ⟨ser4, rfl⟩ := send_ok hs4
                split
                · rfl
                · rename_i s6 p5 hs5; obtain ⟨ser5, rfl⟩ := send_ok hs5; rfl

theorem C09_answer_consumes (s : State) (now id : Nat) (code desc : Bytes) :
    mapGet id (acceptRequest s now id).1.reqs = none ∧ mapGet id (rejectRequest s now id code desc).1.reqs = none := by
  constructor
  · rcases acceptRequest_reqs s now id with h | ⟨h1, h2⟩
    · rw [h]; exact mapGet_mapRemove_self id s.reqs
    · rw [h1]; exact h2
  · unfold rejectRequest
    cases h : mapGet id s.reqs with
    | none => simpa using h
    | some req =>
      simp only
      have hrm := mapGet_mapRemove_self id s.reqs
      unfold errorPacket
      split
      · simpa using hrm
      · rename_i s2 p hs; obtain ⟨ser', rfl⟩ := send_ok hs; simpa using hrm

/-- hence a second accept or reject of the same id is refused without side effects -/
theorem C09_second_answer_refused (s : State) (now now2 id : Nat) (code desc : Bytes) :
    acceptRequest (acceptRequest s now id).1 now2 id = ((acceptRequest s now id).1, .error .invalidRequestId) ∧
    rejectRequest (acceptRequest s now id).1 now2 id code desc = ((acceptRequest s now id).1, .error .invalidRequestId) :=
  C09_unknown_id_refused _ now2 id code desc (C09_answer_consumes s now id code desc).1

/-- CREATE STREAM: the new stream gets the id `nextStream`, never issued before, and the counter moves on -/
theorem C09_create_stream (s s' : State) (now tid : Nat) (rs : List Res) (h : cmdCreateStream s now tid = .ok (s', rs)) :
    s'.nextStream = s.nextStream + 1 ∧ mapGet s.nextStream s'.streams = some .created ∧ (∃ p, rs = [.out p]) ∧
    s'.reqs = s.reqs := by
  unfold cmdCreateStream at h
  simp only at h
  split at h
  · simp at h
  · rename_i s2 p hs
    obtain ⟨ser', rfl⟩ := send_ok hs
    simp only [Except.ok.injEq, Prod.mk.injEq] at h
    obtain ⟨h1, h2⟩ := h
    subst h1 h2
    exact ⟨rfl, mapGet_mapInsert_self _ _ _, ⟨p, rfl⟩, rfl⟩

/-- … and its `_result` answer carries the caller's transaction id and the new stream id, on message
    stream 0: the message handed to the serializer is exactly this one -/
theorem C09_create_stream_response (s : State) (now tid : Nat) :
    cmdCreateStream s now tid =
      match send { s with nextStream := s.nextStream + 1, streams := mapInsert s.nextStream .created s.streams }
          (.amf0Command (str "_result") tid .null [.number (F64.ofU32 s.nextStream)]) (epoch now) 0 with
      | .error e => .error e
      | .ok (s2, p) => .ok (s2, [.out p]) := rfl

/-- MEDIA EVENTS exactly for a stream that is currently publishing, tagged with that request's stream
    key and the accepted application name -/
theorem C09_media_iff_publishing (s : State) (video : Bool) (data : Bytes) (sid ts : Nat) :
    (handleMedia s video data sid ts ≠ [] ↔
      (s.connected = true ∧ ∃ app key mode, s.app = some app ∧ mapGet sid s.streams = some (.publishing key mode))) ∧
    (∀ app key mode, s.connected = true → s.app = some app → mapGet sid s.streams = some (.publishing key mode) →
      handleMedia s video data sid ts = [if video then .ev (.video app key data ts) else .ev (.audio app key data ts)]) := by
  unfold handleMedia publishingKey
  constructor
  · cases hc : s.connected <;> simp
    cases ha : s.app with
    | none => simp
    | some app =>
      simp only
      cases hg : mapGet sid s.streams with
      | none => simp
      | some st => cases st <;> simp <;> (cases video <;> simp)
  · intro app key mode hc ha hg
    simp [hc, ha, hg]
    cases video <;> simp

/-- the stream is publishing exactly after an accepted publish request on an existing stream … -/
theorem C09_accept_publish_sets_publishing (s : State) (now id sid : Nat) (key : Bytes) (mode : PublishMode) (st : StreamState)
    (h : mapGet id s.reqs = some (.publish key mode sid)) (hs : mapGet sid s.streams = some st) :
    mapGet sid (acceptRequest s now id).1.streams = some (.publishing key mode) := by
  unfold acceptRequest
  simp only [h, hs]
  split
  · exact mapGet_mapInsert_self _ _ _
  · rename_i s2 p1 hs1
    obtain ⟨ser1, rfl⟩ := send_ok hs1
    split
    · exact mapGet_mapInsert_self _ _ _
    · rename_i s3 p2 hs2; obtain ⟨ser2, rfl⟩ := send_ok hs2; exact mapGet_mapInsert_self _ _ _

/-- … and closing or deleting it raises exactly one matching finished event and ends the publishing
    state, so the event cannot be raised twice -/
theorem C09_finished_once (s : State) (sid : Nat) (app key : Bytes) (mode : PublishMode) (x : Nat) (rest : List Val)
    (delete : Bool) (hc : s.connected = true) (ha : s.app = some app)
    (hg : mapGet sid s.streams = some (.publishing key mode)) (hx : F64.toU32 x = sid) :
    (cmdCloseOrDelete s (.number x :: rest) delete).2 = [.ev (.publishFinished app key)] ∧
    publishingKey (cmdCloseOrDelete s (.number x :: rest) delete).1 sid = none ∧
    (cmdCloseOrDelete (cmdCloseOrDelete s (.number x :: rest) delete).1 (.number x :: rest) delete).2 = [] := by
  have h1 : cmdCloseOrDelete s (.number x :: rest) delete =
      ({ s with streams := if delete then mapRemove sid s.streams else mapInsert sid .created s.streams },
       [.ev (.publishFinished app key)]) := by
    unfold cmdCloseOrDelete
    simp [hc, ha, hx, hg, finishedEvents]
  rw [h1]
  refine ⟨rfl, ?_, ?_⟩
  · unfold publishingKey
    cases delete <;> simp [mapGet_mapRemove_self, mapGet_mapInsert_self]
  · unfold cmdCloseOrDelete
    cases delete <;> simp [hc, ha, hx, mapGet_mapRemove_self, mapGet_mapInsert_self, finishedEvents]

/-- PING: every ping request is answered by a ping response carrying the same timestamp: the message
    handed to the serializer is `PingResponse(ts)`, whose body is event code 7 and that timestamp -/
theorem C09_ping_echo (s : State) (now : Nat) (p : Msg) (a b : Option Nat) (t : Nat) :
    handleMessage s now p (.userControl .pingRequest a b (some t)) =
      (match send s (.userControl .pingResponse none none (some t)) (epoch now) 0 with
       | .error e => .error e
       | .ok (s', pk) => .ok (s', [.out pk])) ∧
    toPayload (.userControl .pingResponse none none (some t)) = .ok (4, [0, 7] ++ Bytes.be32 t) :=
  ⟨rfl, rfl⟩

end Rml.C09

namespace Rml.C09
open Rml Rml.Chunk Rml.Amf0 Rml.Msgs Rml.Sess Rml.Srv

/-- HISTORY INVARIANT: every outstanding request id is below the request counter and every active
    stream id is below the stream counter — so the id a new request / stream receives (the counter) has
    never been issued before, in any history -/
def Inv (s : State) : Prop := KeysBelow s.nextReq s.reqs ∧ KeysBelow s.nextStream s.streams

theorem inv_init (c : Config) (now : Nat) (s : State) (rs : List Res) (h : Srv.new c now = .ok (s, rs)) : Inv s := by
  unfold Srv.new at h
  simp only at h
  split at h
  · simp at h
  · simp at h
  · rename_i ser1 p1 _
    split at h
    · simp at h
    · rename_i s2 p2 hs2
      obtain ⟨ser2, rfl⟩ := send_ok hs2
      split at h
      · simp at h
      · rename_i s3 p3 hs3
        obtain ⟨ser3, rfl⟩ := send_ok hs3
        split at h
        · simp at h
        · rename_i s4 p4 hs4
          obtain ⟨ser4, rfl⟩ := send_ok hs4
          split at h
          · split at h
            · simp at h
            · rename_i s5 p5 hs5
              obtain ⟨ser5, rfl⟩ := send_ok hs5
              simp only [Except.ok.injEq, Prod.mk.injEq] at h
              rw [← h.1]; exact ⟨fun k _ => rfl, fun k _ => rfl⟩
          · simp only [Except.ok.injEq, Prod.mk.injEq] at h
            rw [← h.1]; exact ⟨fun k _ => rfl, fun k _ => rfl⟩

theorem inv_ser (s : State) (ser' : Ser.State) (h : Inv s) : Inv { s with ser := ser' } := h

theorem errorOut_inv (s s' : State) (now : Nat) (code desc : Bytes) (tid sid : Nat) (rs : List Res)
    (hi : Inv s) (h : errorOut s now code desc tid sid = .ok (s', rs)) : Inv s' := by
  unfold errorOut errorPacket at h
  split at h
  · simp at h
  · rename_i s2 p hs
    obtain ⟨ser', rfl⟩ := send_ok hs
    simp only [Except.ok.injEq, Prod.mk.injEq] at h
    rw [← h.1]; exact hi

theorem cmdPublish_inv (s s' : State) (now sid tid : Nat) (args : List Val) (rs : List Res)
    (hi : Inv s) (h : cmdPublish s now sid tid args = .ok (s', rs)) : Inv s' := by
  unfold cmdPublish at h
  match args, h with
  | [], h => exact errorOut_inv _ _ _ _ _ _ _ _ hi h
  | [_], h => exact errorOut_inv _ _ _ _ _ _ _ _ hi h
  | a0 :: a1 :: _, h =>
    simp only at h
    split at h
    · exact errorOut_inv _ _ _ _ _ _ _ _ hi h
    · split at h
      · exact errorOut_inv _ _ _ _ _ _ _ _ hi h
      · split at h
        · split at h
          · split at h
            · split at h
              · simp at h
              · rename_i s2 p hs
                obtain ⟨ser', rfl⟩ := send_ok hs
                simp only [Except.ok.injEq, Prod.mk.injEq] at h
                rw [← h.1]; exact hi
            · simp only [Except.ok.injEq, Prod.mk.injEq] at h
              rw [← h.1]; exact ⟨hi.1.insert _, hi.2⟩
          · exact errorOut_inv _ _ _ _ _ _ _ _ hi h
        · exact errorOut_inv _ _ _ _ _ _ _ _ hi h

theorem cmdPlay_inv (s s' : State) (now sid tid : Nat) (args : List Val) (rs : List Res)
    (hi : Inv s) (h : cmdPlay s now sid tid args = .ok (s', rs)) : Inv s' := by
  unfold cmdPlay at h
  match args, h with
  | [], h => exact errorOut_inv _ _ _ _ _ _ _ _ hi h
  | a0 :: rest, h =>
    simp only at h
    split at h
    · exact errorOut_inv _ _ _ _ _ _ _ _ hi h
    · split at h
      · exact errorOut_inv _ _ _ _ _ _ _ _ hi h
      · split at h
        · simp only [Except.ok.injEq, Prod.mk.injEq] at h
          rw [← h.1]; exact ⟨hi.1.insert _, hi.2⟩
        · exact errorOut_inv _ _ _ _ _ _ _ _ hi h

theorem cmdCloseOrDelete_inv (s : State) (args : List Val) (delete : Bool) (hi : Inv s) :
    Inv (cmdCloseOrDelete s args delete).1 := by
  unfold cmdCloseOrDelete
  cases hconn : s.connected
  · simpa using hi
  · simp only [Bool.not_eq_true, Bool.true_eq_false, if_false, not_true_eq_false]
    cases happ : s.app with
    | none => simpa using hi
    | some app =>
      simp only
      match args with
      | [] => simpa using hi
      | .number x :: rest =>
        simp only
        cases hg : mapGet (F64.toU32 x) s.streams with
        | none => simpa using hi
        | some st =>
          simp only
          have hlt : F64.toU32 x < s.nextStream := by
            apply Classical.byContradiction; intro hge
            have := hi.2 _ (Nat.le_of_not_lt hge)
            rw [this] at hg; simp at hg
          cases delete
          · exact ⟨hi.1, hi.2.update _ hlt _⟩
          · exact ⟨hi.1, hi.2.remove _⟩
      | .boolean _ :: _ => simpa using hi
      | .str _ :: _ => simpa using hi
      | .object _ :: _ => simpa using hi
      | .array _ :: _ => simpa using hi
      | .null :: _ => simpa using hi
      | .undefined :: _ => simpa using hi

theorem handleCommand_inv (s s' : State) (now sid : Nat) (name : Bytes) (tid : Nat) (obj : Val) (args : List Val)
    (rs : List Res) (hi : Inv s) (h : handleCommand s now sid name tid obj args = .ok (s', rs)) : Inv s' := by
  unfold handleCommand at h
  split at h
  · -- connect
    unfold cmdConnect at h
    (repeat' split at h)
    all_goals first
      | (simp at h; done)
      | (simp only [Except.ok.injEq, Prod.mk.injEq] at h; rw [← h.1]; exact ⟨hi.1.insert _, hi.2⟩)
  · split at h
    · simp only [Except.ok.injEq] at h
      have := cmdCloseOrDelete_inv s args false hi
      rw [h] at this; exact this
    · split at h
      · -- createStream
        unfold cmdCreateStream at h
        simp only at h
        split at h
        · simp at h
        · rename_i s2 p hs
          obtain ⟨ser', rfl⟩ := send_ok hs
          simp only [Except.ok.injEq, Prod.mk.injEq] at h
          rw [← h.1]; exact ⟨hi.1, hi.2.insert _⟩
      · split at h
        · simp only [Except.ok.injEq] at h
          have := cmdCloseOrDelete_inv s args true hi
          rw [h] at this; exact this
        · split at h
          · exact cmdPlay_inv _ _ _ _ _ _ _ hi h
          · split at h
            · exact cmdPublish_inv _ _ _ _ _ _ _ hi h
            · simp only [Except.ok.injEq, Prod.mk.injEq] at h; rw [← h.1]; exact hi

theorem handleMessage_inv (s s' : State) (now : Nat) (p : Msg) (m : RtmpMsg) (rs : List Res)
    (hi : Inv s) (h : handleMessage s now p m = .ok (s', rs)) : Inv s' := by
  unfold handleMessage at h
  cases m with
  | amf0Command name tid obj args => exact handleCommand_inv _ _ _ _ _ _ _ _ _ hi h
  | setChunkSize n =>
    simp only at h
    split at h
    · simp at h
    · simp only [Except.ok.injEq, Prod.mk.injEq] at h; rw [← h.1]; exact hi
  | userControl ev a b ts =>
    simp only at h
    cases ev <;> simp only at h
    all_goals first
      | (simp only [Except.ok.injEq, Prod.mk.injEq] at h; rw [← h.1]; exact hi)
      | (split at h
         · simp at h
         · rename_i s2 pk hs
           obtain ⟨ser', rfl⟩ := send_ok hs
           simp only [Except.ok.injEq, Prod.mk.injEq] at h
           rw [← h.1]; exact hi)
  | windowAck n => simp only [Except.ok.injEq, Prod.mk.injEq] at h; rw [← h.1]; exact hi
  | _ => simp only [Except.ok.injEq, Prod.mk.injEq] at h; rw [← h.1]; exact hi

theorem msgLoop_inv (f : Nat) : ∀ (s : State) (now : Nat) (acc : List Res), Inv s → Inv (msgLoop f s now acc).1 := by
  induction f with
  | zero => intro s now acc hi; exact hi
  | succ f ih =>
    intro s now acc hi
    simp only [msgLoop]
    have hi1 : Inv { s with des := { core := (Des.next s.des).core, buf := (Des.next s.des).buf } } := hi
    split
    · exact hi1
    · split
      · exact hi1
      · split
        · exact hi1
        · split
          · exact hi1
          · rename_i s2 rs hm
            exact ih s2 now _ (handleMessage_inv _ _ _ _ _ _ hi1 hm)

/-- the invariant survives every input call, whatever bytes arrive and whether or not the call fails -/
theorem C09_inv_handleInput (s : State) (now : Nat) (bytes : Bytes) (hi : Inv s) : Inv (handleInput s now bytes).1 := by
  unfold handleInput
  simp only
  split
  · exact msgLoop_inv _ _ _ _ hi
  · split
    · exact hi
    · rename_i s1 p hs
      obtain ⟨ser', rfl⟩ := send_ok hs
      exact msgLoop_inv _ _ _ _ hi

/-- … and every application call that answers a request -/
theorem C09_inv_accept (s : State) (now id : Nat) (hi : Inv s) : Inv (acceptRequest s now id).1 := by
  unfold acceptRequest
  split
  · exact hi
  · rename_i req hg
    have hrm : Inv { s with reqs := mapRemove id s.reqs } := ⟨hi.1.remove _, hi.2⟩
    cases req with
    | connection app tid =>
      simp only
      split
      · exact hrm
      · rename_i s2 p hs; obtain ⟨ser', rfl⟩ := send_ok hs; exact hrm
    | publish key mode sid =>
      simp only
      split
      · exact hrm
      · rename_i st hst
        have hlt : sid < s.nextStream := by
          apply Classical.byContradiction; intro hge
          have := hi.2 _ (Nat.le_of_not_lt hge)
          rw [this] at hst; simp at hst
        have h2 : Inv { s with reqs := mapRemove id s.reqs, streams := mapInsert sid (.publishing key mode) s.streams } :=
          ⟨hi.1.remove _, hi.2.update _ hlt _⟩
        split
        · exact h2
        · rename_i s2 p1 hs1
          obtain ⟨ser1, rfl⟩ := send_ok hs1
          split
          · exact h2
          · rename_i s3 p2 hs2; obtain ⟨ser2, rfl⟩ := send_ok hs2; exact h2
    | play key sid =>
      simp only
      split
      · exact hrm
      · rename_i st hst
        have hlt : sid < s.nextStream := by
          apply Classical.byContradiction; intro hge
          have := hi.2 _ (Nat.le_of_not_lt hge)
          rw [this] at hst; simp at hst
        have h2 : Inv { s with reqs := mapRemove id s.reqs, streams := mapInsert sid (.playing key) s.streams } :=
          ⟨hi.1.remove _, hi.2.update _ hlt _⟩
        split
        · exact h2
        · rename_i s2 p1 hs1
          obtain ⟨ser1, rfl⟩ := send_ok hs1
          split
          · exact h2
          · rename_i s3 p2 hs2
            obtain ⟨ser2, rfl⟩ := send_ok hs2
            split
            · exact h2
            · rename_i s4 p3 hs3
              obtain ⟨ser3, rfl⟩ := send_ok hs3
              split
              · exact h2
              · rename_i s5 p4 hs4
                obtain ⟨ser4, rfl⟩ := send_ok hs4
                split
                · exact h2
                · rename_i s6 p5 hs5; obtain ⟨ser5, rfl⟩ := send_ok hs5; exact h2

/-- FRESHNESS, for every history: in a state satisfying the invariant, the id the next surfaced request
    receives is not outstanding, and the id the next created stream receives is not an active stream -/
theorem C09_fresh_ids (s : State) (hi : Inv s) : mapGet s.nextReq s.reqs = none ∧ mapGet s.nextStream s.streams = none :=
  ⟨hi.1 _ (Nat.le_refl _), hi.2 _ (Nat.le_refl _)⟩

end Rml.C09
