/-
C12 — AMF0 wire format conforms to the specification in both directions.
The specification is the relation `Spec.Amf0.Encodes` (Rml/Spec/Amf0.lean), written from the AMF0
document and independent of the implementation.
-/
import Rml.Lemmas.Amf0Enc
import Rml.Lemmas.Amf0Dec
namespace Rml.C12
open Rml Rml.Amf0 Rml.Spec.Amf0

/-- encoder → specification: whatever `serialize` returns is a specification encoding of the values
    (markers 0,1,2,3,5,6,10; big-endian doubles; u16-prefixed UTF-8; pairs closed by 00 00 09; u32 count) -/
theorem C12_encode_spec (vs : List Val) (bs : Bytes) (wf : WFList vs) (h : encode vs = .ok bs) :
    EncodesList vs bs :=
  encList_spec 0 vs bs h wf

/-- specification → decoder: EVERY specification encoding — any property order, ECMA arrays with any
    count field, any non-zero byte for `true` — of values within the nesting limit is decoded,
    consuming everything, to the values it denotes. -/
theorem C12_decode_spec (vs : List Val) (bs : Bytes) (h : EncodesList vs bs) (wf : WFList vs)
    (hd : depthList vs ≤ maxDepth) : decodeRest bs = .ok (vs, []) := by
  simpa [decodeRest] using readAll_spec vs bs h wf (bs.length + 2) [] hd (Nat.le_refl _)

/-- the same for one value in the middle of a stream, at any nesting level -/
theorem C12_decode_spec_value (v : Val) (b rest : Bytes) (h : Encodes v b) (wf : v.WF) (d : Nat)
    (hd : d + v.depth ≤ maxDepth) :
    readValue (b.length + 1) d (b ++ rest) = .ok (some v, rest) :=
  readValue_spec v b h wf d _ rest hd (Nat.le_refl _)

/-- markers of unsupported types are reported as errors, wherever a value is expected
    (9 is the object-end sentinel and is handled as "no value", see DESIGN.md §9a reading 6) -/
theorem C12_unsupported (m : UInt8) (rest : Bytes) (f d : Nat)
    (hm : m ≠ 0 ∧ m ≠ 1 ∧ m ≠ 2 ∧ m ≠ 3 ∧ m ≠ 5 ∧ m ≠ 6 ∧ m ≠ 8 ∧ m ≠ 9 ∧ m ≠ 10) :
    readValue (f + 1) d (m :: rest) = .error (.unknownMarker m) := by
  obtain ⟨h0, h1, h2, h3, h5, h6, h8, h9, h10⟩ := hm
  simp [readValue, h0, h1, h2, h3, h5, h6, h8, h9, h10]

/-- … in particular at the top level of `deserialize` -/
theorem C12_unsupported_top (m : UInt8) (rest : Bytes)
    (hm : m ≠ 0 ∧ m ≠ 1 ∧ m ≠ 2 ∧ m ≠ 3 ∧ m ≠ 5 ∧ m ≠ 6 ∧ m ≠ 8 ∧ m ≠ 9 ∧ m ≠ 10) :
    decode (m :: rest) = .error (.unknownMarker m) := by
  simp [decode, decodeRest, readAll, C12_unsupported m rest _ 0 hm]

-- non-vacuity / the cases the property names explicitly -------------------------------------------
/-- a boolean encoded with a non-zero byte other than 1 is `true` -/
example : decode [1, 0xFF] = .ok [.boolean true] := by
  simp [decode, decodeRest, readAll, readValue, take1]
/-- an ECMA array with a wrong count field decodes as the object it denotes -/
example : decode [8, 0xFF, 0xFF, 0xFF, 0xFF, 0, 1, 97, 5, 0, 0, 9] = .ok [.object [([97], .null)]] := by
  simp [decode, decodeRest, readAll, readValue, take1, takeN, readProps, Bytes.beVal, insertProp, Utf8.valid, maxDepth]
example : Encodes (.object [([97], .null)]) [8, 0xFF, 0xFF, 0xFF, 0xFF, 0, 1, 97, 5, 0, 0, 9] :=
  Encodes.ecma _ [0xFF, 0xFF, 0xFF, 0xFF] _ rfl
    (EncodesProps.cons [97] .null [] [5] [] (by decide) (by decide) rfl Encodes.null EncodesProps.nil)
/-- marker 4 (MovieClip) is refused -/
example : decode [4, 0] = .error (.unknownMarker 4) := by
  simp [decode, decodeRest, readAll, readValue]

end Rml.C12
