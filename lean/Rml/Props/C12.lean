/-
C12 — AMF0 wire format conforms to the specification in both directions.
The specification is the relation `Spec.Amf0.Encodes` (Rml/Spec/Amf0.lean), written from the AMF0
document and independent of the implementation.
-/
import Rml.Lemmas.Amf0Enc
import Rml.Lemmas.Amf0Dec
import Rml.Lemmas.Amf0Trunc
namespace Rml.C12
open Rml Rml.Amf0 Rml.Spec.Amf0

/-- encoder → specification: whatever `serialize` returns is a specification encoding of the values
    (markers 0,1,2,3,5,6,10; big-endian doubles; u16-prefixed UTF-8; pairs closed by 00 00 09; u32 count) -/
theorem C12_encode_spec (vs : List Val) (bs : Bytes) (wf : WFList vs) (h : encode vs = .ok bs) :
    EncodesList vs bs :=
  encList_spec 0 vs bs h wf

/-- specification → decoder: EVERY specification encoding — any property order, ECMA arrays with any
    count field, any non-zero byte for `true` — of values within the nesting limit is decoded,
    consuming everything, to the values it denotes. -/
theorem C12_decode_spec (vs : List Val) (bs : Bytes) (h : EncodesList vs bs) (wf : WFList vs)
    (hd : depthList vs ≤ maxDepth) : decodeRest bs = .ok (vs, []) := by
  simpa [decodeRest] using readAll_spec vs bs h wf (bs.length + 2) [] hd (Nat.le_refl _)

/-- the same for one value in the middle of a stream, at any nesting level -/
theorem C12_decode_spec_value (v : Val) (b rest : Bytes) (h : Encodes v b) (wf : v.WF) (d : Nat)
    (hd : d + v.depth ≤ maxDepth) :
    readValue (b.length + 1) d (b ++ rest) = .ok (some v, rest) :=
  readValue_spec v b h wf d _ rest hd (Nat.le_refl _)

/-- markers of unsupported types are reported as errors, wherever a value is expected
    (9 is the object-end sentinel and is handled as "no value", see DESIGN.md §9a reading 6) -/
theorem C12_unsupported (m : UInt8) (rest : Bytes) (f d : Nat)
    (hm : m ≠ 0 ∧ m ≠ 1 ∧ m ≠ 2 ∧ m ≠ 3 ∧ m ≠ 5 ∧ m ≠ 6 ∧ m ≠ 8 ∧ m ≠ 9 ∧ m ≠ 10) :
    readValue (f + 1) d (m :: rest) = .error (.unknownMarker m) := by
  obtain ⟨h0, h1, h2, h3, h5, h6, h8, h9, h10⟩ := hm
  simp [readValue, h0, h1, h2, h3, h5, h6, h8, h9, h10]

/-- … in particular at the top level of `deserialize` -/
theorem C12_unsupported_top (m : UInt8) (rest : Bytes)
    (hm : m ≠ 0 ∧ m ≠ 1 ∧ m ≠ 2 ∧ m ≠ 3 ∧ m ≠ 5 ∧ m ≠ 6 ∧ m ≠ 8 ∧ m ≠ 9 ∧ m ≠ 10) :
    decode (m :: rest) = .error (.unknownMarker m) := by
  simp [decode, decodeRest, readAll, C12_unsupported m rest _ 0 hm]

-- non-vacuity / the cases the property names explicitly -------------------------------------------
/-- a boolean encoded with a non-zero byte other than 1 is `true` -/
example : decode [1, 0xFF] = .ok [.boolean true] := by
  simp [decode, decodeRest, readAll, readValue, take1]
/-- an ECMA array with a wrong count field decodes as the object it denotes -/
example : decode [8, 0xFF, 0xFF, 0xFF, 0xFF, 0, 1, 97, 5, 0, 0, 9] = .ok [.object [([97], .null)]] := by
  simp [decode, decodeRest, readAll, readValue, take1, takeN, readProps, Bytes.beVal, insertProp, Utf8.valid, maxDepth]
example : Encodes (.object [([97], .null)]) [8, 0xFF, 0xFF, 0xFF, 0xFF, 0, 1, 97, 5, 0, 0, 9] :=
  Encodes.ecma _ [0xFF, 0xFF, 0xFF, 0xFF] _ rfl
    (EncodesProps.cons [97] .null [] [5] [] (by decide) (by decide) rfl Encodes.null EncodesProps.nil)
/-- marker 4 (MovieClip) is refused -/
example : decode [4, 0] = .error (.unknownMarker 4) := by
  simp [decode, decodeRest, readAll, readValue]

/-- **truncation.**  For EVERY input the decoder reads completely (in particular every specification
    encoding, `C12_decode_spec`) and EVERY cut point `k`: the decoder either rejects the first `k`
    bytes or returns a *truncation prefix* of the full result — a list prefix whose last element may
    itself be a strict array cut short, recursively (`TPL`) — and has then consumed all `k` bytes, or it
    stopped at the same object-end marker as on the full input with the identical values.  It never
    returns a value that the full input does not contain at that position. -/
theorem C12_truncation (bs : Bytes) (k : Nat) (vs vs' : List Val) (r r' : Bytes)
    (hfull : decodeRest bs = .ok (vs, r)) (hcut : decodeRest (bs.take k) = .ok (vs', r')) :
    TPL vs' vs := by
  unfold decodeRest at hfull hcut
  have hsplit : bs = bs.take k ++ bs.drop k := (List.take_append_drop k bs).symm
  rw [hsplit] at hfull
  rcases readAll_trunc _ _ (bs.take k) (bs.drop k) [] vs' r' (vs, r) hcut (by rw [← hsplit] at hfull ⊢; exact hfull) with h | ⟨_, h⟩
  · simp only [Prod.mk.injEq] at h; rw [h.1]; exact TPL_refl _
  · exact h

/-- … instantiated at the encoder's own output -/
theorem C12_truncation_of_encoding (vs : List Val) (bs : Bytes) (wf : WFList vs) (henc : encode vs = .ok bs)
    (hd : depthList vs ≤ maxDepth) (k : Nat) (vs' : List Val) (r' : Bytes)
    (hcut : decodeRest (bs.take k) = .ok (vs', r')) : TPL vs' vs :=
  C12_truncation bs k vs vs' [] r' (C12_decode_spec vs bs (C12_encode_spec vs bs wf henc) wf hd) hcut

-- the relation is not trivial: a cut inside the second element of a top-level array
example : (match decodeRest ([10, 0, 0, 0, 2, 5, 2, 0, 1].take 6) with
          | .ok ([.array [.null]], []) => true
          | _ => false) = true ∧
    TPL [.array [.null]] [.array [.null, .str [65]]] ∧ ¬ TPL [.array [.undefined]] [.array [.null, .str [65]]] := by
  refine ⟨by decide +kernel, .last _ _ _ (.arr _ _ (.cons _ _ _ (.nil _))), ?_⟩
  intro h
  cases h with
  | last _ _ _ h1 =>
    cases h1 with
    | arr _ _ h2 =>
      cases h2 with
      | last _ _ _ h3 => cases h3

end Rml.C12
