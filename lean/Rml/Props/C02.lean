/-
C02 — client and server sessions interoperate: media arrives byte-exact and tagged.
STATUS.  Proved, for all inputs, the two media paths end to end and the transport they ride on:

* `C02_transport`: a serializer and the peer's deserializer that are in step (`Link.Linked`: the peer has
  consumed everything sent so far; true of two fresh sessions) stay in step over ANY well-formed
  emission of the sending session (everything a session does: C18), with ANY subset of the droppable
  packets omitted: the peer decodes exactly the messages of the delivered packets, no error, nothing left.
* `C02_publish_media`: client publishing on stream `sid`, server with that stream publishing under `key`
  in application `app`, in step.  ANY list of audio/video items (any bytes, any 32-bit timestamps, either
  flag), ANY droppable subset omitted: the server raises for exactly the delivered items, in order, one
  event each with the item's bytes and timestamp, tagged `app` and `key` — exactly once, nothing else.
* `C02_play_media`: the same from a sending server to a client whose playback is requested or running.
* under EVERY partition of the delivered bytes into input calls: `C15_server_session`, `C15_client_session`
  (acknowledgement packets aside: they are a function of the call sizes, C17, and raise only
  acknowledgement events at the peer).
* the per-session links: exact hand-over to the serializer, exact raising, chunk-size changes honoured,
  application name minus one trailing '/'.

* `C02_publish_workflow` / `C02_play_workflow`: a NEW client session and a NEW server session, ANY
  configurations the library accepts, ANY application name and stream key (valid UTF-8, key ≤ 65535
  bytes).  The two applications forward packets, accept what they are shown, and call
  `request_connection` then `request_publishing` / `request_playback`, each call with ANY clock reading
  (`clk i` for the i-th call, not even monotone).  Whatever those application
  calls return when they return Ok, EVERY `handle_input` in between succeeds and returns exactly the
  listed results (one connection request for the name minus one trailing '/', one publish / play
  request for that application and the requested key, "connection accepted", "publish accepted" /
  "playback accepted" — nothing else, nothing twice), and the pair ends in the state the media
  theorems start from (`PublishReady` / `PlayReady`), on stream 1.  Transaction ids and stream ids
  travel as AMF0 numbers: `F64.toU32_ofU32` (every u32 survives u32 → f64 → u32).
* `C02_publish_items`, `C02_play_items`: the media theorems restated on such a pair; the pair is ready
  again afterwards, so they iterate.  `C02_stop_publishing`, `C02_stop_playback`: stopping raises exactly
  the matching finished event at the server.
  (The workflow's conclusion is the hypothesis of the items and stop theorems, so the three chain.)

Schedule.  The workflow is request/response, so the only freedom a schedule has is how each direction's
bytes are cut into calls and when acknowledgements are sent.  The theorems deliver each hop's bytes in
one `drain`; `C15_server_session_partition` / `C15_client_session_partition` extend each successful hop to
ANY partition into any number of calls.  Through the real entry point: `C02_publish_workflow_in`,
`C02_play_workflow_in`, `C02_publish_items_in`, `C02_play_items_in`, `C02_publish_metadata_in`,
`C02_play_metadata_in`, `C02_stop_publishing_in`, `C02_stop_playback_in` are the same theorems with every
delivery made by `handle_input`, acknowledgements included: each call may send one acknowledgement (C17
says when) — first in its results, it changes only the sender's serializer — the application forwards it
with the other packets, and the call that receives it raises its event before anything else and is
otherwise unaffected (`C02_ack_changes_nothing`); apart from those packets and events the results are
exactly the ones above, for ANY window sizes.  The invariant behind them (`AckFlow.InStepP`: in step up to
what each side has emitted and the application has not yet delivered) is kept by EVERY action of every
schedule at packet granularity: an emission on either side (`InStepP.client_emits`, `server_emits`) and the
delivery, in either direction, of ANY prefix of what is pending (`C02_deliver_any_prefix_*`: the application
may hold packets back); byte granularity is C15.  NOT a theorem: the workflow's *events* under schedules
other than the request/response one (the `interop` family runs random interleavings on the real code).  Omitted droppable packets at `handle_input` level:
`C02_publish_items_in_mask`, `C02_play_items_in_mask` (acknowledgements travel first and are kept; of the
item packets ANY subset of the droppable ones is left out; exactly the delivered items are raised).  Metadata items: `C02_publish_metadata_item`,
`C02_play_metadata_item` — exactly one metadata event carrying the sender's metadata, for every metadata
the Rust type can hold except a frame rate that is a signalling NaN (which `as f64 as f32` quiets, as the
hardware does): `C02_metadata_trip`, through `F64.toU32_ofU32` and `F64.toF32_ofF32`.  The model fixes one
enumeration order for each AMF0 object the sessions build; the real `HashMap` order is arbitrary; the
readers of command and status objects look properties up by name, which gives the same answer in every
permutation (`C02_lookup_any_order`, `C02_connect_any_order`; C04 holds for every order); the metadata
reader folds over the map, and properties with different names update different fields, so it too gives
the same metadata for every order (`C02_metadata_any_order`).  The composition is also decided
on the implementation by the `interop` family: real ClientSession ↔ real ServerSession under seeded
random fragmentation, interleaving and configurations.
-/
import Rml.Props.C09
import Rml.Props.C10
import Rml.Lemmas.Interop
import Rml.Props.C15
import Rml.Lemmas.Workflow
import Rml.Lemmas.WfMeta
import Rml.Lemmas.AckHop
import Rml.Lemmas.Order
import Rml.Lemmas.MetaOrder
import Rml.Lemmas.AckFlow
import Rml.Lemmas.AckDrop
namespace Rml.C02
open Rml Rml.Chunk Rml.Amf0 Rml.Msgs Rml.Sess

/-- the publishing client hands the serializer exactly the application's bytes and timestamp, on the active stream -/
theorem C02_client_sends_exact (s : Cli.State) (video : Bool) (data : Bytes) (ts sid : Nat) (drop : Bool)
    (hs : s.st = .publishing) (ha : s.activeStream = some sid) :
    Cli.publishMedia s video data ts drop =
      match Cli.send s (if video then .video data else .audio data) ts sid drop with
      | .error e => (s, .error e)
      | .ok (s', p) => (s', .ok (.out p)) := by
  unfold Cli.publishMedia Cli.publishGuard
  simp only [hs, ha, ne_eq, not_true_eq_false, if_false]
  cases Cli.send s (if video then .video data else .audio data) ts sid drop with
  | error e => rfl
  | ok r => rfl

/-- … and the body of that message is the bytes themselves (type 9 / 8) -/
theorem C02_media_body (data : Bytes) : toPayload (.video data) = .ok (9, data) ∧ toPayload (.audio data) = .ok (8, data) ∧
    fromPayload 9 data = .ok (.video data) ∧ fromPayload 8 data = .ok (.audio data) := by
  refine ⟨rfl, rfl, by simp [fromPayload], by simp [fromPayload]⟩

/-- the server raises exactly the decoded bytes and timestamp of a media message on a publishing stream,
    tagged with the stream key of the accepted publish request and the accepted application name -/
theorem C02_server_raises_exact (s : Srv.State) (now : Nat) (p : Msg) (data : Bytes) (app key : Bytes) (mode : Srv.PublishMode)
    (hc : s.connected = true) (ha : s.app = some app) (hp : mapGet p.msid s.streams = some (.publishing key mode)) :
    Srv.handleMessage s now p (.video data) = .ok (s, [.ev (.video app key data p.ts)]) ∧
    Srv.handleMessage s now p (.audio data) = .ok (s, [.ev (.audio app key data p.ts)]) := by
  have h := (C09.C09_media_iff_publishing s true data p.msid p.ts).2 app key mode hc ha hp
  have h' := (C09.C09_media_iff_publishing s false data p.msid p.ts).2 app key mode hc ha hp
  simp only [if_true] at h
  simp only [Bool.false_eq_true, if_false] at h'
  exact ⟨by simp [Srv.handleMessage, h], by simp [Srv.handleMessage, h']⟩

/-- the playing client raises exactly the decoded bytes and timestamp of a media message on its active stream -/
theorem C02_client_raises_exact (s : Cli.State) (now : Nat) (p : Msg) (data : Bytes)
    (hs : s.st = .playing ∨ s.st = .playRequested) (ha : s.activeStream = some p.msid) :
    (Cli.handleMessage s now p (.video data)).2 = .ok [.ev (.video p.ts data)] ∧
    (Cli.handleMessage s now p (.audio data)).2 = .ok [.ev (.audio p.ts data)] := by
  have hst : ¬ (s.st ≠ .playRequested ∧ s.st ≠ .playing) := by
    rcases hs with h | h <;> simp [h]
  constructor <;> simp [Cli.handleMessage, Cli.handleMedia, hst, ha]

/-- the server sends exactly the application's bytes and timestamp on the stream it names -/
theorem C02_server_sends_exact (s : Srv.State) (video : Bool) (sid : Nat) (data : Bytes) (ts : Nat) (drop : Bool) :
    Srv.sendMedia s video sid data ts drop =
      match Srv.send s (if video then .video data else .audio data) ts sid false drop with
      | .error e => (s, .error e)
      | .ok (s', p) => (s', .ok p) := rfl

/-- both sessions honour every decoded chunk-size change: the deserializer uses the announced size for
    the chunks that follow -/
theorem C02_honours_chunk_size (n : Nat) (hn : 1 ≤ n ∧ n ≤ 2147483647) (now : Nat) (p : Msg) :
    (∀ s : Srv.State, ∃ s', Srv.handleMessage s now p (.setChunkSize n) = .ok (s', []) ∧ s'.des.core.maxCs = n ∧ s'.des.buf = s.des.buf) ∧
    (∀ s : Cli.State, (Cli.handleMessage s now p (.setChunkSize n)).2 = .ok [] ∧
      (Cli.handleMessage s now p (.setChunkSize n)).1.des.core.maxCs = n) := by
  have hv : ¬ (n = 0 ∨ n > maxChunkSize) := by simp only [maxChunkSize]; omega
  constructor
  · intro s
    simp only [Srv.handleMessage, Des.setMaxChunkSize, hv, if_false]
    exact ⟨_, rfl, rfl, rfl⟩
  · intro s
    simp [Cli.handleMessage, Des.setMaxChunkSize, hv]

/-- the application name events are tagged with is the requested one minus exactly one trailing '/' -/
theorem C02_app_name_normalised (s s' : Srv.State) (tid : Nat) (props : List (Bytes × Val)) (app : Bytes) (rs : List Srv.Res)
    (ha : propGet (str "app") props = some (.str app)) (h : Srv.cmdConnect s tid (.object props) = .ok (s', rs)) :
    rs = [.ev (.connectionRequested s.nextReq (if app.getLast? = some 47 then app.dropLast else app))] := by
  unfold Srv.cmdConnect at h
  simp only [ha, Except.ok.injEq, Prod.mk.injEq] at h
  exact h.2.symm

/-- **transport.**  In step before, any well-formed emission, any droppable subset omitted: decoded
    exactly, in step after. -/
theorem C02_transport (ser ser' : Ser.State) (des : Des.State) (xs : List (Ser.Packet × Msg))
    (hl : Link.Linked ser des) (he : Emit.Emits ser ser' xs) (mask : List Bool) :
    ∃ c', Des.feed des (SerHist.wire (SerHist.keepSel mask xs)) =
        { core := c', buf := [], msgs := SerHist.msgs (SerHist.keepSel mask xs), err := none } ∧
      Link.Linked ser' { core := c', buf := [] } :=
  Link.linked_emits hl he mask

/-- two fresh sessions are in step, in both directions (the client sends nothing at construction) -/
theorem C02_fresh_in_step (cfg : Cli.Config) : Link.Linked ({ cfg := cfg } : Cli.State).ser ({} : Srv.State).des :=
  Link.linked_init

/-- **publishing path** (statement and proof: Lemmas/Interop.lean) -/
theorem C02_publish_media (c c' : Cli.State) (v : Srv.State) (items : List Interop.Item) (ps : List Ser.Packet)
    (sid now : Nat) (app key : Bytes) (mode : Srv.PublishMode) (mask : List Bool)
    (hs : c.st = .publishing) (ha : c.activeStream = some sid) (hsid : sid < 4294967296)
    (hts : ∀ it ∈ items, it.ts < 4294967296)
    (hvc : v.connected = true) (hva : v.app = some app) (hvs : mapGet sid v.streams = some (.publishing key mode))
    (hlink : Link.Linked c.ser v.des) (hpub : Interop.publishAll c items = some (c', ps)) :
    let kept := SerHist.keepSel mask (ps.zip (items.map (Interop.Item.msg sid)))
    ∃ core', SrvPart.drain v now (SerHist.wire kept) =
        ({ v with des := { core := core', buf := [] } }, .ok ((SerHist.msgs kept).flatMap (Interop.evOf app key))) ∧
      Link.Linked c'.ser { core := core', buf := [] } :=
  Interop.publish_media c c' v items ps sid now app key mode mask hs ha hsid hts hvc hva hvs hlink hpub

/-- **playing path** -/
theorem C02_play_media (v v' : Srv.State) (c : Cli.State) (items : List Interop.Item) (ps : List Ser.Packet)
    (sid now : Nat) (mask : List Bool)
    (hs : c.st = .playing ∨ c.st = .playRequested) (ha : c.activeStream = some sid) (hsid : sid < 4294967296)
    (hts : ∀ it ∈ items, it.ts < 4294967296)
    (hlink : Link.Linked v.ser c.des) (hsend : Interop.sendAll v sid items = some (v', ps)) :
    let kept := SerHist.keepSel mask (ps.zip (items.map (Interop.Item.msg sid)))
    ∃ core', CliPart.drain c now (SerHist.wire kept) =
        ({ c with des := { core := core', buf := [] } }, .ok ((SerHist.msgs kept).flatMap Interop.evOfC)) ∧
      Link.Linked v'.ser { core := core', buf := [] } :=
  Interop.play_media v v' c items ps sid now mask hs ha hsid hts hlink hsend

-- non-vacuity of the publishing path: a state pair that meets every hypothesis, and two items
example :
    let c : Cli.State := { cfg := { flashVersion := [], bufferLengthMs := 0, windowAckSize := 0, chunkSize := 128, tcUrl := none },
                           st := .publishing, activeStream := some 1 }
    (Interop.publishAll c [{ video := true, data := [1, 2], ts := 5, drop := false },
                           { video := false, data := [3], ts := 9, drop := true }]).isSome = true := by
  decide +kernel

/-! ### the workflow between two new sessions -/
open Rml.Workflow Rml.WfSteps

/-- **connect then publish completes on both sides** (statement and proof: Lemmas/Workflow.lean) -/
theorem C02_publish_workflow (ccfg : Cli.Config) (scfg : Srv.Config) (clk : Nat → Nat) (app key : Bytes) (t : Cli.PublishType)
    (hcw : CfgWF ccfg) (hco : CfgOK ccfg) (hsw : SCfgWF scfg)
    (happ : Utf8.valid app = true) (hkey : Utf8.valid key = true) (hkl : key.length ≤ 65535)
    {v0 : Srv.State} {rs0 : List Srv.Res} (hnew : Srv.new scfg (clk 0) = .ok (v0, rs0)) :
    ∃ c1 b4, CliPart.drain ({ cfg := ccfg } : Cli.State) (clk 1) (bytesS rs0) = (c1, .ok (bannerEvents scfg (clk 0) b4)) ∧
    ∀ c2 r1, Cli.requestConnection c1 (clk 2) app = (c2, .ok r1) →
    ∃ p1 v1, r1 = .out p1 ∧
      SrvPart.drain v0 (clk 3) p1.bytes = (v1, .ok [.ev (.connectionRequested 0 (trimApp app))]) ∧
    ∀ v2 rs2, Srv.acceptRequest v1 (clk 4) 0 = (v2, .ok rs2) →
    ∃ p2 c3 pa pb v3, rs2 = [.out p2] ∧
      CliPart.drain c2 (clk 5) p2.bytes = (c3, .ok [.out pa, .ev .connectionAccepted, .out pb]) ∧
      SrvPart.drain v2 (clk 6) (pa.bytes ++ pb.bytes) = (v3, .ok []) ∧
    ∀ c4 r3, Cli.requestStream c3 (clk 7) (.publish key t) = (c4, .ok r3) →
    ∃ p3 v4 p4 c5 p5 v5, r3 = .out p3 ∧
      SrvPart.drain v3 (clk 8) p3.bytes = (v4, .ok [.out p4]) ∧
      CliPart.drain c4 (clk 9) p4.bytes = (c5, .ok [.out p5]) ∧
      SrvPart.drain v4 (clk 10) p5.bytes = (v5, .ok [.ev (.publishRequested 1 (trimApp app) key (modeOf t))]) ∧
    ∀ v6 rs6, Srv.acceptRequest v5 (clk 11) 1 = (v6, .ok rs6) →
    ∃ p6 p7 c6, rs6 = [.out p6, .out p7] ∧
      CliPart.drain c5 (clk 12) (p6.bytes ++ p7.bytes) = (c6, .ok [.ev .publishAccepted]) ∧
      PublishReady c6 v6 1 (trimApp app) key (modeOf t) :=
  publish_workflow ccfg scfg clk app key t hcw hco hsw happ hkey hkl hnew

/-- **connect then play completes on both sides** -/
theorem C02_play_workflow (ccfg : Cli.Config) (scfg : Srv.Config) (clk : Nat → Nat) (app key : Bytes)
    (hcw : CfgWF ccfg) (hco : CfgOK ccfg) (hbuf : ccfg.bufferLengthMs < 4294967296) (hsw : SCfgWF scfg)
    (happ : Utf8.valid app = true) (hkey : Utf8.valid key = true) (hkl : key.length ≤ 65535)
    {v0 : Srv.State} {rs0 : List Srv.Res} (hnew : Srv.new scfg (clk 0) = .ok (v0, rs0)) :
    ∃ c1 b4, CliPart.drain ({ cfg := ccfg } : Cli.State) (clk 1) (bytesS rs0) = (c1, .ok (bannerEvents scfg (clk 0) b4)) ∧
    ∀ c2 r1, Cli.requestConnection c1 (clk 2) app = (c2, .ok r1) →
    ∃ p1 v1, r1 = .out p1 ∧
      SrvPart.drain v0 (clk 3) p1.bytes = (v1, .ok [.ev (.connectionRequested 0 (trimApp app))]) ∧
    ∀ v2 rs2, Srv.acceptRequest v1 (clk 4) 0 = (v2, .ok rs2) →
    ∃ p2 c3 pa pb v3, rs2 = [.out p2] ∧
      CliPart.drain c2 (clk 5) p2.bytes = (c3, .ok [.out pa, .ev .connectionAccepted, .out pb]) ∧
      SrvPart.drain v2 (clk 6) (pa.bytes ++ pb.bytes) = (v3, .ok []) ∧
    ∀ c4 r3, Cli.requestStream c3 (clk 7) (.play key) = (c4, .ok r3) →
    ∃ p3 v4 p4 c5 p5 p6 v5, r3 = .out p3 ∧
      SrvPart.drain v3 (clk 8) p3.bytes = (v4, .ok [.out p4]) ∧
      CliPart.drain c4 (clk 9) p4.bytes = (c5, .ok [.out p5, .out p6]) ∧
      SrvPart.drain v4 (clk 10) (p5.bytes ++ p6.bytes) =
        (v5, .ok [.ev (.playRequested 1 (trimApp app) key .liveOrRecorded none false 1)]) ∧
    ∀ v6 rs6, Srv.acceptRequest v5 (clk 11) 1 = (v6, .ok rs6) →
    ∃ c6, CliPart.drain c5 (clk 12) (bytesS rs6) =
        (c6, .ok [.ev (.unhandleableOnStatus (str "NetStream.Play.Reset")), .ev .playbackAccepted]) ∧
      PlayReady c6 v6 1 (trimApp app) key :=
  play_workflow ccfg scfg clk app key hcw hco hbuf hsw happ hkey hkl hnew

/-- media on a publishing pair; ready again afterwards -/
theorem C02_publish_items {c c' : Cli.State} {v : Srv.State} {sid : Nat} {app key : Bytes} {mode : Srv.PublishMode}
    (hr : PublishReady c v sid app key mode) (items : List Interop.Item) (ps : List Ser.Packet) (now : Nat) (mask : List Bool)
    (hts : ∀ it ∈ items, it.ts < 4294967296) (hpub : Interop.publishAll c items = some (c', ps)) :
    let kept := SerHist.keepSel mask (ps.zip (items.map (Interop.Item.msg sid)))
    ∃ v', SrvPart.drain v now (SerHist.wire kept) = (v', .ok ((SerHist.msgs kept).flatMap (Interop.evOf app key))) ∧
      PublishReady c' v' sid app key mode :=
  publish_items hr items ps now mask hts hpub

theorem C02_play_items {c : Cli.State} {v v' : Srv.State} {sid : Nat} {app key : Bytes}
    (hr : PlayReady c v sid app key) (items : List Interop.Item) (ps : List Ser.Packet) (now : Nat) (mask : List Bool)
    (hts : ∀ it ∈ items, it.ts < 4294967296) (hsend : Interop.sendAll v sid items = some (v', ps)) :
    let kept := SerHist.keepSel mask (ps.zip (items.map (Interop.Item.msg sid)))
    ∃ c', CliPart.drain c now (SerHist.wire kept) = (c', .ok ((SerHist.msgs kept).flatMap Interop.evOfC)) ∧
      PlayReady c' v' sid app key :=
  play_items hr items ps now mask hts hsend

/-- stopping raises exactly the matching finished event at the server -/
theorem C02_stop_publishing {c c1 : Cli.State} {v : Srv.State} {sid : Nat} {app key : Bytes} {mode : Srv.PublishMode}
    {n1 n2 : Nat} {rs : List Cli.Res}
    (hr : PublishReady c v sid app key mode) (h : Cli.stop c n1 false = (c1, .ok rs)) :
    ∃ p v1, rs = [.out p] ∧ SrvPart.drain v n2 p.bytes = (v1, .ok [.ev (.publishFinished app key)]) ∧
      InStep c1 v1 ∧ c1.st = .connected ∧ c1.activeStream = none ∧ mapGet sid v1.streams = none :=
  stop_publishing hr h

theorem C02_stop_playback {c c1 : Cli.State} {v : Srv.State} {sid : Nat} {app key : Bytes} {n1 n2 : Nat} {rs : List Cli.Res}
    (hr : PlayReady c v sid app key) (h : Cli.stop c n1 true = (c1, .ok rs)) :
    ∃ p v1, rs = [.out p] ∧ SrvPart.drain v n2 p.bytes = (v1, .ok [.ev (.playFinished app key)]) ∧
      InStep c1 v1 ∧ c1.st = .connected ∧ c1.activeStream = none ∧ mapGet sid v1.streams = none :=
  stop_playback hr h

/-! non-vacuity: the whole publish scenario executed on the model — every application call returns Ok,
    every result is the listed one, two items arrive, the stop raises "publish finished" -/
def demoC : Cli.Config := { flashVersion := str "v", bufferLengthMs := 100, windowAckSize := 5000, chunkSize := 64, tcUrl := some (str "u") }
def demoS : Srv.Config := { fmsVersion := str "f", chunkSize := 50, peerBandwidth := 7, windowAckSize := 9000, sendOnBwDone := true }

def bytesOfC (rs : List Cli.Res) : Bytes := ((CliEmit.outs rs).map (·.bytes)).flatten

def demoRun : Option (List Srv.Res) :=
  match Srv.new demoS 5 with
  | .error _ => none
  | .ok (v0, rs0) =>
  match CliPart.drain ({ cfg := demoC } : Cli.State) 5 (bytesS rs0) with
  | (_, .error _) => none
  | (c1, .ok _) =>
  match Cli.requestConnection c1 6 (str "live/") with
  | (_, .error _) => none
  | (c2, .ok r1) =>
  match SrvPart.drain v0 7 (bytesOfC [r1]) with
  | (_, .error _) => none
  | (v1, .ok _) =>
  match Srv.acceptRequest v1 8 0 with
  | (_, .error _) => none
  | (v2, .ok rs2) =>
  match CliPart.drain c2 9 (bytesS rs2) with
  | (_, .error _) => none
  | (c3, .ok rs3) =>
  match SrvPart.drain v2 10 (bytesOfC rs3) with
  | (_, .error _) => none
  | (v3, .ok _) =>
  match Cli.requestStream c3 11 (.publish (str "key") .live) with
  | (_, .error _) => none
  | (c4, .ok r3) =>
  match SrvPart.drain v3 12 (bytesOfC [r3]) with
  | (_, .error _) => none
  | (v4, .ok rs4) =>
  match CliPart.drain c4 13 (bytesS rs4) with
  | (_, .error _) => none
  | (c5, .ok rs5) =>
  match SrvPart.drain v4 14 (bytesOfC rs5) with
  | (_, .error _) => none
  | (v5, .ok _) =>
  match Srv.acceptRequest v5 15 1 with
  | (_, .error _) => none
  | (v6, .ok rs6) =>
  match CliPart.drain c5 16 (bytesS rs6) with
  | (_, .error _) => none
  | (c6, .ok _) =>
  match Interop.publishAll c6 [{ video := true, data := List.replicate 150 7, ts := 40, drop := false },
                               { video := false, data := [3], ts := 49, drop := true }] with
  | none => none
  | some (c7, ps) =>
  match SrvPart.drain v6 17 ((ps.map (·.bytes)).flatten) with
  | (_, .error _) => none
  | (v7, .ok evs) =>
  match Cli.stop c7 18 false with
  | (_, .error _) => none
  | (_, .ok rs8) =>
  match SrvPart.drain v7 19 (bytesOfC rs8) with
  | (_, .error _) => none
  | (_, .ok fin) => some (evs ++ fin)

def isDemoResult : Option (List Srv.Res) → Bool
  | some [.ev (.video a k d 40), .ev (.audio a2 k2 [3] 49), .ev (.publishFinished a3 k3)] =>
    a == str "live" && k == str "key" && d == List.replicate 150 7 && a2 == str "live" && k2 == str "key" &&
      a3 == str "live" && k3 == str "key"
  | _ => false

example : isDemoResult demoRun = true := by decide +kernel

/-! ### metadata items -/
open Rml.Meta

/-- what `apply_metadata_values` reads back from the property map `publish_metadata` / `send_metadata` build -/
theorem C02_metadata_trip (m : Metadata) (hw : MetaWF m) : applyMetadata (metadataProps m) = m :=
  applyMetadata_metadataProps m hw

theorem C02_publish_metadata_item {c c1 : Cli.State} {v : Srv.State} {sid : Nat} {app key : Bytes} {mode : Srv.PublishMode}
    {n1 n2 : Nat} {m : Metadata} {r : Cli.Res}
    (hr : PublishReady c v sid app key mode) (hw : MetaWF' m) (h : Cli.publishMetadata c n1 m = (c1, .ok r)) :
    ∃ p v1, r = .out p ∧ SrvPart.drain v n2 p.bytes = (v1, .ok [.ev (.metadataChanged app key m)]) ∧
      PublishReady c1 v1 sid app key mode :=
  publish_metadata_item hr hw h

theorem C02_play_metadata_item {c : Cli.State} {v v1 : Srv.State} {sid : Nat} {app key : Bytes}
    {n1 n2 : Nat} {m : Metadata} {p : Ser.Packet}
    (hr : PlayReady c v sid app key) (hw : MetaWF' m) (h : Srv.sendMetadata v n1 sid m = (v1, .ok p)) :
    ∃ c1, CliPart.drain c n2 p.bytes = (c1, .ok [.ev (.metadata m)]) ∧ PlayReady c1 v1 sid app key :=
  play_metadata_item hr hw h

-- non-vacuity: a metadata value with every kind of field set meets `MetaWF'`
example : MetaWF' { videoWidth := some 1920, videoFrameRate := some 0x41F00000, audioIsStereo := some true, encoder := some (str "x") } := by
  refine ⟨⟨?_, ?_, ?_, ?_, ?_, ?_, ?_, ?_, ?_⟩, ?_⟩ <;> intro x h <;> simp at h
  · omega
  · subst h; exact ⟨by decide, Or.inl (by decide)⟩
  · subst h; decide

/-! ### acknowledgements, enumeration order -/

/-- one hop through the real entry point, server receiving (statement: Lemmas/AckHop.lean) -/
theorem C02_server_input_hop {ser ser' : Ser.State} {v : Srv.State} {xs : List (Ser.Packet × Msg)} (now : Nat)
    (hl : Link.Linked ser v.des) (he : Emit.Emits ser ser' xs) :
    (∀ since', ackStep v.window v.since (SerHist.wire xs).length = (since', none) →
      ∀ sF rs, SrvSteps.steps { v with since := since' } now (SerHist.msgs xs) = .ok (sF, rs) →
      ∃ core', Srv.handleInput v now (SerHist.wire xs) = ({ sF with des := { core := core', buf := [] } }, .ok rs) ∧
        Link.Linked ser' { core := core', buf := [] }) ∧
    (∀ since' n, ackStep v.window v.since (SerHist.wire xs).length = (since', some n) →
      ∀ v1 p sF rs, Srv.send v (.ack n) (epoch now) 0 = .ok (v1, p) →
      SrvSteps.steps { v1 with since := since' } now (SerHist.msgs xs) = .ok (sF, rs) →
      ∃ core', Srv.handleInput v now (SerHist.wire xs) = ({ sF with des := { core := core', buf := [] } }, .ok (.out p :: rs)) ∧
        Link.Linked ser' { core := core', buf := [] } ∧ Emit.Emits v.ser v1.ser [(p, AckHop.ackMsg n now)]) :=
  AckHop.srv_input_hop now hl he

theorem C02_client_input_hop {ser ser' : Ser.State} {c : Cli.State} {xs : List (Ser.Packet × Msg)} (now : Nat)
    (hl : Link.Linked ser c.des) (he : Emit.Emits ser ser' xs) :
    (∀ since', ackStep c.window c.since (SerHist.wire xs).length = (since', none) →
      ∀ sF rs, CliSteps.steps { c with since := since' } now (SerHist.msgs xs) = .ok (sF, rs) →
      ∃ core', Cli.handleInput c now (SerHist.wire xs) = ({ sF with des := { core := core', buf := [] } }, .ok rs) ∧
        Link.Linked ser' { core := core', buf := [] }) ∧
    (∀ since' n, ackStep c.window c.since (SerHist.wire xs).length = (since', some n) →
      ∀ c1 p sF rs, Cli.send c (.ack n) (epoch now) 0 = .ok (c1, p) →
      CliSteps.steps { c1 with since := since' } now (SerHist.msgs xs) = .ok (sF, rs) →
      ∃ core', Cli.handleInput c now (SerHist.wire xs) = ({ sF with des := { core := core', buf := [] } }, .ok (.out p :: rs)) ∧
        Link.Linked ser' { core := core', buf := [] } ∧ Emit.Emits c.ser c1.ser [(p, AckHop.ackMsg n now)]) :=
  AckHop.cli_input_hop now hl he

/-- an acknowledgement delivered to either session raises its event and changes nothing -/
theorem C02_ack_changes_nothing (v : Srv.State) (c : Cli.State) (now n ts msid : Nat) (h : n < 4294967296) :
    SrvSteps.stepMsg v now { ts := ts, typ := 3, msid := msid, data := Bytes.be32 n } = .ok (v, [.ev (.ackReceived n)]) ∧
    CliSteps.stepMsg c now { ts := ts, typ := 3, msid := msid, data := Bytes.be32 n } = .ok (c, [.ev (.ackReceived n)]) :=
  ⟨AckHop.srv_step_ack v now n ts msid h, AckHop.cli_step_ack c now n ts msid h⟩

/-- a lookup by name gives the same answer in every enumeration order of a map with distinct names -/
theorem C02_lookup_any_order {l l' : List (Bytes × Val)} (hp : l.Perm l') (hn : (l.map Prod.fst).Nodup) (k : Bytes) :
    propGet k l' = propGet k l :=
  Order.propGet_perm hp hn k

/-- the server's handling of `connect` does not depend on the order the client enumerates the command object in -/
theorem C02_connect_any_order (v : Srv.State) (tid : Nat) (cfg : Cli.Config) (app : Bytes) (props : List (Bytes × Val))
    (hp : (connectProps cfg app).Perm props) :
    Srv.cmdConnect v tid (.object props) = Srv.cmdConnect v tid (.object (connectProps cfg app)) :=
  Order.srv_connect_any_order v tid cfg app props hp

/-- the metadata reader gives the same metadata for every enumeration order of a map with distinct names -/
theorem C02_metadata_any_order {l l' : List (Bytes × Val)} (hp : l.Perm l') (hn : (l.map Prod.fst).Nodup) :
    applyMetadata l = applyMetadata l' :=
  Meta.applyMetadata_perm hp hn

/-! ### through `handle_input`, acknowledgements included (statements and proofs: Lemmas/AckFlow.lean) -/
open Rml.AckFlow Rml.SerHist

theorem C02_publish_workflow_in (ccfg : Cli.Config) (scfg : Srv.Config) (clk : Nat → Nat) (app key : Bytes) (t : Cli.PublishType)
    (hcw : CfgWF ccfg) (hco : CfgOK ccfg) (hsw : SCfgWF scfg)
    (happ : Utf8.valid app = true) (hkey : Utf8.valid key = true) (hkl : key.length ≤ 65535)
    {v0 : Srv.State} {rs0 : List Srv.Res} (hnew : Srv.new scfg (clk 0) = .ok (v0, rs0)) :
    ∃ (A0 : Acks) (c1 : Cli.State) (b4 : Bytes), A0.ok ∧
      Cli.handleInput ({ cfg := ccfg } : Cli.State) (clk 1) (bytesS rs0) = (c1, .ok (A0.outC ++ bannerEvents scfg (clk 0) b4)) ∧
    ∀ c2 r1, Cli.requestConnection c1 (clk 2) app = (c2, .ok r1) →
    ∃ (p1 : Ser.Packet) (A1 : Acks) (v1 : Srv.State), r1 = .out p1 ∧ A1.ok ∧
      Srv.handleInput v0 (clk 3) (A0.bytes ++ p1.bytes) =
        (v1, .ok (A1.outS ++ A0.evS ++ [.ev (.connectionRequested 0 (trimApp app))])) ∧
    ∀ v2 rs2, Srv.acceptRequest v1 (clk 4) 0 = (v2, .ok rs2) →
    ∃ (p2 : Ser.Packet) (A2 : Acks) (c3 : Cli.State) (pa pb : Ser.Packet) (A3 : Acks) (v3 : Srv.State), rs2 = [.out p2] ∧ A2.ok ∧ A3.ok ∧
      Cli.handleInput c2 (clk 5) (A1.bytes ++ p2.bytes) = (c3, .ok (A2.outC ++ A1.evC ++ [.out pa, .ev .connectionAccepted, .out pb])) ∧
      Srv.handleInput v2 (clk 6) (A2.bytes ++ (pa.bytes ++ pb.bytes)) = (v3, .ok (A3.outS ++ A2.evS)) ∧
    ∀ c4 r3, Cli.requestStream c3 (clk 7) (.publish key t) = (c4, .ok r3) →
    ∃ (p3 : Ser.Packet) (A4 : Acks) (v4 : Srv.State) (p4 : Ser.Packet) (A5 : Acks) (c5 : Cli.State) (p5 : Ser.Packet)
      (A6 : Acks) (v5 : Srv.State), r3 = .out p3 ∧ A4.ok ∧ A5.ok ∧ A6.ok ∧
      Srv.handleInput v3 (clk 8) p3.bytes = (v4, .ok (A4.outS ++ [.out p4])) ∧
      Cli.handleInput c4 (clk 9) (A3.bytes ++ A4.bytes ++ p4.bytes) = (c5, .ok (A5.outC ++ (A3 ++ A4).evC ++ [.out p5])) ∧
      Srv.handleInput v4 (clk 10) (A5.bytes ++ p5.bytes) =
        (v5, .ok (A6.outS ++ A5.evS ++ [.ev (.publishRequested 1 (trimApp app) key (modeOf t))])) ∧
    ∀ v6 rs6, Srv.acceptRequest v5 (clk 11) 1 = (v6, .ok rs6) →
    ∃ (p6 p7 : Ser.Packet) (A7 : Acks) (c6 : Cli.State), rs6 = [.out p6, .out p7] ∧ A7.ok ∧
      Cli.handleInput c5 (clk 12) (A6.bytes ++ (p6.bytes ++ p7.bytes)) = (c6, .ok (A7.outC ++ A6.evC ++ [.ev .publishAccepted])) ∧
      PublishReadyP c6 v6 1 (trimApp app) key (modeOf t) A7 [] :=
  AckFlow.publish_workflow_in ccfg scfg clk app key t hcw hco hsw happ hkey hkl hnew

theorem C02_play_workflow_in (ccfg : Cli.Config) (scfg : Srv.Config) (clk : Nat → Nat) (app key : Bytes)
    (hcw : CfgWF ccfg) (hco : CfgOK ccfg) (hbuf : ccfg.bufferLengthMs < 4294967296) (hsw : SCfgWF scfg)
    (happ : Utf8.valid app = true) (hkey : Utf8.valid key = true) (hkl : key.length ≤ 65535)
    {v0 : Srv.State} {rs0 : List Srv.Res} (hnew : Srv.new scfg (clk 0) = .ok (v0, rs0)) :
    ∃ (A0 : Acks) (c1 : Cli.State) (b4 : Bytes), A0.ok ∧
      Cli.handleInput ({ cfg := ccfg } : Cli.State) (clk 1) (bytesS rs0) = (c1, .ok (A0.outC ++ bannerEvents scfg (clk 0) b4)) ∧
    ∀ c2 r1, Cli.requestConnection c1 (clk 2) app = (c2, .ok r1) →
    ∃ (p1 : Ser.Packet) (A1 : Acks) (v1 : Srv.State), r1 = .out p1 ∧ A1.ok ∧
      Srv.handleInput v0 (clk 3) (A0.bytes ++ p1.bytes) =
        (v1, .ok (A1.outS ++ A0.evS ++ [.ev (.connectionRequested 0 (trimApp app))])) ∧
    ∀ v2 rs2, Srv.acceptRequest v1 (clk 4) 0 = (v2, .ok rs2) →
    ∃ (p2 : Ser.Packet) (A2 : Acks) (c3 : Cli.State) (pa pb : Ser.Packet) (A3 : Acks) (v3 : Srv.State), rs2 = [.out p2] ∧ A2.ok ∧ A3.ok ∧
      Cli.handleInput c2 (clk 5) (A1.bytes ++ p2.bytes) = (c3, .ok (A2.outC ++ A1.evC ++ [.out pa, .ev .connectionAccepted, .out pb])) ∧
      Srv.handleInput v2 (clk 6) (A2.bytes ++ (pa.bytes ++ pb.bytes)) = (v3, .ok (A3.outS ++ A2.evS)) ∧
    ∀ c4 r3, Cli.requestStream c3 (clk 7) (.play key) = (c4, .ok r3) →
    ∃ (p3 : Ser.Packet) (A4 : Acks) (v4 : Srv.State) (p4 : Ser.Packet) (A5 : Acks) (c5 : Cli.State) (p5 p6 : Ser.Packet)
      (A6 : Acks) (v5 : Srv.State), r3 = .out p3 ∧ A4.ok ∧ A5.ok ∧ A6.ok ∧
      Srv.handleInput v3 (clk 8) p3.bytes = (v4, .ok (A4.outS ++ [.out p4])) ∧
      Cli.handleInput c4 (clk 9) (A3.bytes ++ A4.bytes ++ p4.bytes) = (c5, .ok (A5.outC ++ (A3 ++ A4).evC ++ [.out p5, .out p6])) ∧
      Srv.handleInput v4 (clk 10) (A5.bytes ++ (p5.bytes ++ p6.bytes)) =
        (v5, .ok (A6.outS ++ A5.evS ++ [.ev (.playRequested 1 (trimApp app) key .liveOrRecorded none false 1)])) ∧
    ∀ v6 rs6, Srv.acceptRequest v5 (clk 11) 1 = (v6, .ok rs6) →
    ∃ (A7 : Acks) (c6 : Cli.State), A7.ok ∧
      Cli.handleInput c5 (clk 12) (A6.bytes ++ bytesS rs6) =
        (c6, .ok (A7.outC ++ A6.evC ++ [.ev (.unhandleableOnStatus (str "NetStream.Play.Reset")), .ev .playbackAccepted])) ∧
      PlayReadyP c6 v6 1 (trimApp app) key A7 [] :=
  AckFlow.play_workflow_in ccfg scfg clk app key hcw hco hbuf hsw happ hkey hkl hnew

theorem C02_publish_items_in {c c' : Cli.State} {v : Srv.State} {sid : Nat} {app key : Bytes} {mode : Srv.PublishMode} {A B : Acks}
    (hr : PublishReadyP c v sid app key mode A B) (items : List Interop.Item) (ps : List Ser.Packet) (now : Nat)
    (hts : ∀ it ∈ items, it.ts < 4294967296) (hpub : Interop.publishAll c items = some (c', ps)) :
    ∃ (A' : Acks) (v' : Srv.State), A'.ok ∧
      Srv.handleInput v now (A.bytes ++ wire (ps.zip (items.map (Interop.Item.msg sid)))) =
        (v', .ok (A'.outS ++ A.evS ++ (msgs (ps.zip (items.map (Interop.Item.msg sid)))).flatMap (Interop.evOf app key))) ∧
      PublishReadyP c' v' sid app key mode [] (B ++ A') :=
  AckFlow.publish_items_in hr items ps now hts hpub

theorem C02_play_items_in {c : Cli.State} {v v' : Srv.State} {sid : Nat} {app key : Bytes} {A B : Acks}
    (hr : PlayReadyP c v sid app key A B) (items : List Interop.Item) (ps : List Ser.Packet) (now : Nat)
    (hts : ∀ it ∈ items, it.ts < 4294967296) (hsend : Interop.sendAll v sid items = some (v', ps)) :
    ∃ (B' : Acks) (c' : Cli.State), B'.ok ∧
      Cli.handleInput c now (B.bytes ++ wire (ps.zip (items.map (Interop.Item.msg sid)))) =
        (c', .ok (B'.outC ++ B.evC ++ (msgs (ps.zip (items.map (Interop.Item.msg sid)))).flatMap Interop.evOfC)) ∧
      PlayReadyP c' v' sid app key (A ++ B') [] :=
  AckFlow.play_items_in hr items ps now hts hsend

theorem C02_publish_metadata_in {c c1 : Cli.State} {v : Srv.State} {sid : Nat} {app key : Bytes} {mode : Srv.PublishMode} {A B : Acks}
    {n1 n2 : Nat} {m : Metadata} {r : Cli.Res}
    (hr : PublishReadyP c v sid app key mode A B) (hw : MetaWF' m) (h : Cli.publishMetadata c n1 m = (c1, .ok r)) :
    ∃ (p : Ser.Packet) (A' : Acks) (v1 : Srv.State), r = .out p ∧ A'.ok ∧
      Srv.handleInput v n2 (A.bytes ++ p.bytes) = (v1, .ok (A'.outS ++ A.evS ++ [.ev (.metadataChanged app key m)])) ∧
      PublishReadyP c1 v1 sid app key mode [] (B ++ A') :=
  AckFlow.publish_metadata_in hr hw h

theorem C02_play_metadata_in {c : Cli.State} {v v1 : Srv.State} {sid : Nat} {app key : Bytes} {A B : Acks}
    {n1 n2 : Nat} {m : Metadata} {p : Ser.Packet}
    (hr : PlayReadyP c v sid app key A B) (hw : MetaWF' m) (h : Srv.sendMetadata v n1 sid m = (v1, .ok p)) :
    ∃ (B' : Acks) (c1 : Cli.State), B'.ok ∧
      Cli.handleInput c n2 (B.bytes ++ p.bytes) = (c1, .ok (B'.outC ++ B.evC ++ [.ev (.metadata m)])) ∧
      PlayReadyP c1 v1 sid app key (A ++ B') [] :=
  AckFlow.play_metadata_in hr hw h

theorem C02_stop_publishing_in {c c1 : Cli.State} {v : Srv.State} {sid : Nat} {app key : Bytes} {mode : Srv.PublishMode} {A B : Acks}
    {n1 n2 : Nat} {rs : List Cli.Res}
    (hr : PublishReadyP c v sid app key mode A B) (h : Cli.stop c n1 false = (c1, .ok rs)) :
    ∃ (p : Ser.Packet) (A' : Acks) (v1 : Srv.State), rs = [.out p] ∧ A'.ok ∧
      Srv.handleInput v n2 (A.bytes ++ p.bytes) = (v1, .ok (A'.outS ++ A.evS ++ [.ev (.publishFinished app key)])) ∧
      InStepP c1 v1 (Acks.pairs []) (B ++ A').pairs ∧ c1.st = .connected ∧ c1.activeStream = none ∧ mapGet sid v1.streams = none :=
  AckFlow.stop_publishing_in hr h

theorem C02_stop_playback_in {c c1 : Cli.State} {v : Srv.State} {sid : Nat} {app key : Bytes} {A B : Acks}
    {n1 n2 : Nat} {rs : List Cli.Res}
    (hr : PlayReadyP c v sid app key A B) (h : Cli.stop c n1 true = (c1, .ok rs)) :
    ∃ (p : Ser.Packet) (A' : Acks) (v1 : Srv.State), rs = [.out p] ∧ A'.ok ∧
      Srv.handleInput v n2 (A.bytes ++ p.bytes) = (v1, .ok (A'.outS ++ A.evS ++ [.ev (.playFinished app key)])) ∧
      InStepP c1 v1 (Acks.pairs []) (B ++ A').pairs ∧ c1.st = .connected ∧ c1.activeStream = none ∧ mapGet sid v1.streams = none :=
  AckFlow.stop_playback_in hr h

/-! non-vacuity of the `handle_input` theorems: the same scenario through the real entry point with small
    windows (the server acknowledges every 40 bytes, the client every 60), so acknowledgement packets and
    events are interleaved everywhere; with them filtered out, the server's events are the expected ones -/
def demoC2 : Cli.Config := { flashVersion := str "v", bufferLengthMs := 100, windowAckSize := 40, chunkSize := 64, tcUrl := none }
def demoS2 : Srv.Config := { fmsVersion := str "f", chunkSize := 50, peerBandwidth := 7, windowAckSize := 60, sendOnBwDone := false }

def noAcks (rs : List Srv.Res) : List Srv.Res :=
  rs.filter fun r => match r with
    | .ev (.ackReceived _) => false
    | .out _ => false
    | _ => true

def countAcks (rs : List Srv.Res) : Nat := (rs.filter fun r => match r with | .ev (.ackReceived _) => true | _ => false).length

def demoRunIn : Option (List Srv.Res × Nat) :=
  match Srv.new demoS2 5 with
  | .error _ => none
  | .ok (v0, rs0) =>
  match Cli.handleInput ({ cfg := demoC2 } : Cli.State) 5 (bytesS rs0) with
  | (_, .error _) => none
  | (c1, .ok q0) =>
  match Cli.requestConnection c1 6 (str "live/") with
  | (_, .error _) => none
  | (c2, .ok r1) =>
  match Srv.handleInput v0 7 (bytesOfC (q0 ++ [r1])) with
  | (_, .error _) => none
  | (v1, .ok q1) =>
  match Srv.acceptRequest v1 8 0 with
  | (_, .error _) => none
  | (v2, .ok rs2) =>
  match Cli.handleInput c2 9 (bytesS (q1 ++ rs2)) with
  | (_, .error _) => none
  | (c3, .ok rs3) =>
  match Srv.handleInput v2 10 (bytesOfC rs3) with
  | (_, .error _) => none
  | (v3, .ok q3) =>
  match Cli.requestStream c3 11 (.publish (str "key") .live) with
  | (_, .error _) => none
  | (c4, .ok r3) =>
  match Srv.handleInput v3 12 (bytesOfC [r3]) with
  | (_, .error _) => none
  | (v4, .ok rs4) =>
  match Cli.handleInput c4 13 (bytesS (q3 ++ rs4)) with
  | (_, .error _) => none
  | (c5, .ok rs5) =>
  match Srv.handleInput v4 14 (bytesOfC rs5) with
  | (_, .error _) => none
  | (v5, .ok q5) =>
  match Srv.acceptRequest v5 15 1 with
  | (_, .error _) => none
  | (v6, .ok rs6) =>
  match Cli.handleInput c5 16 (bytesS (q5 ++ rs6)) with
  | (_, .error _) => none
  | (c6, .ok q6) =>
  match Interop.publishAll c6 [{ video := true, data := List.replicate 150 7, ts := 40, drop := false },
                               { video := false, data := [3], ts := 49, drop := true }] with
  | none => none
  | some (c7, ps) =>
  match Srv.handleInput v6 17 (bytesOfC q6 ++ (ps.map (·.bytes)).flatten) with
  | (_, .error _) => none
  | (v7, .ok evs) =>
  match Cli.stop c7 18 false with
  | (_, .error _) => none
  | (_, .ok rs8) =>
  match Srv.handleInput v7 19 (bytesOfC rs8) with
  | (_, .error _) => none
  | (_, .ok fin) => some (noAcks (evs ++ fin), countAcks (q1 ++ q3 ++ q5 ++ evs ++ fin))

def isDemoResultIn : Option (List Srv.Res × Nat) → Bool
  | some ([.ev (.video a k d 40), .ev (.audio a2 k2 [3] 49), .ev (.publishFinished a3 k3)], n) =>
    a == str "live" && k == str "key" && d == List.replicate 150 7 && a2 == str "live" && k2 == str "key" &&
      a3 == str "live" && k3 == str "key" && decide (n ≥ 2)
  | _ => false

example : isDemoResultIn demoRunIn = true := by decide +kernel

/-- media through `handle_input` with ANY subset of the droppable item packets omitted (Lemmas/AckDrop.lean) -/
theorem C02_publish_items_in_mask {c c' : Cli.State} {v : Srv.State} {sid : Nat} {app key : Bytes} {mode : Srv.PublishMode} {A B : Acks}
    (hr : PublishReadyP c v sid app key mode A B) (items : List Interop.Item) (ps : List Ser.Packet) (now : Nat) (mask : List Bool)
    (hts : ∀ it ∈ items, it.ts < 4294967296) (hpub : Interop.publishAll c items = some (c', ps)) :
    let kept := keepSel mask (ps.zip (items.map (Interop.Item.msg sid)))
    ∃ (A' : Acks) (v' : Srv.State), A'.ok ∧
      Srv.handleInput v now (A.bytes ++ wire kept) = (v', .ok (A'.outS ++ A.evS ++ (msgs kept).flatMap (Interop.evOf app key))) ∧
      PublishReadyP c' v' sid app key mode [] (B ++ A') :=
  AckDrop.publish_items_in_mask hr items ps now mask hts hpub

theorem C02_play_items_in_mask {c : Cli.State} {v v' : Srv.State} {sid : Nat} {app key : Bytes} {A B : Acks}
    (hr : PlayReadyP c v sid app key A B) (items : List Interop.Item) (ps : List Ser.Packet) (now : Nat) (mask : List Bool)
    (hts : ∀ it ∈ items, it.ts < 4294967296) (hsend : Interop.sendAll v sid items = some (v', ps)) :
    let kept := keepSel mask (ps.zip (items.map (Interop.Item.msg sid)))
    ∃ (B' : Acks) (c' : Cli.State), B'.ok ∧
      Cli.handleInput c now (B.bytes ++ wire kept) = (c', .ok (B'.outC ++ B.evC ++ (msgs kept).flatMap Interop.evOfC)) ∧
      PlayReadyP c' v' sid app key (A ++ B') [] :=
  AckDrop.play_items_in_mask hr items ps now mask hts hsend

/-- the application may hold packets back: delivering ANY prefix of what is pending keeps the pair in step, with the
    rest still pending (server receiving; Lemmas/AckFlow.lean) -/
theorem C02_deliver_any_prefix_to_server {c : Cli.State} {v : Srv.State} {X1 X2 Y : List (Ser.Packet × Msg)} (now : Nat)
    (h : InStepP c v (X1 ++ X2) Y) :
    ∃ (A : Acks) (v1 : Srv.State) (since' : Nat), A.ok ∧ Emit.Emits v.ser v1.ser A.pairs ∧ v1 = { v with ser := v1.ser } ∧
      ∀ sF rs Z, SrvSteps.steps { v1 with since := since' } now (msgs X1) = .ok (sF, rs) → Emit.Emits v1.ser sF.ser Z →
        ∃ vN, Srv.handleInput v now (wire X1) = (vN, .ok (A.outS ++ rs)) ∧ vN = { sF with des := vN.des } ∧
          InStepP c vN X2 (Y ++ A.pairs ++ Z) :=
  AckFlow.srv_deliver_prefix now h

theorem C02_deliver_any_prefix_to_client {c : Cli.State} {v : Srv.State} {X Y1 Y2 : List (Ser.Packet × Msg)} (now : Nat)
    (h : InStepP c v X (Y1 ++ Y2)) :
    ∃ (A : Acks) (c1 : Cli.State) (since' : Nat), A.ok ∧ Emit.Emits c.ser c1.ser A.pairs ∧ c1 = { c with ser := c1.ser } ∧
      ∀ sF rs Z, CliSteps.steps { c1 with since := since' } now (msgs Y1) = .ok (sF, rs) → Emit.Emits c1.ser sF.ser Z →
        ∃ cN, Cli.handleInput c now (wire Y1) = (cN, .ok (A.outC ++ rs)) ∧ cN = { sF with des := cN.des } ∧
          InStepP cN v (X ++ A.pairs ++ Z) Y2 :=
  AckFlow.cli_deliver_prefix now h

end Rml.C02
