/-
C02 — client and server sessions interoperate: media arrives byte-exact and tagged.
STATUS: PARTIAL.  The end-to-end statement (for every script, configuration and schedule of the two
byte streams) is NOT a theorem.  Proved here are the per-session facts it is composed of, for every
state: each side hands the serializer exactly the application's bytes and timestamp on the active
stream; each side raises exactly the decoded message's bytes and timestamp, tagged as required; both
sides honour every decoded chunk-size change; the server strips exactly one trailing '/' of the
application name.  The remaining links are C01 (chunk transport; its round-trip clause is itself still
open), C13/C04 (bodies) and C09/C10 (workflow), and the composition over schedules is argued, not
mechanised.  The property is decided on the implementation by the `interop` family: real
ClientSession ↔ real ServerSession under seeded random fragmentation, interleaving and configurations.
-/
import Rml.Props.C09
import Rml.Props.C10
namespace Rml.C02
open Rml Rml.Chunk Rml.Amf0 Rml.Msgs Rml.Sess

/-- the publishing client hands the serializer exactly the application's bytes and timestamp, on the active stream -/
theorem C02_client_sends_exact (s : Cli.State) (video : Bool) (data : Bytes) (ts sid : Nat) (drop : Bool)
    (hs : s.st = .publishing) (ha : s.activeStream = some sid) :
    Cli.publishMedia s video data ts drop =
      match Cli.send s (if video then .video data else .audio data) ts sid drop with
      | .error e => (s, .error e)
      | .ok (s', p) => (s', .ok (.out p)) := by
  unfold Cli.publishMedia Cli.publishGuard
  simp only [hs, ha, ne_eq, not_true_eq_false, if_false]
  cases Cli.send s (if video then .video data else .audio data) ts sid drop with
  | error e => rfl
  | ok r => rfl

/-- … and the body of that message is the bytes themselves (type 9 / 8) -/
theorem C02_media_body (data : Bytes) : toPayload (.video data) = .ok (9, data) ∧ toPayload (.audio data) = .ok (8, data) ∧
    fromPayload 9 data = .ok (.video data) ∧ fromPayload 8 data = .ok (.audio data) := by
  refine ⟨rfl, rfl, by simp [fromPayload], by simp [fromPayload]⟩

/-- the server raises exactly the decoded bytes and timestamp of a media message on a publishing stream,
    tagged with the stream key of the accepted publish request and the accepted application name -/
theorem C02_server_raises_exact (s : Srv.State) (now : Nat) (p : Msg) (data : Bytes) (app key : Bytes) (mode : Srv.PublishMode)
    (hc : s.connected = true) (ha : s.app = some app) (hp : mapGet p.msid s.streams = some (.publishing key mode)) :
    Srv.handleMessage s now p (.video data) = .ok (s, [.ev (.video app key data p.ts)]) ∧
    Srv.handleMessage s now p (.audio data) = .ok (s, [.ev (.audio app key data p.ts)]) := by
  have h := (C09.C09_media_iff_publishing s true data p.msid p.ts).2 app key mode hc ha hp
  have h' := (C09.C09_media_iff_publishing s false data p.msid p.ts).2 app key mode hc ha hp
  simp only [if_true] at h
  simp only [Bool.false_eq_true, if_false] at h'
  exact ⟨by simp [Srv.handleMessage, h], by simp [Srv.handleMessage, h']⟩

/-- the playing client raises exactly the decoded bytes and timestamp of a media message on its active stream -/
theorem C02_client_raises_exact (s : Cli.State) (now : Nat) (p : Msg) (data : Bytes)
    (hs : s.st = .playing ∨ s.st = .playRequested) (ha : s.activeStream = some p.msid) :
    (Cli.handleMessage s now p (.video data)).2 = .ok [.ev (.video p.ts data)] ∧
    (Cli.handleMessage s now p (.audio data)).2 = .ok [.ev (.audio p.ts data)] := by
  have hst : ¬ (s.st ≠ .playRequested ∧ s.st ≠ .playing) := by
    rcases hs with h | h <;> simp [h]
  constructor <;> simp [Cli.handleMessage, Cli.handleMedia, hst, ha]

/-- the server sends exactly the application's bytes and timestamp on the stream it names -/
theorem C02_server_sends_exact (s : Srv.State) (video : Bool) (sid : Nat) (data : Bytes) (ts : Nat) (drop : Bool) :
    Srv.sendMedia s video sid data ts drop =
      match Srv.send s (if video then .video data else .audio data) ts sid false drop with
      | .error e => (s, .error e)
      | .ok (s', p) => (s', .ok p) := rfl

/-- both sessions honour every decoded chunk-size change: the deserializer uses the announced size for
    the chunks that follow -/
theorem C02_honours_chunk_size (n : Nat) (hn : 1 ≤ n ∧ n ≤ 2147483647) (now : Nat) (p : Msg) :
    (∀ s : Srv.State, ∃ s', Srv.handleMessage s now p (.setChunkSize n) = .ok (s', []) ∧ s'.des.core.maxCs = n ∧ s'.des.buf = s.des.buf) ∧
    (∀ s : Cli.State, (Cli.handleMessage s now p (.setChunkSize n)).2 = .ok [] ∧
      (Cli.handleMessage s now p (.setChunkSize n)).1.des.core.maxCs = n) := by
  have hv : ¬ (n = 0 ∨ n > maxChunkSize) := by simp only [maxChunkSize]; omega
  constructor
  · intro s
    simp only [Srv.handleMessage, Des.setMaxChunkSize, hv, if_false]
    exact ⟨_, rfl, rfl, rfl⟩
  · intro s
    simp [Cli.handleMessage, Des.setMaxChunkSize, hv]

/-- the application name events are tagged with is the requested one minus exactly one trailing '/' -/
theorem C02_app_name_normalised (s s' : Srv.State) (tid : Nat) (props : List (Bytes × Val)) (app : Bytes) (rs : List Srv.Res)
    (ha : propGet (str "app") props = some (.str app)) (h : Srv.cmdConnect s tid (.object props) = .ok (s', rs)) :
    rs = [.ev (.connectionRequested s.nextReq (if app.getLast? = some 47 then app.dropLast else app))] := by
  unfold Srv.cmdConnect at h
  simp only [ha, Except.ok.injEq, Prod.mk.injEq] at h
  exact h.2.symm

end Rml.C02
