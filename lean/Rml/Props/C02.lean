/-
C02 — client and server sessions interoperate: media arrives byte-exact and tagged.
STATUS.  Proved, for all inputs, the two media paths end to end and the transport they ride on:

* `C02_transport`: a serializer and the peer's deserializer that are in step (`Link.Linked`: the peer has
  consumed everything sent so far; true of two fresh sessions) stay in step over ANY well-formed
  emission of the sending session (everything a session does: C18), with ANY subset of the droppable
  packets omitted: the peer decodes exactly the messages of the delivered packets, no error, nothing left.
* `C02_publish_media`: client publishing on stream `sid`, server with that stream publishing under `key`
  in application `app`, in step.  ANY list of audio/video items (any bytes, any 32-bit timestamps, either
  flag), ANY droppable subset omitted: the server raises for exactly the delivered items, in order, one
  event each with the item's bytes and timestamp, tagged `app` and `key` — exactly once, nothing else.
* `C02_play_media`: the same from a sending server to a client whose playback is requested or running.
* under EVERY partition of the delivered bytes into input calls: `C15_server_session`, `C15_client_session`
  (acknowledgement packets aside: they are a function of the call sizes, C17, and raise only
  acknowledgement events at the peer).
* the per-session links: exact hand-over to the serializer, exact raising, chunk-size changes honoured,
  application name minus one trailing '/'.

NOT a theorem: that the connect → createStream → publish/play workflow, run between the two models
under an arbitrary schedule, reaches the states the media theorems start from (it needs the symbolic
AMF0 round trip of each command object and a schedule argument).  Each session's half of that workflow
is C09 / C10; the composition is decided on the implementation by the `interop` family: real
ClientSession ↔ real ServerSession under seeded random fragmentation, interleaving and configurations.
-/
import Rml.Props.C09
import Rml.Props.C10
import Rml.Lemmas.Interop
import Rml.Props.C15
namespace Rml.C02
open Rml Rml.Chunk Rml.Amf0 Rml.Msgs Rml.Sess

/-- the publishing client hands the serializer exactly the application's bytes and timestamp, on the active stream -/
theorem C02_client_sends_exact (s : Cli.State) (video : Bool) (data : Bytes) (ts sid : Nat) (drop : Bool)
    (hs : s.st = .publishing) (ha : s.activeStream = some sid) :
    Cli.publishMedia s video data ts drop =
      match Cli.send s (if video then .video data else .audio data) ts sid drop with
      | .error e => (s, .error e)
      | .ok (s', p) => (s', .ok (.out p)) := by
  unfold Cli.publishMedia Cli.publishGuard
  simp only [hs, ha, ne_eq, not_true_eq_false, if_false]
  cases Cli.send s (if video then .video data else .audio data) ts sid drop with
  | error e => rfl
  | ok r => rfl

/-- … and the body of that message is the bytes themselves (type 9 / 8) -/
theorem C02_media_body (data : Bytes) : toPayload (.video data) = .ok (9, data) ∧ toPayload (.audio data) = .ok (8, data) ∧
    fromPayload 9 data = .ok (.video data) ∧ fromPayload 8 data = .ok (.audio data) := by
  refine ⟨rfl, rfl, by simp [fromPayload], by simp [fromPayload]⟩

/-- the server raises exactly the decoded bytes and timestamp of a media message on a publishing stream,
    tagged with the stream key of the accepted publish request and the accepted application name -/
theorem C02_server_raises_exact (s : Srv.State) (now : Nat) (p : Msg) (data : Bytes) (app key : Bytes) (mode : Srv.PublishMode)
    (hc : s.connected = true) (ha : s.app = some app) (hp : mapGet p.msid s.streams = some (.publishing key mode)) :
    Srv.handleMessage s now p (.video data) = .ok (s, [.ev (.video app key data p.ts)]) ∧
    Srv.handleMessage s now p (.audio data) = .ok (s, [.ev (.audio app key data p.ts)]) := by
  have h := (C09.C09_media_iff_publishing s true data p.msid p.ts).2 app key mode hc ha hp
  have h' := (C09.C09_media_iff_publishing s false data p.msid p.ts).2 app key mode hc ha hp
  simp only [if_true] at h
  simp only [Bool.false_eq_true, if_false] at h'
  exact ⟨by simp [Srv.handleMessage, h], by simp [Srv.handleMessage, h']⟩

/-- the playing client raises exactly the decoded bytes and timestamp of a media message on its active stream -/
theorem C02_client_raises_exact (s : Cli.State) (now : Nat) (p : Msg) (data : Bytes)
    (hs : s.st = .playing ∨ s.st = .playRequested) (ha : s.activeStream = some p.msid) :
    (Cli.handleMessage s now p (.video data)).2 = .ok [.ev (.video p.ts data)] ∧
    (Cli.handleMessage s now p (.audio data)).2 = .ok [.ev (.audio p.ts data)] := by
  have hst : ¬ (s.st ≠ .playRequested ∧ s.st ≠ .playing) := by
    rcases hs with h | h <;> simp [h]
  constructor <;> simp [Cli.handleMessage, Cli.handleMedia, hst, ha]

/-- the server sends exactly the application's bytes and timestamp on the stream it names -/
theorem C02_server_sends_exact (s : Srv.State) (video : Bool) (sid : Nat) (data : Bytes) (ts : Nat) (drop : Bool) :
    Srv.sendMedia s video sid data ts drop =
      match Srv.send s (if video then .video data else .audio data) ts sid false drop with
      | .error e => (s, .error e)
      | .ok (s', p) => (s', .ok p) := rfl

/-- both sessions honour every decoded chunk-size change: the deserializer uses the announced size for
    the chunks that follow -/
theorem C02_honours_chunk_size (n : Nat) (hn : 1 ≤ n ∧ n ≤ 2147483647) (now : Nat) (p : Msg) :
    (∀ s : Srv.State, ∃ s', Srv.handleMessage s now p (.setChunkSize n) = .ok (s', []) ∧ s'.des.core.maxCs = n ∧ s'.des.buf = s.des.buf) ∧
    (∀ s : Cli.State, (Cli.handleMessage s now p (.setChunkSize n)).2 = .ok [] ∧
      (Cli.handleMessage s now p (.setChunkSize n)).1.des.core.maxCs = n) := by
  have hv : ¬ (n = 0 ∨ n > maxChunkSize) := by simp only [maxChunkSize]; omega
  constructor
  · intro s
    simp only [Srv.handleMessage, Des.setMaxChunkSize, hv, if_false]
    exact ⟨_, rfl, rfl, rfl⟩
  · intro s
    simp [Cli.handleMessage, Des.setMaxChunkSize, hv]

/-- the application name events are tagged with is the requested one minus exactly one trailing '/' -/
theorem C02_app_name_normalised (s s' : Srv.State) (tid : Nat) (props : List (Bytes × Val)) (app : Bytes) (rs : List Srv.Res)
    (ha : propGet (str "app") props = some (.str app)) (h : Srv.cmdConnect s tid (.object props) = .ok (s', rs)) :
    rs = [.ev (.connectionRequested s.nextReq (if app.getLast? = some 47 then app.dropLast else app))] := by
  unfold Srv.cmdConnect at h
  simp only [ha, Except.ok.injEq, Prod.mk.injEq] at h
  exact h.2.symm

/-- **transport.**  In step before, any well-formed emission, any droppable subset omitted: decoded
    exactly, in step after. -/
theorem C02_transport (ser ser' : Ser.State) (des : Des.State) (xs : List (Ser.Packet × Msg))
    (hl : Link.Linked ser des) (he : Emit.Emits ser ser' xs) (mask : List Bool) :
    ∃ c', Des.feed des (SerHist.wire (SerHist.keepSel mask xs)) =
        { core := c', buf := [], msgs := SerHist.msgs (SerHist.keepSel mask xs), err := none } ∧
      Link.Linked ser' { core := c', buf := [] } :=
  Link.linked_emits hl he mask

/-- two fresh sessions are in step, in both directions (the client sends nothing at construction) -/
theorem C02_fresh_in_step (cfg : Cli.Config) : Link.Linked ({ cfg := cfg } : Cli.State).ser ({} : Srv.State).des :=
  Link.linked_init

/-- **publishing path** (statement and proof: Lemmas/Interop.lean) -/
theorem C02_publish_media (c c' : Cli.State) (v : Srv.State) (items : List Interop.Item) (ps : List Ser.Packet)
    (sid now : Nat) (app key : Bytes) (mode : Srv.PublishMode) (mask : List Bool)
    (hs : c.st = .publishing) (ha : c.activeStream = some sid) (hsid : sid < 4294967296)
    (hts : ∀ it ∈ items, it.ts < 4294967296)
    (hvc : v.connected = true) (hva : v.app = some app) (hvs : mapGet sid v.streams = some (.publishing key mode))
    (hlink : Link.Linked c.ser v.des) (hpub : Interop.publishAll c items = some (c', ps)) :
    let kept := SerHist.keepSel mask (ps.zip (items.map (Interop.Item.msg sid)))
    ∃ core', SrvPart.drain v now (SerHist.wire kept) =
        ({ v with des := { core := core', buf := [] } }, .ok ((SerHist.msgs kept).flatMap (Interop.evOf app key))) ∧
      Link.Linked c'.ser { core := core', buf := [] } :=
  Interop.publish_media c c' v items ps sid now app key mode mask hs ha hsid hts hvc hva hvs hlink hpub

/-- **playing path** -/
theorem C02_play_media (v v' : Srv.State) (c : Cli.State) (items : List Interop.Item) (ps : List Ser.Packet)
    (sid now : Nat) (mask : List Bool)
    (hs : c.st = .playing ∨ c.st = .playRequested) (ha : c.activeStream = some sid) (hsid : sid < 4294967296)
    (hts : ∀ it ∈ items, it.ts < 4294967296)
    (hlink : Link.Linked v.ser c.des) (hsend : Interop.sendAll v sid items = some (v', ps)) :
    let kept := SerHist.keepSel mask (ps.zip (items.map (Interop.Item.msg sid)))
    ∃ core', CliPart.drain c now (SerHist.wire kept) =
        ({ c with des := { core := core', buf := [] } }, .ok ((SerHist.msgs kept).flatMap Interop.evOfC)) ∧
      Link.Linked v'.ser { core := core', buf := [] } :=
  Interop.play_media v v' c items ps sid now mask hs ha hsid hts hlink hsend

-- non-vacuity of the publishing path: a state pair that meets every hypothesis, and two items
example :
    let c : Cli.State := { cfg := { flashVersion := [], bufferLengthMs := 0, windowAckSize := 0, chunkSize := 128, tcUrl := none },
                           st := .publishing, activeStream := some 1 }
    (Interop.publishAll c [{ video := true, data := [1, 2], ts := 5, drop := false },
                           { video := false, data := [3], ts := 9, drop := true }]).isSome = true := by
  decide +kernel

end Rml.C02
