/-
C20 — RTMP timestamps form a wrap-around clock.
Only property theorems here.  Model: `Rml/Model/Time.lean` (tied to `rtmp/src/time.rs` by the
`time` correspondence family).
-/
import Rml.Model.Time
import Rml.Lemmas.Time
namespace Rml.C20
open Rml.Time

/-- addition is exact modulo 2^32 and stays a `u32` -/
theorem C20_add_exact (a d : Nat) : add a d = (a + d) % 2 ^ 32 ∧ add a d < 2 ^ 32 := by
  unfold add; exact ⟨rfl, Nat.mod_lt _ (by decide)⟩

/-- subtraction is exact modulo 2^32: it is the unique `u32` that gives `a` back when `d` is added -/
theorem C20_sub_exact (a d : Nat) (ha : a < 2 ^ 32) (hd : d < 2 ^ 32) :
    sub a d < 2 ^ 32 ∧ (sub a d + d) % 2 ^ 32 = a := by
  unfold sub; simp only [M]; omega

/-- addition and subtraction are inverse to each other, across the wrap -/
theorem C20_inverse (a d : Nat) (ha : a < 2 ^ 32) (hd : d < 2 ^ 32) :
    sub (add a d) d = a ∧ add (sub a d) d = a := by
  unfold sub add; simp only [M]; omega

/-- ordering agrees with equality -/
theorem C20_eq_iff (a b : Nat) : tsCompare a b = .eq ↔ a = b := cmp_eq a b

/-- ordering is antisymmetric: `a < b` exactly when `b > a`, and never both ways -/
theorem C20_antisymm (a b : Nat) :
    (tsCompare a b = .lt ↔ tsCompare b a = .gt) ∧ (tsCompare a b = .gt ↔ tsCompare b a = .lt) := by
  rw [cmp_lt, cmp_gt, cmp_gt, cmp_lt]; omega

/-- the mixed `u32` comparisons are the same function of the two values (model side; the
    correspondence run checks that all four Rust impls agree with `tsCompare`) -/
theorem C20_u32_agrees (a b : Nat) :
    tsGt a b = (tsCompare a b == .gt) ∧ tsLt a b = (tsCompare a b == .lt) ∧ tsEq a b = (a == b) := by
  simp [tsGt, tsLt, tsEq]

/-- PARTIAL (known finding K3 names what is missing): away from the antipodal distance 2^31,
    `b` is later than `a` exactly when it is 1 … 2^31-1 ms ahead modulo 2^32. -/
theorem C20_later_iff_partial (a b : Nat) (ha : a < 2 ^ 32) (hb : b < 2 ^ 32)
    (hne : sub b a ≠ 2 ^ 31) :
    tsCompare b a = .gt ↔ 1 ≤ sub b a ∧ sub b a ≤ 2 ^ 31 - 1 := by
  rw [cmp_gt]; unfold sub at *; simp only [M] at *; omega

/-- K3: at distance exactly 2^31 the sentence fails: 0 is ordered after 2^31 although it is
    2^31 (not 1 … 2^31-1) ahead. -/
theorem C20_antipodal_counterexample :
    tsCompare 0 2147483648 = .gt ∧ ¬ (1 ≤ sub 0 2147483648 ∧ sub 0 2147483648 ≤ 2 ^ 31 - 1) := by
  unfold tsCompare cmpNat sub maxAdjacent; decide

/-- K3 is exactly the antipodal class: whenever the sentence fails for a pair, the pair is 2^31 apart -/
theorem C20_failure_only_antipodal (a b : Nat) (ha : a < 2 ^ 32) (hb : b < 2 ^ 32)
    (hfail : ¬ (tsCompare b a = .gt ↔ 1 ≤ sub b a ∧ sub b a ≤ 2 ^ 31 - 1)) :
    sub b a = 2 ^ 31 := by
  apply Classical.byContradiction
  intro hne
  exact hfail (C20_later_iff_partial a b ha hb hne)

-- non-vacuity: the hypotheses are met across the wrap
example : tsCompare 5 4294967290 = .gt ∧ sub 5 4294967290 = 11 := by
  unfold tsCompare cmpNat sub maxAdjacent; decide

end Rml.C20
