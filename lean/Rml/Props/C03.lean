/-
C03 — no network input can panic, overflow, hang or exhaust memory.
What a theorem can carry is the LOGIC: wherever the Rust code indexes, subtracts, adds, recurses or
loops on peer-controlled data, the model has either the guard the (fixed) code has or an explicit
failure outcome, and the theorems below show the failure outcomes of the loops/recursions are
unreachable and the buffered state is bounded by the bytes received — for EVERY state and EVERY input.
The model has no panic outcome on any network-input path by construction (the only `.panic` is the
debug_assert of the user-control WRITER, an application-side call).  What a theorem cannot carry is
the runtime: real unwinding, real overflow checks, real allocator, real time.  That half is observed
on the real code by the harness on every run — overflow checks and debug assertions ON,
`catch_unwind` per op, a counting allocator bounding every op, per-shard timeouts — over library-
produced, foreign, and mutated streams and over commands with arbitrary argument lists in session
states reached by generated histories (families foreign, msg, amf, hs, server, client with pid C03).
-/
import Rml.Props.C15
import Rml.Props.C14
import Rml.Props.C17
import Rml.Lemmas.HsSpec
import Rml.Lemmas.SessSafe
namespace Rml.C03
open Rml Rml.Chunk

/-- one stage never grows what the deserializer holds (input buffer + partial payload) -/
theorem stageStep_holds (c c' : Des.Core) (b rest : Bytes) (m : Option Msg) (h : Des.stageStep c b = .ok c' rest m) :
    rest.length + c'.pdata.length ≤ b.length + c.pdata.length := by
  have hmu := Des.stageStep_decreases c c' b rest m h
  unfold Des.stageStep at h
  cases hs : c.stage <;> simp only [hs] at h
  · cases hb : Des.basicHdr b with
    | none => simp [hb] at h
    | some p =>
      obtain ⟨fmt, csid, r⟩ := p
      have hl := Des.basicHdr_len hb
      simp only [hb] at h
      split at h
      · simp only [Des.Step.ok.injEq] at h; obtain ⟨h1, h2, _⟩ := h; subst h1 h2; simp; omega
      · split at h
        · simp at h
        · simp only [Des.Step.ok.injEq] at h; obtain ⟨h1, h2, _⟩ := h; subst h1 h2; simp; omega
  · split at h
    · simp only [Des.Step.ok.injEq] at h; obtain ⟨h1, h2, _⟩ := h; subst h1 h2; simp
    · cases hb : Des.take3 b with
      | none => simp [hb] at h
      | some p =>
        obtain ⟨t, r⟩ := p
        have hl := Des.take3_len hb
        simp only [hb, Des.Step.ok.injEq] at h; obtain ⟨h1, h2, _⟩ := h; subst h1 h2; simp; omega
  · split at h
    · simp only [Des.Step.ok.injEq] at h; obtain ⟨h1, h2, _⟩ := h; subst h1 h2; simp
    · cases hb : Des.take3 b with
      | none => simp [hb] at h
      | some p =>
        obtain ⟨t, r⟩ := p
        have hl := Des.take3_len hb
        simp only [hb, Des.Step.ok.injEq] at h; obtain ⟨h1, h2, _⟩ := h; subst h1 h2; simp; omega
  · split at h
    · simp only [Des.Step.ok.injEq] at h; obtain ⟨h1, h2, _⟩ := h; subst h1 h2; simp
    · cases hb : Des.take1 b with
      | none => simp [hb] at h
      | some p =>
        obtain ⟨t, r⟩ := p
        have hl := Des.take1_len hb
        simp only [hb, Des.Step.ok.injEq] at h; obtain ⟨h1, h2, _⟩ := h; subst h1 h2; simp; omega
  · split at h
    · simp only [Des.Step.ok.injEq] at h; obtain ⟨h1, h2, _⟩ := h; subst h1 h2; simp
    · cases hb : Des.take4le b with
      | none => simp [hb] at h
      | some p =>
        obtain ⟨t, r⟩ := p
        have hl := Des.take4le_len hb
        simp only [hb, Des.Step.ok.injEq] at h; obtain ⟨h1, h2, _⟩ := h; subst h1 h2; simp; omega
  · split at h
    · simp only [Des.Step.ok.injEq] at h; obtain ⟨h1, h2, _⟩ := h; subst h1 h2; simp
    · cases hb : Des.take4be b with
      | none => simp [hb] at h
      | some p =>
        obtain ⟨t, r⟩ := p
        have hl := Des.take4be_len hb
        simp only [hb, Des.Step.ok.injEq] at h; obtain ⟨h1, h2, _⟩ := h; subst h1 h2; simp; omega
  · split at h
    · simp at h
    · generalize hn : (if c.cur.len > c.maxCs then min (c.cur.len - c.pdata.length) c.maxCs else c.cur.len) = n at h
      by_cases hb : b.length < n
      · simp [hb] at h
      · simp only [hb, if_false] at h
        split at h <;>
        (simp only [Des.Step.ok.injEq] at h; obtain ⟨h1, h2, _⟩ := h; subst h1 h2
         simp only [List.length_drop, List.length_append, List.length_take, List.length_nil]; omega)

theorem honour_pdata (c c' : Des.Core) (m : Msg) (h : Des.honour c m = .ok c') : c'.pdata = c.pdata := by
  unfold Des.honour at h
  split at h
  · split at h
    · unfold Des.setMaxChunkSize at h
      split at h
      · simp at h
      · simp only [Except.ok.injEq] at h; subst h; rfl
    · simp only [Except.ok.injEq] at h; subst h; rfl
  · simp only [Except.ok.injEq] at h; subst h; rfl

theorem run_holds (n : Nat) : ∀ (c : Des.Core) (b : Bytes) (acc : List Msg), Des.mu c b < n →
    (Des.run c b acc).buf.length + (Des.run c b acc).core.pdata.length ≤ b.length + c.pdata.length := by
  induction n with
  | zero => intro c b acc h; omega
  | succ n ih =>
    intro c b acc hmu
    rw [Des.run_eq c b acc]
    cases hs : Des.stageStep c b with
    | needMore => simp
    | err e => simp
    | ok c' rest m =>
      have hd := Des.stageStep_decreases c c' b rest m hs
      have hh := stageStep_holds c c' b rest m hs
      cases m with
      | none => simp only; have := ih c' rest acc (by omega); omega
      | some m =>
        simp only
        cases hho : Des.honour c' m with
        | error e => simp only; omega
        | ok c'' =>
          simp only
          have hst := Des.honour_stage c' c'' m hho
          have hpd := honour_pdata c' c'' m hho
          have hmu' : Des.mu c'' rest = Des.mu c' rest := by unfold Des.mu; rw [hst]
          have := ih c'' rest (acc ++ [m]) (by omega)
          rw [hpd] at this; omega

/-- DESERIALIZER, memory: after any input call what the deserializer holds (input buffer + partially
    reassembled payload) is at most what it held before plus the bytes of the call: it never buffers
    more than it received (one message is ≤ 16 MiB by the 24-bit length field) -/
theorem C03_des_memory (s : Des.State) (bytes : Bytes) :
    (Des.feed s bytes).buf.length + (Des.feed s bytes).core.pdata.length ≤
      s.buf.length + s.core.pdata.length + bytes.length := by
  have := run_holds _ s.core (s.buf ++ bytes) [] (Nat.lt_succ_self _)
  simp only [List.length_append] at this
  rw [Des.feed_eq_run]; omega

/-- DESERIALIZER, progress: the loop of `get_next_message` stops only for lack of input or on a real
    error; it cannot iterate without consuming input or advancing within the chunk (measure
    8·|buffer| + rank(stage) strictly decreases: `Des.stageStep_decreases`) -/
theorem C03_des_progress (s : Des.State) (bytes : Bytes) : (Des.feed s bytes).err ≠ some .fuel :=
  C15.C15_des_no_fuel s bytes

/-- DESERIALIZER, the two arithmetic hazards of fixes F3/F4 are explicit in the model: a length below the
    bytes already buffered is the error `invalidLength`, and the extended-timestamp delta wraps -/
theorem C03_des_no_underflow (c : Des.Core) (b : Bytes) (hs : c.stage = .payload) (hl : c.cur.len < c.pdata.length) :
    Des.stageStep c b = .err .invalidLength := by
  unfold Des.stageStep; simp [hs, hl]

theorem C03_sub32_total (e : Nat) (he : e < 4294967296) : sub32 e maxTs24 < 4294967296 ∧
    (e < maxTs24 → sub32 e maxTs24 = e + 4294967296 - maxTs24) := by
  unfold sub32 maxTs24; simp only [M32]; omega

/-- AMF0: decoding terminates with a value or an error, recursion depth ≤ 128, allocation ≤ input + 65535 (C14) -/
theorem C03_amf (bs : Bytes) :
    Amf0.decodeRest bs ≠ .error .fuel ∧ (Amf0.decodeG bs).2.peak ≤ Amf0.maxDepth ∧ (Amf0.decodeG bs).2.alloc ≤ bs.length + 65535 :=
  ⟨C14.C14_terminates bs, C14.C14_depth bs, C14.C14_alloc bs⟩

/-- HANDSHAKE: the input buffer never exceeds what was buffered plus the bytes of the call (and the
    loop is the closed form `procSpec`: at most five stage transitions per call) -/
theorem C03_hs_buffer (hmac : Hs.Hmac) (s s' : Hs.State) (data : Bytes) (r : Hs.Result)
    (h : Hs.processBytes hmac s data = .ok (s', r)) : s'.buf.length ≤ s.buf.length + data.length := by
  rw [Hs.processBytes_eq_procSpec] at h
  have key2 : ∀ (st : Hs.State) (b resp : Bytes), Hs.fin2 st b resp = .ok (s', r) → s'.buf.length ≤ b.length := by
    intro st b resp hf
    unfold Hs.fin2 at hf
    split at hf <;> (simp only [Except.ok.injEq, Prod.mk.injEq] at hf; rw [← hf.1]; simp)
  have key1 : ∀ (st : Hs.State) (b resp : Bytes), Hs.fin1 hmac st b resp = .ok (s', r) → s'.buf.length ≤ b.length := by
    intro st b resp hf
    unfold Hs.fin1 at hf
    split at hf
    · simp only [Except.ok.injEq, Prod.mk.injEq] at hf; rw [← hf.1]; simp
    · have := key2 _ _ _ hf; simp only [List.length_drop] at this; omega
  have key0 : ∀ (st : Hs.State) (b resp : Bytes), Hs.fin0 hmac st b resp = .ok (s', r) → s'.buf.length ≤ b.length := by
    intro st b resp hf
    cases b with
    | nil => simp only [Hs.fin0, Except.ok.injEq, Prod.mk.injEq] at hf; rw [← hf.1]; simp
    | cons c t =>
      simp only [Hs.fin0] at hf
      split at hf
      · simp at hf
      · have := key1 _ _ _ hf; simp only [List.length_cons]; omega
  unfold Hs.procSpec at h
  have hlen : (s.buf ++ data).length = s.buf.length + data.length := List.length_append
  cases hs : s.stage <;> simp only [hs] at h
  · have := key0 _ _ _ h; omega
  · have := key0 _ _ _ h; omega
  · have := key1 _ _ _ h; omega
  · have := key2 _ _ _ h; omega
  · simp at h

/-- SESSIONS: the acknowledgement counter cannot overflow a u32 (fix F10), for every window, counter and call size -/
theorem C03_ack_counter_no_overflow (w : Option Nat) (since n : Nat) (hs : since ≤ 4294967295) :
    (Sess.ackStep w since n).1 ≤ 4294967295 := by
  cases w with
  | none => exact hs
  | some w =>
    unfold Sess.ackStep
    simp only
    split <;> simp only <;> omega

/-- **sessions never loop without consuming input.**  In EVERY state a server session reaches (any
    configuration, any history of inputs and calls with 32-bit arguments; K2 histories excluded as in
    C18), for EVERY byte string: `handle_input` returns results or a genuine error — never the model's
    `hang` outcome (a serializer loop that would not return) and never "message loop out of fuel" (the
    loop's fuel, bytes + buffered + 2, always suffices: every message but the one under way takes at
    least its basic-header byte). -/
theorem C03_server_input_returns (c : Srv.Config) (now : Nat) (s0 : Srv.State) (rs0 : List Srv.Res)
    (ops : List SrvEmit.Op) (hnew : Srv.new c now = .ok (s0, rs0)) (hw : ∀ op ∈ ops, op.WF)
    (hk : SrvEmit.ErrKeepsSer s0 ops) (now' : Nat) (bytes : Bytes) :
    (Srv.handleInput (SrvEmit.run s0 ops).1 now' bytes).2 ≠ .error .hang ∧
    (Srv.handleInput (SrvEmit.run s0 ops).1 now' bytes).2 ≠ .error (.chunkDes .fuel) := by
  obtain ⟨hi, hp⟩ := Safe.S.reach c now s0 rs0 ops hnew hw hk
  obtain ⟨h1, h2⟩ := Safe.S.handleInput_safe _ now' bytes hi hp
  exact ⟨fun hh => (h1 _ hh).1 rfl, h2⟩

/-- the same for a client session -/
theorem C03_client_input_returns (cfg : Cli.Config) (ops : List CliEmit.Op) (hw : ∀ op ∈ ops, op.WF)
    (hk : CliEmit.ErrKeepsSer { cfg := cfg } ops) (now' : Nat) (bytes : Bytes) :
    (Cli.handleInput (CliEmit.run { cfg := cfg } ops).1 now' bytes).2 ≠ .error .hang ∧
    (Cli.handleInput (CliEmit.run { cfg := cfg } ops).1 now' bytes).2 ≠ .error (.chunkDes .fuel) := by
  obtain ⟨hi, hp⟩ := Safe.C.reach cfg ops hw hk
  obtain ⟨h1, h2⟩ := Safe.C.handleInput_safe _ now' bytes hi hp
  exact ⟨fun hh => (h1 _ hh).1 rfl, h2⟩

end Rml.C03
