/-
C11 — generated handshake packets carry valid Flash-Player-9 digests and signatures.
`hmac` is an ARBITRARY function returning 32 bytes: the theorems are about where digests and
signatures are placed and what they cover.  That the real code's `hmac` is HMAC-SHA256 with these
keys is checked, not proved: the executable driver instantiates the parameter with its own SHA-256
(self-tested on FIPS/RFC 4231 vectors) and the `hs` family compares whole packets with the real
library, byte for byte, for every one of the 728 offsets of both roles and both received schemes.
-/
import Rml.Lemmas.Hs
namespace Rml.C11
open Rml Rml.Hs

/-- a packet 1 is valid for `role`: time field zero, version 128.0.7.2, and at the offset its own
    bytes select (position scheme of the role) the 32 bytes are the HMAC, under the role's key, of
    the rest of the packet -/
def ValidP1 (hmac : Hmac) (role : Role) (p : Bytes) : Prop :=
  p.length = 1536 ∧ p.take 8 = [0, 0, 0, 0, 128, 0, 7, 2] ∧
  digestAt p (ownOffset role p) = hmac (withoutDigest p (ownOffset role p)) (ownKey role)

theorem serverOffset_bounds (p : Bytes) : 776 ≤ serverOffset p ∧ serverOffset p ≤ 1503 := by
  unfold serverOffset; omega
theorem clientOffset_bounds (p : Bytes) : 12 ≤ clientOffset p ∧ clientOffset p ≤ 739 := by
  unfold clientOffset; omega
theorem ownOffset_bounds (role : Role) (p : Bytes) : 12 ≤ ownOffset role p ∧ ownOffset role p + 32 ≤ 1536 := by
  have h1 := serverOffset_bounds p
  have h2 := clientOffset_bounds p
  cases role <;> simp only [ownOffset] <;> omega

/-- writing the digest does not move the offset: the four bytes that select it lie before it -/
theorem ownOffset_putAt (role : Role) (base d : Bytes) (hb : base.length = 1536) :
    ownOffset role (putAt base (ownOffset role base) d) = ownOffset role base := by
  cases role
  · simp only [ownOffset]
    have h776 := serverOffset_bounds base
    unfold serverOffset at *
    rw [at_putAt_lt _ _ _ 772 (by omega) (by omega), at_putAt_lt _ _ _ 773 (by omega) (by omega),
      at_putAt_lt _ _ _ 774 (by omega) (by omega), at_putAt_lt _ _ _ 775 (by omega) (by omega)]
  · simp only [ownOffset]
    have h12 := clientOffset_bounds base
    unfold clientOffset at *
    rw [at_putAt_lt _ _ _ 8 (by omega) (by omega), at_putAt_lt _ _ _ 9 (by omega) (by omega),
      at_putAt_lt _ _ _ 10 (by omega) (by omega), at_putAt_lt _ _ _ 11 (by omega) (by omega)]

/-- every packet 1 the library generates is valid for its role — for EVERY random fill, hence for
    every offset the random content can select -/
theorem C11_p1 (hmac : Hmac) (hlen : ∀ i k, (hmac i k).length = 32) (role : Role) (fill : Bytes)
    (hf : fill.length = 1524) : ValidP1 hmac role (genP1 hmac role fill).1 := by
  unfold genP1 ValidP1
  simp only
  generalize hbase : ([0, 0, 0, 0, 128, 0, 7, 2] ++ fill ++ [0, 0, 0, 0] : Bytes) = base
  have hb : base.length = 1536 := by rw [← hbase]; simp [hf]
  have hbnd := ownOffset_bounds role base
  have hd : (hmac (withoutDigest base (ownOffset role base)) (ownKey role)).length = digestLen :=
    hlen (withoutDigest base (ownOffset role base)) (ownKey role)
  have hdl : digestLen = 32 := rfl
  have hoff := ownOffset_putAt role base (hmac (withoutDigest base (ownOffset role base)) (ownKey role)) hb
  refine ⟨?_, ?_, ?_⟩
  · rw [putAt_length _ _ _ (by omega)]; exact hb
  · unfold putAt
    have h8 : 8 ≤ (base.take (ownOffset role base)).length := by simp only [List.length_take]; omega
    rw [List.append_assoc, List.take_append_of_le_length h8, List.take_take,
      Nat.min_eq_left (by omega), ← hbase]
    simp
  · rw [hoff, digestAt_putAt _ _ _ hd (by omega), withoutDigest_putAt _ _ _ hd (by omega)]

/-- … and a peer that probes the two positions finds a digest (the library's own prober does) -/
theorem C11_p1_found_by_prober (hmac : Hmac) (hlen : ∀ i k, (hmac i k).length = 32) (role : Role)
    (fill : Bytes) (hf : fill.length = 1524) :
    digestFor hmac (genP1 hmac role fill).1 (ownKey role) ≠ none := by
  have hv := (C11_p1 hmac hlen role fill hf).2.2
  unfold digestFor
  cases role
  · simp only [ownOffset] at hv
    simp only
    split
    · simp
    · rw [if_pos hv.symm]; simp
  · simp only [ownOffset] at hv
    simp only
    rw [if_pos hv.symm]; simp

/-- the digest found in a received packet 1: at the first scheme if valid there, else at the second -/
theorem digestFor_some (hmac : Hmac) (p key d : Bytes) (h : digestFor hmac p key = some d) :
    (d = digestAt p (clientOffset p) ∧ hmac (withoutDigest p (clientOffset p)) key = d) ∨
    (d = digestAt p (serverOffset p) ∧ hmac (withoutDigest p (serverOffset p)) key = d) := by
  unfold digestFor at h
  simp only at h
  split at h
  · rename_i hv; simp only [Option.some.injEq] at h; left; exact ⟨h.symm, by rw [hv, h]⟩
  · split at h
    · rename_i hv; simp only [Option.some.injEq] at h; right; exact ⟨h.symm, by rw [hv, h]⟩
    · simp at h

/-- packet 2 in answer to a digest-bearing packet 1 — whichever scheme and offset the peer used —
    keeps the 1504 random bytes and ends with HMAC(HMAC(peer digest, own key ‖ crud), those 1504 bytes) -/
theorem C11_p2_digest (hmac : Hmac) (hlen : ∀ i k, (hmac i k).length = 32) (role : Role)
    (received fill d : Bytes) (hf : fill.length = 1536)
    (hd : digestFor hmac received (peerKey role) = some d) :
    let p2 := genP2 hmac role received fill
    p2.length = 1536 ∧ p2.take 1504 = fill.take 1504 ∧
    p2.drop 1504 = hmac (p2.take 1504) (hmac d (ownKey role ++ crud)) := by
  simp only [genP2, hd]
  have hl := hlen (fill.take sigStart) (hmac d (ownKey role ++ crud))
  have h1 : (fill.take sigStart).length = sigStart := by simp only [List.length_take, sigStart]; omega
  have hput : putAt fill sigStart (hmac (fill.take sigStart) (hmac d (ownKey role ++ crud))) =
      fill.take sigStart ++ hmac (fill.take sigStart) (hmac d (ownKey role ++ crud)) := by
    unfold putAt
    rw [hl, List.drop_eq_nil_of_le (by simp only [sigStart]; omega), List.append_nil]
  rw [hput]
  have h1' : (fill.take 1504).length = 1504 := h1
  refine ⟨?_, ?_, ?_⟩
  · simp only [List.length_append]; rw [h1, hl]; rfl
  · exact take_pre _ _ 1504 h1
  · rw [drop_pre _ _ 1504 h1, take_pre _ _ 1504 h1]

/-- packet 2 in answer to a digest-less packet 1 is an exact echo of that packet -/
theorem C11_p2_echo (hmac : Hmac) (role : Role) (received fill : Bytes)
    (hd : digestFor hmac received (peerKey role) = none) : genP2 hmac role received fill = received := by
  simp only [genP2, hd]

theorem at_mid (A B : Bytes) (x0 x1 x2 x3 : UInt8) (n : Nat) (h : A.length = n) :
    at_ (A ++ ([x0, x1, x2, x3] ++ B)) n = x0.toNat ∧ at_ (A ++ ([x0, x1, x2, x3] ++ B)) (n + 1) = x1.toNat ∧
    at_ (A ++ ([x0, x1, x2, x3] ++ B)) (n + 2) = x2.toNat ∧ at_ (A ++ ([x0, x1, x2, x3] ++ B)) (n + 3) = x3.toNat := by
  subst h
  unfold at_
  simp only [List.getD_eq_getElem?_getD]
  refine ⟨?_, ?_, ?_, ?_⟩
  · rw [List.getElem?_append_right (Nat.le_refl _)]; simp
  · rw [List.getElem?_append_right (by omega)]; simp
  · rw [List.getElem?_append_right (by omega)]; simp
  · rw [List.getElem?_append_right (by omega)]; simp

theorem three_bytes (o : Nat) (ho : o < 728) :
    (Bytes.b (min o 255)).toNat + (Bytes.b (min (o - min o 255) 255)).toNat +
      (Bytes.b (o - min o 255 - min (o - min o 255) 255)).toNat + (0 : UInt8).toNat = o := by
  simp only [Bytes.b, UInt8.toNat_ofNat', UInt8.toNat_zero]
  omega

/-- every one of the 728 offsets of either scheme is selected by some fill -/
theorem C11_offsets_onto (role : Role) (o : Nat) (ho : o < 728) :
    ∃ fill : Bytes, fill.length = 1524 ∧
      ownOffset role ([0, 0, 0, 0, 128, 0, 7, 2] ++ fill ++ [0, 0, 0, 0]) =
        o + (match role with | .client => 12 | .server => 776) := by
  have h3 := three_bytes o ho
  generalize hx0 : Bytes.b (min o 255) = x0 at h3
  generalize hx1 : Bytes.b (min (o - min o 255) 255) = x1 at h3
  generalize hx2 : Bytes.b (o - min o 255 - min (o - min o 255) 255) = x2 at h3
  cases role
  · refine ⟨List.replicate 764 0 ++ ([x0, x1, x2, 0] ++ List.replicate 756 0), ?_, ?_⟩
    · simp only [List.length_append, List.length_replicate, List.length_cons, List.length_nil]
    · have e : ([0, 0, 0, 0, 128, 0, 7, 2] ++ (List.replicate 764 0 ++ ([x0, x1, x2, 0] ++ List.replicate 756 0)) ++ [0, 0, 0, 0] : Bytes)
          = ([0, 0, 0, 0, 128, 0, 7, 2] ++ List.replicate 764 0) ++ ([x0, x1, x2, 0] ++ (List.replicate 756 0 ++ [0, 0, 0, 0])) := by
        simp only [List.append_assoc]
      have hl : ([0, 0, 0, 0, 128, 0, 7, 2] ++ List.replicate 764 (0 : UInt8)).length = 772 := by
        simp only [List.length_append, List.length_replicate, List.length_cons, List.length_nil]
      obtain ⟨a0, a1, a2, a3⟩ := at_mid _ (List.replicate 756 0 ++ [0, 0, 0, 0]) x0 x1 x2 0 772 hl
      simp only [ownOffset, serverOffset, e, a0, a1, a2, a3]
      omega
  · refine ⟨[x0, x1, x2, 0] ++ List.replicate 1520 0, ?_, ?_⟩
    · simp only [List.length_append, List.length_replicate, List.length_cons, List.length_nil]
    · have e : ([0, 0, 0, 0, 128, 0, 7, 2] ++ ([x0, x1, x2, 0] ++ List.replicate 1520 0) ++ [0, 0, 0, 0] : Bytes)
          = [0, 0, 0, 0, 128, 0, 7, 2] ++ ([x0, x1, x2, 0] ++ (List.replicate 1520 0 ++ [0, 0, 0, 0])) := by
        simp only [List.append_assoc]
      obtain ⟨a0, a1, a2, a3⟩ := at_mid [0, 0, 0, 0, 128, 0, 7, 2] (List.replicate 1520 0 ++ [0, 0, 0, 0]) x0 x1 x2 0 8 rfl
      simp only [ownOffset, clientOffset, e, a0, a1, a2, a3]
      omega

end Rml.C11
