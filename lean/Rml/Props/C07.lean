/-
C07 — chunk serializer output is a spec-conformant chunk stream.   STATUS: proved.

`C07_legal` (Thm A): for EVERY history of messages and chunk-size changes the serializer model
accepts (any type ids, stream ids, timestamps, sizes 0..16,777,215, force/droppable flags), the
concatenated packets are read by the independent specification reader (Rml/Spec/Chunk.lean, written
from RTMP 1.0 §5.3.1; strict sequential class) into exactly the accepted messages, in order.
Hypothesis (reading 11 of DESIGN.md §9a): a type-1 payload handed directly to `serialize` does not
announce a chunk size other than the one in force (`SerHist.OpWF`; `C07_raw_type1_counterexample`
shows the hypothesis is needed).  The structural clauses the property lists (legal, minimal csids;
compression only when fields are equal; saturation / extended field; no chunk above the chunk size;
size announced before use) are separate theorems below, for every chunk the model can emit.
-/
import Rml.Lemmas.SerHist

namespace Rml.C07
open Rml Rml.Bytes Rml.Chunk Rml.Ser

/-- chunk stream ids are legal (2..6) … -/
theorem C07_csid_legal (typ : Nat) : 2 ≤ csidFor typ ∧ csidFor typ ≤ 6 := by
  unfold csidFor
  split
  · omega
  · split
    · omega
    · split
      · omega
      · split <;> omega

/-- … and minimally encoded: the basic header is the single byte `fmt·64 + csid` -/
theorem C07_csid_minimal (fmt : Fmt) (h : Hdr) :
    ∃ rest, headerBytes fmt h = b (fmt.toNat * 64 + h.csid) :: rest := by
  unfold headerBytes; exact ⟨_, rfl⟩

/-- a compressed header is chosen only when the omitted fields equal those stored for the preceding
    chunk on that chunk stream: format 1 needs the same message stream id, format 2 also the same
    length and type, format 3 also the same timestamp delta -/
theorem C07_compressed_only_when_equal (cur prev : Hdr) :
    (headerFormat cur prev = .f1 → cur.msid = prev.msid) ∧
    (headerFormat cur prev = .f2 → cur.msid = prev.msid ∧ cur.typ = prev.typ ∧ cur.len = prev.len) ∧
    (headerFormat cur prev = .f3 →
      cur.msid = prev.msid ∧ cur.typ = prev.typ ∧ cur.len = prev.len ∧ cur.field = prev.field) := by
  unfold headerFormat
  refine ⟨?_, ?_, ?_⟩ <;> intro h <;> (repeat' split at h) <;> simp_all <;> omega

/-- the 24-bit timestamp field saturates at 0xFFFFFF and the 32-bit extended field is present exactly
    then: the header is, in this order, basic header, [min(field, 0xFFFFFF)], [length, type],
    [stream id], [field as 32 bit iff field ≥ 0xFFFFFF] -/
theorem C07_ext_iff_saturated (fmt : Fmt) (h : Hdr) :
    headerBytes fmt h =
      [b (fmt.toNat * 64 + h.csid)] ++
      (if fmt = .f3 then [] else be24 (min h.field 16777215)) ++
      (if fmt = .f3 ∨ fmt = .f2 then [] else be24 h.len ++ [b h.typ]) ++
      (if fmt = .f0 then le32 h.msid else []) ++
      (if h.field ≥ 16777215 then be32 h.field else []) := by
  unfold headerBytes maxTs24
  by_cases hf : h.field < 16777215
  · have : ¬ h.field ≥ 16777215 := by omega
    simp [hf, this]
  · have : h.field ≥ 16777215 := by omega
    simp [hf, this]

/-- no chunk carries more payload than the chunk size in force, and the pieces are the payload -/
theorem C07_chunk_le_size (s : State) (hs : 1 ≤ s.maxCs) (data : Bytes) :
    (∀ sl ∈ slices s.maxCs data, sl.length ≤ s.maxCs) ∧ (slices s.maxCs data).flatten = data :=
  ⟨slices_le _ _, slices_flatten _ hs _⟩

/-- a new chunk size is announced in-band, under the OLD size, before its first use: the setter's
    packet is the serialization of the SetChunkSize message in the unchanged state, and only the
    returned state uses the new size -/
theorem C07_size_announced_first (s s' : State) (n ts : Nat) (p : Packet)
    (h : setMaxChunkSize s n ts = .ok (s', p)) :
    ∃ s1, serialize s { ts := ts, typ := 1, msid := 0, data := be32 n } true false = .ok (s1, p) ∧
      s' = { s1 with maxCs := n } ∧ s1.maxCs = s.maxCs := by
  unfold setMaxChunkSize at h
  split at h
  · simp at h
  · cases hser : serialize s { ts := ts, typ := 1, msid := 0, data := be32 n } true false with
    | err e => rw [hser] at h; simp at h
    | hang => rw [hser] at h; simp at h
    | ok r =>
      obtain ⟨s1, p1⟩ := r
      rw [hser] at h
      simp only [Outcome.ok.injEq, Prod.mk.injEq] at h
      refine ⟨s1, by rw [h.2], h.1.symm, ?_⟩
      unfold serialize at hser
      split at hser
      · simp at hser
      · split at hser
        · simp at hser
        · simp only [Outcome.ok.injEq, Prod.mk.injEq] at hser
          rw [← hser.1]; exact addChunks_maxCs _ _ _ _ _ _

open Rml.SerHist in
theorem keepSel_nil (xs : List (Packet × Msg)) : keepSel [] xs = xs := by
  induction xs with
  | nil => rfl
  | cons x xs ih => obtain ⟨p, m⟩ := x; simp [keepSel, ih]

open Rml.SerHist in
/-- **C07 (Thm A).**  The bytes of every accepted history are a stream the specification reader
    decodes into exactly the accepted messages, in order. -/
theorem C07_legal (ops : List C19.SerOp) (hwf : HistWF {} ops) :
    Spec.Chunk.decodeSeq (wire (trace {} ops)) = some (msgs (trace {} ops)) := by
  obtain ⟨sE, this, _⟩ := hist_reads ops {} {} [] SR_init hwf
  rw [keepSel_nil] at this
  exact SerSpec.reads_decodeSeq this

-- the hypothesis about hand-made type-1 payloads is needed (and the model mirrors the code here: the
-- serializer does not adopt a size announced by a payload it was merely asked to carry): a raw
-- type-1 payload announcing 1, then a 2-byte message, is not what the specification reader can read back
open Rml.SerHist in
theorem C07_raw_type1_counterexample :
    (Spec.Chunk.decodeSeq (wire (trace {} [.msg { ts := 0, typ := 1, msid := 0, data := [0, 0, 0, 1] } false false,
                                           .msg { ts := 0, typ := 8, msid := 1, data := [7, 7] } false false]))).isNone = true := by
  decide +kernel

end Rml.C07
