/-
C10 — the client session follows the connect / create / publish|play workflow in every history.
Model: Rml/Model/ClientSession.lean, tied to rtmp/src/sessions/client/mod.rs by the `client` family.
All theorems hold for EVERY state, hence after every history.
-/
import Rml.Model.ClientSession
namespace Rml.C10
open Rml Rml.Chunk Rml.Amf0 Rml.Msgs Rml.Sess Rml.Cli

/-- `send` only advances the serializer -/
theorem send_ok {s s' : State} {m : RtmpMsg} {ts msid : Nat} {d : Bool} {p : Ser.Packet}
    (h : send s m ts msid d = .ok (s', p)) : ∃ ser', s' = { s with ser := ser' } := by
  unfold send at h
  split at h
  · simp at h
  · rename_i ser' p' _
    simp only [Except.ok.injEq, Prod.mk.injEq] at h
    exact ⟨ser', h.1.symm⟩

/-- GUARDS: a request from a state that does not permit it is refused, emits nothing and changes nothing -/
theorem C10_guard_connect (s : State) (now : Nat) (app : Bytes) (h : s.st ≠ .disconnected) :
    requestConnection s now app = (s, .error .cantConnect) := by
  unfold requestConnection; simp [h]

theorem C10_guard_stream (s : State) (now : Nat) (p : Purpose) (h : s.st ≠ .connected) :
    requestStream s now p = (s, .error .invalidState) := by
  unfold requestStream; simp [h]

theorem C10_guard_publish (s : State) (now : Nat) (m : Metadata) (video : Bool) (data : Bytes) (ts : Nat) (drop : Bool)
    (h : s.st ≠ .publishing) :
    publishMetadata s now m = (s, .error .invalidState) ∧ publishMedia s video data ts drop = (s, .error .invalidState) := by
  unfold publishMetadata publishMedia publishGuard; simp [h]

/-- permitted requests register exactly one transaction under a fresh id and emit exactly one packet -/
theorem C10_connect_registers (s : State) (now : Nat) (app : Bytes) (h : s.st = .disconnected) :
    (requestConnection s now app).1.nextTxn = s.nextTxn + 1 ∧
    mapGet s.nextTxn (requestConnection s now app).1.txns = some (.connection app) ∧
    (requestConnection s now app).1.st = .disconnected := by
  unfold requestConnection
  simp only [h, ne_eq, not_true_eq_false, if_false]
  split
  · exact ⟨rfl, mapGet_mapInsert_self _ _ _, by simpa using h⟩
  · rename_i s2 p hs; obtain ⟨ser', rfl⟩ := send_ok hs; exact ⟨rfl, mapGet_mapInsert_self _ _ _, by simpa using h⟩

theorem C10_stream_registers (s : State) (now : Nat) (p : Purpose) (h : s.st = .connected) :
    (requestStream s now p).1.nextTxn = s.nextTxn + 1 ∧
    mapGet s.nextTxn (requestStream s now p).1.txns = some (.createStream p) := by
  unfold requestStream
  simp only [h, ne_eq, not_true_eq_false, if_false]
  split
  · exact ⟨rfl, mapGet_mapInsert_self _ _ _⟩
  · rename_i s2 pk hs; obtain ⟨ser', rfl⟩ := send_ok hs; exact ⟨rfl, mapGet_mapInsert_self _ _ _⟩

/-- RESULTS: an answer to an unknown transaction (`f64 as u32` of its id is not outstanding) is reported
    and not applied -/
theorem C10_unknown_transaction (s : State) (now tid : Nat) (obj : Val) (args : List Val)
    (h : mapGet (F64.toU32 tid) s.txns = none) :
    handleResult s now tid obj args = .ok (s, [.ev (.unknownTransactionResult tid obj args)]) ∧
    handleError s tid obj args = .ok (s, [.ev (.unknownTransactionResult tid obj args)]) := by
  unfold handleResult handleError; simp [h]

/-- a connect result moves to Connected with the requested app name, announces the window and the
    chunk size, and raises the accepted event; the transaction is consumed -/
theorem C10_connect_result (s s' : State) (now tid : Nat) (obj : Val) (args : List Val) (app : Bytes) (rs : List Res)
    (ht : mapGet (F64.toU32 tid) s.txns = some (.connection app)) (h : handleResult s now tid obj args = .ok (s', rs)) :
    s'.st = .connected ∧ s'.app = some app ∧ mapGet (F64.toU32 tid) s'.txns = none ∧
    (∃ p1 p2, rs = [.out p1, .ev .connectionAccepted, .out p2]) ∧ s'.ser.maxCs = s.cfg.chunkSize := by
  unfold handleResult at h
  simp only [ht] at h
  split at h
  · simp at h
  · rename_i s2 p1 hs
    obtain ⟨ser', rfl⟩ := send_ok hs
    split at h
    · simp at h
    · simp at h
    · rename_i ser3 p2 hcs
      simp only [Except.ok.injEq, Prod.mk.injEq] at h
      obtain ⟨h1, h2⟩ := h
      subst h1 h2
      refine ⟨rfl, rfl, mapGet_mapRemove_self _ _, ⟨p1, p2, rfl⟩, ?_⟩
      unfold Ser.setMaxChunkSize at hcs
      split at hcs
      · simp at hcs
      · split at hcs <;> simp at hcs
        rw [← hcs.1]

/-- a createStream result makes the returned stream id (`f64 as u32`) the active stream and moves to
    PlayRequested / PublishRequested; without a numeric stream id it is an error -/
theorem C10_create_result (s s' : State) (now tid : Nat) (obj : Val) (args : List Val) (p : Purpose) (rs : List Res)
    (ht : mapGet (F64.toU32 tid) s.txns = some (.createStream p)) (h : handleResult s now tid obj args = .ok (s', rs)) :
    ∃ n rest, args = .number n :: rest ∧ s'.activeStream = some (F64.toU32 n) ∧
      mapGet (F64.toU32 tid) s'.txns = none ∧
      (match p with | .play _ => s'.st = .playRequested ∧ rs.length = 2 | .publish _ _ => s'.st = .publishRequested ∧ rs.length = 1) := by
  unfold handleResult at h
  simp only [ht] at h
  match args, h with
  | .number n :: rest, h =>
    refine ⟨n, rest, rfl, ?_⟩
    simp only at h
    cases p with
    | play k =>
      simp only at h
      split at h
      · simp at h
      · rename_i s3 p1 hs1
        obtain ⟨ser1, rfl⟩ := send_ok hs1
        split at h
        · simp at h
        · rename_i s4 p2 hs2
          obtain ⟨ser2, rfl⟩ := send_ok hs2
          simp only [Except.ok.injEq, Prod.mk.injEq] at h
          obtain ⟨h1, h2⟩ := h
          subst h1 h2
          exact ⟨rfl, mapGet_mapRemove_self _ _, rfl, rfl⟩
    | publish k t =>
      simp only at h
      split at h
      · simp at h
      · rename_i s3 p1 hs1
        obtain ⟨ser1, rfl⟩ := send_ok hs1
        simp only [Except.ok.injEq, Prod.mk.injEq] at h
        obtain ⟨h1, h2⟩ := h
        subst h1 h2
        exact ⟨rfl, mapGet_mapRemove_self _ _, rfl, rfl⟩
  | [], h => simp at h
  | .boolean _ :: _, h => simp at h
  | .str _ :: _, h => simp at h
  | .object _ :: _, h => simp at h
  | .array _ :: _, h => simp at h
  | .null :: _, h => simp at h
  | .undefined :: _, h => simp at h

/-- STATUS: a start status is applied only from the matching requested state; from any other state it
    is an error and nothing changes -/
theorem C10_status (s : State) (props : List (Bytes × Val)) (rest : List Val) :
    (propGet (str "code") props = some (.str (str "NetStream.Play.Start")) →
      handleOnStatus s (.object props :: rest) =
        if s.st = .playRequested then .ok ({ s with st := .playing }, [.ev .playbackAccepted]) else .error .invalidState) ∧
    (propGet (str "code") props = some (.str (str "NetStream.Publish.Start")) →
      handleOnStatus s (.object props :: rest) =
        if s.st = .publishRequested then .ok ({ s with st := .publishing }, [.ev .publishAccepted]) else .error .invalidState) := by
  constructor
  · intro h; unfold handleOnStatus; simp [h]
  · intro h; unfold handleOnStatus
    have : str "NetStream.Publish.Start" ≠ str "NetStream.Play.Start" := by decide
    simp [h, this]

/-- MEDIA GATE: media events are raised only for the active stream while play is requested or running -/
theorem C10_media_gate (s : State) (video : Bool) (sid : Nat) (data : Bytes) (ts : Nat) (rs : List Res)
    (h : handleMedia s video sid data ts = .ok rs) (hne : rs ≠ []) :
    (s.st = .playRequested ∨ s.st = .playing) ∧ s.activeStream = some sid ∧
    rs = [.ev (if video then .video ts data else .audio ts data)] := by
  unfold handleMedia at h
  split at h
  · simp at h
  · rename_i hst
    cases ha : s.activeStream with
    | none => simp [ha] at h; exact absurd h hne
    | some a =>
      simp only [ha] at h
      split at h
      · simp at h; exact absurd h hne
      · rename_i hs
        simp only [Except.ok.injEq] at h
        refine ⟨?_, ?_, h.symm⟩
        · cases hh : s.st <;> simp_all
        · simp only [ne_eq, Decidable.not_not] at hs; rw [hs]

/-- STOP: stopping an activity emits a deleteStream for the active stream and returns to Connected;
    outside the matching states it does nothing at all -/
theorem C10_stop (s : State) (now : Nat) (play : Bool) (sid : Nat) (ha : s.activeStream = some sid)
    (hst : if play then (s.st = .playing ∨ s.st = .playRequested) else (s.st = .publishing ∨ s.st = .publishRequested)) :
    (stop s now play).1.st = .connected ∧ (stop s now play).1.activeStream = none ∧
    (∀ rs, (stop s now play).2 = .ok rs → ∃ p, rs = [.out p]) := by
  unfold stop
  have hact : (if play = true then s.st = CState.playing ∨ s.st = CState.playRequested
      else s.st = CState.publishing ∨ s.st = CState.publishRequested) := hst
  simp only [hact, not_true_eq_false, if_false, ha]
  split
  · exact ⟨rfl, rfl, fun rs h => by simp at h⟩
  · rename_i s2 p hs
    obtain ⟨ser', rfl⟩ := send_ok hs
    exact ⟨rfl, rfl, fun rs h => ⟨p, by simp at h; exact h.symm⟩⟩

theorem C10_stop_noop (s : State) (now : Nat) (play : Bool)
    (hst : ¬ (if play then (s.st = .playing ∨ s.st = .playRequested) else (s.st = .publishing ∨ s.st = .publishRequested))) :
    stop s now play = (s, .ok []) := by
  unfold stop
  have hact : ¬ (if play = true then s.st = CState.playing ∨ s.st = CState.playRequested
      else s.st = CState.publishing ∨ s.st = CState.publishRequested) := hst
  simp only [hact, not_false_eq_true, if_true]

/-- the deleteStream carries the active stream id, on that message stream -/
theorem C10_stop_message (s : State) (now : Nat) (play : Bool) (sid : Nat) (ha : s.activeStream = some sid)
    (hst : if play then (s.st = .playing ∨ s.st = .playRequested) else (s.st = .publishing ∨ s.st = .publishRequested)) :
    stop s now play =
      match send { s with st := .connected, activeStream := none }
          (.amf0Command (str "deleteStream") 0 .null [.number (F64.ofU32 sid)]) (epoch now) sid with
      | .error e => ({ s with st := .connected, activeStream := none }, .error e)
      | .ok (s2, p) => (s2, .ok [.out p]) := by
  unfold stop
  have hact : (if play = true then s.st = CState.playing ∨ s.st = CState.playRequested
      else s.st = CState.publishing ∨ s.st = CState.publishRequested) := hst
  simp only [hact, not_true_eq_false, if_false, ha]
  cases send { s with st := .connected, activeStream := none }
      (.amf0Command (str "deleteStream") 0 .null [.number (F64.ofU32 sid)]) (epoch now) sid with
  | error e => rfl
  | ok r => rfl

/-- PING: every ping request is echoed with the same timestamp -/
theorem C10_ping_echo (s : State) (now : Nat) (p : Msg) (a b : Option Nat) (t : Nat) :
    handleMessage s now p (.userControl .pingRequest a b (some t)) =
      (match send s (.userControl .pingResponse none none (some t)) (epoch now) 0 with
       | .error e => (s, .error e)
       | .ok (s', pk) => (s', .ok [.out pk])) ∧
    toPayload (.userControl .pingResponse none none (some t)) = .ok (4, [0, 7] ++ Bytes.be32 t) :=
  ⟨rfl, rfl⟩

/-- A REFUSED STATUS CHANGES NOTHING: an `onStatus` the session refuses (a start status that answers no
    request of this session, a status without a code, …) leaves the whole session state exactly as it was —
    the call reports the error and nothing else happens -/
theorem C10_refused_status_changes_nothing (s : State) (now : Nat) (p : Msg) (tid : Nat) (obj : Val) (args : List Val)
    (e : Err) (h : handleOnStatus s args = .error e) :
    handleMessage s now p (.amf0Command (str "onStatus") tid obj args) = (s, .error e) := by
  unfold handleMessage
  have h1 : str "onStatus" ≠ str "_result" := by decide
  have h2 : str "onStatus" ≠ str "_error" := by decide
  simp only [h1, h2, if_false, if_true, h]

/-- … in particular a start status in any state other than the one that requested it -/
theorem C10_stray_start_status (s : State) (now : Nat) (p : Msg) (tid : Nat) (obj : Val)
    (props : List (Bytes × Val)) (rest : List Val) :
    (propGet (str "code") props = some (.str (str "NetStream.Play.Start")) → s.st ≠ .playRequested →
      handleMessage s now p (.amf0Command (str "onStatus") tid obj (.object props :: rest)) = (s, .error .invalidState)) ∧
    (propGet (str "code") props = some (.str (str "NetStream.Publish.Start")) → s.st ≠ .publishRequested →
      handleMessage s now p (.amf0Command (str "onStatus") tid obj (.object props :: rest)) = (s, .error .invalidState)) := by
  obtain ⟨a, b⟩ := C10_status s props rest
  constructor
  · intro hc hs
    apply C10_refused_status_changes_nothing
    rw [a hc, if_neg hs]
  · intro hc hs
    apply C10_refused_status_changes_nothing
    rw [b hc, if_neg hs]

end Rml.C10
