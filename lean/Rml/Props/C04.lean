/-
C04 — AMF0 encoding never silently corrupts: encode then decode is the identity.
Model: Rml/Model/Amf0.lean (tied to amf0/src by the `amf` correspondence family).
A `HashMap` is an association list; `Val.WF` is what the Rust types guarantee (valid UTF-8, distinct
names per map, 64-bit numbers, < 2^32 elements per Vec); the list order of an object is the map's
(arbitrary) enumeration order, so the theorems hold for every enumeration order.
-/
import Rml.Lemmas.Amf0Enc
import Rml.Lemmas.Amf0Dec
namespace Rml.C04
open Rml Rml.Amf0

/-- Every value sequence the encoder accepts decodes, consuming all bytes, to exactly the same
    sequence: numbers bit for bit, strings and names byte for byte, each object with the same
    name → value pairs (even in the same order, which is more than the property asks). -/
theorem C04_roundtrip (vs : List Val) (bs : Bytes) (wf : WFList vs) (h : encode vs = .ok bs) :
    decodeRest bs = .ok (vs, []) := by
  have hspec := encList_spec 0 vs bs h wf
  have hexp := (encList_ok_iff 0 vs).mp ⟨bs, h⟩
  have hdep : depthList vs ≤ maxDepth := by
    have := expressibleList_depth 0 vs hexp
    simp only [maxDepth] at *; omega
  have := readAll_spec vs bs hspec wf (bs.length + 2) [] hdep (Nat.le_refl _)
  simpa [decodeRest] using this

/-- the same, for `deserialize`'s return value alone -/
theorem C04_roundtrip_values (vs : List Val) (bs : Bytes) (wf : WFList vs) (h : encode vs = .ok bs) :
    decode bs = .ok vs := by
  simp [decode, C04_roundtrip vs bs wf h]

/-- Encoding succeeds exactly for expressible values: it reports an error exactly when some string
    or property name exceeds 65,535 bytes, some name is empty, or nesting exceeds the limit. -/
theorem C04_errors (vs : List Val) : (∃ bs, encode vs = .ok bs) ↔ ExpressibleList 0 vs :=
  encList_ok_iff 0 vs

/-- "never succeeds with bytes that fail to decode or decode to something else" -/
theorem C04_never_corrupts (vs : List Val) (wf : WFList vs) :
    (∃ e, encode vs = .error e) ∨ (∃ bs, encode vs = .ok bs ∧ decode bs = .ok vs) := by
  cases h : encode vs with
  | error e => exact Or.inl ⟨e, rfl⟩
  | ok bs => exact Or.inr ⟨bs, rfl, C04_roundtrip_values vs bs wf h⟩

-- non-vacuity: a nested value with a NaN, an object with two names, a non-ASCII string
example : encode [.object [([107], .number 0x7FF8000000000001), ([0xC3, 0xA9], .array [.str [0xF0, 0x9F, 0x98, 0x80], .null])]]
    = .ok [3, 0, 1, 107, 0, 0x7F, 0xF8, 0, 0, 0, 0, 0, 1, 0, 2, 0xC3, 0xA9, 10, 0, 0, 0, 2, 2, 0, 4, 0xF0, 0x9F, 0x98, 0x80, 5, 0, 0, 9] := by
  rfl
-- the refused inputs exist: an empty property name is an error, not garbage
example : encode [.object [([], .null)]] = .error .emptyName := by rfl

end Rml.C04
