/-
C08 — dropping any subset of droppable packets leaves the stream decodable.   STATUS: the mechanism
that makes it hold is proved here for every state (after a droppable header on a chunk stream the next
message there starts with a full, self-contained format-0 header, and a packet that is not droppable
never depends on a droppable one); the end-to-end statement for every history and every subset (Thm B ∘
Thm A with drops) is NOT yet a theorem and is covered by the correspondence run under drop masks, the
round-trip oracle (!chunk.rt mask) and the reference decoder oracle (!chunk.ref mask), with ALL masks
enumerated for the small-scope histories.
-/
import Rml.Lemmas.Ser
namespace Rml.C08
open Rml Rml.Bytes Rml.Chunk Rml.Ser

/-- the header format `add_chunk` chooses for the FIRST chunk of a message -/
def firstFmt (s : State) (force : Bool) (m : Msg) : Fmt :=
  if force then .f0
  else match mapGet (csidFor m.typ) s.prev with
    | none => .f0
    | some p =>
      if p.drop then .f0
      else headerFormat { csid := csidFor m.typ, ts := m.ts, field := sub32 m.ts p.ts, len := m.data.length,
                          typ := m.typ, msid := m.msid, drop := false } p

/-- `firstFmt` is what `addChunk` emits: the first byte of a message's first chunk is
    `firstFmt·64 + csid` -/
theorem addChunk_first_byte (s : State) (force : Bool) (m : Msg) (sl : Bytes) (drop : Bool) :
    ∃ rest, (addChunk s force m false sl drop).2 =
      b ((firstFmt s force m).toNat * 64 + csidFor m.typ) :: rest := by
  unfold addChunk firstFmt headerBytes headerFormat
  cases force <;> simp
  cases hg : mapGet (csidFor m.typ) s.prev with
  | none => simp
  | some p =>
    simp only
    by_cases hd : p.drop = true
    · simp [hd]
    · simp only [hd, Bool.false_eq_true, if_false]
      repeat' split
      all_goals simp_all

/-- after a droppable packet on a chunk stream, the next message on that chunk stream starts with a
    full (format 0) header: it can be decoded whether or not the droppable packet was delivered -/
theorem C08_full_header_after_droppable (s : State) (force : Bool) (m : Msg) (p : Hdr)
    (hp : mapGet (csidFor m.typ) s.prev = some p) (hd : p.drop = true) :
    firstFmt s force m = .f0 := by
  unfold firstFmt
  cases force <;> simp [hp, hd]

/-- the header the serializer remembers for a chunk stream carries the droppable flag of the packet it
    was sent in — so the rule above looks at the right packet -/
theorem C08_flag_recorded (s : State) (force : Bool) (m : Msg) (cont : Bool) (sl : Bytes) (drop : Bool) :
    (mapGet (csidFor m.typ) (addChunk s force m cont sl drop).1.prev).map (·.drop) = some drop := by
  unfold addChunk
  simp only [mapInsert, mapGet, if_true]
  split <;> split <;> simp_all <;> (repeat' split) <;> simp_all

theorem serialize_drop (s s' : State) (m : Msg) (f d : Bool) (p : Packet)
    (h : serialize s m f d = .ok (s', p)) : p.drop = d := by
  unfold serialize at h
  split at h
  · simp at h
  · split at h
    · simp at h
    · simp only [Outcome.ok.injEq, Prod.mk.injEq] at h; rw [← h.2]

/-- chunk-size announcements are never droppable -/
theorem C08_announcement_not_droppable (s s' : State) (n ts : Nat) (p : Packet)
    (h : setMaxChunkSize s n ts = .ok (s', p)) : p.drop = false := by
  unfold setMaxChunkSize at h
  split at h
  · simp at h
  · cases hser : serialize s { ts := ts, typ := 1, msid := 0, data := be32 n } true false with
    | err e => rw [hser] at h; simp at h
    | hang => rw [hser] at h; simp at h
    | ok r =>
      obtain ⟨s1, p1⟩ := r
      rw [hser] at h
      simp only [Outcome.ok.injEq, Prod.mk.injEq] at h
      rw [← h.2]; exact serialize_drop _ _ _ _ _ _ hser

end Rml.C08
