/-
C08 — dropping any subset of droppable packets leaves the stream decodable.   STATUS: proved.

`C08_drop_any_subset` (Thm B ∘ Thm A with drops): for EVERY accepted history and EVERY subset of the
packets returned marked droppable, the remaining packets, in order, are (a) read by the specification
reader as exactly the messages of the remaining packets — original type, stream id, timestamp,
payload — and (b) decoded by the deserializer model into exactly those messages with no error,
however the bytes are split across calls.  Non-droppable packets are never removed by `keepSel`
(`C08_keeps_non_droppable`).  Hypothesis as for C07 (hand-made type-1 payloads, reading 11).
The mechanism (full header after a droppable one, flag recorded per chunk stream) is proved
separately for every state.
-/
import Rml.Lemmas.SerHist
import Rml.Props.C06

namespace Rml.C08
open Rml Rml.Bytes Rml.Chunk Rml.Ser

/-- the header format `add_chunk` chooses for the FIRST chunk of a message -/
def firstFmt (s : State) (force : Bool) (m : Msg) : Fmt :=
  if force then .f0
  else match mapGet (csidFor m.typ) s.prev with
    | none => .f0
    | some p =>
      if p.drop then .f0
      else headerFormat { csid := csidFor m.typ, ts := m.ts, field := sub32 m.ts p.ts, len := m.data.length,
                          typ := m.typ, msid := m.msid, drop := false } p

/-- `firstFmt` is what `addChunk` emits: the first byte of a message's first chunk is
    `firstFmt·64 + csid` -/
theorem addChunk_first_byte (s : State) (force : Bool) (m : Msg) (sl : Bytes) (drop : Bool) :
    ∃ rest, (addChunk s force m false sl drop).2 =
      b ((firstFmt s force m).toNat * 64 + csidFor m.typ) :: rest := by
  unfold addChunk firstFmt headerBytes headerFormat
  cases force <;> simp
  cases hg : mapGet (csidFor m.typ) s.prev with
  | none => simp
  | some p =>
    simp only
    by_cases hd : p.drop = true
    · simp [hd]
    · simp only [hd, Bool.false_eq_true, if_false]
      repeat' split
      all_goals simp_all

/-- after a droppable packet on a chunk stream, the next message on that chunk stream starts with a
    full (format 0) header: it can be decoded whether or not the droppable packet was delivered -/
theorem C08_full_header_after_droppable (s : State) (force : Bool) (m : Msg) (p : Hdr)
    (hp : mapGet (csidFor m.typ) s.prev = some p) (hd : p.drop = true) :
    firstFmt s force m = .f0 := by
  unfold firstFmt
  cases force <;> simp [hp, hd]

/-- the header the serializer remembers for a chunk stream carries the droppable flag of the packet it
    was sent in — so the rule above looks at the right packet -/
theorem C08_flag_recorded (s : State) (force : Bool) (m : Msg) (cont : Bool) (sl : Bytes) (drop : Bool) :
    (mapGet (csidFor m.typ) (addChunk s force m cont sl drop).1.prev).map (·.drop) = some drop := by
  unfold addChunk
  simp only [mapInsert, mapGet, if_true]
  split <;> split <;> simp_all <;> (repeat' split) <;> simp_all

theorem serialize_drop (s s' : State) (m : Msg) (f d : Bool) (p : Packet)
    (h : serialize s m f d = .ok (s', p)) : p.drop = d := by
  unfold serialize at h
  split at h
  · simp at h
  · split at h
    · simp at h
    · simp only [Outcome.ok.injEq, Prod.mk.injEq] at h; rw [← h.2]

/-- chunk-size announcements are never droppable -/
theorem C08_announcement_not_droppable (s s' : State) (n ts : Nat) (p : Packet)
    (h : setMaxChunkSize s n ts = .ok (s', p)) : p.drop = false := by
  unfold setMaxChunkSize at h
  split at h
  · simp at h
  · cases hser : serialize s { ts := ts, typ := 1, msid := 0, data := be32 n } true false with
    | err e => rw [hser] at h; simp at h
    | hang => rw [hser] at h; simp at h
    | ok r =>
      obtain ⟨s1, p1⟩ := r
      rw [hser] at h
      simp only [Outcome.ok.injEq, Prod.mk.injEq] at h
      rw [← h.2]; exact serialize_drop _ _ _ _ _ _ hser

open Rml.SerHist in
/-- **C08.**  Any subset of the droppable packets may be omitted. -/
theorem C08_drop_any_subset (ops : List C19.SerOp) (hwf : HistWF {} ops) (mask : List Bool) :
    Spec.Chunk.decodeSeq (wire (keepSel mask (trace {} ops))) = some (msgs (keepSel mask (trace {} ops))) ∧
    (Des.feed {} (wire (keepSel mask (trace {} ops)))).msgs = msgs (keepSel mask (trace {} ops)) ∧
    (Des.feed {} (wire (keepSel mask (trace {} ops)))).err = none := by
  obtain ⟨sE, hr, _⟩ := hist_reads ops {} {} mask SR_init hwf
  have h := SerSpec.reads_decodeSeq hr
  obtain ⟨h1, h2, _⟩ := C06.C06_decodes_legal _ _ h
  exact ⟨h, h1, h2⟩

open Rml.SerHist in
/-- … under every fragmentation of the remaining bytes -/
theorem C08_drop_any_subset_any_fragmentation (ops : List C19.SerOp) (hwf : HistWF {} ops) (mask : List Bool)
    (c1 : Bytes) (r1 : List Bytes) (hcut : (c1 :: r1).flatten = wire (keepSel mask (trace {} ops))) :
    (C15.feedAll {} (c1 :: r1)).msgs = msgs (keepSel mask (trace {} ops)) ∧
    (C15.feedAll {} (c1 :: r1)).err = none := by
  obtain ⟨sE, hr, _⟩ := hist_reads ops {} {} mask SR_init hwf
  have h := SerSpec.reads_decodeSeq hr
  rw [← hcut] at h
  exact C06.C06_decodes_legal_any_fragmentation c1 r1 _ h

open Rml.SerHist in
/-- packets not marked droppable are never omitted -/
theorem C08_keeps_non_droppable (xs : List (Packet × Msg)) : ∀ (mask : List Bool) (x : Packet × Msg),
    x ∈ xs → x.1.drop = false → x ∈ keepSel mask xs := by
  induction xs with
  | nil => intro _ _ h; cases h
  | cons y ys ih =>
    intro mask x hx hd
    obtain ⟨p, m⟩ := y
    unfold keepSel
    rcases List.mem_cons.mp hx with rfl | hx'
    · have hd' : p.drop = false := hd
      simp [hd']
    · by_cases hc : (p.drop && !(mask.headD true)) = true
      · simp only [hc, if_true]; exact ih _ x hx' hd
      · simp only [hc, if_false]; exact List.mem_cons_of_mem _ (ih _ x hx' hd)

-- non-vacuity: a history with two droppable packets of which the first is omitted, checked in the kernel
open Rml.SerHist in
example :
    let ops : List C19.SerOp :=
      [.msg { ts := 5, typ := 9, msid := 1, data := [1, 2, 3] } false false,
       .msg { ts := 45, typ := 9, msid := 1, data := [4, 5, 6] } false true,
       .msg { ts := 85, typ := 9, msid := 1, data := [7, 8, 9] } false true,
       .msg { ts := 125, typ := 9, msid := 1, data := [1, 1, 1] } false false]
    (msgs (keepSel [true, false, true, true] (trace {} ops))).map (·.ts) = [5, 85, 125] ∧
    (Spec.Chunk.decodeSeq (wire (keepSel [true, false, true, true] (trace {} ops)))).map (·.map (·.ts)) = some [5, 85, 125] := by
  decide +kernel

end Rml.C08
