/-
C16 — messages interleaved on different chunk streams are each reassembled intact.

KNOWN FINDING K1: the property is FALSE of the library.  The deserializer keeps ONE reassembly
buffer (`current_payload_data`) for all chunk streams, so a chunk of another chunk stream that
arrives while a message is partially reassembled is appended to (or measured against) the wrong
message.  `C16_counterexample` is the machine-checked witness on the model, which the `foreign`
family replays on the real deserializer on every run; the finding is keyed by "a chunk on another
chunk stream arrives while a message is partially reassembled" (`note overlap` cases), so any
failure on a non-overlapping multi-stream trace is still reported as a violation.

What does hold — messages on any number of chunk streams, alternating only between COMPLETE
messages — is the sequential statement C06.
-/
import Rml.Model.Deserializer
import Rml.Spec.Chunk
namespace Rml.C16
open Rml Rml.Chunk

/-- a 200-byte message on chunk stream 4 cut at the chunk size 128, with a complete 3-byte message on
    chunk stream 5 between its two chunks -/
def interleaved : Bytes :=
  [4, 0, 0, 10, 0, 0, 200, 9, 1, 0, 0, 0] ++ List.replicate 128 7 ++
  [5, 0, 0, 10, 0, 0, 3, 8, 1, 0, 0, 0, 1, 2, 3] ++
  [0xC4] ++ List.replicate 72 7

/-- the specification reader delivers both messages intact, the short one first … -/
theorem C16_spec_reads_it :
    (Spec.Chunk.decode interleaved).map (fun ms => ms.map fun m => (m.typ, m.msid, m.ts, m.data.length))
      = some [(8, 1, 10, 3), (9, 1, 10, 200)] := by
  decide +kernel

/-- … the library's deserializer delivers nothing and fails (K1) -/
theorem C16_counterexample :
    (Des.feed {} interleaved).msgs = [] ∧ (Des.feed {} interleaved).err = some .invalidLength := by
  decide +kernel

end Rml.C16
