/-
C17 — acknowledgements account for every received byte once the peer sets a window.
`Sess.ackStep` is the acknowledgement step both sessions run at the head of every `handle_input`
call (count, compare `≥`, report the count, reset).  The theorems are about every window `w ≥ 1` and
every list of call sizes; `runAcks` folds the step over the calls exactly as consecutive
`handle_input` calls do.  "Since the window was learned" is call-granular: the counter starts at 0
and the first call counted is the one after the call that delivered the window message
(DESIGN.md §9a reading 3).
-/
import Rml.Model.ServerSession
import Rml.Model.ClientSession
namespace Rml.C17
open Rml Rml.Sess

/-- consecutive input calls under a fixed window: the sequence numbers acknowledged (one entry per
    call, `none` = no acknowledgement in that call) and the final counter -/
def runAcks (w : Nat) : Nat → List Nat → List (Option Nat) × Nat
  | since, [] => ([], since)
  | since, n :: rest =>
    let (since', a) := ackStep (some w) since n
    let (as, fin) := runAcks w since' rest
    (a :: as, fin)

/-- one call: an acknowledgement is emitted exactly when the bytes received since the previous one
    reach the window, its value is that byte count, and the counter restarts; otherwise the bytes are
    added to the counter.  (No saturation: the count stays below 2^32.) -/
theorem C17_step (w since n : Nat) (hn : n < 4294967296) (hs : since + n < 4294967296) :
    ackStep (some w) since n = if since + n ≥ w then (0, some (since + n)) else (since + n, none) := by
  unfold ackStep
  simp only [Nat.mod_eq_of_lt hn, Nat.min_eq_left (Nat.le_of_lt_succ (by omega : since + n < 4294967295 + 1))]

/-- fewer than `w` bytes are outstanding after every call, however the input is fragmented -/
theorem C17_outstanding_lt (w : Nat) (hw : 1 ≤ w) (since n : Nat) : (ackStep (some w) since n).1 < w := by
  unfold ackStep
  simp only
  split <;> simp only <;> omega

theorem C17_outstanding_lt_run (w : Nat) (hw : 1 ≤ w) (calls : List Nat) : ∀ since, since < w →
    (runAcks w since calls).2 < w := by
  induction calls with
  | nil => intro since h; exact h
  | cons n rest ih =>
    intro since _
    simp only [runAcks]
    exact ih _ (C17_outstanding_lt w hw since n)

/-- sum of the acknowledged counts -/
def acked : List (Option Nat) → Nat
  | [] => 0
  | none :: r => acked r
  | some k :: r => k + acked r

/-- conservation: every received byte is acknowledged exactly once or still outstanding —
    Σ reported + outstanding = outstanding before + Σ call sizes (while counts stay below 2^32) -/
theorem C17_conservation (w : Nat) (hw : 1 ≤ w) (hw32 : w ≤ 4294967295) (calls : List Nat)
    (hcalls : ∀ n ∈ calls, n + w ≤ 4294967296) : ∀ since, since < w →
    acked (runAcks w since calls).1 + (runAcks w since calls).2 = since + calls.sum := by
  induction calls with
  | nil => intro since _; simp [runAcks, acked]
  | cons n rest ih =>
    intro since hs
    have hn := hcalls n (List.mem_cons_self)
    have hstep := C17_step w since n (by omega) (by omega)
    have hlt := C17_outstanding_lt w hw since n
    have ih' := ih (fun m hm => hcalls m (List.mem_cons_of_mem _ hm)) (ackStep (some w) since n).1 hlt
    simp only [runAcks, List.sum_cons]
    rw [hstep] at ih' ⊢
    by_cases hge : since + n ≥ w
    · simp only [hge, if_true] at ih' ⊢
      simp only [acked]; omega
    · simp only [hge, if_false] at ih' ⊢
      simp only [acked]; omega

/-- "in exactly those input calls": the i-th call emits an acknowledgement iff the counter reaches the window in it -/
theorem C17_emit_iff (w since n : Nat) (hn : n < 4294967296) (hs : since + n < 4294967296) :
    ((ackStep (some w) since n).2.isSome ↔ since + n ≥ w) ∧
    (∀ k, (ackStep (some w) since n).2 = some k → k = since + n) := by
  rw [C17_step w since n hn hs]
  by_cases h : since + n ≥ w <;> simp [h]

/-- before a window is known nothing is counted and nothing is acknowledged -/
theorem C17_no_window (since n : Nat) : ackStep none since n = (since, none) := rfl

/-- with the saturating counter (fix F10) the step never exceeds u32::MAX and still acknowledges as
    soon as the window is reached -/
theorem C17_saturation (w since n : Nat) (hw : w ≤ 4294967295) (hs : since ≤ 4294967295) :
    (ackStep (some w) since n).1 ≤ 4294967295 ∧
    (since + n % 4294967296 ≥ w → (ackStep (some w) since n).2.isSome) := by
  unfold ackStep
  simp only
  constructor
  · split <;> simp only <;> omega
  · intro h
    have : min (since + n % 4294967296) 4294967295 ≥ w := by omega
    simp [this]

/-- both sessions run exactly this step: the counter and the acknowledgement of a `handle_input` call
    are `ackStep` of the window known BEFORE the call, the counter before the call and the call size -/
theorem C17_server_uses_ackStep (s : Srv.State) (now : Nat) (bytes : Bytes) :
    (ackStep s.window s.since bytes.length).2 = none →
    Srv.handleInput s now bytes =
      Srv.msgLoop (bytes.length + s.des.buf.length + 2)
        { s with des := { s.des with buf := s.des.buf ++ bytes }, since := (ackStep s.window s.since bytes.length).1 } now [] := by
  intro h
  unfold Srv.handleInput
  cases hk : ackStep s.window s.since bytes.length with
  | mk since ack =>
    rw [hk] at h
    simp only at h
    subst h
    rfl

theorem C17_client_uses_ackStep (s : Cli.State) (now : Nat) (bytes : Bytes) :
    (ackStep s.window s.since bytes.length).2 = none →
    Cli.handleInput s now bytes =
      Cli.msgLoop (bytes.length + s.des.buf.length + 2)
        { s with des := { s.des with buf := s.des.buf ++ bytes }, since := (ackStep s.window s.since bytes.length).1 } now [] := by
  intro h
  unfold Cli.handleInput
  cases hk : ackStep s.window s.since bytes.length with
  | mk since ack =>
    rw [hk] at h
    simp only at h
    subst h
    rfl

-- non-vacuity: window 10, calls 3, 6, 1, 25, 0 → acknowledgements 10 (third call) and 25
example : runAcks 10 0 [3, 6, 1, 25, 0] = ([none, none, some 10, some 25, none], 0) := by decide

end Rml.C17
