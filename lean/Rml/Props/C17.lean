/-
C17 — acknowledgements account for every received byte once the peer sets a window.
`Sess.ackStep` is the acknowledgement step both sessions run at the head of every `handle_input`
call (count, compare `≥`, report the count, reset).  The theorems are about every window `w ≥ 1` and
every list of call sizes; `runAcks` folds the step over the calls exactly as consecutive
`handle_input` calls do.  "Since the window was learned" is call-granular: the counter starts at 0
and the first call counted is the one after the call that delivered the window message
(DESIGN.md §9a reading 3).

SESSION LEVEL (second half of the file; Lemmas/AckFrame.lean).  The step is tied to the two session models
for EVERY state and EVERY operation:
* `C17_server_every_call` / `C17_client_every_call`: in every state with outbound chunk size ≥ 1 (every
  reachable state: `C17_server_reachable_call`, `C17_client_reachable_call`), every `handle_input` call —
  any bytes, ending in results or in an error — leaves the counter at `ackStep`'s value; when no
  acknowledgement is due the call is the plain drain; when one is due the session's serializer emits
  exactly the Acknowledgement message carrying the count, as the FIRST result, and the rest is the drain;
* who may touch the fields: the window changes exactly when a Window Acknowledgement Size message of the
  peer is handled, to the announced value (`C17_server_window_from_peer_only`, `…client…`; after a call
  whose messages are all handled it is the LAST one announced: `C17_server_window_is_last_announced`,
  `…client…`) — not the session's own configured window, not Set Peer Bandwidth, not a command; no
  application call changes the window or the counter (`C17_server_calls_leave_counter`, `…client…`); the
  message loop never changes the counter, whatever it ends in (`C17_server_loop_leaves_counter`, `…client…`).
* "in exactly those input calls" (`C17_server_acks_in_call`, `C17_client_acks_in_call`, for every call of
  every history: `…_reachable_acks_in_call`; Lemmas/SrvNoAck, CliNoAck): the packets a successful call
  returns are exactly a history of the session's serializer which — when the step says none is due —
  contains NO Acknowledgement message, and — when it says `n` is due — is the Acknowledgement carrying `n`
  followed by messages none of which is an Acknowledgement: no handler run by the message loop sends one.
-/
import Rml.Model.ServerSession
import Rml.Model.ClientSession
import Rml.Lemmas.AckHop
import Rml.Lemmas.SessSafe
import Rml.Lemmas.AckFrame
import Rml.Lemmas.SrvNoAck
import Rml.Lemmas.CliNoAck
namespace Rml.C17
open Rml Rml.Bytes Rml.Chunk Rml.Amf0 Rml.Msgs Rml.Sess Rml.SerHist Rml.Emit Rml.Link Rml.Exchange Rml.WfSteps Rml.Workflow

/-- consecutive input calls under a fixed window: the sequence numbers acknowledged (one entry per
    call, `none` = no acknowledgement in that call) and the final counter -/
def runAcks (w : Nat) : Nat → List Nat → List (Option Nat) × Nat
  | since, [] => ([], since)
  | since, n :: rest =>
    let (since', a) := ackStep (some w) since n
    let (as, fin) := runAcks w since' rest
    (a :: as, fin)

/-- one call: an acknowledgement is emitted exactly when the bytes received since the previous one
    reach the window, its value is that byte count, and the counter restarts; otherwise the bytes are
    added to the counter.  (No saturation: the count stays below 2^32.) -/
theorem C17_step (w since n : Nat) (hn : n < 4294967296) (hs : since + n < 4294967296) :
    ackStep (some w) since n = if since + n ≥ w then (0, some (since + n)) else (since + n, none) := by
  unfold ackStep
  simp only [Nat.mod_eq_of_lt hn, Nat.min_eq_left (Nat.le_of_lt_succ (by omega : since + n < 4294967295 + 1))]

/-- fewer than `w` bytes are outstanding after every call, however the input is fragmented -/
theorem C17_outstanding_lt (w : Nat) (hw : 1 ≤ w) (since n : Nat) : (ackStep (some w) since n).1 < w := by
  unfold ackStep
  simp only
  split <;> simp only <;> omega

theorem C17_outstanding_lt_run (w : Nat) (hw : 1 ≤ w) (calls : List Nat) : ∀ since, since < w →
    (runAcks w since calls).2 < w := by
  induction calls with
  | nil => intro since h; exact h
  | cons n rest ih =>
    intro since _
    simp only [runAcks]
    exact ih _ (C17_outstanding_lt w hw since n)

/-- sum of the acknowledged counts -/
def acked : List (Option Nat) → Nat
  | [] => 0
  | none :: r => acked r
  | some k :: r => k + acked r

/-- conservation: every received byte is acknowledged exactly once or still outstanding —
    Σ reported + outstanding = outstanding before + Σ call sizes (while counts stay below 2^32) -/
theorem C17_conservation (w : Nat) (hw : 1 ≤ w) (hw32 : w ≤ 4294967295) (calls : List Nat)
    (hcalls : ∀ n ∈ calls, n + w ≤ 4294967296) : ∀ since, since < w →
    acked (runAcks w since calls).1 + (runAcks w since calls).2 = since + calls.sum := by
  induction calls with
  | nil => intro since _; simp [runAcks, acked]
  | cons n rest ih =>
    intro since hs
    have hn := hcalls n (List.mem_cons_self)
    have hstep := C17_step w since n (by omega) (by omega)
    have hlt := C17_outstanding_lt w hw since n
    have ih' := ih (fun m hm => hcalls m (List.mem_cons_of_mem _ hm)) (ackStep (some w) since n).1 hlt
    simp only [runAcks, List.sum_cons]
    rw [hstep] at ih' ⊢
    by_cases hge : since + n ≥ w
    · simp only [hge, if_true] at ih' ⊢
      simp only [acked]; omega
    · simp only [hge, if_false] at ih' ⊢
      simp only [acked]; omega

/-- "in exactly those input calls": the i-th call emits an acknowledgement iff the counter reaches the window in it -/
theorem C17_emit_iff (w since n : Nat) (hn : n < 4294967296) (hs : since + n < 4294967296) :
    ((ackStep (some w) since n).2.isSome ↔ since + n ≥ w) ∧
    (∀ k, (ackStep (some w) since n).2 = some k → k = since + n) := by
  rw [C17_step w since n hn hs]
  by_cases h : since + n ≥ w <;> simp [h]

/-- before a window is known nothing is counted and nothing is acknowledged -/
theorem C17_no_window (since n : Nat) : ackStep none since n = (since, none) := rfl

/-- with the saturating counter (fix F10) the step never exceeds u32::MAX and still acknowledges as
    soon as the window is reached -/
theorem C17_saturation (w since n : Nat) (hw : w ≤ 4294967295) (hs : since ≤ 4294967295) :
    (ackStep (some w) since n).1 ≤ 4294967295 ∧
    (since + n % 4294967296 ≥ w → (ackStep (some w) since n).2.isSome) := by
  unfold ackStep
  simp only
  constructor
  · split <;> simp only <;> omega
  · intro h
    have : min (since + n % 4294967296) 4294967295 ≥ w := by omega
    simp [this]

/-- both sessions run exactly this step: the counter and the acknowledgement of a `handle_input` call
    are `ackStep` of the window known BEFORE the call, the counter before the call and the call size -/
theorem C17_server_uses_ackStep (s : Srv.State) (now : Nat) (bytes : Bytes) :
    (ackStep s.window s.since bytes.length).2 = none →
    Srv.handleInput s now bytes =
      Srv.msgLoop (bytes.length + s.des.buf.length + 2)
        { s with des := { s.des with buf := s.des.buf ++ bytes }, since := (ackStep s.window s.since bytes.length).1 } now [] := by
  intro h
  unfold Srv.handleInput
  cases hk : ackStep s.window s.since bytes.length with
  | mk since ack =>
    rw [hk] at h
    simp only at h
    subst h
    rfl

theorem C17_client_uses_ackStep (s : Cli.State) (now : Nat) (bytes : Bytes) :
    (ackStep s.window s.since bytes.length).2 = none →
    Cli.handleInput s now bytes =
      Cli.msgLoop (bytes.length + s.des.buf.length + 2)
        { s with des := { s.des with buf := s.des.buf ++ bytes }, since := (ackStep s.window s.since bytes.length).1 } now [] := by
  intro h
  unfold Cli.handleInput
  cases hk : ackStep s.window s.since bytes.length with
  | mk since ack =>
    rw [hk] at h
    simp only at h
    subst h
    rfl

-- non-vacuity: window 10, calls 3, 6, 1, 25, 0 → acknowledgements 10 (third call) and 25
example : runAcks 10 0 [3, 6, 1, 25, 0] = ([none, none, some 10, some 25, none], 0) := by decide

/-! ## session level -/

theorem srv_ack_send_total (s : Srv.State) (hp : 1 ≤ s.ser.maxCs) (n ts : Nat) :
    ∃ s1 p, Srv.send s (.ack n) ts 0 = .ok (s1, p) := by
  have hpl : toPayload (.ack n) = .ok (3, be32 n) := rfl
  have hlen : (be32 n).length ≤ 16777215 := by show 4 ≤ 16777215; omega
  obtain ⟨ser', p, h⟩ := sendMsg_total s.ser hp hpl hlen ts 0 false false
  refine ⟨{ s with ser := ser' }, p, ?_⟩
  unfold Srv.send
  rw [h]

theorem cli_ack_send_total (s : Cli.State) (hp : 1 ≤ s.ser.maxCs) (n ts : Nat) :
    ∃ s1 p, Cli.send s (.ack n) ts 0 = .ok (s1, p) := by
  have hpl : toPayload (.ack n) = .ok (3, be32 n) := rfl
  have hlen : (be32 n).length ≤ 16777215 := by show 4 ≤ 16777215; omega
  obtain ⟨ser', p, h⟩ := sendMsg_total s.ser hp hpl hlen ts 0 false false
  refine ⟨{ s with ser := ser' }, p, ?_⟩
  unfold Cli.send
  rw [h]

/-- **C17 at session level, server, every call.**  In every state whose outbound chunk size is ≥ 1 (every
    reachable state: `C17_server_reachable_call`), for every `handle_input` call — whatever the bytes
    are, valid or not, and whether the call ends in results or in an error:
    * the counter after the call is the acknowledgement step's (`ackStep` of the window known BEFORE the
      call, the counter before the call and the call's size);
    * if no acknowledgement is due the call is the plain drain of the bytes;
    * if one is due (`some n`) it is serialized first — the session's serializer emits exactly the
      Acknowledgement message (type 3, stream 0, payload `be32 n`) as packet `p` — and the call is the
      drain with `p` put in front of its results. -/
theorem C17_server_every_call (s : Srv.State) (hp : 1 ≤ s.ser.maxCs) (now : Nat) (bytes : Bytes) :
    (Srv.handleInput s now bytes).1.since = (ackStep s.window s.since bytes.length).1 ∧
    ((ackStep s.window s.since bytes.length).2 = none →
      Srv.handleInput s now bytes =
        SrvPart.drain { s with since := (ackStep s.window s.since bytes.length).1 } now bytes) ∧
    (∀ n, (ackStep s.window s.since bytes.length).2 = some n →
      ∃ s1 p, Srv.send s (.ack n) (epoch now) 0 = .ok (s1, p) ∧
        Emits s.ser s1.ser [(p, AckHop.ackMsg n now)] ∧
        Srv.handleInput s now bytes =
          SrvPart.mapOk [.out p] (SrvPart.drain { s1 with since := (ackStep s.window s.since bytes.length).1 } now bytes)) := by
  have hack : ∀ n, (ackStep s.window s.since bytes.length).2 = some n →
      ∃ s1 p, Srv.send s (.ack n) (epoch now) 0 = .ok (s1, p) ∧
        Emits s.ser s1.ser [(p, AckHop.ackMsg n now)] ∧
        Srv.handleInput s now bytes =
          SrvPart.mapOk [.out p] (SrvPart.drain { s1 with since := (ackStep s.window s.since bytes.length).1 } now bytes) := by
    intro n hn
    obtain ⟨s1, p, hs⟩ := srv_ack_send_total s hp n (epoch now)
    obtain ⟨typ, body, hpl, hem, _⟩ := srv_send_exact hs trivial (epoch_lt now) (by decide)
    simp only [toPayload, Except.ok.injEq, Prod.mk.injEq] at hpl
    obtain ⟨rfl, rfl⟩ := hpl
    exact ⟨s1, p, hs, hem, AckHop.srv_input_with_ack s s1 now bytes n p hn hs⟩
  refine ⟨?_, C15.C15_server_input_is_drain s now bytes, hack⟩
  rcases AckFrame.srv_handleInput_since s now bytes with h | ⟨n, e, hn, he, _⟩
  · exact h
  · obtain ⟨s1, p, _, _, hin⟩ := hack n hn
    rw [hin]
    unfold SrvPart.mapOk SrvPart.drain
    exact AckFrame.srv_msgLoop_since _ _ _ _

/-- the same for the client session -/
theorem C17_client_every_call (s : Cli.State) (hp : 1 ≤ s.ser.maxCs) (now : Nat) (bytes : Bytes) :
    (Cli.handleInput s now bytes).1.since = (ackStep s.window s.since bytes.length).1 ∧
    ((ackStep s.window s.since bytes.length).2 = none →
      Cli.handleInput s now bytes =
        CliPart.drain { s with since := (ackStep s.window s.since bytes.length).1 } now bytes) ∧
    (∀ n, (ackStep s.window s.since bytes.length).2 = some n →
      ∃ s1 p, Cli.send s (.ack n) (epoch now) 0 = .ok (s1, p) ∧
        Emits s.ser s1.ser [(p, AckHop.ackMsg n now)] ∧
        Cli.handleInput s now bytes =
          CliPart.mapOk [.out p] (CliPart.drain { s1 with since := (ackStep s.window s.since bytes.length).1 } now bytes)) := by
  have hack : ∀ n, (ackStep s.window s.since bytes.length).2 = some n →
      ∃ s1 p, Cli.send s (.ack n) (epoch now) 0 = .ok (s1, p) ∧
        Emits s.ser s1.ser [(p, AckHop.ackMsg n now)] ∧
        Cli.handleInput s now bytes =
          CliPart.mapOk [.out p] (CliPart.drain { s1 with since := (ackStep s.window s.since bytes.length).1 } now bytes) := by
    intro n hn
    obtain ⟨s1, p, hs⟩ := cli_ack_send_total s hp n (epoch now)
    obtain ⟨typ, body, hpl, hem, _⟩ := cli_send_exact hs trivial (epoch_lt now) (by decide)
    simp only [toPayload, Except.ok.injEq, Prod.mk.injEq] at hpl
    obtain ⟨rfl, rfl⟩ := hpl
    exact ⟨s1, p, hs, hem, AckHop.cli_input_with_ack s s1 now bytes n p hn hs⟩
  refine ⟨?_, C15.C15_client_input_is_drain s now bytes, hack⟩
  rcases AckFrame.cli_handleInput_since s now bytes with h | ⟨n, e, hn, he, _⟩
  · exact h
  · obtain ⟨s1, p, _, _, hin⟩ := hack n hn
    rw [hin]
    unfold CliPart.mapOk CliPart.drain
    exact AckFrame.cli_msgLoop_since _ _ _ _

/-- every state a server session reaches (any configuration the library accepts, any history of inputs
    and application calls with 32-bit arguments; K2 histories excluded as in C18) has outbound chunk size
    ≥ 1, so `C17_server_every_call` applies to every call of every history -/
theorem C17_server_reachable_call (c : Srv.Config) (now : Nat) (s0 : Srv.State) (rs0 : List Srv.Res)
    (ops : List SrvEmit.Op) (hnew : Srv.new c now = .ok (s0, rs0)) (hw : ∀ op ∈ ops, op.WF)
    (hk : SrvEmit.ErrKeepsSer s0 ops) (now' : Nat) (bytes : Bytes) :
    (Srv.handleInput (SrvEmit.run s0 ops).1 now' bytes).1.since =
      (ackStep (SrvEmit.run s0 ops).1.window (SrvEmit.run s0 ops).1.since bytes.length).1 :=
  (C17_server_every_call _ (Safe.S.reach c now s0 rs0 ops hnew hw hk).2 now' bytes).1

theorem C17_client_reachable_call (cfg : Cli.Config) (ops : List CliEmit.Op) (hw : ∀ op ∈ ops, op.WF)
    (hk : CliEmit.ErrKeepsSer { cfg := cfg } ops) (now' : Nat) (bytes : Bytes) :
    (Cli.handleInput (CliEmit.run { cfg := cfg } ops).1 now' bytes).1.since =
      (ackStep (CliEmit.run { cfg := cfg } ops).1.window (CliEmit.run { cfg := cfg } ops).1.since bytes.length).1 :=
  (C17_client_every_call _ (Safe.C.reach cfg ops hw hk).2 now' bytes).1

/-- hence, in every reachable server state with a known window `w ≥ 1`, fewer than `w` bytes are
    outstanding after EVERY call — whatever the bytes were and however the call ended -/
theorem C17_server_reachable_outstanding_lt (c : Srv.Config) (now : Nat) (s0 : Srv.State) (rs0 : List Srv.Res)
    (ops : List SrvEmit.Op) (hnew : Srv.new c now = .ok (s0, rs0)) (hw : ∀ op ∈ ops, op.WF)
    (hk : SrvEmit.ErrKeepsSer s0 ops) (now' : Nat) (bytes : Bytes) (w : Nat) (hw1 : 1 ≤ w)
    (hwin : (SrvEmit.run s0 ops).1.window = some w) :
    (Srv.handleInput (SrvEmit.run s0 ops).1 now' bytes).1.since < w := by
  rw [C17_server_reachable_call c now s0 rs0 ops hnew hw hk now' bytes, hwin]
  exact C17_outstanding_lt w hw1 _ _

theorem C17_client_reachable_outstanding_lt (cfg : Cli.Config) (ops : List CliEmit.Op) (hw : ∀ op ∈ ops, op.WF)
    (hk : CliEmit.ErrKeepsSer { cfg := cfg } ops) (now' : Nat) (bytes : Bytes) (w : Nat) (hw1 : 1 ≤ w)
    (hwin : (CliEmit.run { cfg := cfg } ops).1.window = some w) :
    (Cli.handleInput (CliEmit.run { cfg := cfg } ops).1 now' bytes).1.since < w := by
  rw [C17_client_reachable_call cfg ops hw hk now' bytes, hwin]
  exact C17_outstanding_lt w hw1 _ _

/-- **the window comes from the peer only** (server): handling one decoded message never touches the
    counter, and changes the window exactly when the message is a Window Acknowledgement Size message —
    to the value it announces.  (`announced w m` is `some n` for `.windowAck n` and `w` for every other
    message: Set Peer Bandwidth, commands, data, media, control messages all leave it alone.) -/
theorem C17_server_window_from_peer_only (s s' : Srv.State) (now : Nat) (p : Msg) (m : RtmpMsg) (rs : List Srv.Res)
    (h : Srv.handleMessage s now p m = .ok (s', rs)) :
    s'.window = AckFrame.announced s.window m ∧ s'.since = s.since :=
  AckFrame.srv_handleMessage s s' now p m rs h

/-- the same for the client, for every outcome of handling the message (the client model returns the
    state on errors too) -/
theorem C17_client_window_from_peer_only (s : Cli.State) (now : Nat) (p : Msg) (m : RtmpMsg) :
    (Cli.handleMessage s now p m).1.window = AckFrame.announced s.window m ∧
    (Cli.handleMessage s now p m).1.since = s.since :=
  AckFrame.cli_handleMessage s now p m

/-- the message loop never changes the counter, whether it ends in results or in an error -/
theorem C17_server_loop_leaves_counter (f : Nat) (s : Srv.State) (now : Nat) (acc : List Srv.Res) :
    (Srv.msgLoop f s now acc).1.since = s.since := AckFrame.srv_msgLoop_since f s now acc

theorem C17_client_loop_leaves_counter (f : Nat) (s : Cli.State) (now : Nat) (acc : List Cli.Res) :
    (Cli.msgLoop f s now acc).1.since = s.since := AckFrame.cli_msgLoop_since f s now acc

/-- no application call changes the window or the counter (server: accept, reject, media, metadata,
    ping, finish — the whole public API besides `handle_input`) -/
theorem C17_server_calls_leave_counter (s : Srv.State) (op : SrvEmit.Op) (h : ∀ now b, op ≠ .input now b) :
    (SrvEmit.apply s op).1.window = s.window ∧ (SrvEmit.apply s op).1.since = s.since := by
  cases op with
  | input now b => exact absurd rfl (h now b)
  | accept now id => exact AckFrame.srv_acceptRequest s now id
  | reject now id code desc => exact AckFrame.srv_rejectRequest s now id code desc
  | media v sid d ts drop => exact AckFrame.srv_sendMedia s v sid d ts drop
  | metadata now sid m => exact AckFrame.srv_sendMetadata s now sid m
  | ping now => exact AckFrame.srv_sendPing s now
  | finish now sid => exact AckFrame.srv_finishPlaying s now sid

theorem C17_client_calls_leave_counter (s : Cli.State) (op : CliEmit.Op) (h : ∀ now b, op ≠ .input now b) :
    (CliEmit.apply s op).1.window = s.window ∧ (CliEmit.apply s op).1.since = s.since := by
  cases op with
  | input now b => exact absurd rfl (h now b)
  | connect now app => exact AckFrame.cli_requestConnection s now app
  | request now p => exact AckFrame.cli_requestStream s now p
  | stop now play => exact AckFrame.cli_stop s now play
  | ping now => exact AckFrame.cli_sendPing s now
  | metadata now m => exact AckFrame.cli_publishMetadata s now m
  | media v d ts drop => exact AckFrame.cli_publishMedia s v d ts drop

/-- **"after the peer has announced a window of W"** (server): the peer's serializer and the session's
    deserializer in step, the peer emits `xs`, the bytes arrive in one call and every message is handled
    (with or without an acknowledgement due in that call): after the call the window in force is the LAST
    one announced in `xs` (the old one if none was) and the counter is the acknowledgement step's.  With
    `C17_server_every_call` for the next call: the window used there is the one the peer announced last,
    and counting starts with that next call. -/
theorem C17_server_window_is_last_announced {ser ser' : Ser.State} {v : Srv.State} {xs : List (Ser.Packet × Msg)}
    (now : Nat) (hl : Linked ser v.des) (he : Emits ser ser' xs) :
    (∀ since', ackStep v.window v.since (wire xs).length = (since', none) →
      ∀ sF rs, SrvSteps.steps { v with since := since' } now (msgs xs) = .ok (sF, rs) →
      (Srv.handleInput v now (wire xs)).1.window = AckFrame.lastWin v.window (msgs xs) ∧
      (Srv.handleInput v now (wire xs)).1.since = since') ∧
    (∀ since' n, ackStep v.window v.since (wire xs).length = (since', some n) →
      ∀ v1 p sF rs, Srv.send v (.ack n) (epoch now) 0 = .ok (v1, p) →
      SrvSteps.steps { v1 with since := since' } now (msgs xs) = .ok (sF, rs) →
      (Srv.handleInput v now (wire xs)).1.window = AckFrame.lastWin v.window (msgs xs) ∧
      (Srv.handleInput v now (wire xs)).1.since = since') := by
  obtain ⟨h1, h2⟩ := AckHop.srv_input_hop now hl he
  constructor
  · intro since' hk sF rs hst
    obtain ⟨core', hin, _⟩ := h1 since' hk sF rs hst
    obtain ⟨hw, hs⟩ := AckFrame.srv_steps_window now _ _ _ _ hst
    rw [hin]
    exact ⟨hw, hs⟩
  · intro since' n hk v1 p sF rs hsend hst
    obtain ⟨core', hin, _⟩ := h2 since' n hk v1 p sF rs hsend hst
    obtain ⟨hw, hs⟩ := AckFrame.srv_steps_window now _ _ _ _ hst
    rw [hin]
    refine ⟨?_, hs⟩
    show sF.window = _
    rw [hw]
    show AckFrame.lastWin v1.window _ = _
    rw [(AckFrame.same_send hsend).1]

theorem C17_client_window_is_last_announced {ser ser' : Ser.State} {c : Cli.State} {xs : List (Ser.Packet × Msg)}
    (now : Nat) (hl : Linked ser c.des) (he : Emits ser ser' xs) :
    (∀ since', ackStep c.window c.since (wire xs).length = (since', none) →
      ∀ sF rs, CliSteps.steps { c with since := since' } now (msgs xs) = .ok (sF, rs) →
      (Cli.handleInput c now (wire xs)).1.window = AckFrame.lastWin c.window (msgs xs) ∧
      (Cli.handleInput c now (wire xs)).1.since = since') ∧
    (∀ since' n, ackStep c.window c.since (wire xs).length = (since', some n) →
      ∀ c1 p sF rs, Cli.send c (.ack n) (epoch now) 0 = .ok (c1, p) →
      CliSteps.steps { c1 with since := since' } now (msgs xs) = .ok (sF, rs) →
      (Cli.handleInput c now (wire xs)).1.window = AckFrame.lastWin c.window (msgs xs) ∧
      (Cli.handleInput c now (wire xs)).1.since = since') := by
  obtain ⟨h1, h2⟩ := AckHop.cli_input_hop now hl he
  constructor
  · intro since' hk sF rs hst
    obtain ⟨core', hin, _⟩ := h1 since' hk sF rs hst
    obtain ⟨hw, hs⟩ := AckFrame.cli_steps_window now _ _ _ _ hst
    rw [hin]
    exact ⟨hw, hs⟩
  · intro since' n hk c1 p sF rs hsend hst
    obtain ⟨core', hin, _⟩ := h2 since' n hk c1 p sF rs hsend hst
    obtain ⟨hw, hs⟩ := AckFrame.cli_steps_window now _ _ _ _ hst
    rw [hin]
    refine ⟨?_, hs⟩
    show sF.window = _
    rw [hw]
    show AckFrame.lastWin c1.window _ = _
    rw [(AckFrame.same_sendC hsend).1]

-- non-vacuity of the "last announced" reading: two announcements, the second one counts
example : AckFrame.lastWin none [{ ts := 0, typ := 5, msid := 0, data := be32 100 },
      { ts := 0, typ := 6, msid := 0, data := be32 7 ++ [2] }, { ts := 0, typ := 5, msid := 0, data := be32 2500 }] = some 2500 := by
  decide

/-- **the drain sends no Acknowledgement** (server): whatever the buffered and new bytes are, if the
    message loop returns results then the packets among them are exactly a history of the session's
    serializer in which NO message has type id 3 -/
theorem C17_server_drain_sends_no_ack (s s' : Srv.State) (hi : SrvEmit.Inv s) (now : Nat) (bytes : Bytes)
    (rs : List Srv.Res) (h : SrvPart.drain s now bytes = (s', .ok rs)) :
    ∃ xs, Emits s.ser s'.ser xs ∧ xs.map (·.1) = SrvEmit.outs rs ∧ ∀ x ∈ xs, x.2.typ ≠ 3 := by
  unfold SrvPart.drain at h
  have hi0 : SrvEmit.Inv (BufS.withBuf s (s.des.buf ++ bytes)) := ⟨hi.1, hi.2⟩
  have := (SrvNoAck.msgLoop_step _ _ s' (BufS.withBuf s (s.des.buf ++ bytes)) now [] (.ok rs) hi0 h).2 rs rfl
    (SrvNoAck.em_same rfl rfl)
  exact this


theorem C17_client_drain_sends_no_ack (s s' : Cli.State) (hi : CliEmit.Inv s) (now : Nat) (bytes : Bytes)
    (rs : List Cli.Res) (h : CliPart.drain s now bytes = (s', .ok rs)) :
    ∃ xs, Emits s.ser s'.ser xs ∧ xs.map (·.1) = CliEmit.outs rs ∧ ∀ x ∈ xs, x.2.typ ≠ 3 := by
  unfold CliPart.drain at h
  have hi0 : CliEmit.Inv (BufC.withBuf s (s.des.buf ++ bytes)) := ⟨hi.1, hi.2⟩
  have := (CliNoAck.msgLoop_step _ _ s' (BufC.withBuf s (s.des.buf ++ bytes)) now [] (.ok rs) hi0 h).2 rs rfl
    (CliNoAck.em_same rfl rfl)
  exact this

/-- **"in exactly those input calls", at session level (server).**  In every state that keeps the session
    invariant and has outbound chunk size ≥ 1 (every reachable state), for every `handle_input` call that
    returns results: the packets among the results are exactly a history `xs` of the session's serializer,
    and
    * if the acknowledgement step says none is due, NO message in `xs` is an Acknowledgement (type 3);
    * if it says `n` is due, `xs` is the Acknowledgement message carrying `n` followed by messages none of
      which is an Acknowledgement — one acknowledgement, first, with the step's count. -/
theorem C17_server_acks_in_call (s s' : Srv.State) (hi : SrvEmit.Inv s) (hp : 1 ≤ s.ser.maxCs) (now : Nat)
    (bytes : Bytes) (rs : List Srv.Res) (h : Srv.handleInput s now bytes = (s', .ok rs)) :
    ∃ xs, Emits s.ser s'.ser xs ∧ xs.map (·.1) = SrvEmit.outs rs ∧
      match (ackStep s.window s.since bytes.length).2 with
      | none => ∀ x ∈ xs, x.2.typ ≠ 3
      | some n => ∃ p rest, xs = (p, AckHop.ackMsg n now) :: rest ∧ ∀ x ∈ rest, x.2.typ ≠ 3 := by
  obtain ⟨_, hnone, hsome⟩ := C17_server_every_call s hp now bytes
  cases hk : (ackStep s.window s.since bytes.length).2 with
  | none =>
    rw [hnone hk] at h
    have := C17_server_drain_sends_no_ack ({ s with since := (ackStep s.window s.since bytes.length).1 }) s' ⟨hi.1, hi.2⟩ now bytes rs h
    exact this
  | some n =>
    obtain ⟨s1, p, hs, hem, hin⟩ := hsome n hk
    rw [hin] at h
    obtain ⟨_, _, _, _, hs1⟩ := srv_send_exact hs trivial (epoch_lt now) (by decide)
    have hi1 : SrvEmit.Inv ({ s1 with since := (ackStep s.window s.since bytes.length).1 } : Srv.State) := by
      rw [hs1]; exact ⟨hi.1, hi.2⟩
    cases hd : SrvPart.drain { s1 with since := (ackStep s.window s.since bytes.length).1 } now bytes with
    | mk s2 r2 =>
      rw [hd] at h
      unfold SrvPart.mapOk at h
      cases r2 with
      | error e => simp at h
      | ok r =>
        simp only [Prod.mk.injEq, Except.ok.injEq] at h
        obtain ⟨h1, h2⟩ := h
        subst h1; subst h2
        obtain ⟨xs, ex, mx, gx⟩ := C17_server_drain_sends_no_ack _ s2 hi1 now bytes r hd
        refine ⟨(p, AckHop.ackMsg n now) :: xs, hem.trans ex, ?_, p, xs, rfl, gx⟩
        simp only [List.map_cons, mx]
        rfl

theorem C17_client_acks_in_call (s s' : Cli.State) (hi : CliEmit.Inv s) (hp : 1 ≤ s.ser.maxCs) (now : Nat)
    (bytes : Bytes) (rs : List Cli.Res) (h : Cli.handleInput s now bytes = (s', .ok rs)) :
    ∃ xs, Emits s.ser s'.ser xs ∧ xs.map (·.1) = CliEmit.outs rs ∧
      match (ackStep s.window s.since bytes.length).2 with
      | none => ∀ x ∈ xs, x.2.typ ≠ 3
      | some n => ∃ p rest, xs = (p, AckHop.ackMsg n now) :: rest ∧ ∀ x ∈ rest, x.2.typ ≠ 3 := by
  obtain ⟨_, hnone, hsome⟩ := C17_client_every_call s hp now bytes
  cases hk : (ackStep s.window s.since bytes.length).2 with
  | none =>
    rw [hnone hk] at h
    have := C17_client_drain_sends_no_ack ({ s with since := (ackStep s.window s.since bytes.length).1 }) s' ⟨hi.1, hi.2⟩ now bytes rs h
    exact this
  | some n =>
    obtain ⟨s1, p, hs, hem, hin⟩ := hsome n hk
    rw [hin] at h
    obtain ⟨_, _, _, _, hs1⟩ := cli_send_exact hs trivial (epoch_lt now) (by decide)
    have hi1 : CliEmit.Inv ({ s1 with since := (ackStep s.window s.since bytes.length).1 } : Cli.State) := by
      rw [hs1]; exact ⟨hi.1, hi.2⟩
    cases hd : CliPart.drain { s1 with since := (ackStep s.window s.since bytes.length).1 } now bytes with
    | mk s2 r2 =>
      rw [hd] at h
      unfold CliPart.mapOk at h
      cases r2 with
      | error e => simp at h
      | ok r =>
        simp only [Prod.mk.injEq, Except.ok.injEq] at h
        obtain ⟨h1, h2⟩ := h
        subst h1; subst h2
        obtain ⟨xs, ex, mx, gx⟩ := C17_client_drain_sends_no_ack _ s2 hi1 now bytes r hd
        refine ⟨(p, AckHop.ackMsg n now) :: xs, hem.trans ex, ?_, p, xs, rfl, gx⟩
        simp only [List.map_cons, mx]
        rfl

/-- … and that covers every call of every history of a server session -/
theorem C17_server_reachable_acks_in_call (c : Srv.Config) (now : Nat) (s0 : Srv.State) (rs0 : List Srv.Res)
    (ops : List SrvEmit.Op) (hnew : Srv.new c now = .ok (s0, rs0)) (hw : ∀ op ∈ ops, op.WF)
    (hk : SrvEmit.ErrKeepsSer s0 ops) (now' : Nat) (bytes : Bytes) (s' : Srv.State) (rs : List Srv.Res)
    (h : Srv.handleInput (SrvEmit.run s0 ops).1 now' bytes = (s', .ok rs)) :
    ∃ xs, Emits (SrvEmit.run s0 ops).1.ser s'.ser xs ∧ xs.map (·.1) = SrvEmit.outs rs ∧
      match (ackStep (SrvEmit.run s0 ops).1.window (SrvEmit.run s0 ops).1.since bytes.length).2 with
      | none => ∀ x ∈ xs, x.2.typ ≠ 3
      | some n => ∃ p rest, xs = (p, AckHop.ackMsg n now') :: rest ∧ ∀ x ∈ rest, x.2.typ ≠ 3 := by
  obtain ⟨hi, hp⟩ := Safe.S.reach c now s0 rs0 ops hnew hw hk
  exact C17_server_acks_in_call _ s' hi hp now' bytes rs h

theorem C17_client_reachable_acks_in_call (cfg : Cli.Config) (ops : List CliEmit.Op) (hw : ∀ op ∈ ops, op.WF)
    (hk : CliEmit.ErrKeepsSer { cfg := cfg } ops) (now' : Nat) (bytes : Bytes) (s' : Cli.State) (rs : List Cli.Res)
    (h : Cli.handleInput (CliEmit.run { cfg := cfg } ops).1 now' bytes = (s', .ok rs)) :
    ∃ xs, Emits (CliEmit.run { cfg := cfg } ops).1.ser s'.ser xs ∧ xs.map (·.1) = CliEmit.outs rs ∧
      match (ackStep (CliEmit.run { cfg := cfg } ops).1.window (CliEmit.run { cfg := cfg } ops).1.since bytes.length).2 with
      | none => ∀ x ∈ xs, x.2.typ ≠ 3
      | some n => ∃ p rest, xs = (p, AckHop.ackMsg n now') :: rest ∧ ∀ x ∈ rest, x.2.typ ≠ 3 := by
  obtain ⟨hi, hp⟩ := Safe.C.reach cfg ops hw hk
  exact C17_client_acks_in_call _ s' hi hp now' bytes rs h

/-- **conservation, one call of a session.**  In every state with outbound chunk size ≥ 1 and a known window
    `w`, for every `handle_input` call whose bytes keep the count below 2^32: the count acknowledged in the call
    (0 if none is due) plus the bytes outstanding after it equal the bytes outstanding before it plus the
    bytes received — whatever the bytes are and however the call ends.  Summed over the calls of a history
    (no other operation touches the counter: `C17_server_calls_leave_counter`): no received byte is
    acknowledged twice or never. -/
theorem C17_server_call_conservation (s : Srv.State) (hp : 1 ≤ s.ser.maxCs) (now : Nat) (bytes : Bytes) (w : Nat)
    (hw : s.window = some w) (hn : bytes.length < 4294967296) (hs : s.since + bytes.length < 4294967296) :
    ((ackStep s.window s.since bytes.length).2.getD 0) + (Srv.handleInput s now bytes).1.since =
      s.since + bytes.length := by
  rw [(C17_server_every_call s hp now bytes).1, hw, C17_step w s.since bytes.length hn hs]
  by_cases h : s.since + bytes.length ≥ w
  · simp only [h, if_true, Option.getD_some]; omega
  · simp only [h, if_false, Option.getD_none]; omega

theorem C17_client_call_conservation (s : Cli.State) (hp : 1 ≤ s.ser.maxCs) (now : Nat) (bytes : Bytes) (w : Nat)
    (hw : s.window = some w) (hn : bytes.length < 4294967296) (hs : s.since + bytes.length < 4294967296) :
    ((ackStep s.window s.since bytes.length).2.getD 0) + (Cli.handleInput s now bytes).1.since =
      s.since + bytes.length := by
  rw [(C17_client_every_call s hp now bytes).1, hw, C17_step w s.since bytes.length hn hs]
  by_cases h : s.since + bytes.length ≥ w
  · simp only [h, if_true, Option.getD_some]; omega
  · simp only [h, if_false, Option.getD_none]; omega

end Rml.C17
