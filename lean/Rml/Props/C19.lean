/-
C19 — every configuration value is either honoured or refused, never a hang.
Serializer / deserializer / AMF0 part (the session constructors hand the value to exactly these
setters; see C09/C10 model files).  `Outcome.hang` is the model's explicit outcome for the
non-terminating slicing loop of `serialize` (max_chunk_size = 0 with a non-empty payload); the
theorems show it is unreachable after fix F2.
-/
import Rml.Lemmas.Ser
import Rml.Model.Deserializer
import Rml.Lemmas.Amf0Enc
namespace Rml.C19
open Rml Rml.Chunk

/-- serializer histories: messages and chunk-size changes in any order -/
inductive SerOp where
  | msg (m : Msg) (force drop : Bool)
  | setcs (n ts : Nat)

def applyOp (s : Ser.State) : SerOp → Ser.Outcome (Ser.State × Ser.Packet)
  | .msg m f d => Ser.serialize s m f d
  | .setcs n ts => Ser.setMaxChunkSize s n ts

/-- run a history; refused operations leave the state unchanged (as the Rust `Err` returns do) -/
def runOps (s : Ser.State) : List SerOp → Ser.State
  | [] => s
  | op :: rest =>
    match applyOp s op with
    | .ok (s', _) => runOps s' rest
    | _ => runOps s rest

theorem serialize_maxCs (s s' : Ser.State) (m : Msg) (f d : Bool) (p : Ser.Packet)
    (h : Ser.serialize s m f d = .ok (s', p)) : s'.maxCs = s.maxCs := by
  unfold Ser.serialize at h
  split at h
  · simp at h
  · split at h
    · simp at h
    · simp only [Ser.Outcome.ok.injEq, Prod.mk.injEq] at h
      rw [← h.1]; exact Ser.addChunks_maxCs _ _ _ _ _ _

/-- the chunk size setter of the serializer refuses exactly 0 and values above 2^31-1 … -/
theorem C19_ser_chunk_size_refused (s : Ser.State) (n ts : Nat) :
    Ser.setMaxChunkSize s n ts = .err .invalidMaxChunkSize ↔ (n = 0 ∨ n > 2147483647) := by
  unfold Ser.setMaxChunkSize
  constructor
  · intro h
    split at h
    · rename_i hc; simpa [maxChunkSize] using hc
    · split at h <;> try simp at h
      rename_i e he
      subst h
      unfold Ser.serialize at he
      split at he
      · rename_i hl; simp [Bytes.be32, maxMsgLen] at hl
      · split at he <;> simp at he
  · intro h
    have : n = 0 ∨ n > maxChunkSize := by simpa [maxChunkSize] using h
    simp [this]

/-- … and honours every other value: it returns the announcement and then uses exactly that size -/
theorem C19_ser_chunk_size_honoured (s : Ser.State) (n ts : Nat) (hs : 1 ≤ s.maxCs)
    (hn : 1 ≤ n ∧ n ≤ 2147483647) :
    ∃ s' p, Ser.setMaxChunkSize s n ts = .ok (s', p) ∧ s'.maxCs = n ∧ p.drop = false ∧ p.bytes ≠ [] := by
  unfold Ser.setMaxChunkSize
  have h1 : ¬ (n = 0 ∨ n > maxChunkSize) := by simp only [maxChunkSize]; omega
  simp only [h1, if_false]
  unfold Ser.serialize
  have h2 : ¬ (Bytes.be32 n).length > maxMsgLen := by simp [Bytes.be32, maxMsgLen]
  have h3 : ¬ (s.maxCs = 0 ∧ ¬ (Bytes.be32 n).isEmpty = true) := by omega
  simp only [h2, h3, if_false]
  refine ⟨_, _, rfl, rfl, rfl, ?_⟩
  exact Ser.addChunks_bytes_ne_nil _ _ _ _ (Ser.slices_ne_nil _ _) _ _

/-- the deserializer's setter: refused ⇔ 0 or above 2^31-1, honoured otherwise -/
theorem C19_des_chunk_size (c : Des.Core) (n : Nat) :
    (Des.setMaxChunkSize c n = .error .invalidMaxChunkSize ↔ (n = 0 ∨ n > 2147483647)) ∧
    ((1 ≤ n ∧ n ≤ 2147483647) → Des.setMaxChunkSize c n = .ok { c with maxCs := n }) := by
  unfold Des.setMaxChunkSize
  constructor
  · constructor
    · intro h; split at h
      · rename_i hc; simpa [maxChunkSize] using hc
      · simp at h
    · intro h
      have : n = 0 ∨ n > maxChunkSize := by simpa [maxChunkSize] using h
      simp [this]
  · intro hn
    have h1 : ¬ (n = 0 ∨ n > maxChunkSize) := by simp only [maxChunkSize]; omega
    simp [h1]

/-- payloads: refused ⇔ longer than 16,777,215 bytes -/
theorem C19_payload (s : Ser.State) (m : Msg) (f d : Bool) :
    Ser.serialize s m f d = .err .messageTooLong ↔ m.data.length > 16777215 := by
  unfold Ser.serialize
  constructor
  · intro h; split at h
    · rename_i hc; simpa [maxMsgLen] using hc
    · split at h <;> simp at h
  · intro h
    have : m.data.length > maxMsgLen := by simpa [maxMsgLen] using h
    simp [this]

/-- every state a serializer can reach has a chunk size ≥ 1 … -/
theorem C19_reachable_cs_pos (ops : List SerOp) : ∀ (s : Ser.State), 1 ≤ s.maxCs → 1 ≤ (runOps s ops).maxCs := by
  induction ops with
  | nil => intro s h; exact h
  | cons op rest ih =>
    intro s h
    simp only [runOps]
    cases hop : applyOp s op with
    | err e => exact ih s h
    | hang => exact ih s h
    | ok r =>
      obtain ⟨s', p⟩ := r
      apply ih
      cases op with
      | msg m f d => simp only [applyOp] at hop; rw [serialize_maxCs s s' m f d p hop]; exact h
      | setcs n ts =>
        simp only [applyOp] at hop
        unfold Ser.setMaxChunkSize at hop
        split at hop
        · simp at hop
        · rename_i hc
          split at hop <;> simp at hop
          rw [← hop.1]; simp only; omega

theorem serialize_ne_hang (s : Ser.State) (hs : 1 ≤ s.maxCs) (m : Msg) (f d : Bool) :
    Ser.serialize s m f d ≠ .hang := by
  unfold Ser.serialize
  split
  · simp
  · split
    · rename_i hc; omega
    · simp

/-- … hence no operation of any history ever hangs: `serialize` and `set_max_chunk_size` return -/
theorem C19_no_hang (ops : List SerOp) (op : SerOp) :
    applyOp (runOps {} ops) op ≠ .hang := by
  have hpos := C19_reachable_cs_pos ops {} (by decide)
  generalize runOps {} ops = s at hpos
  cases op with
  | msg m f d => exact serialize_ne_hang s hpos m f d
  | setcs n ts =>
    simp only [applyOp]; unfold Ser.setMaxChunkSize
    split
    · simp
    · have := serialize_ne_hang s hpos { ts := ts, typ := 1, msid := 0, data := Bytes.be32 n } true false
      cases hser : Ser.serialize s { ts := ts, typ := 1, msid := 0, data := Bytes.be32 n } true false with
      | ok r => simp
      | err e => simp
      | hang => exact absurd hser this

/-- and the loop that cuts a payload runs at most `len + 1` times and cuts it into pieces ≤ chunk size
    that concatenate to the payload -/
theorem C19_slicing_bounded (cs : Nat) (hcs : 1 ≤ cs) (data : Bytes) :
    (Ser.slices cs data).length ≤ data.length + 1 ∧ (Ser.slices cs data).flatten = data ∧
    ∀ sl ∈ Ser.slices cs data, sl.length ≤ cs :=
  ⟨Ser.slices_count cs hcs data, Ser.slices_flatten cs hcs data, Ser.slices_le cs data⟩

/-- why fix F2 was needed: with chunk size 0 (accepted before the fix) a non-empty payload never
    gets serialized — the model's explicit divergence outcome -/
theorem C19_hang_witness : Ser.serialize { maxCs := 0 } { ts := 0, typ := 8, msid := 1, data := [1] } false false = .hang := by
  rfl

/-- AMF0 strings and property names above 65,535 bytes are refused (from C04_errors) -/
theorem C19_amf_lengths (s : Bytes) (v : Amf0.Val) (hs : s.length > 65535) :
    Amf0.encode [.str s] = .error .tooLong ∧ Amf0.encode [.object [(s, v)]] = .error .tooLong := by
  constructor
  · simp [Amf0.encode, Amf0.encList, Amf0.encVal, hs]
  · simp [Amf0.encode, Amf0.encList, Amf0.encVal, Amf0.encProps, hs, Amf0.maxDepth]

end Rml.C19
