/-
C13 — RTMP message bodies follow the specification and convert back losslessly.
Model: Rml/Model/Messages.lean (tied to rtmp/src/messages/** by the `msg` family).  The layouts of
RTMP 1.0 §5.4 (protocol control), §7.1 (command / data / audio / video) and §7.1.7 (user control,
plus the two unofficial buffer events 31/32 the library documents) are written out in the
statement of `C13_layout`, so the theorem itself is the comparison with the specification.
-/
import Rml.Model.Messages
import Rml.Props.C04
import Rml.Lemmas.Bytes
namespace Rml.C13
open Rml Rml.Bytes Rml.Msgs Rml.Amf0

def U32 (n : Nat) : Prop := n < 4294967296

/-- the type ids the RTMP specification assigns a meaning the library implements -/
def assigned (t : Nat) : Prop :=
  t = 1 ∨ t = 2 ∨ t = 3 ∨ t = 4 ∨ t = 5 ∨ t = 6 ∨ t = 8 ∨ t = 9 ∨ t = 15 ∨ t = 17 ∨ t = 18 ∨ t = 20

/-- well-formed messages: u32 fields are u32s; a user-control message carries exactly the fields of its
    event type; `Unknown` has an unassigned type id; AMF0 parts are values the Rust types can hold -/
def WF : RtmpMsg → Prop
  | .unknown t _ => ¬ assigned t
  | .abort n => U32 n
  | .ack n => U32 n
  | .windowAck n => U32 n
  | .setChunkSize n => U32 n
  | .setPeerBandwidth n _ => U32 n
  | .audio _ => True
  | .video _ => True
  | .amf0Data vals => WFList vals
  | .amf0Command name tid obj args => Utf8.valid name = true ∧ tid < 18446744073709551616 ∧ obj.WF ∧ WFList args
  | .userControl ev s l t =>
    match ev with
    | .setBufferLength => (∃ a b, s = some a ∧ l = some b ∧ U32 a ∧ U32 b) ∧ t = none
    | .pingRequest | .pingResponse => (∃ a, t = some a ∧ U32 a) ∧ s = none ∧ l = none
    | _ => (∃ a, s = some a ∧ U32 a) ∧ l = none ∧ t = none

theorem rdU32_be32 (n : Nat) (r : Bytes) (h : U32 n) : rdU32 (be32 n ++ r) = some (n, r) := by
  unfold U32 at h
  simp only [be32, rdU32, List.cons_append, List.nil_append, rd32, b_toNat, Option.some.injEq, Prod.mk.injEq, and_true]
  omega

theorem rdU16_be16 (n : Nat) (r : Bytes) (h : n < 65536) : rdU16 (be16 n ++ r) = some (n, r) := by
  simp only [be16, rdU16, List.cons_append, List.nil_append, rd16, b_toNat, Option.some.injEq, Prod.mk.injEq, and_true]
  omega

/-- every well-formed message that converts to a payload converts back to an equal message -/
theorem C13_roundtrip (m : RtmpMsg) (wf : WF m) (t : Nat) (body : Bytes) (h : toPayload m = .ok (t, body)) :
    fromPayload t body = .ok m := by
  cases m with
  | unknown ty d =>
    simp only [toPayload, Except.ok.injEq, Prod.mk.injEq] at h
    obtain ⟨rfl, rfl⟩ := h
    simp only [WF, assigned, not_or] at wf
    obtain ⟨h1, h2, h3, h4, h5, h6, h8, h9, h15, h17, h18, h20⟩ := wf
    simp [fromPayload, h1, h2, h3, h4, h5, h6, h8, h9, h15, h17, h18, h20]
  | abort n =>
    simp only [toPayload, Except.ok.injEq, Prod.mk.injEq] at h
    obtain ⟨rfl, rfl⟩ := h
    have := rdU32_be32 n [] wf
    simp only [List.append_nil] at this
    simp [fromPayload, this]
  | ack n =>
    simp only [toPayload, Except.ok.injEq, Prod.mk.injEq] at h
    obtain ⟨rfl, rfl⟩ := h
    have := rdU32_be32 n [] wf
    simp only [List.append_nil] at this
    simp [fromPayload, this]
  | windowAck n =>
    simp only [toPayload, Except.ok.injEq, Prod.mk.injEq] at h
    obtain ⟨rfl, rfl⟩ := h
    have := rdU32_be32 n [] wf
    simp only [List.append_nil] at this
    simp [fromPayload, this]
  | setChunkSize n =>
    simp only [toPayload] at h
    split at h
    · simp at h
    · rename_i hn
      simp only [Except.ok.injEq, Prod.mk.injEq] at h
      obtain ⟨rfl, rfl⟩ := h
      have := rdU32_be32 n [] wf
      simp only [List.append_nil] at this
      simp [fromPayload, this, hn]
  | setPeerBandwidth n l =>
    simp only [toPayload, Except.ok.injEq, Prod.mk.injEq] at h
    obtain ⟨rfl, rfl⟩ := h
    cases l
    · have := rdU32_be32 n [b 0] wf
      simp [fromPayload, limCode, this, rdU8]
    · have := rdU32_be32 n [b 1] wf
      simp [fromPayload, limCode, this, rdU8]
    · have := rdU32_be32 n [b 2] wf
      simp [fromPayload, limCode, this, rdU8]
  | audio d =>
    simp only [toPayload, Except.ok.injEq, Prod.mk.injEq] at h
    obtain ⟨rfl, rfl⟩ := h
    simp [fromPayload]
  | video d =>
    simp only [toPayload, Except.ok.injEq, Prod.mk.injEq] at h
    obtain ⟨rfl, rfl⟩ := h
    simp [fromPayload]
  | amf0Data vals =>
    simp only [toPayload] at h
    cases he : encode vals with
    | error e => simp [he] at h
    | ok bs =>
      simp only [he, Except.ok.injEq, Prod.mk.injEq] at h
      obtain ⟨rfl, rfl⟩ := h
      have := C04.C04_roundtrip_values vals bs wf he
      simp [fromPayload, dataParse, this]
  | amf0Command name tid obj args =>
    simp only [toPayload, List.cons_append, List.nil_append] at h
    cases he : encode (Val.str name :: Val.number tid :: obj :: args) with
    | error e => rw [he] at h; simp at h
    | ok bs =>
      rw [he] at h
      simp only [Except.ok.injEq, Prod.mk.injEq] at h
      obtain ⟨rfl, rfl⟩ := h
      obtain ⟨w1, w2, w3, w4⟩ := wf
      have wfl : WFList (Val.str name :: Val.number tid :: obj :: args) := by
        simp only [WFList, Val.WF]
        exact ⟨w1, w2, w3, w4⟩
      have := C04.C04_roundtrip_values _ bs wfl he
      simp [fromPayload, cmdParse, this]
  | userControl ev s l ts =>
    simp only [toPayload] at h
    cases hb : ucBody ev s l ts with
    | error e => simp [hb] at h
    | ok bd =>
      simp only [hb, Except.ok.injEq, Prod.mk.injEq] at h
      obtain ⟨rfl, rfl⟩ := h
      cases ev <;> simp only [WF] at wf
      all_goals
        first
        | (obtain ⟨⟨a, c, rfl, rfl, ha, hc⟩, rfl⟩ := wf
           simp only [ucBody, Except.ok.injEq] at hb
           subst hb
           have h32 := rdU32_be32 a (be32 c) ha
           have h32' := rdU32_be32 c [] hc
           simp only [List.append_nil] at h32'
           simp [fromPayload, ucParse, be16, rdU16, rd16, h32, h32', ucOfCode])
        | (obtain ⟨⟨a, rfl, ha⟩, rfl, rfl⟩ := wf
           simp only [ucBody, Except.ok.injEq] at hb
           subst hb
           have h32 := rdU32_be32 a [] ha
           simp only [List.append_nil] at h32
           simp [fromPayload, ucParse, ucCode, be16, rdU16, rd16, h32, ucOfCode])

/-- type ids and body layouts are the ones RTMP 1.0 assigns: 1 SetChunkSize (u32 BE), 2 Abort (u32 BE),
    3 Acknowledgement (u32 BE), 5 WindowAcknowledgementSize (u32 BE), 6 SetPeerBandwidth (u32 BE, limit
    byte 0 hard / 1 soft / 2 dynamic), 8 audio and 9 video (the bytes as they are), 4 UserControl (u16 BE
    event code 0,1,2,4,31,32 + u32 stream id; 3 + stream id + buffer length; 6,7 + timestamp), 20 command =
    AMF0 of name, transaction id, command object, arguments; 18 data = AMF0 of the values -/
theorem C13_layout :
    (∀ n, toPayload (.abort n) = .ok (2, be32 n)) ∧
    (∀ n, toPayload (.ack n) = .ok (3, be32 n)) ∧
    (∀ n, toPayload (.windowAck n) = .ok (5, be32 n)) ∧
    (∀ n, n ≤ 2147483647 → toPayload (.setChunkSize n) = .ok (1, be32 n)) ∧
    (∀ n, toPayload (.setPeerBandwidth n .hard) = .ok (6, be32 n ++ [0]) ∧
          toPayload (.setPeerBandwidth n .soft) = .ok (6, be32 n ++ [1]) ∧
          toPayload (.setPeerBandwidth n .dynamic) = .ok (6, be32 n ++ [2])) ∧
    (∀ d, toPayload (.audio d) = .ok (8, d) ∧ toPayload (.video d) = .ok (9, d)) ∧
    (∀ s, toPayload (.userControl .streamBegin (some s) none none) = .ok (4, [0, 0] ++ be32 s) ∧
          toPayload (.userControl .streamEof (some s) none none) = .ok (4, [0, 1] ++ be32 s) ∧
          toPayload (.userControl .streamDry (some s) none none) = .ok (4, [0, 2] ++ be32 s) ∧
          toPayload (.userControl .streamIsRecorded (some s) none none) = .ok (4, [0, 4] ++ be32 s) ∧
          toPayload (.userControl .bufferEmpty (some s) none none) = .ok (4, [0, 31] ++ be32 s) ∧
          toPayload (.userControl .bufferReady (some s) none none) = .ok (4, [0, 32] ++ be32 s)) ∧
    (∀ s l, toPayload (.userControl .setBufferLength (some s) (some l) none) = .ok (4, [0, 3] ++ be32 s ++ be32 l)) ∧
    (∀ t, toPayload (.userControl .pingRequest none none (some t)) = .ok (4, [0, 6] ++ be32 t) ∧
          toPayload (.userControl .pingResponse none none (some t)) = .ok (4, [0, 7] ++ be32 t)) ∧
    (∀ name tid obj args bs, encode ([.str name, .number tid, obj] ++ args) = .ok bs →
          toPayload (.amf0Command name tid obj args) = .ok (20, bs)) ∧
    (∀ vals bs, encode vals = .ok bs → toPayload (.amf0Data vals) = .ok (18, bs)) := by
  refine ⟨?_, ?_, ?_, ?_, ?_, ?_, ?_, ?_, ?_, ?_, ?_⟩
  · intro n; rfl
  · intro n; rfl
  · intro n; rfl
  · intro n hn; simp only [toPayload]; rw [if_neg (by omega)]
  · intro n; exact ⟨rfl, rfl, rfl⟩
  · intro d; exact ⟨rfl, rfl⟩
  · intro s; exact ⟨rfl, rfl, rfl, rfl, rfl, rfl⟩
  · intro s l; rfl
  · intro t; exact ⟨rfl, rfl⟩
  · intro name tid obj args bs h; simp only [toPayload, h]
  · intro vals bs h; simp only [toPayload, h]

/-- payloads typed as AMF3 data (15) decode as AMF0 data (18); AMF3 commands (17) decode as AMF0
    commands (20), with one optional leading zero byte skipped -/
theorem C13_alias (data : Bytes) :
    fromPayload 15 data = fromPayload 18 data ∧
    fromPayload 17 (0 :: data) = fromPayload 20 data ∧
    (∀ x r, data = x :: r → x ≠ 0 → fromPayload 17 data = fromPayload 20 data) ∧
    fromPayload 17 [] = fromPayload 20 [] := by
  refine ⟨by simp [fromPayload], by simp [fromPayload], ?_, by simp [fromPayload]⟩
  intro x r hd hx
  subst hd
  simp [fromPayload, hx]

/-- every other type id passes through with its bytes untouched, in both directions -/
theorem C13_unknown (t : Nat) (data : Bytes) (h : ¬ assigned t) :
    fromPayload t data = .ok (.unknown t data) ∧ toPayload (.unknown t data) = .ok (t, data) := by
  simp only [assigned, not_or] at h
  obtain ⟨h1, h2, h3, h4, h5, h6, h8, h9, h15, h17, h18, h20⟩ := h
  simp [fromPayload, toPayload, h1, h2, h3, h4, h5, h6, h8, h9, h15, h17, h18, h20]

/-- chunk sizes above 2^31-1 are rejected in both directions, and only those -/
theorem C13_chunk_size_range (n : Nat) (hn : U32 n) (rest : Bytes) :
    (toPayload (.setChunkSize n) = .error .invalidChunkSize ↔ n > 2147483647) ∧
    (fromPayload 1 (be32 n ++ rest) = .error .invalidFormat ↔ n > 2147483647) := by
  constructor
  · simp only [toPayload]
    constructor
    · intro h; split at h
      · assumption
      · simp at h
    · intro h; simp [h]
  · simp only [fromPayload, if_true, rdU32_be32 n rest hn]
    constructor
    · intro h; split at h
      · assumption
      · simp at h
    · intro h; simp [h]

-- non-vacuity: a connect command round-trips
example : fromPayload 20 [2, 0, 1, 99, 0, 0x3F, 0xF0, 0, 0, 0, 0, 0, 0, 5]
    = .ok (.amf0Command [99] 0x3FF0000000000000 .null []) := by
  simp [fromPayload, cmdParse, decode, decodeRest, readAll, readValue, takeN, take1, Bytes.beVal, Utf8.valid]

end Rml.C13
