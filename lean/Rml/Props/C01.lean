/-
C01 — chunk codec round-trip.   STATUS: proved.

`C01_roundtrip` (Thm B ∘ Thm A): for EVERY history of messages and outbound chunk-size changes the
serializer model accepts — any type ids, message stream ids, timestamps (rising, falling, wrapping),
sizes 0..16,777,215, any force/droppable flags — and EVERY partition of the produced bytes into input
calls, a deserializer that honours each decoded chunk-size change returns exactly the accepted
messages, in order, and no error.  Also: acceptance ⇔ size ≤ 16,777,215 (`C01_accepts`), every
accepted message yields a non-empty packet (`C01_nonempty`).  Hypothesis: reading 11 of DESIGN.md §9a
(hand-made type-1 payloads; see C07).
-/
import Rml.Lemmas.SerHist
import Rml.Props.C06
import Rml.Props.C07

namespace Rml.C01
open Rml Rml.Chunk

/-- the serializer accepts exactly payloads of at most 16,777,215 bytes (any type id, stream id,
    timestamp and flags), in every reachable state -/
theorem C01_accepts (s : Ser.State) (hs : 1 ≤ s.maxCs) (m : Msg) (f d : Bool) :
    (∃ s' p, Ser.serialize s m f d = .ok (s', p)) ↔ m.data.length ≤ 16777215 := by
  unfold Ser.serialize
  constructor
  · intro ⟨s', p, h⟩
    split at h
    · simp at h
    · rename_i hc; simp only [maxMsgLen] at hc; omega
  · intro h
    have h1 : ¬ m.data.length > maxMsgLen := by simp only [maxMsgLen]; omega
    have h2 : ¬ (s.maxCs = 0 ∧ ¬ m.data.isEmpty = true) := by omega
    simp only [h1, h2, if_false]
    exact ⟨_, _, rfl⟩

/-- every accepted message yields a non-empty packet, also a message without payload (fix F1), and
    the packet carries the caller's droppable flag -/
theorem C01_nonempty (s s' : Ser.State) (m : Msg) (f d : Bool) (p : Ser.Packet)
    (h : Ser.serialize s m f d = .ok (s', p)) : p.bytes ≠ [] ∧ p.drop = d := by
  unfold Ser.serialize at h
  split at h
  · simp at h
  · split at h
    · simp at h
    · simp only [Ser.Outcome.ok.injEq, Prod.mk.injEq] at h
      rw [← h.2]
      exact ⟨Ser.addChunks_bytes_ne_nil _ _ _ _ (Ser.slices_ne_nil _ _) _ _, rfl⟩

/-- "however the produced bytes are split across input calls": whatever the deserializer returns for
    the bytes in one call it returns for every partition of them (Thm P, proved in C15) -/
theorem C01_any_partition (c1 : Bytes) (r1 : List Bytes) (c2 : Bytes) (r2 : List Bytes)
    (h : (c1 :: r1).flatten = (c2 :: r2).flatten) :
    (C15.feedAll {} (c1 :: r1)).msgs = (C15.feedAll {} (c2 :: r2)).msgs ∧
    (C15.feedAll {} (c1 :: r1)).err = (C15.feedAll {} (c2 :: r2)).err :=
  C15.C15_des {} c1 r1 c2 r2 h

open Rml.SerHist in
/-- **C01.**  Serializer, then deserializer, under every partition of the bytes: the accepted messages,
    in order, nothing else, no error. -/
theorem C01_roundtrip (ops : List C19.SerOp) (hwf : HistWF {} ops) (c1 : Bytes) (r1 : List Bytes)
    (hcut : (c1 :: r1).flatten = wire (trace {} ops)) :
    (C15.feedAll {} (c1 :: r1)).msgs = msgs (trace {} ops) ∧ (C15.feedAll {} (c1 :: r1)).err = none := by
  have h := C07.C07_legal ops hwf
  rw [← hcut] at h
  exact C06.C06_decodes_legal_any_fragmentation c1 r1 _ h

open Rml.SerHist in
/-- `msgs (trace …)` is exactly the sequence of messages of the accepted operations -/
theorem C01_trace_msgs (s : Ser.State) (op : C19.SerOp) (rest : List C19.SerOp) :
    msgs (trace s (op :: rest)) =
      (match C19.applyOp s op with
       | .ok _ => [msgOf op]
       | _ => []) ++ msgs (trace (after s op) rest) := by
  cases h : C19.applyOp s op <;> simp [trace, msgs, h]

-- a concrete history checked end to end in the kernel (a test, not the theorem): audio 300 bytes at
-- ts 16777300 (extended timestamp, three chunks), the same again (format 3 with repeated extended
-- field), an empty droppable video message, a chunk size change and a message under the new size
def demoPackets : List Ser.Packet :=
  let m1 : Msg := { ts := 16777300, typ := 8, msid := 1, data := List.replicate 300 5 }
  match Ser.serialize {} m1 false false with
  | .ok (s1, p1) =>
    match Ser.serialize s1 { m1 with ts := 33554600 } false false with
    | .ok (s2, p2) =>
      match Ser.serialize s2 { ts := 7, typ := 9, msid := 1, data := [] } false true with
      | .ok (s3, p3) =>
        match Ser.setMaxChunkSize s3 1000 0 with
        | .ok (s4, p4) =>
          match Ser.serialize s4 { m1 with ts := 2 } false false with
          | .ok (_, p5) => [p1, p2, p3, p4, p5]
          | _ => []
        | _ => []
      | _ => []
    | _ => []
  | _ => []

example : ((Des.feed {} (demoPackets.map (·.bytes)).flatten).msgs.map fun m => (m.typ, m.msid, m.ts, m.data.length))
    = [(8, 1, 16777300, 300), (8, 1, 33554600, 300), (9, 1, 7, 0), (1, 0, 0, 4), (8, 1, 2, 300)] := by
  decide +kernel

end Rml.C01
