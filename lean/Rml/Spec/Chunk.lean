/-
The RTMP chunk stream as a receiver following RTMP 1.0 §5.3.1 reads it — written from the
specification, independent of the implementation: per chunk stream id the last header (timestamp,
delta in force, 24-bit field, length, type, message stream id) AND a per-chunk-stream reassembly
buffer (the specification lets messages on different chunk streams interleave).

* basic header: 1-byte form for ids 2..63, 2-byte form `64 + b1`, 3-byte form `64 + b1 + 256·b2`;
* type 0: absolute timestamp; the delta in force becomes that timestamp (§5.3.1.2.4: "if a Type 3
  chunk follows a Type 0 chunk, the timestamp delta for this Type 3 chunk is the same as the
  timestamp of the Type 0 chunk"); types 1, 2: delta; type 3 starting a message: the delta in force;
* the 32-bit extended field is present exactly when the governing 24-bit field is 0xFFFFFF (on a
  type 3 chunk: the field of the preceding header on that chunk stream);
* a message in flight continues with type 3 chunks (whose extended field, if present, is not
  interpreted: encoders disagree on its content) or with a repeat of its identical full header
  (which, being a type 0 header, makes its timestamp the delta in force like any type 0 header);
* each chunk carries min(chunk size, remaining) payload bytes; a completed type-1 message with a
  value 1..2^31-1 changes the chunk size for all later chunks.

`decode` accepts exactly the byte strings that are a whole number of such chunks.
The same reader, in Rust, is the harness' oracle (harness/src/refchunk.rs); the `spec.feed` op
compares the two on every generated foreign stream.
-/
import Rml.Model.Chunk
namespace Rml.Spec.Chunk
open Rml Rml.Bytes Rml.Chunk

structure CsState where
  ts : Nat := 0
  delta : Nat := 0
  field24 : Nat := 0
  len : Nat := 0
  typ : Nat := 0
  msid : Nat := 0
  buf : Bytes := []
  inFlight : Bool := false
deriving Repr, DecidableEq, Inhabited

structure State where
  cs : Nat := 128
  streams : List (Nat × CsState) := []
deriving Repr, DecidableEq

/-- basic header: format, chunk stream id, rest -/
def basic : Bytes → Option (Nat × Nat × Bytes)
  | [] => none
  | x :: r =>
    let fmt := x.toNat / 64
    if x.toNat % 64 = 0 then
      match r with
      | y :: r' => some (fmt, y.toNat + 64, r')
      | _ => none
    else if x.toNat % 64 = 1 then
      match r with
      | y :: z :: r' => some (fmt, y.toNat + z.toNat * 256 + 64, r')
      | _ => none
    else some (fmt, x.toNat % 64, r)

def rd3 : Bytes → Option (Nat × Bytes)
  | a :: b :: c :: r => some (rd24 a b c, r)
  | _ => none
def rd4 : Bytes → Option (Nat × Bytes)
  | a :: b :: c :: d :: r => some (rd32 a b c d, r)
  | _ => none
def rd4le : Bytes → Option (Nat × Bytes)
  | a :: b :: c :: d :: r => some (rd32 d c b a, r)
  | _ => none
def rd1 : Bytes → Option (Nat × Bytes)
  | a :: r => some (a.toNat, r)
  | _ => none

/-- the message header fields as announced by this chunk (inherited where the format omits them) -/
structure Announced where
  field24 : Nat
  len : Nat
  typ : Nat
  msid : Nat
  ext : Option Nat

def readHeader (fmt : Nat) (st : CsState) (bs : Bytes) : Option (Announced × Bytes) := do
  let (field24, bs) ← if fmt ≤ 2 then rd3 bs else some (st.field24, bs)
  let (len, bs) ← if fmt ≤ 1 then rd3 bs else some (st.len, bs)
  let (typ, bs) ← if fmt ≤ 1 then rd1 bs else some (st.typ, bs)
  let (msid, bs) ← if fmt = 0 then rd4le bs else some (st.msid, bs)
  let (ext, bs) ← if field24 = 16777215 then (rd4 bs).map (fun (e, r) => (some e, r)) else some (none, bs)
  pure ({ field24 := field24, len := len, typ := typ, msid := msid, ext := ext }, bs)

/-- timestamp and delta in force after this chunk's header (`none`: a message in flight was
    continued by something other than a type 3 chunk or a repeat of its identical full header) -/
def tsDelta (fmt : Nat) (st : CsState) (a : Announced) : Option (Nat × Nat) :=
  let value := a.ext.getD a.field24
  if st.inFlight then
    if fmt = 3 then some (st.ts, st.delta)
    else if fmt = 0 ∧ value = st.ts ∧ a.len = st.len ∧ a.typ = st.typ ∧ a.msid = st.msid then some (st.ts, value)
    else none
  else if fmt = 0 then some (value, value)
  else if fmt = 3 then some (add32 st.ts st.delta, st.delta)
  else some (add32 st.ts value, value)

/-- the payload part of a chunk and the state after it -/
def payload (s : State) (csid : Nat) (st : CsState) (a : Announced) (ts delta : Nat) (bs : Bytes) :
    Option (State × Option Msg × Bytes) :=
  if a.len < st.buf.length then none else
  let want := min s.cs (a.len - st.buf.length)
  if bs.length < want then none else
  let buf := st.buf ++ bs.take want
  let rest := bs.drop want
  let st' : CsState := { ts := ts, delta := delta, field24 := a.field24, len := a.len, typ := a.typ, msid := a.msid,
                         buf := buf, inFlight := true }
  if buf.length = a.len then
    let cs' := if a.typ = 1 then
        match parseSetChunkSize buf with
        | some v => if v ≥ 1 then v else s.cs
        | none => s.cs
      else s.cs
    some ({ cs := cs', streams := mapInsert csid { st' with buf := [], inFlight := false } s.streams },
          some { ts := ts, typ := a.typ, msid := a.msid, data := buf }, rest)
  else
    some ({ s with streams := mapInsert csid st' s.streams }, none, rest)

/-- everything after the basic header -/
def body (s : State) (fmt csid : Nat) (bs : Bytes) : Option (State × Option Msg × Bytes) :=
  let st := (mapGet csid s.streams).getD {}
  if fmt ≠ 0 ∧ (mapGet csid s.streams).isNone then none else
  match readHeader fmt st bs with
  | none => none
  | some (a, bs) =>
    match tsDelta fmt st a with
    | none => none
    | some (ts, delta) => payload s csid st a ts delta bs

/-- one chunk: `none` = not a (complete) legal chunk -/
def chunk (s : State) (bs : Bytes) : Option (State × Option Msg × Bytes) :=
  match basic bs with
  | none => none
  | some (fmt, csid, bs) => if csid < 2 then none else body s fmt csid bs

/-- a whole byte string: every chunk consumes at least its basic header, so `length` fuel suffices -/
def decodeFuel : Nat → State → Bytes → List Msg → Option (List Msg)
  | 0, _, bs, acc => if bs.isEmpty then some acc else none
  | f + 1, s, bs, acc =>
    if bs.isEmpty then some acc else
    match chunk s bs with
    | none => none
    | some (s', m, rest) => decodeFuel f s' rest (match m with | some m => acc ++ [m] | none => acc)

def decode (bs : Bytes) : Option (List Msg) := decodeFuel bs.length {} bs []

/-! ### the stream of a sequential, strictly conformant sender

What a sender that finishes each message before starting the next and follows §5.3.1 to the letter
produces — the class of streams the library's deserializer is built for (known finding K1 is
about streams outside it).  On top of `chunk`:
* only the chunk stream with a message in flight may appear until that message is complete;
* a type 3 chunk that starts a message on a chunk stream whose governing 24-bit field is 0xFFFFFF
  repeats the delta in force in its extended field (§5.3.1.3);
* no SetChunkSize message announces the size 0 (§5.4.1: valid sizes are 1 to 0x7FFFFFFF).
-/

def strictOk (s : State) (cur : Option Nat) (bs : Bytes) : Bool :=
  match basic bs with
  | none => false
  | some (fmt, csid, r) =>
    (match cur with
     | some k => decide (csid = k)
     | none => true) &&
    (match mapGet csid s.streams with
     | some st =>
       if fmt = 3 ∧ st.inFlight = false ∧ st.field24 = 16777215 then
         (match rd4 r with
          | some (e, _) => decide (e = st.delta)
          | none => false)
       else true
     | none => true)

def msgOk : Option Msg → Bool
  | some m => !(decide (m.typ = 1) && decide (parseSetChunkSize m.data = some 0))
  | none => true

/-- chunk stream with a message in flight after a chunk on `csid` that produced `m` -/
def nextCur (csid : Nat) : Option Msg → Option Nat
  | some _ => none
  | none => some csid

def csidOf (bs : Bytes) : Nat := match basic bs with | some (_, k, _) => k | none => 0

def decodeSeqFuel : Nat → State → Option Nat → Bytes → List Msg → Option (List Msg)
  | 0, _, _, bs, acc => if bs.isEmpty then some acc else none
  | f + 1, s, cur, bs, acc =>
    if bs.isEmpty then some acc else
    if strictOk s cur bs = false then none else
    match chunk s bs with
    | none => none
    | some (s', m, rest) =>
      if msgOk m = false then none else
      decodeSeqFuel f s' (nextCur (csidOf bs) m) rest (match m with | some m => acc ++ [m] | none => acc)

/-- the messages of a byte string a sequential, strictly conformant sender produced -/
def decodeSeq (bs : Bytes) : Option (List Msg) := decodeSeqFuel bs.length {} none bs []

end Rml.Spec.Chunk
