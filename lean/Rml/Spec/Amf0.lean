/-
The AMF0 wire format as a relation, written from the AMF0 specification (amf0-file-format-
specification, sections 2.2 Number, 2.3 Boolean, 2.4 String, 2.5 Object, 2.7/2.8 null/undefined,
2.10 ECMA Array, 2.12 Strict Array) and independent of the implementation's choices:

* a Boolean is marker 1 and one byte, zero = false, anything else = true;
* an Object is marker 3, its properties as (u16 length, UTF-8 name, value) in ANY order, then 00 00 09;
* an ECMA array is marker 8, a u32 count (not constrained here: encoders in the field disagree on
  it), then exactly the body of an object; it denotes the same name → value map;
* a Strict Array is marker 10, a u32 count and exactly that many values.

`Val.object ps` is read as the finite map with the pairs `ps`; the list order is the wire order.
Names are non-empty (the empty name is the terminator, reading 5 in DESIGN.md §9a).
-/
import Rml.Model.Amf0
namespace Rml.Spec.Amf0
open Rml Rml.Bytes Rml.Amf0

mutual
inductive Encodes : Val → Bytes → Prop
  | number (n : Nat) : n < 18446744073709551616 → Encodes (.number n) (0 :: be64 n)
  | boolTrue (x : UInt8) : x ≠ 0 → Encodes (.boolean true) [1, x]
  | boolFalse : Encodes (.boolean false) [1, 0]
  | str (s : Bytes) : s.length ≤ 65535 → Utf8.valid s = true → Encodes (.str s) (2 :: (be16 s.length ++ s))
  | object (ps : List (Bytes × Val)) (body : Bytes) :
      EncodesProps ps body → Encodes (.object ps) (3 :: (body ++ [0, 0, 9]))
  | ecma (ps : List (Bytes × Val)) (c body : Bytes) : c.length = 4 →
      EncodesProps ps body → Encodes (.object ps) (8 :: (c ++ (body ++ [0, 0, 9])))
  | array (vs : List Val) (body : Bytes) : vs.length < 4294967296 →
      EncodesList vs body → Encodes (.array vs) (10 :: (be32 vs.length ++ body))
  | null : Encodes .null [5]
  | undefined : Encodes .undefined [6]
inductive EncodesProps : List (Bytes × Val) → Bytes → Prop
  | nil : EncodesProps [] []
  | cons (k : Bytes) (v : Val) (rest : List (Bytes × Val)) (bv br : Bytes) :
      0 < k.length → k.length ≤ 65535 → Utf8.valid k = true →
      Encodes v bv → EncodesProps rest br →
      EncodesProps ((k, v) :: rest) (be16 k.length ++ k ++ bv ++ br)
inductive EncodesList : List Val → Bytes → Prop
  | nil : EncodesList [] []
  | cons (v : Val) (rest : List Val) (bv br : Bytes) :
      Encodes v bv → EncodesList rest br → EncodesList (v :: rest) (bv ++ br)
end

end Rml.Spec.Amf0
