/-
Message-level steps of the play workflow (see WfSteps.lean, WfPublish.lean).
-/
import Rml.Lemmas.WfPublish
namespace Rml.WfSteps
open Rml Rml.Bytes Rml.Chunk Rml.Amf0 Rml.Msgs Rml.Sess Rml.SerHist Rml.Emit Rml.Link Rml.Exchange

def setBufLen (sid ms : Nat) : RtmpMsg := .userControl .setBufferLength (some sid) (some ms) none
def playCmd (key : Bytes) : RtmpMsg := .amf0Command (str "play") 0 .null [.str key]

theorem setBufLen_wf (sid ms : Nat) (hs : sid < 4294967296) (hm : ms < 4294967296) : C13.WF (setBufLen sid ms) := by
  unfold setBufLen C13.WF C13.U32
  exact ⟨⟨sid, ms, rfl, rfl, hs, hm⟩, rfl⟩

theorem playCmd_wf (key : Bytes) (hk : Utf8.valid key = true) : C13.WF (playCmd key) := by
  unfold playCmd C13.WF
  exact ⟨by decide, by decide, trivial, hk, trivial⟩

theorem be32_length (n : Nat) : (be32 n).length = 4 := by simp [be32]

theorem setBufLen_payload (sid ms : Nat) : ∃ body, toPayload (setBufLen sid ms) = .ok (4, body) ∧ body.length ≤ 16777215 := by
  refine ⟨_, by simp only [setBufLen, toPayload, ucBody]; rfl, ?_⟩
  simp only [List.length_append, be16_length, be32_length]
  omega

theorem playCmd_payload (key : Bytes) (hk : key.length ≤ 65535) :
    ∃ body, toPayload (playCmd key) = .ok (20, body) ∧ body.length ≤ 16777215 := by
  have h4 : ¬ ((str "play").length > 65535) := by decide
  have hk' : ¬ (key.length > 65535) := by omega
  refine ⟨_, by simp only [playCmd, toPayload, encode, List.cons_append, List.nil_append, encList, encVal, h4, hk', if_false]; rfl, ?_⟩
  simp only [List.length_append, List.length_cons, be64_length, be16_length, List.length_nil]
  have : (str "play").length = 4 := by decide
  omega

/-- the client handling the `createStream` result while a play purpose is outstanding -/
theorem cli_createStreamResult_play (c : Cli.State) (now : Nat) (p : Msg) (k sid : Nat) (key : Bytes)
    (hk : k < 4294967296) (hsid : sid < 4294967296)
    (htx : mapGet k c.txns = some (.createStream (.play key))) (hkey : key.length ≤ 65535) (hpos : 1 ≤ c.ser.maxCs) :
    ∃ c2 pa pb ba bb, Cli.handleMessage c now p (createStreamResult (F64.ofU32 k) sid) = (c2, .ok [.out pa, .out pb]) ∧
      toPayload (setBufLen sid c.cfg.bufferLengthMs) = .ok (4, ba) ∧ toPayload (playCmd key) = .ok (20, bb) ∧
      Emits c.ser c2.ser [(pa, { ts := epoch now, typ := 4, msid := 0, data := ba }),
                          (pb, { ts := epoch now, typ := 20, msid := sid, data := bb })] ∧
      c2 = { c with txns := mapRemove k c.txns, activeStream := some sid, st := .playRequested, ser := c2.ser } := by
  obtain ⟨ba, hpa, hla⟩ := setBufLen_payload sid c.cfg.bufferLengthMs
  obtain ⟨bb, hpb, hlb⟩ := playCmd_payload key hkey
  obtain ⟨s3, pa, hsa⟩ := cli_send_total
    { c with txns := mapRemove k c.txns, activeStream := some sid, st := .playRequested } hpos hpa hla (epoch now) 0 false
  obtain ⟨ta, ba', hpa', hea, hqa⟩ := cli_send_exact hsa trivial (epoch_lt now) (by decide)
  rw [hpa] at hpa'
  simp only [Except.ok.injEq, Prod.mk.injEq] at hpa'
  obtain ⟨rfl, rfl⟩ := hpa'
  have hpos3 : 1 ≤ s3.ser.maxCs := Safe.emits_cs_pos hea hpos
  obtain ⟨s4, pb, hsb⟩ := cli_send_total s3 hpos3 hpb hlb (epoch now) sid false
  obtain ⟨tb, bb', hpb', heb, hqb⟩ := cli_send_exact hsb trivial (epoch_lt now) hsid
  rw [hpb] at hpb'
  simp only [Except.ok.injEq, Prod.mk.injEq] at hpb'
  obtain ⟨rfl, rfl⟩ := hpb'
  refine ⟨s4, pa, pb, ba, bb, ?_, hpa, hpb, hea.trans heb, by rw [hqb, hqa]⟩
  rw [createStreamResult, chm_result]
  simp only [Cli.handleResult, F64.toU32_ofU32 k hk, htx, F64.toU32_ofU32 sid hsid]
  have e1 : Cli.send { c with txns := mapRemove k c.txns, activeStream := some sid, st := .playRequested }
      (.userControl .setBufferLength (some sid) (some c.cfg.bufferLengthMs) none) (epoch now) 0 = .ok (s3, pa) := hsa
  have e2 : Cli.send s3 (.amf0Command (str "play") 0 .null [.str key]) (epoch now) sid = .ok (s4, pb) := hsb
  rw [e1]
  simp only [e2]

/-- the server ignores a buffer-length notice -/
theorem srv_step_setBufLen (v : Srv.State) (now sid ms ts msid : Nat) (body : Bytes) (hs : sid < 4294967296) (hm : ms < 4294967296)
    (hp : toPayload (setBufLen sid ms) = .ok (4, body)) :
    SrvSteps.stepMsg v now { ts := ts, typ := 4, msid := msid, data := body } = .ok (v, []) := by
  rw [srv_stepMsg_of (setBufLen_wf sid ms hs hm) hp]
  simp only [setBufLen, Srv.handleMessage]

/-- the server handling exactly that `play` command on a connected session -/
theorem srv_play (v : Srv.State) (now : Nat) (p : Msg) (key app : Bytes) (hc : v.connected = true) (ha : v.app = some app) :
    Srv.handleMessage v now p (playCmd key) =
      .ok ({ v with nextReq := v.nextReq + 1, reqs := mapInsert v.nextReq (.play key p.msid) v.reqs },
           [.ev (.playRequested v.nextReq app key .liveOrRecorded none false p.msid)]) := by
  simp only [playCmd, Srv.handleMessage, hc_play]
  simp only [Srv.cmdPlay, hc, ha, not_true_eq_false, if_false, List.drop_nil]

/-! ### accepting the play request -/

def playReset : RtmpMsg :=
  .amf0Command (str "onStatus") 0 .null [statusObject (str "status") (str "NetStream.Play.Reset") (str "Reset stream")]
def playStart (key : Bytes) : RtmpMsg :=
  .amf0Command (str "onStatus") 0 .null [statusObject (str "status") (str "NetStream.Play.Start")
    (str "Successfully started playback on stream key " ++ key)]
def sampleAccess : RtmpMsg := .amf0Data [.str (str "|RtmpSampleAccess"), .boolean false, .boolean false]
def dataStart : RtmpMsg := .amf0Data [.str (str "onStatus"), .object [(str "code", .str (str "NetStream.Data.Start"))]]

theorem data_typ {vals : List Val} {typ : Nat} {body : Bytes} (h : toPayload (.amf0Data vals) = .ok (typ, body)) : typ = 18 := by
  simp only [toPayload] at h
  split at h
  · simp only [Except.ok.injEq, Prod.mk.injEq] at h; exact h.1.symm
  · simp at h

theorem acceptPlay_ok {v v2 : Srv.State} {now id : Nat} {key : Bytes} {sid : Nat} {rs : List Srv.Res}
    (hreq : mapGet id v.reqs = some (.play key sid)) (hsid : sid < 4294967296)
    (h : Srv.acceptRequest v now id = (v2, .ok rs)) :
    ∃ p1 p2 p3 p4 p5 b1 b2 b3 b4 b5, rs = [.out p1, .out p2, .out p3, .out p4, .out p5] ∧
      toPayload playReset = .ok (20, b1) ∧ toPayload (streamBegin sid) = .ok (4, b2) ∧
      toPayload (playStart key) = .ok (20, b3) ∧ toPayload sampleAccess = .ok (18, b4) ∧
      toPayload dataStart = .ok (18, b5) ∧
      Emits v.ser v2.ser [(p1, { ts := epoch now, typ := 20, msid := sid, data := b1 }),
                          (p2, { ts := epoch now, typ := 4, msid := sid, data := b2 }),
                          (p3, { ts := epoch now, typ := 20, msid := sid, data := b3 }),
                          (p4, { ts := epoch now, typ := 18, msid := sid, data := b4 }),
                          (p5, { ts := epoch now, typ := 18, msid := sid, data := b5 })] ∧
      v2 = { v with reqs := mapRemove id v.reqs, streams := mapInsert sid (.playing key) v.streams, ser := v2.ser } := by
  unfold Srv.acceptRequest at h
  simp only [hreq] at h
  split at h
  · simp at h
  · rename_i st hst
    split at h
    · simp at h
    · rename_i s2 p1 hs1
      split at h
      · simp at h
      · rename_i s3 p2 hs2
        split at h
        · simp at h
        · rename_i s4 p3 hs3
          split at h
          · simp at h
          · rename_i s5 p4 hs4
            split at h
            · simp at h
            · rename_i s6 p5 hs5
              simp only [Prod.mk.injEq, Except.ok.injEq] at h
              obtain ⟨h1, h2⟩ := h
              subst h1; subst h2
              obtain ⟨t1, b1, hp1, he1, hq1⟩ := srv_send_exact hs1 trivial (epoch_lt now) hsid
              obtain ⟨t2, b2, hp2, he2, hq2⟩ := srv_send_exact hs2 trivial (epoch_lt now) hsid
              obtain ⟨t3, b3, hp3, he3, hq3⟩ := srv_send_exact hs3 trivial (epoch_lt now) hsid
              obtain ⟨t4, b4, hp4, he4, hq4⟩ := srv_send_exact hs4 trivial (epoch_lt now) hsid
              obtain ⟨t5, b5, hp5, he5, hq5⟩ := srv_send_exact hs5 trivial (epoch_lt now) hsid
              have ht1 := cmd_typ hp1; have ht2 := uc_typ hp2; have ht3 := cmd_typ hp3
              have ht4 := data_typ hp4; have ht5 := data_typ hp5
              subst ht1; subst ht2; subst ht3; subst ht4; subst ht5
              refine ⟨p1, p2, p3, p4, p5, b1, b2, b3, b4, b5, rfl, hp1, hp2, hp3, hp4, hp5,
                (((he1.trans he2).trans he3).trans he4).trans he5, ?_⟩
              rw [hq5, hq4, hq3, hq2, hq1]

theorem playReset_wf : C13.WF playReset := by
  unfold playReset C13.WF statusObject
  refine ⟨by decide, by decide, trivial, ?_⟩
  simp only [WFList, Val.WF, WFProps, and_true, List.map]
  decide

theorem playStart_wf (key : Bytes) (hk : Utf8.valid key = true) : C13.WF (playStart key) := by
  unfold playStart C13.WF statusObject
  have hd : Utf8.valid (str "Successfully started playback on stream key " ++ key) = true :=
    Utf8.valid_append _ _ (by decide) hk
  refine ⟨by decide, by decide, trivial, ?_⟩
  simp only [WFList, Val.WF, WFProps, hd, and_true, List.map]
  exact ⟨⟨by decide, by decide, by decide, by decide, by decide⟩, by decide⟩

theorem sampleAccess_wf : C13.WF sampleAccess := by
  unfold sampleAccess C13.WF
  simp only [WFList, Val.WF, and_true]
  decide

theorem dataStart_wf : C13.WF dataStart := by
  unfold dataStart C13.WF
  simp only [WFList, Val.WF, WFProps, and_true, List.map]
  decide

/-- the reset notice is handed up as an unhandled status -/
theorem cli_playReset (c : Cli.State) (now : Nat) (p : Msg) :
    Cli.handleMessage c now p playReset = (c, .ok [.ev (.unhandleableOnStatus (str "NetStream.Play.Reset"))]) := by
  unfold playReset statusObject
  rw [chm_onStatus]
  unfold Cli.handleOnStatus
  dsimp only [propGet]
  rw [if_neg (by decide), if_pos rfl]
  dsimp only
  rw [if_neg (by decide), if_neg (by decide)]

/-- the start notice while playback is requested -/
theorem cli_playStart (c : Cli.State) (now : Nat) (p : Msg) (key : Bytes) (hst : c.st = .playRequested) :
    Cli.handleMessage c now p (playStart key) = ({ c with st := .playing }, .ok [.ev .playbackAccepted]) := by
  unfold playStart statusObject
  rw [chm_onStatus]
  unfold Cli.handleOnStatus
  dsimp only [propGet]
  rw [if_neg (by decide), if_pos rfl]
  dsimp only
  rw [if_pos rfl, if_pos hst]

/-- the two data messages raise nothing -/
theorem cli_sampleAccess (c : Cli.State) (now : Nat) (p : Msg) :
    Cli.handleMessage c now p sampleAccess = (c, .ok []) := by
  unfold sampleAccess Cli.handleMessage
  dsimp only
  unfold Cli.handleData
  dsimp only
  cases c.activeStream with
  | none => rfl
  | some a =>
    dsimp only
    split
    · rfl
    · rw [if_neg (by decide)]

theorem cli_dataStart (c : Cli.State) (now : Nat) (p : Msg) :
    Cli.handleMessage c now p dataStart = (c, .ok []) := by
  unfold dataStart Cli.handleMessage
  dsimp only
  unfold Cli.handleData
  dsimp only
  cases c.activeStream with
  | none => rfl
  | some a =>
    dsimp only
    split
    · rfl
    · rw [if_neg (by decide)]

end Rml.WfSteps
