/-
Stream metadata survives the trip through the AMF0 property map: `apply_metadata_values` applied to what
`publish_metadata` / `send_metadata` build gives the metadata back (u32 fields through u32 → f64 → u32, the
frame rate through f32 → f64 → f32), and the property map is a well-formed AMF0 object.
-/
import Rml.Lemmas.F64Cast
import Rml.Model.SessionCommon
import Rml.Model.Utf8
namespace Rml.Meta
open Rml Rml.Sess Rml.Amf0

theorem am_videoWidth (a : Metadata) (x : Nat) :
    applyMeta a (str "width") (Val.number (F64.ofU32 x)) = { a with videoWidth := some (F64.toU32 (F64.ofU32 x)) } := by
  unfold applyMeta
  dsimp only
  rw [if_pos rfl]
  all_goals rfl

theorem am_videoHeight (a : Metadata) (x : Nat) :
    applyMeta a (str "height") (Val.number (F64.ofU32 x)) = { a with videoHeight := some (F64.toU32 (F64.ofU32 x)) } := by
  unfold applyMeta
  dsimp only
  rw [if_neg (by decide), if_pos rfl]
  all_goals rfl

theorem am_videoCodecId (a : Metadata) (x : Nat) :
    applyMeta a (str "videocodecid") (Val.number (F64.ofU32 x)) = { a with videoCodecId := some (F64.toU32 (F64.ofU32 x)) } := by
  unfold applyMeta
  dsimp only
  rw [if_neg (by decide), if_neg (by decide), if_pos rfl]
  all_goals rfl

theorem am_videoBitrateKbps (a : Metadata) (x : Nat) :
    applyMeta a (str "videodatarate") (Val.number (F64.ofU32 x)) = { a with videoBitrateKbps := some (F64.toU32 (F64.ofU32 x)) } := by
  unfold applyMeta
  dsimp only
  rw [if_neg (by decide), if_neg (by decide), if_neg (by decide), if_pos rfl]
  all_goals rfl

theorem am_videoFrameRate (a : Metadata) (x : Nat) :
    applyMeta a (str "framerate") (Val.number (F64.ofF32 x)) = { a with videoFrameRate := some (F64.toF32 (F64.ofF32 x)) } := by
  unfold applyMeta
  dsimp only
  rw [if_neg (by decide), if_neg (by decide), if_neg (by decide), if_neg (by decide), if_pos rfl]
  all_goals rfl

theorem am_audioCodecId (a : Metadata) (x : Nat) :
    applyMeta a (str "audiocodecid") (Val.number (F64.ofU32 x)) = { a with audioCodecId := some (F64.toU32 (F64.ofU32 x)) } := by
  unfold applyMeta
  dsimp only
  rw [if_neg (by decide), if_neg (by decide), if_neg (by decide), if_neg (by decide), if_neg (by decide), if_pos rfl]
  all_goals rfl

theorem am_audioBitrateKbps (a : Metadata) (x : Nat) :
    applyMeta a (str "audiodatarate") (Val.number (F64.ofU32 x)) = { a with audioBitrateKbps := some (F64.toU32 (F64.ofU32 x)) } := by
  unfold applyMeta
  dsimp only
  rw [if_neg (by decide), if_neg (by decide), if_neg (by decide), if_neg (by decide), if_neg (by decide), if_neg (by decide), if_pos rfl]
  all_goals rfl

theorem am_audioSampleRate (a : Metadata) (x : Nat) :
    applyMeta a (str "audiosamplerate") (Val.number (F64.ofU32 x)) = { a with audioSampleRate := some (F64.toU32 (F64.ofU32 x)) } := by
  unfold applyMeta
  dsimp only
  rw [if_neg (by decide), if_neg (by decide), if_neg (by decide), if_neg (by decide), if_neg (by decide), if_neg (by decide), if_neg (by decide), if_pos rfl]
  all_goals rfl

theorem am_audioChannels (a : Metadata) (x : Nat) :
    applyMeta a (str "audiochannels") (Val.number (F64.ofU32 x)) = { a with audioChannels := some (F64.toU32 (F64.ofU32 x)) } := by
  unfold applyMeta
  dsimp only
  rw [if_neg (by decide), if_neg (by decide), if_neg (by decide), if_neg (by decide), if_neg (by decide), if_neg (by decide), if_neg (by decide), if_neg (by decide), if_pos rfl]
  all_goals rfl

theorem am_audioIsStereo (a : Metadata) (x : Bool) :
    applyMeta a (str "stereo") (Val.boolean x) = { a with audioIsStereo := some x } := by
  unfold applyMeta
  dsimp only
  rw [if_neg (by decide), if_neg (by decide), if_neg (by decide), if_neg (by decide), if_neg (by decide), if_neg (by decide), if_neg (by decide), if_neg (by decide), if_neg (by decide), if_pos rfl]
  all_goals rfl

theorem am_encoder (a : Metadata) (x : Bytes) :
    applyMeta a (str "encoder") (Val.str x) = { a with encoder := some x } := by
  unfold applyMeta
  dsimp only
  rw [if_neg (by decide), if_neg (by decide), if_neg (by decide), if_neg (by decide), if_neg (by decide), if_neg (by decide), if_neg (by decide), if_neg (by decide), if_neg (by decide), if_neg (by decide), if_pos rfl]
  all_goals rfl

/-- the values a `StreamMetadata` can hold: u32 fields are u32s, the frame rate is an f32 that is not a signalling NaN -/
structure MetaWF (m : Metadata) : Prop where
  w : ∀ x, m.videoWidth = some x → x < 4294967296
  h : ∀ x, m.videoHeight = some x → x < 4294967296
  vc : ∀ x, m.videoCodecId = some x → x < 4294967296
  vb : ∀ x, m.videoBitrateKbps = some x → x < 4294967296
  fr : ∀ x, m.videoFrameRate = some x → x < 4294967296 ∧ F64.F32Quiet x
  ac : ∀ x, m.audioCodecId = some x → x < 4294967296
  ab : ∀ x, m.audioBitrateKbps = some x → x < 4294967296
  asr : ∀ x, m.audioSampleRate = some x → x < 4294967296
  ach : ∀ x, m.audioChannels = some x → x < 4294967296

def step (a : Metadata) (p : Bytes × Val) : Metadata := applyMeta a p.1 p.2

theorem applyMetadata_eq (props : List (Bytes × Val)) : applyMetadata props = props.foldl step {} := by
  unfold applyMetadata
  congr 1

/-- stage `width` -/
def up_videoWidth (a : Metadata) (o : Option Nat) : Metadata :=
  match o with
  | some x => { a with videoWidth := some (F64.toU32 (F64.ofU32 x)) }
  | none => a

theorem fold_videoWidth (a : Metadata) (o : Option Nat) :
    (optProp (str "width") (fun x => Val.number (F64.ofU32 x)) o).foldl step a = up_videoWidth a o := by
  cases o with
  | none => rfl
  | some x => simp only [optProp, List.foldl_cons, List.foldl_nil, step, am_videoWidth, up_videoWidth]

@[simp] theorem up_videoWidth_videoWidth (a : Metadata) (o : Option Nat) :
    (up_videoWidth a o).videoWidth = match o with | some x => some (F64.toU32 (F64.ofU32 x)) | none => a.videoWidth := by cases o <;> rfl

@[simp] theorem up_videoWidth_videoHeight (a : Metadata) (o : Option Nat) : (up_videoWidth a o).videoHeight = a.videoHeight := by cases o <;> rfl

@[simp] theorem up_videoWidth_videoCodecId (a : Metadata) (o : Option Nat) : (up_videoWidth a o).videoCodecId = a.videoCodecId := by cases o <;> rfl

@[simp] theorem up_videoWidth_videoFrameRate (a : Metadata) (o : Option Nat) : (up_videoWidth a o).videoFrameRate = a.videoFrameRate := by cases o <;> rfl

@[simp] theorem up_videoWidth_videoBitrateKbps (a : Metadata) (o : Option Nat) : (up_videoWidth a o).videoBitrateKbps = a.videoBitrateKbps := by cases o <;> rfl

@[simp] theorem up_videoWidth_audioCodecId (a : Metadata) (o : Option Nat) : (up_videoWidth a o).audioCodecId = a.audioCodecId := by cases o <;> rfl

@[simp] theorem up_videoWidth_audioBitrateKbps (a : Metadata) (o : Option Nat) : (up_videoWidth a o).audioBitrateKbps = a.audioBitrateKbps := by cases o <;> rfl

@[simp] theorem up_videoWidth_audioSampleRate (a : Metadata) (o : Option Nat) : (up_videoWidth a o).audioSampleRate = a.audioSampleRate := by cases o <;> rfl

@[simp] theorem up_videoWidth_audioChannels (a : Metadata) (o : Option Nat) : (up_videoWidth a o).audioChannels = a.audioChannels := by cases o <;> rfl

@[simp] theorem up_videoWidth_audioIsStereo (a : Metadata) (o : Option Nat) : (up_videoWidth a o).audioIsStereo = a.audioIsStereo := by cases o <;> rfl

@[simp] theorem up_videoWidth_encoder (a : Metadata) (o : Option Nat) : (up_videoWidth a o).encoder = a.encoder := by cases o <;> rfl

/-- stage `height` -/
def up_videoHeight (a : Metadata) (o : Option Nat) : Metadata :=
  match o with
  | some x => { a with videoHeight := some (F64.toU32 (F64.ofU32 x)) }
  | none => a

theorem fold_videoHeight (a : Metadata) (o : Option Nat) :
    (optProp (str "height") (fun x => Val.number (F64.ofU32 x)) o).foldl step a = up_videoHeight a o := by
  cases o with
  | none => rfl
  | some x => simp only [optProp, List.foldl_cons, List.foldl_nil, step, am_videoHeight, up_videoHeight]

@[simp] theorem up_videoHeight_videoWidth (a : Metadata) (o : Option Nat) : (up_videoHeight a o).videoWidth = a.videoWidth := by cases o <;> rfl

@[simp] theorem up_videoHeight_videoHeight (a : Metadata) (o : Option Nat) :
    (up_videoHeight a o).videoHeight = match o with | some x => some (F64.toU32 (F64.ofU32 x)) | none => a.videoHeight := by cases o <;> rfl

@[simp] theorem up_videoHeight_videoCodecId (a : Metadata) (o : Option Nat) : (up_videoHeight a o).videoCodecId = a.videoCodecId := by cases o <;> rfl

@[simp] theorem up_videoHeight_videoFrameRate (a : Metadata) (o : Option Nat) : (up_videoHeight a o).videoFrameRate = a.videoFrameRate := by cases o <;> rfl

@[simp] theorem up_videoHeight_videoBitrateKbps (a : Metadata) (o : Option Nat) : (up_videoHeight a o).videoBitrateKbps = a.videoBitrateKbps := by cases o <;> rfl

@[simp] theorem up_videoHeight_audioCodecId (a : Metadata) (o : Option Nat) : (up_videoHeight a o).audioCodecId = a.audioCodecId := by cases o <;> rfl

@[simp] theorem up_videoHeight_audioBitrateKbps (a : Metadata) (o : Option Nat) : (up_videoHeight a o).audioBitrateKbps = a.audioBitrateKbps := by cases o <;> rfl

@[simp] theorem up_videoHeight_audioSampleRate (a : Metadata) (o : Option Nat) : (up_videoHeight a o).audioSampleRate = a.audioSampleRate := by cases o <;> rfl

@[simp] theorem up_videoHeight_audioChannels (a : Metadata) (o : Option Nat) : (up_videoHeight a o).audioChannels = a.audioChannels := by cases o <;> rfl

@[simp] theorem up_videoHeight_audioIsStereo (a : Metadata) (o : Option Nat) : (up_videoHeight a o).audioIsStereo = a.audioIsStereo := by cases o <;> rfl

@[simp] theorem up_videoHeight_encoder (a : Metadata) (o : Option Nat) : (up_videoHeight a o).encoder = a.encoder := by cases o <;> rfl

/-- stage `videocodecid` -/
def up_videoCodecId (a : Metadata) (o : Option Nat) : Metadata :=
  match o with
  | some x => { a with videoCodecId := some (F64.toU32 (F64.ofU32 x)) }
  | none => a

theorem fold_videoCodecId (a : Metadata) (o : Option Nat) :
    (optProp (str "videocodecid") (fun x => Val.number (F64.ofU32 x)) o).foldl step a = up_videoCodecId a o := by
  cases o with
  | none => rfl
  | some x => simp only [optProp, List.foldl_cons, List.foldl_nil, step, am_videoCodecId, up_videoCodecId]

@[simp] theorem up_videoCodecId_videoWidth (a : Metadata) (o : Option Nat) : (up_videoCodecId a o).videoWidth = a.videoWidth := by cases o <;> rfl

@[simp] theorem up_videoCodecId_videoHeight (a : Metadata) (o : Option Nat) : (up_videoCodecId a o).videoHeight = a.videoHeight := by cases o <;> rfl

@[simp] theorem up_videoCodecId_videoCodecId (a : Metadata) (o : Option Nat) :
    (up_videoCodecId a o).videoCodecId = match o with | some x => some (F64.toU32 (F64.ofU32 x)) | none => a.videoCodecId := by cases o <;> rfl

@[simp] theorem up_videoCodecId_videoFrameRate (a : Metadata) (o : Option Nat) : (up_videoCodecId a o).videoFrameRate = a.videoFrameRate := by cases o <;> rfl

@[simp] theorem up_videoCodecId_videoBitrateKbps (a : Metadata) (o : Option Nat) : (up_videoCodecId a o).videoBitrateKbps = a.videoBitrateKbps := by cases o <;> rfl

@[simp] theorem up_videoCodecId_audioCodecId (a : Metadata) (o : Option Nat) : (up_videoCodecId a o).audioCodecId = a.audioCodecId := by cases o <;> rfl

@[simp] theorem up_videoCodecId_audioBitrateKbps (a : Metadata) (o : Option Nat) : (up_videoCodecId a o).audioBitrateKbps = a.audioBitrateKbps := by cases o <;> rfl

@[simp] theorem up_videoCodecId_audioSampleRate (a : Metadata) (o : Option Nat) : (up_videoCodecId a o).audioSampleRate = a.audioSampleRate := by cases o <;> rfl

@[simp] theorem up_videoCodecId_audioChannels (a : Metadata) (o : Option Nat) : (up_videoCodecId a o).audioChannels = a.audioChannels := by cases o <;> rfl

@[simp] theorem up_videoCodecId_audioIsStereo (a : Metadata) (o : Option Nat) : (up_videoCodecId a o).audioIsStereo = a.audioIsStereo := by cases o <;> rfl

@[simp] theorem up_videoCodecId_encoder (a : Metadata) (o : Option Nat) : (up_videoCodecId a o).encoder = a.encoder := by cases o <;> rfl

/-- stage `videodatarate` -/
def up_videoBitrateKbps (a : Metadata) (o : Option Nat) : Metadata :=
  match o with
  | some x => { a with videoBitrateKbps := some (F64.toU32 (F64.ofU32 x)) }
  | none => a

theorem fold_videoBitrateKbps (a : Metadata) (o : Option Nat) :
    (optProp (str "videodatarate") (fun x => Val.number (F64.ofU32 x)) o).foldl step a = up_videoBitrateKbps a o := by
  cases o with
  | none => rfl
  | some x => simp only [optProp, List.foldl_cons, List.foldl_nil, step, am_videoBitrateKbps, up_videoBitrateKbps]

@[simp] theorem up_videoBitrateKbps_videoWidth (a : Metadata) (o : Option Nat) : (up_videoBitrateKbps a o).videoWidth = a.videoWidth := by cases o <;> rfl

@[simp] theorem up_videoBitrateKbps_videoHeight (a : Metadata) (o : Option Nat) : (up_videoBitrateKbps a o).videoHeight = a.videoHeight := by cases o <;> rfl

@[simp] theorem up_videoBitrateKbps_videoCodecId (a : Metadata) (o : Option Nat) : (up_videoBitrateKbps a o).videoCodecId = a.videoCodecId := by cases o <;> rfl

@[simp] theorem up_videoBitrateKbps_videoFrameRate (a : Metadata) (o : Option Nat) : (up_videoBitrateKbps a o).videoFrameRate = a.videoFrameRate := by cases o <;> rfl

@[simp] theorem up_videoBitrateKbps_videoBitrateKbps (a : Metadata) (o : Option Nat) :
    (up_videoBitrateKbps a o).videoBitrateKbps = match o with | some x => some (F64.toU32 (F64.ofU32 x)) | none => a.videoBitrateKbps := by cases o <;> rfl

@[simp] theorem up_videoBitrateKbps_audioCodecId (a : Metadata) (o : Option Nat) : (up_videoBitrateKbps a o).audioCodecId = a.audioCodecId := by cases o <;> rfl

@[simp] theorem up_videoBitrateKbps_audioBitrateKbps (a : Metadata) (o : Option Nat) : (up_videoBitrateKbps a o).audioBitrateKbps = a.audioBitrateKbps := by cases o <;> rfl

@[simp] theorem up_videoBitrateKbps_audioSampleRate (a : Metadata) (o : Option Nat) : (up_videoBitrateKbps a o).audioSampleRate = a.audioSampleRate := by cases o <;> rfl

@[simp] theorem up_videoBitrateKbps_audioChannels (a : Metadata) (o : Option Nat) : (up_videoBitrateKbps a o).audioChannels = a.audioChannels := by cases o <;> rfl

@[simp] theorem up_videoBitrateKbps_audioIsStereo (a : Metadata) (o : Option Nat) : (up_videoBitrateKbps a o).audioIsStereo = a.audioIsStereo := by cases o <;> rfl

@[simp] theorem up_videoBitrateKbps_encoder (a : Metadata) (o : Option Nat) : (up_videoBitrateKbps a o).encoder = a.encoder := by cases o <;> rfl

/-- stage `framerate` -/
def up_videoFrameRate (a : Metadata) (o : Option Nat) : Metadata :=
  match o with
  | some x => { a with videoFrameRate := some (F64.toF32 (F64.ofF32 x)) }
  | none => a

theorem fold_videoFrameRate (a : Metadata) (o : Option Nat) :
    (optProp (str "framerate") (fun x => Val.number (F64.ofF32 x)) o).foldl step a = up_videoFrameRate a o := by
  cases o with
  | none => rfl
  | some x => simp only [optProp, List.foldl_cons, List.foldl_nil, step, am_videoFrameRate, up_videoFrameRate]

@[simp] theorem up_videoFrameRate_videoWidth (a : Metadata) (o : Option Nat) : (up_videoFrameRate a o).videoWidth = a.videoWidth := by cases o <;> rfl

@[simp] theorem up_videoFrameRate_videoHeight (a : Metadata) (o : Option Nat) : (up_videoFrameRate a o).videoHeight = a.videoHeight := by cases o <;> rfl

@[simp] theorem up_videoFrameRate_videoCodecId (a : Metadata) (o : Option Nat) : (up_videoFrameRate a o).videoCodecId = a.videoCodecId := by cases o <;> rfl

@[simp] theorem up_videoFrameRate_videoFrameRate (a : Metadata) (o : Option Nat) :
    (up_videoFrameRate a o).videoFrameRate = match o with | some x => some (F64.toF32 (F64.ofF32 x)) | none => a.videoFrameRate := by cases o <;> rfl

@[simp] theorem up_videoFrameRate_videoBitrateKbps (a : Metadata) (o : Option Nat) : (up_videoFrameRate a o).videoBitrateKbps = a.videoBitrateKbps := by cases o <;> rfl

@[simp] theorem up_videoFrameRate_audioCodecId (a : Metadata) (o : Option Nat) : (up_videoFrameRate a o).audioCodecId = a.audioCodecId := by cases o <;> rfl

@[simp] theorem up_videoFrameRate_audioBitrateKbps (a : Metadata) (o : Option Nat) : (up_videoFrameRate a o).audioBitrateKbps = a.audioBitrateKbps := by cases o <;> rfl

@[simp] theorem up_videoFrameRate_audioSampleRate (a : Metadata) (o : Option Nat) : (up_videoFrameRate a o).audioSampleRate = a.audioSampleRate := by cases o <;> rfl

@[simp] theorem up_videoFrameRate_audioChannels (a : Metadata) (o : Option Nat) : (up_videoFrameRate a o).audioChannels = a.audioChannels := by cases o <;> rfl

@[simp] theorem up_videoFrameRate_audioIsStereo (a : Metadata) (o : Option Nat) : (up_videoFrameRate a o).audioIsStereo = a.audioIsStereo := by cases o <;> rfl

@[simp] theorem up_videoFrameRate_encoder (a : Metadata) (o : Option Nat) : (up_videoFrameRate a o).encoder = a.encoder := by cases o <;> rfl

/-- stage `audiocodecid` -/
def up_audioCodecId (a : Metadata) (o : Option Nat) : Metadata :=
  match o with
  | some x => { a with audioCodecId := some (F64.toU32 (F64.ofU32 x)) }
  | none => a

theorem fold_audioCodecId (a : Metadata) (o : Option Nat) :
    (optProp (str "audiocodecid") (fun x => Val.number (F64.ofU32 x)) o).foldl step a = up_audioCodecId a o := by
  cases o with
  | none => rfl
  | some x => simp only [optProp, List.foldl_cons, List.foldl_nil, step, am_audioCodecId, up_audioCodecId]

@[simp] theorem up_audioCodecId_videoWidth (a : Metadata) (o : Option Nat) : (up_audioCodecId a o).videoWidth = a.videoWidth := by cases o <;> rfl

@[simp] theorem up_audioCodecId_videoHeight (a : Metadata) (o : Option Nat) : (up_audioCodecId a o).videoHeight = a.videoHeight := by cases o <;> rfl

@[simp] theorem up_audioCodecId_videoCodecId (a : Metadata) (o : Option Nat) : (up_audioCodecId a o).videoCodecId = a.videoCodecId := by cases o <;> rfl

@[simp] theorem up_audioCodecId_videoFrameRate (a : Metadata) (o : Option Nat) : (up_audioCodecId a o).videoFrameRate = a.videoFrameRate := by cases o <;> rfl

@[simp] theorem up_audioCodecId_videoBitrateKbps (a : Metadata) (o : Option Nat) : (up_audioCodecId a o).videoBitrateKbps = a.videoBitrateKbps := by cases o <;> rfl

@[simp] theorem up_audioCodecId_audioCodecId (a : Metadata) (o : Option Nat) :
    (up_audioCodecId a o).audioCodecId = match o with | some x => some (F64.toU32 (F64.ofU32 x)) | none => a.audioCodecId := by cases o <;> rfl

@[simp] theorem up_audioCodecId_audioBitrateKbps (a : Metadata) (o : Option Nat) : (up_audioCodecId a o).audioBitrateKbps = a.audioBitrateKbps := by cases o <;> rfl

@[simp] theorem up_audioCodecId_audioSampleRate (a : Metadata) (o : Option Nat) : (up_audioCodecId a o).audioSampleRate = a.audioSampleRate := by cases o <;> rfl

@[simp] theorem up_audioCodecId_audioChannels (a : Metadata) (o : Option Nat) : (up_audioCodecId a o).audioChannels = a.audioChannels := by cases o <;> rfl

@[simp] theorem up_audioCodecId_audioIsStereo (a : Metadata) (o : Option Nat) : (up_audioCodecId a o).audioIsStereo = a.audioIsStereo := by cases o <;> rfl

@[simp] theorem up_audioCodecId_encoder (a : Metadata) (o : Option Nat) : (up_audioCodecId a o).encoder = a.encoder := by cases o <;> rfl

/-- stage `audiodatarate` -/
def up_audioBitrateKbps (a : Metadata) (o : Option Nat) : Metadata :=
  match o with
  | some x => { a with audioBitrateKbps := some (F64.toU32 (F64.ofU32 x)) }
  | none => a

theorem fold_audioBitrateKbps (a : Metadata) (o : Option Nat) :
    (optProp (str "audiodatarate") (fun x => Val.number (F64.ofU32 x)) o).foldl step a = up_audioBitrateKbps a o := by
  cases o with
  | none => rfl
  | some x => simp only [optProp, List.foldl_cons, List.foldl_nil, step, am_audioBitrateKbps, up_audioBitrateKbps]

@[simp] theorem up_audioBitrateKbps_videoWidth (a : Metadata) (o : Option Nat) : (up_audioBitrateKbps a o).videoWidth = a.videoWidth := by cases o <;> rfl

@[simp] theorem up_audioBitrateKbps_videoHeight (a : Metadata) (o : Option Nat) : (up_audioBitrateKbps a o).videoHeight = a.videoHeight := by cases o <;> rfl

@[simp] theorem up_audioBitrateKbps_videoCodecId (a : Metadata) (o : Option Nat) : (up_audioBitrateKbps a o).videoCodecId = a.videoCodecId := by cases o <;> rfl

@[simp] theorem up_audioBitrateKbps_videoFrameRate (a : Metadata) (o : Option Nat) : (up_audioBitrateKbps a o).videoFrameRate = a.videoFrameRate := by cases o <;> rfl

@[simp] theorem up_audioBitrateKbps_videoBitrateKbps (a : Metadata) (o : Option Nat) : (up_audioBitrateKbps a o).videoBitrateKbps = a.videoBitrateKbps := by cases o <;> rfl

@[simp] theorem up_audioBitrateKbps_audioCodecId (a : Metadata) (o : Option Nat) : (up_audioBitrateKbps a o).audioCodecId = a.audioCodecId := by cases o <;> rfl

@[simp] theorem up_audioBitrateKbps_audioBitrateKbps (a : Metadata) (o : Option Nat) :
    (up_audioBitrateKbps a o).audioBitrateKbps = match o with | some x => some (F64.toU32 (F64.ofU32 x)) | none => a.audioBitrateKbps := by cases o <;> rfl

@[simp] theorem up_audioBitrateKbps_audioSampleRate (a : Metadata) (o : Option Nat) : (up_audioBitrateKbps a o).audioSampleRate = a.audioSampleRate := by cases o <;> rfl

@[simp] theorem up_audioBitrateKbps_audioChannels (a : Metadata) (o : Option Nat) : (up_audioBitrateKbps a o).audioChannels = a.audioChannels := by cases o <;> rfl

@[simp] theorem up_audioBitrateKbps_audioIsStereo (a : Metadata) (o : Option Nat) : (up_audioBitrateKbps a o).audioIsStereo = a.audioIsStereo := by cases o <;> rfl

@[simp] theorem up_audioBitrateKbps_encoder (a : Metadata) (o : Option Nat) : (up_audioBitrateKbps a o).encoder = a.encoder := by cases o <;> rfl

/-- stage `audiosamplerate` -/
def up_audioSampleRate (a : Metadata) (o : Option Nat) : Metadata :=
  match o with
  | some x => { a with audioSampleRate := some (F64.toU32 (F64.ofU32 x)) }
  | none => a

theorem fold_audioSampleRate (a : Metadata) (o : Option Nat) :
    (optProp (str "audiosamplerate") (fun x => Val.number (F64.ofU32 x)) o).foldl step a = up_audioSampleRate a o := by
  cases o with
  | none => rfl
  | some x => simp only [optProp, List.foldl_cons, List.foldl_nil, step, am_audioSampleRate, up_audioSampleRate]

@[simp] theorem up_audioSampleRate_videoWidth (a : Metadata) (o : Option Nat) : (up_audioSampleRate a o).videoWidth = a.videoWidth := by cases o <;> rfl

@[simp] theorem up_audioSampleRate_videoHeight (a : Metadata) (o : Option Nat) : (up_audioSampleRate a o).videoHeight = a.videoHeight := by cases o <;> rfl

@[simp] theorem up_audioSampleRate_videoCodecId (a : Metadata) (o : Option Nat) : (up_audioSampleRate a o).videoCodecId = a.videoCodecId := by cases o <;> rfl

@[simp] theorem up_audioSampleRate_videoFrameRate (a : Metadata) (o : Option Nat) : (up_audioSampleRate a o).videoFrameRate = a.videoFrameRate := by cases o <;> rfl

@[simp] theorem up_audioSampleRate_videoBitrateKbps (a : Metadata) (o : Option Nat) : (up_audioSampleRate a o).videoBitrateKbps = a.videoBitrateKbps := by cases o <;> rfl

@[simp] theorem up_audioSampleRate_audioCodecId (a : Metadata) (o : Option Nat) : (up_audioSampleRate a o).audioCodecId = a.audioCodecId := by cases o <;> rfl

@[simp] theorem up_audioSampleRate_audioBitrateKbps (a : Metadata) (o : Option Nat) : (up_audioSampleRate a o).audioBitrateKbps = a.audioBitrateKbps := by cases o <;> rfl

@[simp] theorem up_audioSampleRate_audioSampleRate (a : Metadata) (o : Option Nat) :
    (up_audioSampleRate a o).audioSampleRate = match o with | some x => some (F64.toU32 (F64.ofU32 x)) | none => a.audioSampleRate := by cases o <;> rfl

@[simp] theorem up_audioSampleRate_audioChannels (a : Metadata) (o : Option Nat) : (up_audioSampleRate a o).audioChannels = a.audioChannels := by cases o <;> rfl

@[simp] theorem up_audioSampleRate_audioIsStereo (a : Metadata) (o : Option Nat) : (up_audioSampleRate a o).audioIsStereo = a.audioIsStereo := by cases o <;> rfl

@[simp] theorem up_audioSampleRate_encoder (a : Metadata) (o : Option Nat) : (up_audioSampleRate a o).encoder = a.encoder := by cases o <;> rfl

/-- stage `audiochannels` -/
def up_audioChannels (a : Metadata) (o : Option Nat) : Metadata :=
  match o with
  | some x => { a with audioChannels := some (F64.toU32 (F64.ofU32 x)) }
  | none => a

theorem fold_audioChannels (a : Metadata) (o : Option Nat) :
    (optProp (str "audiochannels") (fun x => Val.number (F64.ofU32 x)) o).foldl step a = up_audioChannels a o := by
  cases o with
  | none => rfl
  | some x => simp only [optProp, List.foldl_cons, List.foldl_nil, step, am_audioChannels, up_audioChannels]

@[simp] theorem up_audioChannels_videoWidth (a : Metadata) (o : Option Nat) : (up_audioChannels a o).videoWidth = a.videoWidth := by cases o <;> rfl

@[simp] theorem up_audioChannels_videoHeight (a : Metadata) (o : Option Nat) : (up_audioChannels a o).videoHeight = a.videoHeight := by cases o <;> rfl

@[simp] theorem up_audioChannels_videoCodecId (a : Metadata) (o : Option Nat) : (up_audioChannels a o).videoCodecId = a.videoCodecId := by cases o <;> rfl

@[simp] theorem up_audioChannels_videoFrameRate (a : Metadata) (o : Option Nat) : (up_audioChannels a o).videoFrameRate = a.videoFrameRate := by cases o <;> rfl

@[simp] theorem up_audioChannels_videoBitrateKbps (a : Metadata) (o : Option Nat) : (up_audioChannels a o).videoBitrateKbps = a.videoBitrateKbps := by cases o <;> rfl

@[simp] theorem up_audioChannels_audioCodecId (a : Metadata) (o : Option Nat) : (up_audioChannels a o).audioCodecId = a.audioCodecId := by cases o <;> rfl

@[simp] theorem up_audioChannels_audioBitrateKbps (a : Metadata) (o : Option Nat) : (up_audioChannels a o).audioBitrateKbps = a.audioBitrateKbps := by cases o <;> rfl

@[simp] theorem up_audioChannels_audioSampleRate (a : Metadata) (o : Option Nat) : (up_audioChannels a o).audioSampleRate = a.audioSampleRate := by cases o <;> rfl

@[simp] theorem up_audioChannels_audioChannels (a : Metadata) (o : Option Nat) :
    (up_audioChannels a o).audioChannels = match o with | some x => some (F64.toU32 (F64.ofU32 x)) | none => a.audioChannels := by cases o <;> rfl

@[simp] theorem up_audioChannels_audioIsStereo (a : Metadata) (o : Option Nat) : (up_audioChannels a o).audioIsStereo = a.audioIsStereo := by cases o <;> rfl

@[simp] theorem up_audioChannels_encoder (a : Metadata) (o : Option Nat) : (up_audioChannels a o).encoder = a.encoder := by cases o <;> rfl

/-- stage `stereo` -/
def up_audioIsStereo (a : Metadata) (o : Option Bool) : Metadata :=
  match o with
  | some x => { a with audioIsStereo := some x }
  | none => a

theorem fold_audioIsStereo (a : Metadata) (o : Option Bool) :
    (optProp (str "stereo") (fun x => Val.boolean x) o).foldl step a = up_audioIsStereo a o := by
  cases o with
  | none => rfl
  | some x => simp only [optProp, List.foldl_cons, List.foldl_nil, step, am_audioIsStereo, up_audioIsStereo]

@[simp] theorem up_audioIsStereo_videoWidth (a : Metadata) (o : Option Bool) : (up_audioIsStereo a o).videoWidth = a.videoWidth := by cases o <;> rfl

@[simp] theorem up_audioIsStereo_videoHeight (a : Metadata) (o : Option Bool) : (up_audioIsStereo a o).videoHeight = a.videoHeight := by cases o <;> rfl

@[simp] theorem up_audioIsStereo_videoCodecId (a : Metadata) (o : Option Bool) : (up_audioIsStereo a o).videoCodecId = a.videoCodecId := by cases o <;> rfl

@[simp] theorem up_audioIsStereo_videoFrameRate (a : Metadata) (o : Option Bool) : (up_audioIsStereo a o).videoFrameRate = a.videoFrameRate := by cases o <;> rfl

@[simp] theorem up_audioIsStereo_videoBitrateKbps (a : Metadata) (o : Option Bool) : (up_audioIsStereo a o).videoBitrateKbps = a.videoBitrateKbps := by cases o <;> rfl

@[simp] theorem up_audioIsStereo_audioCodecId (a : Metadata) (o : Option Bool) : (up_audioIsStereo a o).audioCodecId = a.audioCodecId := by cases o <;> rfl

@[simp] theorem up_audioIsStereo_audioBitrateKbps (a : Metadata) (o : Option Bool) : (up_audioIsStereo a o).audioBitrateKbps = a.audioBitrateKbps := by cases o <;> rfl

@[simp] theorem up_audioIsStereo_audioSampleRate (a : Metadata) (o : Option Bool) : (up_audioIsStereo a o).audioSampleRate = a.audioSampleRate := by cases o <;> rfl

@[simp] theorem up_audioIsStereo_audioChannels (a : Metadata) (o : Option Bool) : (up_audioIsStereo a o).audioChannels = a.audioChannels := by cases o <;> rfl

@[simp] theorem up_audioIsStereo_audioIsStereo (a : Metadata) (o : Option Bool) :
    (up_audioIsStereo a o).audioIsStereo = match o with | some x => some x | none => a.audioIsStereo := by cases o <;> rfl

@[simp] theorem up_audioIsStereo_encoder (a : Metadata) (o : Option Bool) : (up_audioIsStereo a o).encoder = a.encoder := by cases o <;> rfl

/-- stage `encoder` -/
def up_encoder (a : Metadata) (o : Option Bytes) : Metadata :=
  match o with
  | some x => { a with encoder := some x }
  | none => a

theorem fold_encoder (a : Metadata) (o : Option Bytes) :
    (optProp (str "encoder") (fun x => Val.str x) o).foldl step a = up_encoder a o := by
  cases o with
  | none => rfl
  | some x => simp only [optProp, List.foldl_cons, List.foldl_nil, step, am_encoder, up_encoder]

@[simp] theorem up_encoder_videoWidth (a : Metadata) (o : Option Bytes) : (up_encoder a o).videoWidth = a.videoWidth := by cases o <;> rfl

@[simp] theorem up_encoder_videoHeight (a : Metadata) (o : Option Bytes) : (up_encoder a o).videoHeight = a.videoHeight := by cases o <;> rfl

@[simp] theorem up_encoder_videoCodecId (a : Metadata) (o : Option Bytes) : (up_encoder a o).videoCodecId = a.videoCodecId := by cases o <;> rfl

@[simp] theorem up_encoder_videoFrameRate (a : Metadata) (o : Option Bytes) : (up_encoder a o).videoFrameRate = a.videoFrameRate := by cases o <;> rfl

@[simp] theorem up_encoder_videoBitrateKbps (a : Metadata) (o : Option Bytes) : (up_encoder a o).videoBitrateKbps = a.videoBitrateKbps := by cases o <;> rfl

@[simp] theorem up_encoder_audioCodecId (a : Metadata) (o : Option Bytes) : (up_encoder a o).audioCodecId = a.audioCodecId := by cases o <;> rfl

@[simp] theorem up_encoder_audioBitrateKbps (a : Metadata) (o : Option Bytes) : (up_encoder a o).audioBitrateKbps = a.audioBitrateKbps := by cases o <;> rfl

@[simp] theorem up_encoder_audioSampleRate (a : Metadata) (o : Option Bytes) : (up_encoder a o).audioSampleRate = a.audioSampleRate := by cases o <;> rfl

@[simp] theorem up_encoder_audioChannels (a : Metadata) (o : Option Bytes) : (up_encoder a o).audioChannels = a.audioChannels := by cases o <;> rfl

@[simp] theorem up_encoder_audioIsStereo (a : Metadata) (o : Option Bytes) : (up_encoder a o).audioIsStereo = a.audioIsStereo := by cases o <;> rfl

@[simp] theorem up_encoder_encoder (a : Metadata) (o : Option Bytes) :
    (up_encoder a o).encoder = match o with | some x => some x | none => a.encoder := by cases o <;> rfl

theorem Metadata.ext' (a b : Metadata) (h1 : a.videoWidth = b.videoWidth) (h2 : a.videoHeight = b.videoHeight)
    (h3 : a.videoCodecId = b.videoCodecId) (h4 : a.videoFrameRate = b.videoFrameRate) (h5 : a.videoBitrateKbps = b.videoBitrateKbps)
    (h6 : a.audioCodecId = b.audioCodecId) (h7 : a.audioBitrateKbps = b.audioBitrateKbps) (h8 : a.audioSampleRate = b.audioSampleRate)
    (h9 : a.audioChannels = b.audioChannels) (h10 : a.audioIsStereo = b.audioIsStereo) (h11 : a.encoder = b.encoder) : a = b := by
  cases a; cases b; simp_all

theorem optU32 (o : Option Nat) : (∀ x, o = some x → x < 4294967296) →
    (match o with | some x => some (F64.toU32 (F64.ofU32 x)) | none => (none : Option Nat)) = o := by
  intro h
  cases o with
  | none => rfl
  | some x => simp only [F64.toU32_ofU32 x (h x rfl)]

theorem optF32 (o : Option Nat) : (∀ x, o = some x → x < 4294967296 ∧ F64.F32Quiet x) →
    (match o with | some x => some (F64.toF32 (F64.ofF32 x)) | none => (none : Option Nat)) = o := by
  intro h
  cases o with
  | none => rfl
  | some x => simp only [F64.toF32_ofF32 x (h x rfl).1 (h x rfl).2]

theorem optId {α : Type} (o : Option α) : (match o with | some x => some x | none => (none : Option α)) = o := by
  cases o <;> rfl

/-- **metadata survives the trip**: what `apply_metadata_values` reads back from the property map that
    `publish_metadata` / `send_metadata` build is the metadata itself -/
theorem applyMetadata_metadataProps (m : Metadata) (hw : MetaWF m) : applyMetadata (metadataProps m) = m := by
  rw [applyMetadata_eq]
  unfold metadataProps
  simp only [List.foldl_append, fold_videoWidth, fold_videoHeight, fold_videoCodecId, fold_videoBitrateKbps, fold_videoFrameRate,
    fold_audioCodecId, fold_audioBitrateKbps, fold_audioSampleRate, fold_audioChannels, fold_audioIsStereo, fold_encoder]
  apply Metadata.ext' <;> simp
  · exact optU32 _ hw.w
  · exact optU32 _ hw.h
  · exact optU32 _ hw.vc
  · exact optF32 _ hw.fr
  · exact optU32 _ hw.vb
  · exact optU32 _ hw.ac
  · exact optU32 _ hw.ab
  · exact optU32 _ hw.asr
  · exact optU32 _ hw.ach
  · generalize m.audioIsStereo = o; cases o <;> rfl
  · generalize m.encoder = o; cases o <;> rfl

/-! ### the property map is a well-formed AMF0 object -/

theorem optProp_names {α : Type} (name : Bytes) (mk : α → Val) (o : Option α) :
    ((optProp name mk o).map Prod.fst).Sublist [name] := by
  cases o with
  | none => exact List.nil_sublist _
  | some x => exact List.Sublist.refl _

theorem optProp_wf {α : Type} (name : Bytes) (mk : α → Val) (o : Option α) (hn : Utf8.valid name = true)
    (hv : ∀ x, o = some x → (mk x).WF) : WFProps (optProp name mk o) := by
  cases o with
  | none => trivial
  | some x => exact ⟨hn, hv x rfl, trivial⟩

theorem wfProps_append : ∀ (a b : List (Bytes × Val)), WFProps a → WFProps b → WFProps (a ++ b)
  | [], b, _, hb => hb
  | (k, v) :: r, b, ha, hb => ⟨ha.1, ha.2.1, wfProps_append r b ha.2.2 hb⟩

/-- well-formed metadata incl. a valid UTF-8 encoder string (a Rust `String`) -/
structure MetaWF' (m : Metadata) : Prop extends MetaWF m where
  enc : ∀ x, m.encoder = some x → Utf8.valid x = true

theorem metadataProps_wf (m : Metadata) (hw : MetaWF' m) : (Val.object (metadataProps m)).WF := by
  unfold Val.WF
  constructor
  · unfold metadataProps
    refine wfProps_append _ _ (wfProps_append _ _ (wfProps_append _ _ (wfProps_append _ _ (wfProps_append _ _ (wfProps_append _ _
      (wfProps_append _ _ (wfProps_append _ _ (wfProps_append _ _ (wfProps_append _ _ ?_ ?_) ?_) ?_) ?_) ?_) ?_) ?_) ?_) ?_) ?_
    · exact optProp_wf _ _ _ (by decide) (fun x h => F64.ofU32_lt x (hw.w x h))
    · exact optProp_wf _ _ _ (by decide) (fun x h => F64.ofU32_lt x (hw.h x h))
    · exact optProp_wf _ _ _ (by decide) (fun x h => F64.ofU32_lt x (hw.vc x h))
    · exact optProp_wf _ _ _ (by decide) (fun x h => F64.ofU32_lt x (hw.vb x h))
    · exact optProp_wf _ _ _ (by decide) (fun x h => F64.ofF32_lt x (hw.fr x h).1)
    · exact optProp_wf _ _ _ (by decide) (fun x h => F64.ofU32_lt x (hw.ac x h))
    · exact optProp_wf _ _ _ (by decide) (fun x h => F64.ofU32_lt x (hw.ab x h))
    · exact optProp_wf _ _ _ (by decide) (fun x h => F64.ofU32_lt x (hw.asr x h))
    · exact optProp_wf _ _ _ (by decide) (fun x h => F64.ofU32_lt x (hw.ach x h))
    · exact optProp_wf _ _ _ (by decide) (fun _ _ => trivial)
    · exact optProp_wf _ _ _ (by decide) (fun x h => hw.enc x h)
  · have hall : ([str "width"] ++ [str "height"] ++ [str "videocodecid"] ++ [str "videodatarate"] ++ [str "framerate"] ++
        [str "audiocodecid"] ++ [str "audiodatarate"] ++ [str "audiosamplerate"] ++ [str "audiochannels"] ++ [str "stereo"] ++
        [str "encoder"]).Nodup := by decide
    refine List.Nodup.sublist ?_ hall
    unfold metadataProps
    simp only [List.map_append]
    exact (((((((((((optProp_names _ _ _).append (optProp_names _ _ _)).append (optProp_names _ _ _)).append (optProp_names _ _ _)).append
      (optProp_names _ _ _)).append (optProp_names _ _ _)).append (optProp_names _ _ _)).append (optProp_names _ _ _)).append
      (optProp_names _ _ _)).append (optProp_names _ _ _)).append (optProp_names _ _ _))

end Rml.Meta
