/-
`HashMap` enumeration order and the readers: a lookup by name gives the same answer in every permutation of a
map with distinct names, so the server's handling of `connect` does not depend on the order in which the real
client enumerates the command object (the model fixes one order).
-/
import Rml.Lemmas.Workflow
namespace Rml.Order
open Rml Rml.Sess Rml.Amf0 Rml.WfSteps

/-- a property present in a map with distinct names is found, whatever precedes it -/
theorem propGet_mem : ∀ (l : List (Bytes × Val)) (k : Bytes) (v : Val), (l.map Prod.fst).Nodup → (k, v) ∈ l → propGet k l = some v
  | [], _, _, _, h => by cases h
  | (k', v') :: r, k, v, hn, h => by
    simp only [List.map_cons, List.nodup_cons] at hn
    unfold propGet
    by_cases hk : k' = k
    · rw [if_pos hk]
      rcases List.mem_cons.mp h with h1 | h1
      · cases h1; rfl
      · exfalso; apply hn.1; rw [hk]; exact List.mem_map.mpr ⟨(k, v), h1, rfl⟩
    · rw [if_neg hk]
      rcases List.mem_cons.mp h with h1 | h1
      · cases h1; exact absurd rfl hk
      · exact propGet_mem r k v hn.2 h1

/-- **`HashMap` order does not matter to a reader**: lookups in any permutation of a map with distinct
    names give the same answers -/
theorem propGet_perm {l l' : List (Bytes × Val)} (hp : l.Perm l') (hn : (l.map Prod.fst).Nodup) (k : Bytes) :
    propGet k l' = propGet k l := by
  have hn' : (l'.map Prod.fst).Nodup := (hp.map Prod.fst).nodup_iff.mp hn
  cases h : propGet k l with
  | some v =>
    have hm : (k, v) ∈ l := by
      clear hp hn hn'
      induction l with
      | nil => simp [propGet] at h
      | cons p r ih =>
        obtain ⟨k', v'⟩ := p
        unfold propGet at h
        by_cases hk : k' = k
        · rw [if_pos hk] at h; cases h; rw [hk]; exact List.mem_cons_self ..
        · rw [if_neg hk] at h; exact List.mem_cons_of_mem _ (ih h)
    exact propGet_mem l' k v hn' (hp.mem_iff.mp hm)
  | none =>
    cases h' : propGet k l' with
    | none => rfl
    | some v =>
      exfalso
      have hm : (k, v) ∈ l' := by
        clear hp hn hn' h
        induction l' with
        | nil => simp [propGet] at h'
        | cons p r ih =>
          obtain ⟨k', v'⟩ := p
          unfold propGet at h'
          by_cases hk : k' = k
          · rw [if_pos hk] at h'; cases h'; rw [hk]; exact List.mem_cons_self ..
          · rw [if_neg hk] at h'; exact List.mem_cons_of_mem _ (ih h')
      have := propGet_mem l k v hn (hp.mem_iff.mpr hm)
      rw [h] at this; cases this

/-- the server's handling of `connect` is the same for every enumeration order of the command object -/
theorem srv_connect_any_order (v : Srv.State) (tid : Nat) (cfg : Cli.Config) (app : Bytes) (props : List (Bytes × Val))
    (hp : (connectProps cfg app).Perm props) :
    Srv.cmdConnect v tid (.object props) = Srv.cmdConnect v tid (.object (connectProps cfg app)) := by
  have hn : ((connectProps cfg app).map Prod.fst).Nodup := by
    unfold connectProps
    cases cfg.tcUrl <;> simp only [List.append_nil, List.cons_append, List.nil_append, List.map] <;> decide
  unfold Srv.cmdConnect
  simp only [propGet_perm hp hn]

end Rml.Order
