/- Closed form of `process_bytes`: the five-stage loop written as straight-line code. -/
import Rml.Model.Handshake
namespace Rml.Hs
open Rml

def fin2 (s : State) (b resp : Bytes) : Except Err (State × Result) :=
  if b.length < packetSize then .ok ({ s with stage := .waitP2, buf := b }, .inProgress resp)
  else .ok ({ s with stage := .complete, buf := [] }, .completed resp (b.drop packetSize))

def fin1 (hmac : Hmac) (s : State) (b resp : Bytes) : Except Err (State × Result) :=
  if b.length < packetSize then .ok ({ s with stage := .waitP1, buf := b }, .inProgress resp)
  else fin2 s (b.drop packetSize) (resp ++ genP2 hmac s.role (b.take packetSize) s.fill2)

def fin0 (hmac : Hmac) (s : State) (b resp : Bytes) : Except Err (State × Result) :=
  match b with
  | [] => .ok ({ s with stage := .waitP0, buf := [] }, .inProgress resp)
  | c :: r => if c ≠ 3 then .error .badVersion else fin1 hmac s r resp

/-- what `process_bytes` computes, without the loop -/
def procSpec (hmac : Hmac) (s : State) (data : Bytes) : Except Err (State × Result) :=
  match s.stage with
  | .complete => .error .alreadyCompleted
  | .waitP2 => fin2 s (s.buf ++ data) []
  | .waitP1 => fin1 hmac s (s.buf ++ data) []
  | .waitP0 => fin0 hmac s (s.buf ++ data) []
  | .needToSend =>
    fin0 hmac { s with sentP1 := (genP1 hmac s.role s.fill1).1 } (s.buf ++ data) (3 :: (genP1 hmac s.role s.fill1).1)

theorem loop_waitP2 (hmac : Hmac) (f : Nat) (s : State) (resp left : Bytes) (hs : s.stage = .waitP2) :
    loop hmac (f + 1) s resp left =
      if s.buf.length < packetSize then .ok (s, resp, left)
      else .ok ({ s with stage := .complete, buf := [] }, resp, left ++ s.buf.drop packetSize) := by
  simp only [loop, stageStep, hs]
  by_cases h : s.buf.length < packetSize
  · simp [h, hs]
  · simp [h]

theorem loop_waitP1 (hmac : Hmac) (f : Nat) (s : State) (resp left : Bytes) (hs : s.stage = .waitP1) :
    loop hmac (f + 2) s resp left =
      if s.buf.length < packetSize then .ok (s, resp, left)
      else if (s.buf.drop packetSize).length < packetSize then
        .ok ({ s with stage := .waitP2, buf := s.buf.drop packetSize },
             resp ++ genP2 hmac s.role (s.buf.take packetSize) s.fill2, left)
      else .ok ({ s with stage := .complete, buf := [] },
             resp ++ genP2 hmac s.role (s.buf.take packetSize) s.fill2,
             left ++ (s.buf.drop packetSize).drop packetSize) := by
  rw [loop]
  simp only [stageStep, hs]
  by_cases h : s.buf.length < packetSize
  · simp [h, hs]
  · have hne : ¬ ((Stage.waitP2 = Stage.complete) ∨ Stage.waitP2 = Stage.waitP1) := by decide
    simp only [h, if_false, hne, List.append_nil]
    rw [loop_waitP2 hmac f _ _ _ rfl]

theorem loop_waitP0 (hmac : Hmac) (f : Nat) (s : State) (resp left : Bytes) (hs : s.stage = .waitP0) :
    loop hmac (f + 3) s resp left =
      match s.buf with
      | [] => .ok (s, resp, left)
      | c :: r => if c ≠ 3 then .error .badVersion else loop hmac (f + 2) { s with stage := .waitP1, buf := r } resp left := by
  rw [loop]
  simp only [stageStep, hs]
  cases hb : s.buf with
  | nil => simp [hs]
  | cons c r =>
    simp only
    by_cases hc : c = 3
    · have hne : ¬ ((Stage.waitP1 = Stage.complete) ∨ Stage.waitP1 = Stage.waitP0) := by decide
      simp only [hc, ne_eq, not_true_eq_false, if_false, hne, List.append_nil]
    · simp [hc]

theorem loop_needToSend (hmac : Hmac) (f : Nat) (s : State) (resp left : Bytes) (hs : s.stage = .needToSend) :
    loop hmac (f + 4) s resp left =
      loop hmac (f + 3) { s with stage := .waitP0, sentP1 := (genP1 hmac s.role s.fill1).1 }
        (resp ++ 3 :: (genP1 hmac s.role s.fill1).1) left := by
  rw [loop]
  simp only [stageStep, hs]
  have hne : ¬ ((Stage.waitP0 = Stage.complete) ∨ Stage.waitP0 = Stage.needToSend) := by decide
  simp only [hne, if_false, List.append_nil]

theorem fin1_of_loop (hmac : Hmac) (f : Nat) (s : State) (resp : Bytes) (hs : s.stage = .waitP1) :
    (match loop hmac (f + 2) s resp [] with
      | .error e => .error e
      | .ok (s', r, l) => if s'.stage = .complete then .ok (s', .completed r l) else .ok (s', .inProgress r))
    = fin1 hmac s s.buf resp := by
  rw [loop_waitP1 hmac f s resp [] hs]
  obtain ⟨role, f1, f2, stage, buf, sp⟩ := s
  simp only at hs
  subst hs
  unfold fin1 fin2
  by_cases h : buf.length < packetSize
  · simp [h]
  · simp only [h, if_false]
    by_cases h2 : (buf.drop packetSize).length < packetSize
    · simp only [h2, if_true]; simp
    · simp only [h2, if_false]; simp

theorem fin2_of_loop (hmac : Hmac) (f : Nat) (s : State) (resp : Bytes) (hs : s.stage = .waitP2) :
    (match loop hmac (f + 1) s resp [] with
      | .error e => .error e
      | .ok (s', r, l) => if s'.stage = .complete then .ok (s', .completed r l) else .ok (s', .inProgress r))
    = fin2 s s.buf resp := by
  rw [loop_waitP2 hmac f s resp [] hs]
  obtain ⟨role, f1, f2, stage, buf, sp⟩ := s
  simp only at hs
  subst hs
  unfold fin2
  by_cases h : buf.length < packetSize
  · simp [h]
  · simp only [h, if_false]; simp

theorem fin0_of_loop (hmac : Hmac) (f : Nat) (s : State) (resp : Bytes) (hs : s.stage = .waitP0) :
    (match loop hmac (f + 3) s resp [] with
      | .error e => .error e
      | .ok (s', r, l) => if s'.stage = .complete then .ok (s', .completed r l) else .ok (s', .inProgress r))
    = fin0 hmac s s.buf resp := by
  rw [loop_waitP0 hmac f s resp [] hs]
  obtain ⟨role, f1, f2, stage, buf, sp⟩ := s
  simp only at hs
  subst hs
  cases buf with
  | nil => simp [fin0]
  | cons c r =>
    simp only [fin0]
    by_cases hc : c = 3
    · simp only [hc, ne_eq, not_true_eq_false, if_false]
      have := fin1_of_loop hmac f { role := role, fill1 := f1, fill2 := f2, stage := .waitP1, buf := r, sentP1 := sp } resp rfl
      simp only at this
      rw [this]
      simp [fin1, fin2]
    · simp [hc]

theorem fin2_irrel (s : State) (st : Stage) (bf b resp : Bytes) :
    fin2 { s with stage := st, buf := bf } b resp = fin2 s b resp := by
  unfold fin2; rfl

theorem fin1_irrel (hmac : Hmac) (s : State) (st : Stage) (bf b resp : Bytes) :
    fin1 hmac { s with stage := st, buf := bf } b resp = fin1 hmac s b resp := by
  unfold fin1 fin2; rfl

theorem fin0_irrel (hmac : Hmac) (s : State) (st : Stage) (bf b resp : Bytes) :
    fin0 hmac { s with stage := st, buf := bf } b resp = fin0 hmac s b resp := by
  cases b with
  | nil => rfl
  | cons c r => simp only [fin0]; rw [fin1_irrel]

theorem finN_of_loop (hmac : Hmac) (f : Nat) (s : State) (resp : Bytes) (hs : s.stage = .needToSend) :
    (match loop hmac (f + 4) s resp [] with
      | .error e => .error e
      | .ok (s', r, l) => if s'.stage = .complete then .ok (s', .completed r l) else .ok (s', .inProgress r))
    = fin0 hmac { s with sentP1 := (genP1 hmac s.role s.fill1).1 } s.buf (resp ++ 3 :: (genP1 hmac s.role s.fill1).1) := by
  rw [loop_needToSend hmac f s resp [] hs]
  exact (fin0_of_loop hmac f _ _ rfl).trans
    (fin0_irrel hmac { s with sentP1 := (genP1 hmac s.role s.fill1).1 } .waitP0 s.buf s.buf _)

/-- the loop model and the closed form agree on every state and input -/
theorem processBytes_eq_procSpec (hmac : Hmac) (s : State) (data : Bytes) :
    processBytes hmac s data = procSpec hmac s data := by
  unfold processBytes procSpec
  cases hs : s.stage
  · -- needToSend
    exact (finN_of_loop hmac 2 { s with stage := .needToSend, buf := s.buf ++ data } [] rfl).trans
      (fin0_irrel hmac { s with sentP1 := (genP1 hmac s.role s.fill1).1 } .needToSend (s.buf ++ data) _ _)
  · -- waitP0
    exact (fin0_of_loop hmac 3 { s with stage := .waitP0, buf := s.buf ++ data } [] rfl).trans
      (fin0_irrel hmac s .waitP0 (s.buf ++ data) _ _)
  · -- waitP1
    exact (fin1_of_loop hmac 4 { s with stage := .waitP1, buf := s.buf ++ data } [] rfl).trans
      (fin1_irrel hmac s .waitP1 (s.buf ++ data) _ _)
  · -- waitP2
    exact (fin2_of_loop hmac 5 { s with stage := .waitP2, buf := s.buf ++ data } [] rfl).trans
      (fin2_irrel s .waitP2 (s.buf ++ data) _ _)
  · -- complete
    simp [loop, stageStep]

end Rml.Hs
