/-
`u32 as f64` followed by `f64 as u32` is the identity, for every u32: the reason transaction ids and
stream ids, which travel as AMF0 numbers, mean the same thing at both ends.
-/
import Rml.Model.F64
namespace Rml.F64

theorem ofU32_fields (n : Nat) (hn : n ≠ 0) (h : n < 4294967296) :
    ∃ k M, k < 32 ∧ 4503599627370496 ≤ M ∧ M < 9007199254740992 ∧ M / 2 ^ (52 - k) = n ∧
      ofU32 n = (1023 + k) * 4503599627370496 + (M - 4503599627370496) := by
  have hk1 : 2 ^ n.log2 ≤ n := Nat.log2_self_le hn
  have hk2 : n < 2 ^ (n.log2 + 1) := Nat.lt_log2_self
  have hk : n.log2 < 32 := (Nat.log2_lt hn).2 (by simpa using h)
  have hq : 2 ^ n.log2 * 2 ^ (52 - n.log2) = 4503599627370496 := by
    rw [← Nat.pow_add]
    have : n.log2 + (52 - n.log2) = 52 := by omega
    rw [this]
  have hqpos : 0 < 2 ^ (52 - n.log2) := Nat.pow_pos (by decide)
  refine ⟨n.log2, n * 2 ^ (52 - n.log2), hk, ?_, ?_, Nat.mul_div_cancel _ hqpos, ?_⟩
  · rw [← hq]; exact Nat.mul_le_mul_right _ hk1
  · have : n * 2 ^ (52 - n.log2) < 2 ^ (n.log2 + 1) * 2 ^ (52 - n.log2) := Nat.mul_lt_mul_of_pos_right hk2 hqpos
    rw [Nat.pow_succ, Nat.mul_assoc, Nat.mul_comm 2, ← Nat.mul_assoc, hq] at this
    omega
  · have h1 : 4503599627370496 ≤ n * 2 ^ (52 - n.log2) := by rw [← hq]; exact Nat.mul_le_mul_right _ hk1
    have h2 : n * 2 ^ (52 - n.log2) < 9007199254740992 := by
      have : n * 2 ^ (52 - n.log2) < 2 ^ (n.log2 + 1) * 2 ^ (52 - n.log2) := Nat.mul_lt_mul_of_pos_right hk2 hqpos
      rw [Nat.pow_succ, Nat.mul_assoc, Nat.mul_comm 2, ← Nat.mul_assoc, hq] at this
      omega
    unfold ofU32 log2
    rw [if_neg hn]
    show (1023 + n.log2) * 4503599627370496 + n * 2 ^ (52 - n.log2) % 4503599627370496 = _
    generalize n * 2 ^ (52 - n.log2) = M at h1 h2 ⊢
    omega

/-- **`(n as f64) as u32 = n`** for every `u32` -/
theorem toU32_ofU32 (n : Nat) (h : n < 4294967296) : toU32 (ofU32 n) = n := by
  by_cases hn : n = 0
  · subst hn; decide
  · obtain ⟨k, M, hk, h1, h2, hdiv, hb⟩ := ofU32_fields n hn h
    rw [hb]
    have hmant : mant ((1023 + k) * 4503599627370496 + (M - 4503599627370496)) = M - 4503599627370496 := by
      unfold mant; omega
    have hexpo : expo ((1023 + k) * 4503599627370496 + (M - 4503599627370496)) = 1023 + k := by
      unfold expo; omega
    have hsign : sign ((1023 + k) * 4503599627370496 + (M - 4503599627370496)) = 0 := by
      unfold sign; omega
    have hnan : isNaN ((1023 + k) * 4503599627370496 + (M - 4503599627370496)) = false := by
      unfold isNaN; rw [hexpo]; simp; omega
    unfold toU32
    simp only [hnan, hsign, hexpo, hmant]
    have e1 : ¬ (1023 + k = 2047) := by omega
    have e2 : ¬ (1023 + k < 1023) := by omega
    have e3 : 1023 + k - 1023 = k := by omega
    have e4 : ¬ (k ≥ 32) := by omega
    have e5 : 4503599627370496 + (M - 4503599627370496) = M := by omega
    simp [e1, e2, e3, e4, e5, hdiv]

/-- the cast of a u32 is a finite, non-negative number below 2^64 (what the AMF0 encoder needs) -/
theorem ofU32_lt (n : Nat) (h : n < 4294967296) : ofU32 n < 18446744073709551616 := by
  by_cases hn : n = 0
  · subst hn; decide
  · obtain ⟨k, M, hk, h1, h2, _, hb⟩ := ofU32_fields n hn h
    rw [hb]; omega

/-! ### `f32 as f64` then `as f32` -/

theorem rne_exact (x s : Nat) : rne (x * 2 ^ s) s = x := by
  unfold rne
  by_cases hs : s = 0
  · subst hs; simp
  · have hpos : 0 < 2 ^ s := Nat.pow_pos (by decide)
    have hq : x * 2 ^ s / 2 ^ s = x := Nat.mul_div_cancel _ hpos
    have hr : x * 2 ^ s % 2 ^ s = 0 := Nat.mul_mod_left _ _
    have hhalf : 0 < 2 ^ s / 2 := by
      obtain ⟨k, rfl⟩ : ∃ k, s = k + 1 := ⟨s - 1, by omega⟩
      rw [Nat.pow_succ, Nat.mul_div_cancel _ (by decide : 0 < 2)]
      exact Nat.pow_pos (by decide)
    simp only [hs, if_false, hq, hr]
    rw [if_neg (by omega), if_pos hhalf]

/-- `toF32` as a function of the three fields -/
def toF32' (sg e mt : Nat) : Nat :=
  let s := sg * 2147483648
  if e = 2047 then
    if mt = 0 then s + 2139095040
    else s + 2139095040 + 4194304 + (mt / 536870912) % 4194304
  else if e = 0 then s
  else
    let m := 4503599627370496 + mt
    let ei : Int := (e : Int) - 1023
    if ei ≥ -126 then
      let q := rne m 29
      let (q, ei) := if q = 16777216 then (8388608, ei + 1) else (q, ei)
      if ei > 127 then s + 2139095040
      else s + (Int.toNat (ei + 127)) * 8388608 + (q - 8388608)
    else
      let shift := Int.toNat (-126 - ei) + 29
      if shift > 60 then s
      else s + rne m shift

theorem toF32_eq (b : Nat) : toF32 b = toF32' (sign b) (expo b) (mant b) := rfl

/-- the fields of a bit pattern assembled from in-range fields -/
theorem fields_of (sg e mt : Nat) (hs : sg < 2) (he : e < 2048) (hm : mt < 4503599627370496) :
    sign (sg * 9223372036854775808 + e * 4503599627370496 + mt) = sg ∧
    expo (sg * 9223372036854775808 + e * 4503599627370496 + mt) = e ∧
    mant (sg * 9223372036854775808 + e * 4503599627370496 + mt) = mt := by
  unfold sign expo mant
  omega

theorem toF32_of_fields (sg e mt : Nat) (hs : sg < 2) (he : e < 2048) (hm : mt < 4503599627370496) :
    toF32 (sg * 9223372036854775808 + e * 4503599627370496 + mt) = toF32' sg e mt := by
  obtain ⟨h1, h2, h3⟩ := fields_of sg e mt hs he hm
  rw [toF32_eq, h1, h2, h3]

/-- not a signalling NaN: exponent field below 255, or infinity, or a NaN with the quiet bit set -/
def F32Quiet (f : Nat) : Prop := f / 8388608 % 256 ≠ 255 ∨ f % 8388608 = 0 ∨ 4194304 ≤ f % 8388608

theorem toF32'_nan (sg pl : Nat) (h : ¬ pl = 0) :
    toF32' sg 2047 pl = sg * 2147483648 + 2139095040 + 4194304 + (pl / 536870912) % 4194304 := by
  unfold toF32'
  rw [if_pos rfl, if_neg h]

theorem toF32'_inf (sg : Nat) : toF32' sg 2047 0 = sg * 2147483648 + 2139095040 := by
  unfold toF32'
  rw [if_pos rfl, if_pos rfl]

theorem toF32'_zero (sg mt : Nat) : toF32' sg 0 mt = sg * 2147483648 := by
  unfold toF32'
  rw [if_neg (by decide), if_pos rfl]

theorem case_inf (sg : Nat) (hsg : sg < 2) :
    toF32 (sg * 9223372036854775808 + 2047 * 4503599627370496) = sg * 2147483648 + 255 * 8388608 + 0 := by
  have := toF32_of_fields sg 2047 0 hsg (by decide) (by decide)
  rw [Nat.add_zero] at this
  rw [this, toF32'_inf]

theorem case_zero (sg : Nat) (hsg : sg < 2) : toF32 (sg * 9223372036854775808) = sg * 2147483648 + 0 * 8388608 + 0 := by
  have := toF32_of_fields sg 0 0 hsg (by decide) (by decide)
  simp only [Nat.zero_mul, Nat.add_zero] at this
  rw [this, toF32'_zero]
  omega

theorem qnan_payload (m : Nat) (h1 : 4194304 ≤ m) (h2 : m < 8388608) :
    (2251799813685248 + m % 4194304 * 536870912) / 536870912 % 4194304 = m - 4194304 := by omega

theorem case_qnan (sg m : Nat) (hsg : sg < 2) (h1 : 4194304 ≤ m) (h2 : m < 8388608) :
    toF32 (sg * 9223372036854775808 + 2047 * 4503599627370496 + 2251799813685248 + m % 4194304 * 536870912) =
      sg * 2147483648 + 255 * 8388608 + m := by
  have hv : sg * 9223372036854775808 + 2047 * 4503599627370496 + 2251799813685248 + m % 4194304 * 536870912 =
      sg * 9223372036854775808 + 2047 * 4503599627370496 + (2251799813685248 + m % 4194304 * 536870912) := by omega
  have hlt : 2251799813685248 + m % 4194304 * 536870912 < 4503599627370496 := by omega
  have hne : ¬ (2251799813685248 + m % 4194304 * 536870912 = 0) := by omega
  rw [hv, toF32_of_fields sg 2047 _ hsg (by decide) hlt, toF32'_nan sg _ hne, qnan_payload m h1 h2]
  clear hv hlt hne
  omega

theorem toF32'_sub (sg e mt : Nat) (he0 : ¬ e = 0) (he : e < 897) (hs : 0 < 897 - e + 29) :
    toF32' sg e mt = if 897 - e + 29 > 60 then sg * 2147483648 else sg * 2147483648 + rne (4503599627370496 + mt) (897 - e + 29) := by
  unfold toF32'
  rw [if_neg (by omega), if_neg he0]
  dsimp only
  have hge : ¬ ((e : Int) - 1023 ≥ -126) := by omega
  rw [if_neg hge]
  have hshift : Int.toNat (-126 - ((e : Int) - 1023)) + 29 = 897 - e + 29 := by omega
  rw [hshift]

theorem case_sub_aux (sg m k M : Nat) (hsg : sg < 2) (hk : k < 23) (h1 : 4503599627370496 ≤ M) (h2 : M < 9007199254740992)
    (hrne : rne M (52 - k) = m) (hm2 : m < 8388608) :
    toF32 (sg * 9223372036854775808 + (1023 + k - 149) * 4503599627370496 + M % 4503599627370496) =
      sg * 2147483648 + 0 * 8388608 + m := by
  have hval : sg * 9223372036854775808 + (1023 + k - 149) * 4503599627370496 + M % 4503599627370496 =
      sg * 9223372036854775808 + (874 + k) * 4503599627370496 + (M - 4503599627370496) := by omega
  rw [hval, toF32_of_fields sg (874 + k) (M - 4503599627370496) hsg (by omega) (by omega)]
  rw [toF32'_sub sg (874 + k) _ (by omega) (by omega) (by omega)]
  have e5 : 4503599627370496 + (M - 4503599627370496) = M := by omega
  have e6 : 897 - (874 + k) + 29 = 52 - k := by omega
  rw [e5, e6, if_neg (by omega), hrne]
  clear hval e5 e6 hrne h1 h2
  omega

theorem case_sub (sg m : Nat) (hsg : sg < 2) (hm0 : m ≠ 0) (hm2 : m < 8388608) :
    toF32 (sg * 9223372036854775808 + (1023 + m.log2 - 149) * 4503599627370496 + (m * 2 ^ (52 - m.log2)) % 4503599627370496) =
      sg * 2147483648 + 0 * 8388608 + m := by
  have hk1 : 2 ^ m.log2 ≤ m := Nat.log2_self_le hm0
  have hk2 : m < 2 ^ (m.log2 + 1) := Nat.lt_log2_self
  have hk : m.log2 < 23 := (Nat.log2_lt hm0).2 (by simpa using hm2)
  have hqp : 2 ^ m.log2 * 2 ^ (52 - m.log2) = 4503599627370496 := by
    rw [← Nat.pow_add]
    have : m.log2 + (52 - m.log2) = 52 := by omega
    rw [this]
  have hqpos : 0 < 2 ^ (52 - m.log2) := Nat.pow_pos (by decide)
  have h1 : 4503599627370496 ≤ m * 2 ^ (52 - m.log2) := by rw [← hqp]; exact Nat.mul_le_mul_right _ hk1
  have h2 : m * 2 ^ (52 - m.log2) < 9007199254740992 := by
    have : m * 2 ^ (52 - m.log2) < 2 ^ (m.log2 + 1) * 2 ^ (52 - m.log2) := Nat.mul_lt_mul_of_pos_right hk2 hqpos
    rw [Nat.pow_succ, Nat.mul_assoc, Nat.mul_comm 2, ← Nat.mul_assoc, hqp] at this
    omega
  exact case_sub_aux sg m m.log2 (m * 2 ^ (52 - m.log2)) hsg hk h1 h2 (rne_exact m (52 - m.log2)) hm2

theorem toF32'_norm (sg e q : Nat) (mt : Nat) (he0 : ¬ e = 0) (he1 : 897 ≤ e) (he2 : e < 1151)
    (hq : rne (4503599627370496 + mt) 29 = q) (hq1 : q ≠ 16777216) :
    toF32' sg e mt = sg * 2147483648 + (e - 896) * 8388608 + (q - 8388608) := by
  unfold toF32'
  rw [if_neg (by omega), if_neg he0]
  dsimp only
  have hge : ((e : Int) - 1023 ≥ -126) := by omega
  rw [if_pos hge, hq, if_neg hq1]
  dsimp only
  rw [if_neg (by omega)]
  have : Int.toNat ((e : Int) - 1023 + 127) = e - 896 := by omega
  rw [this]

theorem case_norm (sg e m : Nat) (hsg : sg < 2) (he0 : e ≠ 0) (he : e < 255) (hm2 : m < 8388608) :
    toF32 (sg * 9223372036854775808 + (e + 896) * 4503599627370496 + m * 536870912) =
      sg * 2147483648 + e * 8388608 + m := by
  rw [toF32_of_fields sg (e + 896) (m * 536870912) hsg (by omega) (by omega)]
  have hsig : 4503599627370496 + m * 536870912 = (8388608 + m) * 2 ^ 29 := by
    have : (2 : Nat) ^ 29 = 536870912 := by decide
    rw [this]; omega
  have hr : rne (4503599627370496 + m * 536870912) 29 = 8388608 + m := by rw [hsig]; exact rne_exact _ _
  rw [toF32'_norm sg (e + 896) (8388608 + m) _ (by omega) (by omega) (by omega) hr (by omega)]
  clear hr hsig
  omega

/-- **`(x as f64) as f32 = x`** for every f32 bit pattern that is not a signalling NaN
    (a signalling NaN comes back quieted, as on the hardware) -/
theorem toF32_ofF32 (f : Nat) (hf : f < 4294967296) (hq : F32Quiet f) : toF32 (ofF32 f) = f := by
  unfold F32Quiet at hq
  have hsplit : f = (f / 2147483648 % 2) * 2147483648 + (f / 8388608 % 256) * 8388608 + f % 8388608 := by omega
  unfold ofF32
  have hsg2 : f / 2147483648 % 2 < 2 := by omega
  have he2 : f / 8388608 % 256 < 256 := by omega
  have hm2 : f % 8388608 < 8388608 := by omega
  generalize f / 2147483648 % 2 = sg at hsplit hsg2
  generalize f / 8388608 % 256 = e at hsplit hq he2
  generalize f % 8388608 = m at hsplit hq hm2
  dsimp only
  rw [hsplit]
  clear hsplit hf
  by_cases h255 : e = 255
  · rw [if_pos h255]
    by_cases hm0 : m = 0
    · rw [if_pos hm0, h255, hm0]; exact case_inf sg hsg2
    · rw [if_neg hm0, h255]
      have hquiet : 4194304 ≤ m := by
        rcases hq with h | h | h
        · exact absurd h255 h
        · exact absurd h hm0
        · exact h
      exact case_qnan sg m hsg2 hquiet hm2
  · rw [if_neg h255]
    by_cases he0 : e = 0
    · rw [if_pos he0]
      by_cases hm0 : m = 0
      · rw [if_pos hm0, he0, hm0]; exact case_zero sg hsg2
      · rw [if_neg hm0, he0]; exact case_sub sg m hsg2 hm0 hm2
    · rw [if_neg he0]
      exact case_norm sg e m hsg2 he0 (by omega) hm2

theorem ofF32_lt (f : Nat) (hf : f < 4294967296) : ofF32 f < 18446744073709551616 := by
  unfold ofF32
  have hsg2 : f / 2147483648 % 2 < 2 := by omega
  have he2 : f / 8388608 % 256 < 256 := by omega
  have hm2 : f % 8388608 < 8388608 := by omega
  generalize f / 2147483648 % 2 = sg at hsg2
  generalize f / 8388608 % 256 = e at he2
  generalize f % 8388608 = m at hm2
  dsimp only
  split
  · split
    · omega
    · omega
  · split
    · split
      · omega
      · rename_i hm0
        have hk : m.log2 < 23 := (Nat.log2_lt hm0).2 (by simpa using hm2)
        have : m * 2 ^ (52 - log2 m) % 4503599627370496 < 4503599627370496 := Nat.mod_lt _ (by decide)
        unfold log2 at this ⊢
        generalize m * 2 ^ (52 - m.log2) % 4503599627370496 = r at this
        generalize m.log2 = k at hk
        omega
    · omega

end Rml.F64
