/-
`u32 as f64` followed by `f64 as u32` is the identity, for every u32: the reason transaction ids and
stream ids, which travel as AMF0 numbers, mean the same thing at both ends.
-/
import Rml.Model.F64
namespace Rml.F64

theorem ofU32_fields (n : Nat) (hn : n ≠ 0) (h : n < 4294967296) :
    ∃ k M, k < 32 ∧ 4503599627370496 ≤ M ∧ M < 9007199254740992 ∧ M / 2 ^ (52 - k) = n ∧
      ofU32 n = (1023 + k) * 4503599627370496 + (M - 4503599627370496) := by
  have hk1 : 2 ^ n.log2 ≤ n := Nat.log2_self_le hn
  have hk2 : n < 2 ^ (n.log2 + 1) := Nat.lt_log2_self
  have hk : n.log2 < 32 := (Nat.log2_lt hn).2 (by simpa using h)
  have hq : 2 ^ n.log2 * 2 ^ (52 - n.log2) = 4503599627370496 := by
    rw [← Nat.pow_add]
    have : n.log2 + (52 - n.log2) = 52 := by omega
    rw [this]
  have hqpos : 0 < 2 ^ (52 - n.log2) := Nat.pow_pos (by decide)
  refine ⟨n.log2, n * 2 ^ (52 - n.log2), hk, ?_, ?_, Nat.mul_div_cancel _ hqpos, ?_⟩
  · rw [← hq]; exact Nat.mul_le_mul_right _ hk1
  · have : n * 2 ^ (52 - n.log2) < 2 ^ (n.log2 + 1) * 2 ^ (52 - n.log2) := Nat.mul_lt_mul_of_pos_right hk2 hqpos
    rw [Nat.pow_succ, Nat.mul_assoc, Nat.mul_comm 2, ← Nat.mul_assoc, hq] at this
    omega
  · have h1 : 4503599627370496 ≤ n * 2 ^ (52 - n.log2) := by rw [← hq]; exact Nat.mul_le_mul_right _ hk1
    have h2 : n * 2 ^ (52 - n.log2) < 9007199254740992 := by
      have : n * 2 ^ (52 - n.log2) < 2 ^ (n.log2 + 1) * 2 ^ (52 - n.log2) := Nat.mul_lt_mul_of_pos_right hk2 hqpos
      rw [Nat.pow_succ, Nat.mul_assoc, Nat.mul_comm 2, ← Nat.mul_assoc, hq] at this
      omega
    unfold ofU32 log2
    rw [if_neg hn]
    show (1023 + n.log2) * 4503599627370496 + n * 2 ^ (52 - n.log2) % 4503599627370496 = _
    generalize n * 2 ^ (52 - n.log2) = M at h1 h2 ⊢
    omega

/-- **`(n as f64) as u32 = n`** for every `u32` -/
theorem toU32_ofU32 (n : Nat) (h : n < 4294967296) : toU32 (ofU32 n) = n := by
  by_cases hn : n = 0
  · subst hn; decide
  · obtain ⟨k, M, hk, h1, h2, hdiv, hb⟩ := ofU32_fields n hn h
    rw [hb]
    have hmant : mant ((1023 + k) * 4503599627370496 + (M - 4503599627370496)) = M - 4503599627370496 := by
      unfold mant; omega
    have hexpo : expo ((1023 + k) * 4503599627370496 + (M - 4503599627370496)) = 1023 + k := by
      unfold expo; omega
    have hsign : sign ((1023 + k) * 4503599627370496 + (M - 4503599627370496)) = 0 := by
      unfold sign; omega
    have hnan : isNaN ((1023 + k) * 4503599627370496 + (M - 4503599627370496)) = false := by
      unfold isNaN; rw [hexpo]; simp; omega
    unfold toU32
    simp only [hnan, hsign, hexpo, hmant]
    have e1 : ¬ (1023 + k = 2047) := by omega
    have e2 : ¬ (1023 + k < 1023) := by omega
    have e3 : 1023 + k - 1023 = k := by omega
    have e4 : ¬ (k ≥ 32) := by omega
    have e5 : 4503599627370496 + (M - 4503599627370496) = M := by omega
    simp [e1, e2, e3, e4, e5, hdiv]

/-- the cast of a u32 is a finite, non-negative number below 2^64 (what the AMF0 encoder needs) -/
theorem ofU32_lt (n : Nat) (h : n < 4294967296) : ofU32 n < 18446744073709551616 := by
  by_cases hn : n = 0
  · subst hn; decide
  · obtain ⟨k, M, hk, h1, h2, _, hb⟩ := ofU32_fields n hn h
    rw [hb]; omega

/-! ### `f32 as f64` then `as f32` -/

theorem rne_exact (x s : Nat) : rne (x * 2 ^ s) s = x := by
  unfold rne
  by_cases hs : s = 0
  · subst hs; simp
  · have hpos : 0 < 2 ^ s := Nat.pow_pos (by decide)
    have hq : x * 2 ^ s / 2 ^ s = x := Nat.mul_div_cancel _ hpos
    have hr : x * 2 ^ s % 2 ^ s = 0 := Nat.mul_mod_left _ _
    have hhalf : 0 < 2 ^ s / 2 := by
      obtain ⟨k, rfl⟩ : ∃ k, s = k + 1 := ⟨s - 1, by omega⟩
      rw [Nat.pow_succ, Nat.mul_div_cancel _ (by decide : 0 < 2)]
      exact Nat.pow_pos (by decide)
    simp only [hs, if_false, hq, hr]
    rw [if_neg (by omega), if_pos hhalf]

/-- `toF32` as a function of the three fields -/
def toF32' (sg e mt : Nat) : Nat :=
  let s := sg * 2147483648
  if e = 2047 then
    if mt = 0 then s + 2139095040
    else s + 2139095040 + 4194304 + (mt / 536870912) % 4194304
  else if e = 0 then s
  else
    let m := 4503599627370496 + mt
    let ei : Int := (e : Int) - 1023
    if ei ≥ -126 then
      let q := rne m 29
      let (q, ei) := if q = 16777216 then (8388608, ei + 1) else (q, ei)
      if ei > 127 then s + 2139095040
      else s + (Int.toNat (ei + 127)) * 8388608 + (q - 8388608)
    else
      let shift := Int.toNat (-126 - ei) + 29
      if shift > 60 then s
      else s + rne m shift

theorem toF32_eq (b : Nat) : toF32 b = toF32' (sign b) (expo b) (mant b) := rfl

/-- the fields of a bit pattern assembled from in-range fields -/
theorem fields_of (sg e mt : Nat) (hs : sg < 2) (he : e < 2048) (hm : mt < 4503599627370496) :
    sign (sg * 9223372036854775808 + e * 4503599627370496 + mt) = sg ∧
    expo (sg * 9223372036854775808 + e * 4503599627370496 + mt) = e ∧
    mant (sg * 9223372036854775808 + e * 4503599627370496 + mt) = mt := by
  unfold sign expo mant
  omega

theorem toF32_of_fields (sg e mt : Nat) (hs : sg < 2) (he : e < 2048) (hm : mt < 4503599627370496) :
    toF32 (sg * 9223372036854775808 + e * 4503599627370496 + mt) = toF32' sg e mt := by
  obtain ⟨h1, h2, h3⟩ := fields_of sg e mt hs he hm
  rw [toF32_eq, h1, h2, h3]

/-- not a signalling NaN: exponent field below 255, or infinity, or a NaN with the quiet bit set -/
def F32Quiet (f : Nat) : Prop := f / 8388608 % 256 ≠ 255 ∨ f % 8388608 = 0 ∨ 4194304 ≤ f % 8388608

end Rml.F64
