/- Thm D: the decoder model inverts the specification relation (any property order, ECMA arrays,
   any non-zero `true` byte), for values the Rust types can hold and within the nesting limit. -/
import Rml.Spec.Amf0
import Rml.Lemmas.Bytes
namespace Rml.Amf0
open Rml Rml.Bytes Rml.Spec.Amf0

theorem takeN_append (xs rest : Bytes) (n : Nat) (h : xs.length = n) :
    takeN n (xs ++ rest) = some (xs, rest) := by
  subst h
  simp [takeN, List.take_left', List.drop_left']

theorem insertProp_fresh (k : Bytes) (v : Val) (acc : List (Bytes × Val))
    (h : k ∉ acc.map Prod.fst) : insertProp k v acc = acc ++ [(k, v)] := by
  induction acc with
  | nil => rfl
  | cons p rest ih =>
    obtain ⟨k', v'⟩ := p
    simp only [List.map_cons, List.mem_cons, not_or] at h
    simp only [insertProp]
    rw [if_neg (fun e => h.1 e.symm), ih h.2]
    rfl

mutual
theorem encodes_length_pos (v : Val) (b : Bytes) (h : Encodes v b) : 1 ≤ b.length := by
  cases h <;> simp
end

mutual
theorem readValue_spec (v : Val) (b : Bytes) (h : Encodes v b) (wf : v.WF) (d f : Nat) (rest : Bytes)
    (hd : d + v.depth ≤ maxDepth) (hf : b.length + 1 ≤ f) :
    readValue f d (b ++ rest) = .ok (some v, rest) := by
  obtain ⟨f, rfl⟩ : ∃ f', f = f' + 1 := ⟨f - 1, by omega⟩
  cases h with
  | number n hn =>
    simp only [List.cons_append, readValue]
    simp [takeN_append (be64 n) rest 8 rfl, beVal_be64 n hn]
  | boolTrue x hx =>
    simp only [List.cons_append, List.nil_append, readValue]
    simp [take1, hx]
  | boolFalse =>
    simp only [List.cons_append, List.nil_append, readValue]
    simp [take1]
  | str s hl hv =>
    simp only [List.cons_append, readValue, List.append_assoc]
    simp [takeN_append (be16 s.length) (s ++ rest) 2 rfl, beVal_be16 s.length (by omega),
      takeN_append s rest s.length rfl, hv]
  | object ps body hp =>
    simp only [Val.depth] at hd
    simp only [Val.WF] at wf
    simp only [List.cons_append, readValue, List.append_assoc]
    have hdd : ¬ d ≥ maxDepth := by omega
    have := readProps_spec ps body hp wf.1 (d + 1) f rest [] (by simpa using wf.2) (by omega)
      (by simp at hf; omega)
    simp only [List.append_assoc, List.nil_append, List.cons_append] at this
    simp [hdd, this]
  | ecma ps c body hc hp =>
    simp only [Val.depth] at hd
    simp only [Val.WF] at wf
    simp only [List.cons_append, readValue, List.append_assoc]
    have hdd : ¬ d ≥ maxDepth := by omega
    have := readProps_spec ps body hp wf.1 (d + 1) f rest [] (by simpa using wf.2) (by omega)
      (by simp at hf; omega)
    simp only [List.append_assoc, List.nil_append, List.cons_append] at this
    simp [hdd, takeN_append c (body ++ (0 :: 0 :: 9 :: rest)) 4 hc, this]
  | array vs body hlen hl =>
    simp only [Val.depth] at hd
    simp only [Val.WF] at wf
    simp only [List.cons_append, readValue, List.append_assoc]
    have hdd : ¬ d ≥ maxDepth := by omega
    have := readArr_spec vs body hl wf.1 (d + 1) f rest [] (by omega) (by simp at hf; omega)
    simp only [List.nil_append] at this
    simp [hdd, takeN_append (be32 vs.length) (body ++ rest) 4 rfl, beVal_be32 vs.length hlen, this]
  | null => simp [readValue]
  | undefined => simp [readValue]
theorem readProps_spec (ps : List (Bytes × Val)) (body : Bytes) (h : EncodesProps ps body)
    (wf : WFProps ps) (d f : Nat) (rest : Bytes) (acc : List (Bytes × Val))
    (hnd : (acc.map Prod.fst ++ ps.map Prod.fst).Nodup)
    (hd : d + depthProps ps ≤ maxDepth) (hf : body.length + 4 ≤ f) :
    readProps f d (body ++ [0, 0, 9] ++ rest) acc = .ok (.object (acc ++ ps), rest) := by
  obtain ⟨f, rfl⟩ : ∃ f', f = f' + 1 := ⟨f - 1, by omega⟩
  cases h with
  | nil =>
    show readProps (f + 1) d ([0, 0] ++ (9 :: rest)) acc = _
    simp only [readProps]
    rw [takeN_append [0, 0] _ 2 rfl]
    simp [beVal, take1]
  | cons k v restp bv br hk0 hk1 hkv hv hr =>
    simp only [WFProps] at wf
    simp only [depthProps] at hd
    have hpos := encodes_length_pos v bv hv
    simp only [List.length_append, be16_length] at hf
    simp only [readProps, List.append_assoc]
    rw [takeN_append (be16 k.length) _ 2 rfl]
    simp only [beVal_be16 k.length (by omega)]
    rw [if_neg (by omega), takeN_append k _ k.length rfl]
    simp only [hkv, if_true]
    have hv' := readValue_spec v bv hv wf.2.1 d f (br ++ ([0, 0, 9] ++ rest)) (by omega) (by omega)
    rw [hv']
    simp only
    have hfresh : k ∉ acc.map Prod.fst := by
      intro hmem
      simp only [List.map_cons, List.nodup_append, List.mem_cons] at hnd
      exact hnd.2.2 k hmem k (Or.inl rfl) rfl
    rw [insertProp_fresh k v acc hfresh]
    have := readProps_spec restp br hr wf.2.2 d f rest (acc ++ [(k, v)])
      (by simpa [List.map_append, List.append_assoc] using hnd) (by omega) (by omega)
    simp only [List.append_assoc] at this
    simpa using this
theorem readArr_spec (vs : List Val) (body : Bytes) (h : EncodesList vs body)
    (wf : WFList vs) (d f : Nat) (rest : Bytes) (acc : List Val)
    (hd : d + depthList vs ≤ maxDepth) (hf : body.length + 2 ≤ f) :
    readArr f d vs.length (body ++ rest) acc = .ok (.array (acc ++ vs), rest) := by
  obtain ⟨f, rfl⟩ : ∃ f', f = f' + 1 := ⟨f - 1, by omega⟩
  cases h with
  | nil => simp [readArr]
  | cons v restv bv br hv hr =>
    simp only [WFList] at wf
    simp only [depthList] at hd
    have hpos := encodes_length_pos v bv hv
    simp only [List.length_append] at hf
    simp only [List.length_cons, readArr, List.append_assoc]
    rw [readValue_spec v bv hv wf.1 d f (br ++ rest) (by omega) (by omega)]
    simp only
    have := readArr_spec restv br hr wf.2 d f rest (acc ++ [v]) (by omega) (by omega)
    simpa using this
end

end Rml.Amf0

namespace Rml.Amf0
open Rml Rml.Bytes Rml.Spec.Amf0

theorem readAll_spec (vs : List Val) (body : Bytes) (h : EncodesList vs body)
    (wf : WFList vs) (f : Nat) (acc : List Val)
    (hd : depthList vs ≤ maxDepth) (hf : body.length + 2 ≤ f) :
    readAll f body acc = .ok (acc ++ vs, []) := by
  induction vs generalizing body f acc with
  | nil =>
    obtain ⟨f, rfl⟩ : ∃ f', f = f' + 1 := ⟨f - 1, by omega⟩
    obtain ⟨f, rfl⟩ : ∃ f', f = f' + 1 := ⟨f - 1, by omega⟩
    cases h
    simp [readAll, readValue]
  | cons v rest ih =>
    obtain ⟨f, rfl⟩ : ∃ f', f = f' + 1 := ⟨f - 1, by omega⟩
    cases h with
    | cons _ _ bv br hv hr =>
      simp only [WFList] at wf
      simp only [depthList] at hd
      have hpos := encodes_length_pos v bv hv
      simp only [List.length_append] at hf
      simp only [readAll]
      rw [readValue_spec v bv hv wf.1 0 f br (by omega) (by omega)]
      simp only
      have := ih br hr wf.2 f (acc ++ [v]) (by omega) (by omega)
      simpa using this

end Rml.Amf0
