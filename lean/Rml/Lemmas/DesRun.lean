/-
Termination measure, fuel independence and prefix behaviour of the drain loop: Thm P.
-/
import Rml.Lemmas.DesMono
namespace Rml.Des
open Rml Rml.Bytes Rml.Chunk

def rank : Stage → Nat
  | .csid => 0 | .its => 6 | .mlen => 5 | .mtyp => 4 | .msid => 3 | .ext => 2 | .payload => 1

/-- every successful stage strictly decreases `8·|buffer| + rank(stage)`: the loop never iterates
    without consuming input or moving to a later stage of the same chunk -/
def mu (c : Core) (b : Bytes) : Nat := 8 * b.length + rank c.stage

theorem take1_len {b r : Bytes} {a : Nat} (h : take1 b = some (a, r)) : b.length = r.length + 1 := by
  match b, h with
  | x :: t, h => simp only [take1, Option.some.injEq, Prod.mk.injEq] at h; simp [← h.2]
theorem take3_len {b r : Bytes} {a : Nat} (h : take3 b = some (a, r)) : b.length = r.length + 3 := by
  match b, h with
  | x0 :: x1 :: x2 :: t, h => simp only [take3, Option.some.injEq, Prod.mk.injEq] at h; simp [← h.2]
theorem take4be_len {b r : Bytes} {a : Nat} (h : take4be b = some (a, r)) : b.length = r.length + 4 := by
  match b, h with
  | x0 :: x1 :: x2 :: x3 :: t, h => simp only [take4be, Option.some.injEq, Prod.mk.injEq] at h; simp [← h.2]
theorem take4le_len {b r : Bytes} {a : Nat} (h : take4le b = some (a, r)) : b.length = r.length + 4 := by
  match b, h with
  | x0 :: x1 :: x2 :: x3 :: t, h => simp only [take4le, Option.some.injEq, Prod.mk.injEq] at h; simp [← h.2]
theorem basicHdr_len {b r : Bytes} {f : Fmt} {k : Nat} (h : basicHdr b = some (f, k, r)) :
    r.length + 1 ≤ b.length := by
  match b, h with
  | x :: t, h =>
    simp only [basicHdr] at h
    split at h
    · match t, h with
      | y :: t', h => simp only [Option.some.injEq, Prod.mk.injEq] at h; simp [← h.2.2]
    · split at h
      · match t, h with
        | y :: z :: t', h => simp only [Option.some.injEq, Prod.mk.injEq] at h; simp [← h.2.2]
      · simp only [Option.some.injEq, Prod.mk.injEq] at h; simp [← h.2.2]

theorem stageStep_decreases (c c' : Core) (b rest : Bytes) (m : Option Msg)
    (h : stageStep c b = .ok c' rest m) : mu c' rest < mu c b := by
  unfold stageStep at h
  unfold mu
  cases hs : c.stage <;> simp only [hs] at h ⊢
  · cases hb : basicHdr b with
    | none => simp [hb] at h
    | some p =>
      obtain ⟨fmt, csid, r⟩ := p
      have hl := basicHdr_len hb
      simp only [hb] at h
      split at h
      · simp only [Step.ok.injEq] at h; obtain ⟨h1, h2, _⟩ := h; subst h1 h2; simp [rank]; omega
      · split at h
        · simp at h
        · simp only [Step.ok.injEq] at h; obtain ⟨h1, h2, _⟩ := h; subst h1 h2; simp [rank]; omega
  · split at h
    · simp only [Step.ok.injEq] at h; obtain ⟨h1, h2, _⟩ := h; subst h1 h2; simp [rank]
    · cases hb : take3 b with
      | none => simp [hb] at h
      | some p =>
        obtain ⟨t, r⟩ := p
        have hl := take3_len hb
        simp only [hb, Step.ok.injEq] at h; obtain ⟨h1, h2, _⟩ := h; subst h1 h2; simp [rank]; omega
  · split at h
    · simp only [Step.ok.injEq] at h; obtain ⟨h1, h2, _⟩ := h; subst h1 h2; simp [rank]
    · cases hb : take3 b with
      | none => simp [hb] at h
      | some p =>
        obtain ⟨t, r⟩ := p
        have hl := take3_len hb
        simp only [hb, Step.ok.injEq] at h; obtain ⟨h1, h2, _⟩ := h; subst h1 h2; simp [rank]; omega
  · split at h
    · simp only [Step.ok.injEq] at h; obtain ⟨h1, h2, _⟩ := h; subst h1 h2; simp [rank]
    · cases hb : take1 b with
      | none => simp [hb] at h
      | some p =>
        obtain ⟨t, r⟩ := p
        have hl := take1_len hb
        simp only [hb, Step.ok.injEq] at h; obtain ⟨h1, h2, _⟩ := h; subst h1 h2; simp [rank]; omega
  · split at h
    · simp only [Step.ok.injEq] at h; obtain ⟨h1, h2, _⟩ := h; subst h1 h2; simp [rank]
    · cases hb : take4le b with
      | none => simp [hb] at h
      | some p =>
        obtain ⟨t, r⟩ := p
        have hl := take4le_len hb
        simp only [hb, Step.ok.injEq] at h; obtain ⟨h1, h2, _⟩ := h; subst h1 h2; simp [rank]; omega
  · split at h
    · simp only [Step.ok.injEq] at h; obtain ⟨h1, h2, _⟩ := h; subst h1 h2; simp [rank]
    · cases hb : take4be b with
      | none => simp [hb] at h
      | some p =>
        obtain ⟨t, r⟩ := p
        have hl := take4be_len hb
        simp only [hb, Step.ok.injEq] at h; obtain ⟨h1, h2, _⟩ := h; subst h1 h2; simp [rank]; omega
  · split at h
    · simp at h
    · generalize hn : (if c.cur.len > c.maxCs then min (c.cur.len - c.pdata.length) c.maxCs else c.cur.len) = n at h
      by_cases hb : b.length < n
      · simp [hb] at h
      · simp only [hb, if_false] at h
        split at h <;>
        (simp only [Step.ok.injEq] at h; obtain ⟨h1, h2, _⟩ := h; subst h1 h2; simp [rank]; omega)

theorem honour_stage (c c' : Core) (m : Msg) (h : honour c m = .ok c') : c'.stage = c.stage := by
  unfold honour at h
  split at h
  · split at h
    · unfold setMaxChunkSize at h
      split at h
      · simp at h
      · simp only [Except.ok.injEq] at h; subst h; rfl
    · simp only [Except.ok.injEq] at h; subst h; rfl
  · simp only [Except.ok.injEq] at h; subst h; rfl

/-- enough fuel is as good as any other enough fuel -/
theorem runFuel_fuel_irrel (f1 : Nat) : ∀ (f2 : Nat) (c : Core) (b : Bytes) (acc : List Msg),
    mu c b < f1 → mu c b < f2 → runFuel f1 c b acc = runFuel f2 c b acc := by
  induction f1 with
  | zero => intro f2 c b acc h1; omega
  | succ f1 ih =>
    intro f2 c b acc h1 h2
    cases f2 with
    | zero => omega
    | succ f2 =>
      simp only [runFuel]
      cases hs : stageStep c b with
      | needMore => rfl
      | err e => rfl
      | ok c' rest m =>
        have hd := stageStep_decreases c c' b rest m hs
        cases m with
        | none => exact ih f2 c' rest acc (by omega) (by omega)
        | some m =>
          simp only
          cases hh : honour c' m with
          | error e => rfl
          | ok c'' =>
            have hst := honour_stage c' c'' m hh
            have : mu c'' rest = mu c' rest := by unfold mu; rw [hst]
            exact ih f2 c'' rest (acc ++ [m]) (by omega) (by omega)

/-- the drain loop with the fuel the model supplies -/
def run (c : Core) (b : Bytes) (acc : List Msg) : Run := runFuel (fuelFor b) c b acc

theorem mu_lt_fuelFor (c : Core) (b : Bytes) : mu c b < fuelFor b := by
  unfold mu fuelFor; cases c.stage <;> simp [rank] <;> omega

/-- fuel-free unfolding equation of the drain loop -/
theorem run_eq (c : Core) (b : Bytes) (acc : List Msg) :
    run c b acc =
      match stageStep c b with
      | .needMore => { core := c, buf := b, msgs := acc, err := none }
      | .err e => { core := c, buf := b, msgs := acc, err := some e }
      | .ok c' rest none => run c' rest acc
      | .ok c' rest (some m) =>
        match honour c' m with
        | .error e => { core := c', buf := rest, msgs := acc ++ [m], err := some e }
        | .ok c'' => run c'' rest (acc ++ [m]) := by
  unfold run
  have hf : fuelFor b = (fuelFor b - 1) + 1 := by unfold fuelFor; omega
  rw [hf]
  simp only [runFuel]
  cases hs : stageStep c b with
  | needMore => rfl
  | err e => rfl
  | ok c' rest m =>
    have hd := stageStep_decreases c c' b rest m hs
    have hm := mu_lt_fuelFor c b
    cases m with
    | none =>
      simp only
      exact runFuel_fuel_irrel _ _ c' rest acc (by omega) (mu_lt_fuelFor c' rest)
    | some m =>
      simp only
      cases hh : honour c' m with
      | error e => rfl
      | ok c'' =>
        simp only
        have hst := honour_stage c' c'' m hh
        have : mu c'' rest = mu c' rest := by unfold mu; rw [hst]
        exact runFuel_fuel_irrel _ _ c'' rest (acc ++ [m]) (by omega) (mu_lt_fuelFor c'' rest)

/-- the drain loop never runs out of fuel -/
theorem runFuel_no_fuel_err (f : Nat) : ∀ (c : Core) (b : Bytes) (acc : List Msg),
    mu c b < f → (runFuel f c b acc).err ≠ some .fuel := by
  induction f with
  | zero => intro c b acc h; omega
  | succ f ih =>
    intro c b acc h
    simp only [runFuel]
    cases hs : stageStep c b with
    | needMore => simp
    | err e =>
      simp only [ne_eq, Option.some.injEq]
      intro he; subst he
      unfold stageStep at hs
      cases hst : c.stage <;> simp only [hst] at hs <;> (repeat' split at hs) <;> simp at hs
    | ok c' rest m =>
      have hd := stageStep_decreases c c' b rest m hs
      cases m with
      | none => exact ih c' rest acc (by omega)
      | some m =>
        simp only
        cases hh : honour c' m with
        | error e =>
          simp only [ne_eq, Option.some.injEq]
          intro he; subst he
          unfold honour at hh
          (repeat' split at hh) <;> (try simp at hh)
          unfold setMaxChunkSize at hh
          split at hh <;> simp at hh
        | ok c'' =>
          have hst := honour_stage c' c'' m hh
          have : mu c'' rest = mu c' rest := by unfold mu; rw [hst]
          exact ih c'' rest (acc ++ [m]) (by omega)

/-- Thm P, loop form.  Draining `b ++ ys` is draining `b` and then, if that ended for lack of input,
    draining what was left over followed by `ys`; if it ended in an error, the same error with the
    same messages before it. -/
theorem run_append (n : Nat) : ∀ (c : Core) (b ys : Bytes) (acc : List Msg), mu c b < n →
    run c (b ++ ys) acc =
      match (run c b acc).err with
      | none => run (run c b acc).core ((run c b acc).buf ++ ys) (run c b acc).msgs
      | some e => { run c b acc with buf := (run c b acc).buf ++ ys, err := some e } := by
  induction n with
  | zero => intro c b ys acc h; omega
  | succ n ih =>
    intro c b ys acc hmu
    rw [run_eq c b acc]
    cases hs : stageStep c b with
    | needMore => simp only
    | err e =>
      simp only
      rw [run_eq c (b ++ ys) acc, stageStep_mono_err c b ys e hs]
    | ok c' rest m =>
      have hd := stageStep_decreases c c' b rest m hs
      rw [run_eq c (b ++ ys) acc, stageStep_mono_ok c c' b ys rest m hs]
      cases m with
      | none => simp only; exact ih c' rest ys acc (by omega)
      | some m =>
        simp only
        cases hh : honour c' m with
        | error e => simp only
        | ok c'' =>
          simp only
          have hst := honour_stage c' c'' m hh
          have : mu c'' rest = mu c' rest := by unfold mu; rw [hst]
          exact ih c'' rest ys (acc ++ [m]) (by omega)

end Rml.Des

namespace Rml.Des
open Rml Rml.Bytes Rml.Chunk

/-- the accumulator is only a prefix of the output -/
theorem run_acc (n : Nat) : ∀ (c : Core) (b : Bytes) (acc : List Msg), mu c b < n →
    run c b acc = { run c b [] with msgs := acc ++ (run c b []).msgs } := by
  induction n with
  | zero => intro c b acc h; omega
  | succ n ih =>
    intro c b acc hmu
    rw [run_eq c b acc, run_eq c b []]
    cases hs : stageStep c b with
    | needMore => simp
    | err e => simp
    | ok c' rest m =>
      have hd := stageStep_decreases c c' b rest m hs
      cases m with
      | none => simp only; exact ih c' rest acc (by omega)
      | some m =>
        simp only
        cases hh : honour c' m with
        | error e => simp
        | ok c'' =>
          simp only
          have hst := honour_stage c' c'' m hh
          have : mu c'' rest = mu c' rest := by unfold mu; rw [hst]
          rw [ih c'' rest (acc ++ [m]) (by omega), ih c'' rest ([] ++ [m]) (by omega)]
          simp

theorem feed_eq_run (s : State) (bytes : Bytes) : feed s bytes = run s.core (s.buf ++ bytes) [] := rfl

end Rml.Des
