/-
Partition independence of `process_bytes`: feeding `xs` and then `ys` is feeding `xs ++ ys`.
-/
import Rml.Lemmas.HsSpec
namespace Rml.Hs
open Rml

/-- how the results of two consecutive calls combine into the result of one -/
def combine (r1 : Bytes) : Except Err (State × Result) → Except Err (State × Result)
  | .error e => .error e
  | .ok (s2, .inProgress r2) => .ok (s2, .inProgress (r1 ++ r2))
  | .ok (s2, .completed r2 rem) => .ok (s2, .completed (r1 ++ r2) rem)

theorem combine_fin2 (s : State) (b r1 resp : Bytes) : combine r1 (fin2 s b resp) = fin2 s b (r1 ++ resp) := by
  unfold fin2; split <;> rfl

theorem combine_fin1 (hmac : Hmac) (s : State) (b r1 resp : Bytes) :
    combine r1 (fin1 hmac s b resp) = fin1 hmac s b (r1 ++ resp) := by
  unfold fin1
  split
  · rfl
  · rw [combine_fin2, List.append_assoc]

theorem combine_fin0 (hmac : Hmac) (s : State) (b r1 resp : Bytes) :
    combine r1 (fin0 hmac s b resp) = fin0 hmac s b (r1 ++ resp) := by
  cases b with
  | nil => rfl
  | cons c r =>
    simp only [fin0]
    split
    · rfl
    · exact combine_fin1 hmac s r r1 resp

/-- the continuation of a call that ended in `r` when `ys` arrives next -/
def next (hmac : Hmac) (ys : Bytes) : Except Err (State × Result) → Except Err (State × Result)
  | .error e => .error e
  | .ok (s1, .completed r rem) => .ok (s1, .completed r (rem ++ ys))
  | .ok (s1, .inProgress r) => combine r (procSpec hmac s1 ys)

theorem fin2_two (hmac : Hmac) (s : State) (b ys resp : Bytes) :
    fin2 s (b ++ ys) resp = next hmac ys (fin2 s b resp) := by
  unfold fin2
  by_cases h : b.length < packetSize
  · simp only [h, if_true, next, procSpec]
    rw [combine_fin2, List.append_nil]
    exact (fin2_irrel s .waitP2 b (b ++ ys) resp).symm
  · simp only [h, if_false, next]
    have : ¬ (b ++ ys).length < packetSize := by simp; omega
    simp only [this, if_false]
    rw [List.drop_append_of_le_length (by omega)]

theorem fin1_two (hmac : Hmac) (s : State) (b ys resp : Bytes) :
    fin1 hmac s (b ++ ys) resp = next hmac ys (fin1 hmac s b resp) := by
  unfold fin1
  by_cases h : b.length < packetSize
  · simp only [h, if_true, next, procSpec]
    rw [combine_fin1, List.append_nil]
    have := (fin1_irrel hmac s .waitP1 b (b ++ ys) resp).symm
    unfold fin1 at this
    exact this
  · simp only [h, if_false]
    have : ¬ (b ++ ys).length < packetSize := by simp; omega
    simp only [this, if_false]
    rw [List.drop_append_of_le_length (by omega), List.take_append_of_le_length (by omega)]
    exact fin2_two hmac s _ ys _

theorem fin0_two (hmac : Hmac) (s : State) (b ys resp : Bytes) :
    fin0 hmac s (b ++ ys) resp = next hmac ys (fin0 hmac s b resp) := by
  cases b with
  | nil =>
    show fin0 hmac s ys resp =
      combine resp (fin0 hmac { s with stage := .waitP0, buf := [] } ([] ++ ys) [])
    rw [combine_fin0, List.append_nil, List.nil_append]
    exact (fin0_irrel hmac s .waitP0 [] ys resp).symm
  | cons c r =>
    by_cases hc : c ≠ 3
    · show (if c ≠ 3 then Except.error Err.badVersion else fin1 hmac s (r ++ ys) resp) =
        next hmac ys (if c ≠ 3 then Except.error Err.badVersion else fin1 hmac s r resp)
      rw [if_pos hc, if_pos hc]; rfl
    · show (if c ≠ 3 then Except.error Err.badVersion else fin1 hmac s (r ++ ys) resp) =
        next hmac ys (if c ≠ 3 then Except.error Err.badVersion else fin1 hmac s r resp)
      rw [if_neg hc, if_neg hc]
      exact fin1_two hmac s r ys resp

/-- **two calls are one call** -/
theorem procSpec_two (hmac : Hmac) (s : State) (xs ys : Bytes) :
    procSpec hmac s (xs ++ ys) = next hmac ys (procSpec hmac s xs) := by
  unfold procSpec
  cases hs : s.stage with
  | complete => rfl
  | waitP2 => simp only; rw [← List.append_assoc]; exact fin2_two hmac s _ ys _
  | waitP1 => simp only; rw [← List.append_assoc]; exact fin1_two hmac s _ ys _
  | waitP0 => simp only; rw [← List.append_assoc]; exact fin0_two hmac s _ ys _
  | needToSend => simp only; rw [← List.append_assoc]; exact fin0_two hmac _ _ ys _

/-- a driver as an application writes it: call `process_bytes` for each piece that arrives until the
    handshake completes; from then on everything (the `remaining_bytes` of the completing call and all
    later pieces) belongs to the application's own stream.  Result: final state, everything the party
    emitted, and — once complete — the trailing bytes in order. -/
def feedCalls (hmac : Hmac) (s : State) : List Bytes → Except Err (State × Bytes × Option Bytes)
  | [] => .ok (s, [], none)
  | c :: rest =>
    match processBytes hmac s c with
    | .error e => .error e
    | .ok (s1, .completed r rem) => .ok (s1, r, some (rem ++ rest.flatten))
    | .ok (s1, .inProgress r) =>
      match feedCalls hmac s1 rest with
      | .error e => .error e
      | .ok (s2, r2, d) => .ok (s2, r ++ r2, d)

theorem feedCalls_single (hmac : Hmac) (s : State) (c : Bytes) :
    feedCalls hmac s [c] =
      match processBytes hmac s c with
      | .error e => .error e
      | .ok (s1, .completed r rem) => .ok (s1, r, some rem)
      | .ok (s1, .inProgress r) => .ok (s1, r, none) := by
  simp only [feedCalls]
  cases processBytes hmac s c with
  | error e => rfl
  | ok p =>
    obtain ⟨s1, res⟩ := p
    cases res <;> simp

/-- **any partition.**  However the bytes are split into `process_bytes` calls (one or more calls, of
    any sizes including empty), the outcome — error or not, final state, everything emitted, trailing
    bytes — is that of a single call with all the bytes. -/
theorem feedCalls_partition (hmac : Hmac) (rest : List Bytes) : ∀ (s : State) (c : Bytes),
    feedCalls hmac s (c :: rest) = feedCalls hmac s [(c :: rest).flatten] := by
  induction rest with
  | nil => intro s c; simp
  | cons c2 rest ih =>
    intro s c
    have hfl : (c :: c2 :: rest).flatten = c ++ (c2 :: rest).flatten := by simp
    rw [hfl, feedCalls_single, processBytes_eq_procSpec, procSpec_two]
    rw [feedCalls]
    rw [processBytes_eq_procSpec]
    cases h1 : procSpec hmac s c with
    | error e => rfl
    | ok p =>
      obtain ⟨s1, res⟩ := p
      cases res with
      | completed r rem => simp [next]
      | inProgress r =>
        simp only [next]
        rw [ih s1 c2, feedCalls_single, processBytes_eq_procSpec]
        cases procSpec hmac s1 (c2 :: rest).flatten with
        | error e => rfl
        | ok q =>
          obtain ⟨s2, res2⟩ := q
          cases res2 <;> simp [combine]

end Rml.Hs
