/-
Thm A: whatever history of messages and chunk-size changes the serializer model accepts, and
whatever subset of the droppable packets is removed, the remaining bytes are read by the
specification reader (as the stream of a sequential, strictly conformant sender) into exactly the
messages of the remaining packets.
-/
import Rml.Lemmas.DesSpec
import Rml.Lemmas.Ser
import Rml.Lemmas.Bytes
open Rml Rml.Bytes Rml.Chunk
open Rml.Spec.Chunk (CsState Announced)

namespace Rml.SerSpec

theorem rd3_be24 (v : Nat) (r : Bytes) (h : v < 16777216) : Spec.Chunk.rd3 (be24 v ++ r) = some (v, r) := by
  simp only [be24, List.cons_append, List.nil_append, Spec.Chunk.rd3, rd24, b_toNat, Option.some.injEq, Prod.mk.injEq, and_true]
  omega
theorem rd4_be32 (v : Nat) (r : Bytes) (h : v < 4294967296) : Spec.Chunk.rd4 (be32 v ++ r) = some (v, r) := by
  simp only [be32, List.cons_append, List.nil_append, Spec.Chunk.rd4, rd32, b_toNat, Option.some.injEq, Prod.mk.injEq, and_true]
  omega
theorem rd4le_le32 (v : Nat) (r : Bytes) (h : v < 4294967296) : Spec.Chunk.rd4le (le32 v ++ r) = some (v, r) := by
  simp only [le32, List.cons_append, List.nil_append, Spec.Chunk.rd4le, rd32, b_toNat, Option.some.injEq, Prod.mk.injEq, and_true]
  omega
theorem rd1_b (v : Nat) (r : Bytes) (h : v < 256) : Spec.Chunk.rd1 (b v :: r) = some (v, r) := by
  simp only [Spec.Chunk.rd1, b_toNat, Option.some.injEq, Prod.mk.injEq, and_true]
  omega

structure HdrWF (h : Ser.Hdr) : Prop where
  csid : 2 ≤ h.csid ∧ h.csid ≤ 63
  field : h.field < 4294967296
  len : h.len < 16777216
  typ : h.typ < 256
  msid : h.msid < 4294967296

/-- what the specification reader announces for a header the serializer wrote -/
def announced (h : Ser.Hdr) : Announced :=
  { field24 := min h.field 16777215, len := h.len, typ := h.typ, msid := h.msid,
    ext := if h.field < 16777215 then none else some h.field }

/-- the message header part of a chunk header -/
def hdrTail (fmt : Fmt) (h : Ser.Hdr) : Bytes :=
  (if fmt = .f3 then [] else be24 (min h.field maxTs24)) ++
  (if fmt = .f3 ∨ fmt = .f2 then [] else be24 h.len ++ [b h.typ]) ++
  (if fmt = .f0 then le32 h.msid else []) ++
  (if h.field < maxTs24 then [] else be32 h.field)

theorem headerBytes_eq (fmt : Fmt) (h : Ser.Hdr) :
    Ser.headerBytes fmt h = b (fmt.toNat * 64 + h.csid) :: hdrTail fmt h := by
  unfold Ser.headerBytes hdrTail
  simp only [List.append_assoc, List.cons_append, List.nil_append]

theorem basic_headerBytes (fmt : Fmt) (h : Ser.Hdr) (hw : HdrWF h) (r : Bytes) :
    Spec.Chunk.basic (Ser.headerBytes fmt h ++ r) = some (fmt.toNat, h.csid, hdrTail fmt h ++ r) := by
  have hc := hw.csid
  have hf : fmt.toNat ≤ 3 := by cases fmt <;> simp [Fmt.toNat]
  rw [headerBytes_eq]
  simp only [List.cons_append, Spec.Chunk.basic, b_toNat]
  have h1 : (fmt.toNat * 64 + h.csid) % 256 = fmt.toNat * 64 + h.csid := by omega
  rw [h1]
  have h2 : (fmt.toNat * 64 + h.csid) % 64 = h.csid := by omega
  have h3 : (fmt.toNat * 64 + h.csid) / 64 = fmt.toNat := by omega
  rw [h2, h3]
  have h4 : ¬ h.csid = 0 := by omega
  have h5 : ¬ h.csid = 1 := by omega
  simp only [h4, h5, if_false]

theorem readHeader_hdrTail (fmt : Fmt) (h : Ser.Hdr) (hw : HdrWF h) (st : CsState) (r : Bytes)
    (h3 : fmt = .f3 → st.field24 = min h.field 16777215)
    (h2 : fmt = .f3 ∨ fmt = .f2 → st.len = h.len ∧ st.typ = h.typ)
    (h1 : fmt ≠ .f0 → st.msid = h.msid) :
    Spec.Chunk.readHeader fmt.toNat st (hdrTail fmt h ++ r) = some (announced h, r) := by
  have hfl := hw.field; have hl := hw.len; have ht := hw.typ; have hm := hw.msid
  have hmin : min h.field 16777215 < 16777216 := by omega
  have h1' : ¬ (1 = 0) := by omega
  unfold hdrTail announced
  by_cases hF : h.field < 16777215
  · have hmin' : min h.field 16777215 = h.field := by omega
    have hne : ¬ (h.field = 16777215) := by omega
    cases fmt
    · simp only [Spec.Chunk.readHeader, Fmt.toNat, maxTs24, hF, if_true, if_false, List.append_assoc, List.nil_append, List.cons_append, reduceCtorEq, false_or, Nat.zero_le, or_self]
      rw [rd3_be24 _ _ hmin]
      simp only [bind, Option.bind]
      rw [rd3_be24 _ _ hl]
      simp only [rd1_b _ _ ht, rd4le_le32 _ _ hm, hmin', hne, if_false, pure]
    · have := h1 (by simp)
      simp only [Spec.Chunk.readHeader, Fmt.toNat, maxTs24, hF, if_true, if_false, List.append_assoc, List.nil_append, List.cons_append, reduceCtorEq, false_or, or_self, show (1 ≤ 2) by omega, Nat.le_refl, h1']
      rw [rd3_be24 _ _ hmin]
      simp only [bind, Option.bind]
      rw [rd3_be24 _ _ hl]
      simp only [rd1_b _ _ ht, hmin', hne, if_false, pure, this]
    · have := h1 (by simp)
      obtain ⟨a1, a2⟩ := h2 (Or.inr rfl)
      simp only [Spec.Chunk.readHeader, Fmt.toNat, maxTs24, hF, if_true, if_false, List.append_assoc, List.nil_append, List.cons_append, reduceCtorEq, false_or, or_true, Nat.le_refl, show ¬ (2 ≤ 1) by omega, show ¬ (2 = 0) by omega]
      rw [rd3_be24 _ _ hmin]
      simp only [bind, Option.bind, hmin', hne, if_false, pure, this, a1, a2]
    · have := h1 (by simp)
      obtain ⟨a1, a2⟩ := h2 (Or.inl rfl)
      have a3 := h3 rfl
      simp only [Spec.Chunk.readHeader, Fmt.toNat, maxTs24, hF, if_true, if_false, List.append_assoc, List.nil_append, List.cons_append, reduceCtorEq, true_or, show ¬ (3 ≤ 2) by omega, show ¬ (3 ≤ 1) by omega, show ¬ (3 = 0) by omega]
      simp only [bind, Option.bind, hmin', hne, if_false, pure, this, a1, a2, a3]
  · have hmin' : min h.field 16777215 = 16777215 := by omega
    cases fmt
    · simp only [Spec.Chunk.readHeader, Fmt.toNat, maxTs24, hF, if_true, if_false, List.append_assoc, List.nil_append, List.cons_append, reduceCtorEq, false_or, Nat.zero_le, or_self]
      rw [rd3_be24 _ _ hmin]
      simp only [bind, Option.bind]
      rw [rd3_be24 _ _ hl]
      simp only [rd1_b _ _ ht, rd4le_le32 _ _ hm, hmin', if_true, pure, rd4_be32 _ _ hfl, Option.map_some]
    · have := h1 (by simp)
      simp only [Spec.Chunk.readHeader, Fmt.toNat, maxTs24, hF, if_true, if_false, List.append_assoc, List.nil_append, List.cons_append, reduceCtorEq, false_or, or_self, show (1 ≤ 2) by omega, Nat.le_refl, h1']
      rw [rd3_be24 _ _ hmin]
      simp only [bind, Option.bind]
      rw [rd3_be24 _ _ hl]
      simp only [rd1_b _ _ ht, hmin', if_true, pure, this, rd4_be32 _ _ hfl, Option.map_some]
    · have := h1 (by simp)
      obtain ⟨a1, a2⟩ := h2 (Or.inr rfl)
      simp only [Spec.Chunk.readHeader, Fmt.toNat, maxTs24, hF, if_true, if_false, List.append_assoc, List.nil_append, List.cons_append, reduceCtorEq, false_or, or_true, Nat.le_refl, show ¬ (2 ≤ 1) by omega, show ¬ (2 = 0) by omega]
      rw [rd3_be24 _ _ hmin]
      simp only [bind, Option.bind, hmin', if_true, pure, this, a1, a2, rd4_be32 _ _ hfl, Option.map_some]
    · have := h1 (by simp)
      obtain ⟨a1, a2⟩ := h2 (Or.inl rfl)
      have a3 := h3 rfl
      simp only [Spec.Chunk.readHeader, Fmt.toNat, maxTs24, hF, if_true, if_false, List.append_assoc, List.nil_append, List.cons_append, reduceCtorEq, true_or, show ¬ (3 ≤ 2) by omega, show ¬ (3 ≤ 1) by omega, show ¬ (3 = 0) by omega]
      simp only [bind, Option.bind, hmin', if_true, pure, this, a1, a2, a3, rd4_be32 _ _ hfl, Option.map_some]

end Rml.SerSpec

namespace Rml.SerSpec
open Rml Rml.Bytes Rml.Chunk
open Rml.Spec.Chunk (CsState Announced)

/-- fuel-free big-step form of `Spec.Chunk.decodeSeqFuel` -/
inductive Reads : Spec.Chunk.State → Option Nat → Bytes → List Msg → Spec.Chunk.State → Option Nat → Prop
  | nil (s : Spec.Chunk.State) (cur : Option Nat) : Reads s cur [] [] s cur
  | step (s s' : Spec.Chunk.State) (cur : Option Nat) (bs rest : Bytes) (m : Option Msg) (ms : List Msg)
      (hne : bs ≠ []) (hso : Spec.Chunk.strictOk s cur bs = true)
      (hc : Spec.Chunk.chunk s bs = some (s', m, rest)) (hmo : Spec.Chunk.msgOk m = true)
      (hlt : rest.length < bs.length)
      (sE : Spec.Chunk.State) (cE : Option Nat)
      (hrest : Reads s' (Spec.Chunk.nextCur (Spec.Chunk.csidOf bs) m) rest ms sE cE) :
      Reads s cur bs (m.toList ++ ms) sE cE

theorem reads_sound {s sE : Spec.Chunk.State} {cur cE : Option Nat} {bs : Bytes} {ms : List Msg}
    (h : Reads s cur bs ms sE cE) :
    ∀ (f : Nat) (acc : List Msg), bs.length ≤ f → Spec.Chunk.decodeSeqFuel f s cur bs acc = some (acc ++ ms) := by
  induction h with
  | nil s cur =>
    intro f acc _
    cases f <;> simp [Spec.Chunk.decodeSeqFuel]
  | step s s' cur bs rest m ms hne hso hc hmo hlt sE cE _ ih =>
    intro f acc hf
    cases f with
    | zero =>
      cases bs with
      | nil => exact absurd rfl hne
      | cons _ _ => simp at hf
    | succ f =>
      unfold Spec.Chunk.decodeSeqFuel
      have he : bs.isEmpty = false := by cases bs with
        | nil => exact absurd rfl hne
        | cons _ _ => rfl
      simp only [he, Bool.false_eq_true, if_false, hso, hc, hmo]
      rw [ih f _ (by omega)]
      cases m <;> simp

theorem reads_decodeSeq {bs : Bytes} {ms : List Msg} {sE : Spec.Chunk.State} {cE : Option Nat}
    (h : Reads {} none bs ms sE cE) : Spec.Chunk.decodeSeq bs = some ms := by
  have := reads_sound h bs.length [] (Nat.le_refl _)
  simpa [Spec.Chunk.decodeSeq] using this

/-- `m'` is `m` with key `k` set to `v` (as far as lookups can tell) -/
def UpdAt {α : Type} (k : Nat) (v : α) (m m' : List (Nat × α)) : Prop :=
  ∀ j, mapGet j m' = if j = k then some v else mapGet j m

theorem UpdAt.insert {α : Type} (k : Nat) (v : α) (m : List (Nat × α)) : UpdAt k v m (mapInsert k v m) := by
  intro j
  by_cases hj : j = k
  · subst hj; simp [mapGet_mapInsert_self]
  · simp only [hj, if_false]; exact mapGet_mapInsert_ne k j hj v m

theorem UpdAt.trans {α : Type} {k : Nat} {v w : α} {m m' m'' : List (Nat × α)}
    (h1 : UpdAt k v m m') (h2 : UpdAt k w m' m'') : UpdAt k w m m'' := by
  intro j
  rw [h2 j]
  by_cases hj : j = k
  · simp [hj]
  · simp only [hj, if_false]; rw [h1 j]; simp [hj]

/-- the specification reader's record of chunk stream `h.csid` after a chunk with header `h` -/
def stOf (h : Ser.Hdr) (buf : Bytes) (fl : Bool) : CsState :=
  { ts := h.ts, delta := h.field, field24 := min h.field 16777215, len := h.len, typ := h.typ, msid := h.msid,
    buf := buf, inFlight := fl }

/-- the payload part of a chunk whose payload is exactly the slice the serializer cut -/
theorem spec_payload_slice (sp : Spec.Chunk.State) (k : Nat) (st : CsState) (a : Announced) (ts delta : Nat)
    (sl r : Bytes) (hlen : st.buf.length ≤ a.len) (hsl : sl.length = min sp.cs (a.len - st.buf.length)) :
    Spec.Chunk.payload sp k st a ts delta (sl ++ r) =
      if (st.buf ++ sl).length = a.len then
        some ({ cs := DesSpec.newCs sp.cs { ts := ts, typ := a.typ, msid := a.msid, data := st.buf ++ sl },
                streams := mapInsert k { ts := ts, delta := delta, field24 := a.field24, len := a.len, typ := a.typ,
                                         msid := a.msid, buf := [], inFlight := false } sp.streams },
              some { ts := ts, typ := a.typ, msid := a.msid, data := st.buf ++ sl }, r)
      else
        some ({ sp with streams := mapInsert k { ts := ts, delta := delta, field24 := a.field24, len := a.len,
                                                 typ := a.typ, msid := a.msid, buf := st.buf ++ sl, inFlight := true }
                                             sp.streams }, none, r) := by
  unfold Spec.Chunk.payload
  have h1 : ¬ a.len < st.buf.length := by omega
  simp only [h1, if_false, ← hsl]
  have h2 : ¬ (sl ++ r).length < sl.length := by simp
  simp only [h2, if_false, List.take_left', List.drop_left']
  rfl

/-- a chunk whose header the serializer wrote, as the specification reader sees it -/
theorem spec_chunk (sp : Spec.Chunk.State) (fmt : Fmt) (h : Ser.Hdr) (hw : HdrWF h) (st : CsState) (r : Bytes)
    (hst : (mapGet h.csid sp.streams).getD {} = st)
    (hpres : fmt ≠ .f0 → (mapGet h.csid sp.streams).isNone = false)
    (h3 : fmt = .f3 → st.field24 = min h.field 16777215)
    (h2 : fmt = .f3 ∨ fmt = .f2 → st.len = h.len ∧ st.typ = h.typ)
    (h1 : fmt ≠ .f0 → st.msid = h.msid) :
    Spec.Chunk.chunk sp (Ser.headerBytes fmt h ++ r) =
      match Spec.Chunk.tsDelta fmt.toNat st (announced h) with
      | none => none
      | some (ts, delta) => Spec.Chunk.payload sp h.csid st (announced h) ts delta r := by
  unfold Spec.Chunk.chunk
  rw [basic_headerBytes fmt h hw r]
  have hc := hw.csid
  have : ¬ h.csid < 2 := by omega
  simp only [this, if_false]
  unfold Spec.Chunk.body
  rw [hst]
  have hno : ¬ (fmt.toNat ≠ 0 ∧ (mapGet h.csid sp.streams).isNone = true) := by
    intro ⟨ha, hb⟩
    have : fmt ≠ .f0 := by intro hf; rw [hf] at ha; simp [Fmt.toNat] at ha
    rw [hpres this] at hb; simp at hb
  simp only [hno, if_false]
  rw [readHeader_hdrTail fmt h hw st r h3 h2 h1]
  rfl

theorem value_announced (h : Ser.Hdr) : (announced h).ext.getD (announced h).field24 = h.field := by
  unfold announced
  by_cases hF : h.field < 16777215
  · simp only [hF, if_true, Option.getD_none]; omega
  · simp only [hF, if_false, Option.getD_some]

theorem csidFor_range (t : Nat) : 2 ≤ Ser.csidFor t ∧ Ser.csidFor t ≤ 63 := by
  unfold Ser.csidFor
  split
  · omega
  · split
    · omega
    · split
      · omega
      · split <;> omega

/-- one chunk of a message, header written by the serializer, payload the slice it cut -/
theorem one_chunk (sp : Spec.Chunk.State) (fmt : Fmt) (h : Ser.Hdr) (hw : HdrWF h) (st : CsState) (pre sl r : Bytes)
    (hst : (mapGet h.csid sp.streams).getD {} = st)
    (hpres : fmt ≠ .f0 → (mapGet h.csid sp.streams).isNone = false)
    (h3 : fmt = .f3 → st.field24 = min h.field 16777215)
    (h2 : fmt = .f3 ∨ fmt = .f2 → st.len = h.len ∧ st.typ = h.typ)
    (h1 : fmt ≠ .f0 → st.msid = h.msid)
    (htd : Spec.Chunk.tsDelta fmt.toNat st (announced h) = some (h.ts, h.field))
    (hbuf : st.buf = pre) (hlen : pre.length ≤ h.len) (hsl : sl.length = min sp.cs (h.len - pre.length)) :
    Spec.Chunk.chunk sp (Ser.headerBytes fmt h ++ (sl ++ r)) =
      if (pre ++ sl).length = h.len then
        some ({ cs := DesSpec.newCs sp.cs { ts := h.ts, typ := h.typ, msid := h.msid, data := pre ++ sl },
                streams := mapInsert h.csid (stOf h [] false) sp.streams },
              some { ts := h.ts, typ := h.typ, msid := h.msid, data := pre ++ sl }, r)
      else
        some ({ sp with streams := mapInsert h.csid (stOf h (pre ++ sl) true) sp.streams }, none, r) := by
  rw [spec_chunk sp fmt h hw st (sl ++ r) hst hpres h3 h2 h1, htd]
  simp only
  subst hbuf
  rw [spec_payload_slice sp h.csid st (announced h) h.ts h.field sl r hlen hsl]
  rfl

/-- what ties the header `h2` the serializer stored for the message being sent to that message -/
structure Ctx (m : Msg) (force drop : Bool) (h2 : Ser.Hdr) : Prop where
  csid : h2.csid = Ser.csidFor m.typ
  ts : h2.ts = m.ts
  len : h2.len = m.data.length
  typ : h2.typ = m.typ
  msid : h2.msid = m.msid
  drop : h2.drop = drop
  forced : force = true → h2.field = m.ts
  wf : HdrWF h2

/-- a continuation chunk: type 3 (or, when uncompressed headers are forced, the identical full header) -/
theorem addChunk_cont (ser : Ser.State) (m : Msg) (force drop : Bool) (h2 : Ser.Hdr) (hc : Ctx m force drop h2)
    (sl : Bytes) (hprev : mapGet (Ser.csidFor m.typ) ser.prev = some h2) :
    Ser.addChunk ser force m true sl drop =
      ({ ser with prev := mapInsert (Ser.csidFor m.typ) h2 ser.prev },
       Ser.headerBytes (if force then .f0 else .f3) h2 ++ sl) := by
  obtain ⟨c1, c2, c3, c4, c5, c6, c7, _⟩ := hc
  unfold Ser.addChunk
  cases force with
  | true =>
    have := c7 rfl
    cases h2
    simp_all
  | false =>
    simp only [Bool.false_eq_true, if_false, hprev, if_true]
    cases h2
    simp_all

theorem csidOf_headerBytes (fmt : Fmt) (h : Ser.Hdr) (hw : HdrWF h) (r : Bytes) :
    Spec.Chunk.csidOf (Ser.headerBytes fmt h ++ r) = h.csid := by
  unfold Spec.Chunk.csidOf; rw [basic_headerBytes fmt h hw r]

theorem headerBytes_append_ne (fmt : Fmt) (h : Ser.Hdr) (r : Bytes) : Ser.headerBytes fmt h ++ r ≠ [] := by
  rw [headerBytes_eq]; simp

theorem msg_eta (m : Msg) : ({ ts := m.ts, typ := m.typ, msid := m.msid, data := m.data } : Msg) = m := by
  cases m; rfl

/-- the specification reader on a continuation chunk -/
theorem spec_cont_chunk (sp : Spec.Chunk.State) (m : Msg) (force drop : Bool) (h2 : Ser.Hdr) (hc : Ctx m force drop h2)
    (pre sl r : Bytes) (hget : mapGet h2.csid sp.streams = some (stOf h2 pre true))
    (hlen : pre.length ≤ h2.len) (hsl : sl.length = min sp.cs (h2.len - pre.length)) :
    Spec.Chunk.chunk sp (Ser.headerBytes (if force then .f0 else .f3) h2 ++ (sl ++ r)) =
      (if (pre ++ sl).length = h2.len then
        some ({ cs := DesSpec.newCs sp.cs { ts := h2.ts, typ := h2.typ, msid := h2.msid, data := pre ++ sl },
                streams := mapInsert h2.csid (stOf h2 [] false) sp.streams },
              some { ts := h2.ts, typ := h2.typ, msid := h2.msid, data := pre ++ sl }, r)
      else
        some ({ sp with streams := mapInsert h2.csid (stOf h2 (pre ++ sl) true) sp.streams }, none, r)) ∧
    Spec.Chunk.strictOk sp (some h2.csid) (Ser.headerBytes (if force then .f0 else .f3) h2 ++ (sl ++ r)) = true := by
  have hst : (mapGet h2.csid sp.streams).getD {} = stOf h2 pre true := by rw [hget]; rfl
  constructor
  · apply one_chunk sp _ h2 hc.wf (stOf h2 pre true) pre sl r hst
    · intro _; rw [hget]; rfl
    · intro _; rfl
    · intro _; exact ⟨rfl, rfl⟩
    · intro _; rfl
    · cases force with
      | true =>
        have hf := hc.forced rfl
        unfold Spec.Chunk.tsDelta
        rw [value_announced]
        simp [stOf, Fmt.toNat, announced, hf, hc.ts]
      | false =>
        unfold Spec.Chunk.tsDelta
        simp [stOf, Fmt.toNat]
    · rfl
    · exact hlen
    · exact hsl
  · unfold Spec.Chunk.strictOk
    rw [basic_headerBytes _ h2 hc.wf]
    simp [hget, stOf]

theorem cont_reads (m : Msg) (force drop : Bool) (h2 : Ser.Hdr) (hc : Ctx m force drop h2)
    (hok : Spec.Chunk.msgOk (some m) = true) :
    ∀ (f : Nat) (rem pre : Bytes) (ser : Ser.State) (sp : Spec.Chunk.State),
      pre ++ rem = m.data → rem ≠ [] → rem.length ≤ f → sp.cs = ser.maxCs → 1 ≤ ser.maxCs →
      mapGet h2.csid ser.prev = some h2 → mapGet h2.csid sp.streams = some (stOf h2 pre true) →
      ∃ ser' bytes sp',
        Ser.addChunks ser force m drop true (Ser.slicesFuel f ser.maxCs rem) = (ser', bytes) ∧
        ser'.maxCs = ser.maxCs ∧ UpdAt h2.csid h2 ser.prev ser'.prev ∧
        UpdAt h2.csid (stOf h2 [] false) sp.streams sp'.streams ∧ sp'.cs = DesSpec.newCs sp.cs m ∧
        ∀ tail ms sE cE, Reads sp' none tail ms sE cE → Reads sp (some h2.csid) (bytes ++ tail) (m :: ms) sE cE := by
  intro f
  induction f with
  | zero =>
    intro rem pre ser sp _ hne hlen
    cases rem with
    | nil => exact absurd rfl hne
    | cons _ _ => simp at hlen
  | succ f ih =>
    intro rem pre ser sp hdata hne hlen hcs hpos hprev hget
    have hk := hc.csid
    have hrem : rem.isEmpty = false := by
      cases rem with
      | nil => exact absurd rfl hne
      | cons _ _ => rfl
    have hdl : m.data.length = pre.length + rem.length := by rw [← hdata, List.length_append]
    have hsl : (rem.take ser.maxCs).length = min sp.cs (h2.len - pre.length) := by
      rw [List.length_take, hc.len, hdl, hcs]; omega
    have hple : pre.length ≤ h2.len := by rw [hc.len, hdl]; omega
    have hprev' : mapGet (Ser.csidFor m.typ) ser.prev = some h2 := by rw [← hk]; exact hprev
    simp only [Ser.slicesFuel, hrem, Bool.false_eq_true, if_false, Ser.addChunks]
    rw [addChunk_cont ser m force drop h2 hc _ hprev', ← hk]
    by_cases hfin : rem.length ≤ ser.maxCs
    · -- last chunk
      have hdrop : rem.drop ser.maxCs = [] := List.drop_eq_nil_of_le hfin
      have htake : rem.take ser.maxCs = rem := List.take_of_length_le hfin
      have hnil : Ser.slicesFuel f ser.maxCs (rem.drop ser.maxCs) = [] := by
        rw [hdrop]; cases f <;> rfl
      rw [hnil]
      simp only [Ser.addChunks, List.append_nil]
      refine ⟨_, _, { cs := DesSpec.newCs sp.cs m, streams := mapInsert h2.csid (stOf h2 [] false) sp.streams },
        rfl, rfl, UpdAt.insert _ _ _, UpdAt.insert _ _ _, rfl, ?_⟩
      intro tail ms sE cE hreads
      obtain ⟨hchunk, hstrict⟩ := spec_cont_chunk sp m force drop h2 hc pre (rem.take ser.maxCs) tail hget hple hsl
      have hcomplete : (pre ++ rem.take ser.maxCs).length = h2.len := by
        rw [htake, hc.len, ← hdata]
      rw [if_pos hcomplete] at hchunk
      have hmsg : ({ ts := h2.ts, typ := h2.typ, msid := h2.msid, data := pre ++ rem.take ser.maxCs } : Msg) = m := by
        rw [htake, hdata, hc.ts, hc.typ, hc.msid]
      rw [hmsg] at hchunk
      rw [List.append_assoc]
      have := Reads.step sp _ (some h2.csid) _ tail (some m) ms (headerBytes_append_ne _ _ _) hstrict hchunk hok
        (by simp [headerBytes_eq]; omega) sE cE (by simpa [Spec.Chunk.nextCur] using hreads)
      simpa using this
    · -- more chunks follow
      have hdne : rem.drop ser.maxCs ≠ [] := by
        intro h; have := congrArg List.length h; simp at this; omega
      have hs1 : mapGet h2.csid (mapInsert h2.csid h2 ser.prev) = some h2 := mapGet_mapInsert_self _ _ _
      have hsp1 : mapGet h2.csid (mapInsert h2.csid (stOf h2 (pre ++ rem.take ser.maxCs) true) sp.streams)
          = some (stOf h2 (pre ++ rem.take ser.maxCs) true) := mapGet_mapInsert_self _ _ _
      obtain ⟨ser', b2, sp', hadd, hmax, hu1, hu2, hcs', hrd⟩ :=
        ih (rem.drop ser.maxCs) (pre ++ rem.take ser.maxCs) { ser with prev := mapInsert h2.csid h2 ser.prev }
          { sp with streams := mapInsert h2.csid (stOf h2 (pre ++ rem.take ser.maxCs) true) sp.streams }
          (by rw [List.append_assoc, List.take_append_drop]; exact hdata) hdne
          (by rw [List.length_drop]; omega) hcs hpos hs1 hsp1
      simp only at hadd
      rw [hadd]
      refine ⟨ser', _, sp', rfl, hmax, (UpdAt.insert _ _ _).trans hu1, (UpdAt.insert _ _ _).trans hu2, hcs', ?_⟩
      intro tail ms sE cE hreads
      obtain ⟨hchunk, hstrict⟩ := spec_cont_chunk sp m force drop h2 hc pre (rem.take ser.maxCs) (b2 ++ tail) hget hple hsl
      have hnot : ¬ (pre ++ rem.take ser.maxCs).length = h2.len := by
        rw [List.length_append, List.length_take, hc.len, hdl]; omega
      rw [if_neg hnot] at hchunk
      have hr := hrd tail ms sE cE hreads
      have hbs : (Ser.headerBytes (if force then Fmt.f0 else Fmt.f3) h2 ++ rem.take ser.maxCs ++ b2) ++ tail
          = Ser.headerBytes (if force then Fmt.f0 else Fmt.f3) h2 ++ (rem.take ser.maxCs ++ (b2 ++ tail)) := by
        simp only [List.append_assoc]
      rw [hbs]
      have := Reads.step sp _ (some h2.csid) _ (b2 ++ tail) none (m :: ms) (headerBytes_append_ne _ _ _) hstrict hchunk rfl
        (by simp [headerBytes_eq]; omega) sE cE (by
          rw [csidOf_headerBytes _ h2 hc.wf]; simpa [Spec.Chunk.nextCur] using hr)
      simpa using this

/-- serializer state vs. specification reader state between two packets -/
structure SR (ser : Ser.State) (sp : Spec.Chunk.State) : Prop where
  cs : sp.cs = ser.maxCs
  pos : 1 ≤ ser.maxCs
  idle : ∀ k st, mapGet k sp.streams = some st → st.inFlight = false ∧ st.buf = []
  hdr : ∀ k h, mapGet k ser.prev = some h →
    HdrWF h ∧ h.csid = k ∧ h.ts < 4294967296 ∧ (h.drop = false → mapGet k sp.streams = some (stOf h [] false))

/-- what the types of `MessagePayload` guarantee, plus the length the serializer accepts -/
structure MsgWF (m : Msg) : Prop where
  ts : m.ts < 4294967296
  msid : m.msid < 4294967296
  typ : m.typ < 256
  len : m.data.length ≤ 16777215

/-- the specification reader accepts the first chunk of a message and does the expected thing -/
def FirstOK (sp : Spec.Chunk.State) (fmt : Fmt) (h2 : Ser.Hdr) (sl : Bytes) : Prop :=
  ∀ r, sl.length = min sp.cs h2.len →
    Spec.Chunk.chunk sp (Ser.headerBytes fmt h2 ++ (sl ++ r)) =
      (if ([] ++ sl).length = h2.len then
        some ({ cs := DesSpec.newCs sp.cs { ts := h2.ts, typ := h2.typ, msid := h2.msid, data := [] ++ sl },
                streams := mapInsert h2.csid (stOf h2 [] false) sp.streams },
              some { ts := h2.ts, typ := h2.typ, msid := h2.msid, data := [] ++ sl }, r)
      else
        some ({ sp with streams := mapInsert h2.csid (stOf h2 ([] ++ sl) true) sp.streams }, none, r)) ∧
    Spec.Chunk.strictOk sp none (Ser.headerBytes fmt h2 ++ (sl ++ r)) = true

theorem idle_getD {sp : Spec.Chunk.State} (hidle : ∀ k st, mapGet k sp.streams = some st → st.inFlight = false ∧ st.buf = [])
    (k : Nat) : ((mapGet k sp.streams).getD {}).inFlight = false ∧ ((mapGet k sp.streams).getD {}).buf = [] := by
  cases hg : mapGet k sp.streams with
  | none => exact ⟨rfl, rfl⟩
  | some st => exact hidle k st hg

/-- a full (type 0) header starting a message -/
theorem first_f0 (sp : Spec.Chunk.State)
    (hidle : ∀ k st, mapGet k sp.streams = some st → st.inFlight = false ∧ st.buf = [])
    (h2 : Ser.Hdr) (hw : HdrWF h2) (hf : h2.field = h2.ts) (sl : Bytes) : FirstOK sp .f0 h2 sl := by
  intro r hsl
  obtain ⟨hif, hb⟩ := idle_getD hidle h2.csid
  constructor
  · apply one_chunk sp .f0 h2 hw _ [] sl r rfl
    · intro h; exact absurd rfl h
    · intro h; cases h
    · intro h; rcases h with h | h <;> cases h
    · intro h; exact absurd rfl h
    · unfold Spec.Chunk.tsDelta
      rw [value_announced]
      simp [hif, Fmt.toNat, hf]
    · exact hb
    · simp
    · simpa using hsl
  · unfold Spec.Chunk.strictOk
    rw [basic_headerBytes _ h2 hw]
    cases hg : mapGet h2.csid sp.streams <;> simp [Fmt.toNat, hg]

theorem add_sub32 (a b : Nat) (ha : a < 4294967296) (hb : b < 4294967296) : add32 a (sub32 b a) = b := by
  unfold add32 sub32; simp only [M32]; omega

/-- a compressed (type 1, 2 or 3) header starting a message, chosen against a predecessor `p` that was
    not sent in a droppable packet -/
theorem first_cmp (sp : Spec.Chunk.State) (p : Ser.Hdr) (hpts : p.ts < 4294967296)
    (hget : mapGet p.csid sp.streams = some (stOf p [] false))
    (h : Ser.Hdr) (hw : HdrWF h) (hcs : h.csid = p.csid) (hts : h.ts < 4294967296)
    (hfield : h.field = sub32 h.ts p.ts) (hne : Ser.headerFormat h p ≠ .f0) (sl : Bytes) :
    FirstOK sp (Ser.headerFormat h p) h sl := by
  intro r hsl
  have hget' : mapGet h.csid sp.streams = some (stOf p [] false) := by rw [hcs]; exact hget
  have hst : (mapGet h.csid sp.streams).getD {} = stOf p [] false := by rw [hget']; rfl
  have hmsid : h.msid = p.msid := by
    by_cases hm : h.msid = p.msid
    · exact hm
    · exfalso; apply hne; unfold Ser.headerFormat; simp [hm]
  have hts' : add32 p.ts h.field = h.ts := by rw [hfield]; exact add_sub32 _ _ hpts hts
  -- the three compressed formats
  have key : ∀ fmt : Fmt, fmt = Ser.headerFormat h p → fmt ≠ .f0 →
      (fmt = .f3 → h.field = p.field) ∧ (fmt = .f3 ∨ fmt = .f2 → p.len = h.len ∧ p.typ = h.typ) := by
    intro fmt hf hn
    unfold Ser.headerFormat at hf
    simp only [hmsid, ne_eq, not_true_eq_false, if_false] at hf
    by_cases h1 : h.typ ≠ p.typ ∨ h.len ≠ p.len
    · simp only [h1, if_true] at hf; subst hf; simp
    · simp only [h1, if_false] at hf
      have h1' : p.len = h.len ∧ p.typ = h.typ := by
        constructor
        · by_cases hh : p.len = h.len
          · exact hh
          · exact absurd (Or.inr (fun e => hh e.symm)) h1
        · by_cases hh : p.typ = h.typ
          · exact hh
          · exact absurd (Or.inl (fun e => hh e.symm)) h1
      by_cases h2 : h.field ≠ p.field
      · simp only [h2, if_true] at hf; subst hf; exact ⟨by simp, fun _ => h1'⟩
      · simp only [h2, if_false] at hf; subst hf
        exact ⟨fun _ => by simpa using h2, fun _ => h1'⟩
  obtain ⟨k3, k2⟩ := key _ rfl hne
  generalize hfm : Ser.headerFormat h p = fmt at *
  constructor
  · apply one_chunk sp fmt h hw (stOf p [] false) [] sl r hst
    · intro _; rw [hget']; rfl
    · intro h3; show min p.field 16777215 = min h.field 16777215; rw [k3 h3]
    · intro h2; exact k2 h2
    · intro _; exact hmsid.symm
    · unfold Spec.Chunk.tsDelta
      rw [value_announced]
      cases fmt with
      | f0 => exact absurd rfl hne
      | f1 => simp [stOf, Fmt.toNat, hts']
      | f2 => simp [stOf, Fmt.toNat, hts']
      | f3 => simp [stOf, Fmt.toNat, ← k3 rfl, hts']
    · rfl
    · simp
    · simpa using hsl
  · unfold Spec.Chunk.strictOk
    rw [basic_headerBytes _ h hw]
    simp only [hget', Bool.true_and]
    cases fmt with
    | f0 => exact absurd rfl hne
    | f1 => simp [Fmt.toNat]
    | f2 => simp [Fmt.toNat]
    | f3 =>
      have hf := k3 rfl
      by_cases hF : p.field < 16777215
      · have : ¬ (min p.field 16777215 = 16777215) := by omega
        simp [Fmt.toNat, stOf, this]
      · have h1 : min p.field 16777215 = 16777215 := by omega
        have h2 : ¬ h.field < maxTs24 := by rw [hf]; simpa [maxTs24] using hF
        have hfl := hw.field
        have hfl' : p.field < 4294967296 := by rw [← hf]; exact hfl
        have h2' : ¬ p.field < maxTs24 := by rw [← hf]; exact h2
        simp only [Fmt.toNat, stOf, h1, hdrTail, if_true, and_self, List.nil_append, h2, if_false,
          List.append_assoc, hf, true_or, reduceCtorEq, h2', rd4_be32 _ _ hfl', decide_true]

theorem sub32_lt (a b : Nat) : sub32 a b < 4294967296 := by
  unfold sub32; simp only [M32]; omega

/-- the first chunk of a message: which header the serializer writes, and that the specification
    reader accepts it with the intended meaning -/
theorem first_chunk (ser : Ser.State) (sp : Spec.Chunk.State) (hSR : SR ser sp) (m : Msg) (hm : MsgWF m)
    (force drop : Bool) (sl : Bytes) :
    ∃ fmt h2, Ctx m force drop h2 ∧
      Ser.addChunk ser force m false sl drop =
        ({ ser with prev := mapInsert (Ser.csidFor m.typ) h2 ser.prev }, Ser.headerBytes fmt h2 ++ sl) ∧
      FirstOK sp fmt h2 sl := by
  have hk := csidFor_range m.typ
  have hmts := hm.ts; have hmm := hm.msid; have hmt := hm.typ; have hml := hm.len
  -- the full-header outcome, shared by four of the five branches
  have full : ∀ (_ : True),
      Ctx m force drop { csid := Ser.csidFor m.typ, ts := m.ts, field := m.ts, len := m.data.length, typ := m.typ,
                         msid := m.msid, drop := drop } ∧
      FirstOK sp .f0 { csid := Ser.csidFor m.typ, ts := m.ts, field := m.ts, len := m.data.length, typ := m.typ,
                       msid := m.msid, drop := drop } sl := by
    intro _
    have hw : HdrWF { csid := Ser.csidFor m.typ, ts := m.ts, field := m.ts, len := m.data.length, typ := m.typ,
                      msid := m.msid, drop := drop } := ⟨hk, hmts, by show m.data.length < 16777216; omega, hmt, hmm⟩
    exact ⟨⟨rfl, rfl, rfl, rfl, rfl, rfl, fun _ => rfl, hw⟩, first_f0 sp hSR.idle _ hw rfl sl⟩
  cases force with
  | true =>
    obtain ⟨hc, hok⟩ := full trivial
    refine ⟨.f0, _, hc, ?_, hok⟩
    simp [Ser.addChunk]
  | false =>
    cases hg : mapGet (Ser.csidFor m.typ) ser.prev with
    | none =>
      obtain ⟨hc, hok⟩ := full trivial
      refine ⟨.f0, _, hc, ?_, hok⟩
      simp [Ser.addChunk, hg]
    | some p =>
      by_cases hpd : p.drop = true
      · obtain ⟨hc, hok⟩ := full trivial
        refine ⟨.f0, _, hc, ?_, hok⟩
        simp [Ser.addChunk, hg, hpd]
      · have hpd' : p.drop = false := by simpa using hpd
        obtain ⟨hpw, hpc, hpts, hpst⟩ := hSR.hdr _ p hg
        by_cases hfm : Ser.headerFormat { csid := Ser.csidFor m.typ, ts := m.ts, field := sub32 m.ts p.ts,
                                          len := m.data.length, typ := m.typ, msid := m.msid, drop := drop } p = .f0
        · obtain ⟨hc, hok⟩ := full trivial
          refine ⟨.f0, _, hc, ?_, hok⟩
          simp [Ser.addChunk, hg, hpd', hfm]
        · have hw : HdrWF { csid := Ser.csidFor m.typ, ts := m.ts, field := sub32 m.ts p.ts, len := m.data.length,
                            typ := m.typ, msid := m.msid, drop := drop } :=
            ⟨hk, sub32_lt _ _, by show m.data.length < 16777216; omega, hmt, hmm⟩
          refine ⟨_, _, ⟨rfl, rfl, rfl, rfl, rfl, rfl, (fun h => by cases h), hw⟩, ?_,
            first_cmp sp p hpts (by rw [hpc]; exact hpst hpd') _ hw hpc.symm hmts rfl hfm sl⟩
          simp [Ser.addChunk, hg, hpd', hfm]

theorem slicesFuel_nil (f cs : Nat) : Ser.slicesFuel f cs [] = [] := by cases f <;> rfl

theorem slices_cons (cs : Nat) (data : Bytes) (hne : data ≠ []) :
    Ser.slices cs data = data.take cs :: Ser.slicesFuel (data.length - 1) cs (data.drop cs) := by
  unfold Ser.slices
  cases data with
  | nil => exact absurd rfl hne
  | cons x t => simp [Ser.slicesFuel]

/-- **one packet.**  A message the serializer accepts becomes a packet that the specification reader —
    in the state that matches the serializer's — reads as exactly that message. -/
theorem message_reads (ser : Ser.State) (sp : Spec.Chunk.State) (hSR : SR ser sp) (m : Msg)
    (hts : m.ts < 4294967296) (hmsid : m.msid < 4294967296) (htyp : m.typ < 256)
    (hok : Spec.Chunk.msgOk (some m) = true) (force drop : Bool) (ser' : Ser.State) (p : Ser.Packet)
    (h : Ser.serialize ser m force drop = .ok (ser', p)) :
    ∃ h2 sp', Ctx m force drop h2 ∧ p.drop = drop ∧ ser'.maxCs = ser.maxCs ∧
      UpdAt (Ser.csidFor m.typ) h2 ser.prev ser'.prev ∧
      UpdAt (Ser.csidFor m.typ) (stOf h2 [] false) sp.streams sp'.streams ∧
      sp'.cs = DesSpec.newCs sp.cs m ∧
      ∀ tail ms sE cE, Reads sp' none tail ms sE cE → Reads sp none (p.bytes ++ tail) (m :: ms) sE cE := by
  unfold Ser.serialize at h
  by_cases hl : m.data.length > maxMsgLen
  · simp [hl] at h
  · simp only [hl, if_false] at h
    have hpos := hSR.pos
    have hnh : ¬ (ser.maxCs = 0 ∧ ¬ m.data.isEmpty = true) := by omega
    simp only [hnh, if_false, Ser.Outcome.ok.injEq, Prod.mk.injEq] at h
    obtain ⟨hs', hp⟩ := h
    have hmw : MsgWF m := ⟨hts, hmsid, htyp, by simp only [maxMsgLen] at hl; omega⟩
    by_cases hde : m.data = []
    · -- a message without payload: one chunk, no payload bytes (fix F1)
      obtain ⟨fmt, h2, hc, hadd, hfo⟩ := first_chunk ser sp hSR m hmw force drop []
      have hsl : Ser.slices ser.maxCs m.data = [[]] := by rw [hde]; rfl
      rw [hsl] at hs' hp
      simp only [Ser.addChunks, hadd, List.append_nil] at hs' hp
      have hlen0 : h2.len = 0 := by rw [hc.len, hde]; rfl
      refine ⟨h2, { cs := DesSpec.newCs sp.cs m, streams := mapInsert h2.csid (stOf h2 [] false) sp.streams }, hc,
        by rw [← hp], by rw [← hs'], ?_, ?_, rfl, ?_⟩
      · rw [← hs']; exact UpdAt.insert _ _ _
      · rw [← hc.csid]; exact UpdAt.insert _ _ _
      · intro tail ms sE cE hreads
        obtain ⟨hchunk, hstrict⟩ := hfo tail (by rw [hlen0]; simp)
        have hcomplete : ([] ++ ([] : Bytes)).length = h2.len := by rw [hlen0]; rfl
        rw [if_pos hcomplete] at hchunk
        have hmsg : ({ ts := h2.ts, typ := h2.typ, msid := h2.msid, data := [] ++ [] } : Msg) = m := by
          rw [hc.ts, hc.typ, hc.msid]; cases m; simp_all
        rw [hmsg] at hchunk
        rw [← hp]
        simp only [List.nil_append, List.append_nil] at hchunk hstrict ⊢
        have := Reads.step sp _ none _ tail (some m) ms (headerBytes_append_ne _ _ _) hstrict hchunk hok
          (by simp [headerBytes_eq]; omega) sE cE (by simpa [Spec.Chunk.nextCur] using hreads)
        simpa using this
    · -- at least one payload byte
      rw [slices_cons _ _ hde] at hs' hp
      obtain ⟨fmt, h2, hc, hadd, hfo⟩ := first_chunk ser sp hSR m hmw force drop (m.data.take ser.maxCs)
      simp only [Ser.addChunks, hadd] at hs' hp
      have hsl : (m.data.take ser.maxCs).length = min sp.cs h2.len := by
        rw [List.length_take, hc.len, hSR.cs]
      have hk := hc.csid
      by_cases hfin : m.data.length ≤ ser.maxCs
      · -- single chunk
        have hdrop : m.data.drop ser.maxCs = [] := List.drop_eq_nil_of_le hfin
        have htake : m.data.take ser.maxCs = m.data := List.take_of_length_le hfin
        rw [hdrop, slicesFuel_nil] at hs' hp
        simp only [Ser.addChunks, List.append_nil] at hs' hp
        refine ⟨h2, { cs := DesSpec.newCs sp.cs m, streams := mapInsert h2.csid (stOf h2 [] false) sp.streams }, hc,
          by rw [← hp], by rw [← hs'], ?_, ?_, rfl, ?_⟩
        · rw [← hs']; exact UpdAt.insert _ _ _
        · rw [← hc.csid]; exact UpdAt.insert _ _ _
        · intro tail ms sE cE hreads
          obtain ⟨hchunk, hstrict⟩ := hfo tail hsl
          have hcomplete : ([] ++ m.data.take ser.maxCs).length = h2.len := by rw [htake, hc.len]; rfl
          rw [if_pos hcomplete] at hchunk
          have hmsg : ({ ts := h2.ts, typ := h2.typ, msid := h2.msid, data := [] ++ m.data.take ser.maxCs } : Msg) = m := by
            rw [htake, hc.ts, hc.typ, hc.msid]; cases m; simp_all
          rw [hmsg] at hchunk
          rw [← hp, List.append_assoc]
          have := Reads.step sp _ none _ tail (some m) ms (headerBytes_append_ne _ _ _) hstrict hchunk hok
            (by simp [headerBytes_eq]; omega) sE cE (by simpa [Spec.Chunk.nextCur] using hreads)
          simpa using this
      · -- several chunks
        have hdne : m.data.drop ser.maxCs ≠ [] := by
          intro hh; have := congrArg List.length hh; simp at this; omega
        have hs1 : mapGet h2.csid (mapInsert (Ser.csidFor m.typ) h2 ser.prev) = some h2 := by
          rw [← hk]; exact mapGet_mapInsert_self _ _ _
        have hsp1 : mapGet h2.csid (mapInsert h2.csid (stOf h2 (m.data.take ser.maxCs) true) sp.streams)
            = some (stOf h2 (m.data.take ser.maxCs) true) := mapGet_mapInsert_self _ _ _
        obtain ⟨ser2, b2, sp', hadd2, hmax, hu1, hu2, hcs', hrd⟩ :=
          cont_reads m force drop h2 hc hok (m.data.length - 1) (m.data.drop ser.maxCs) (m.data.take ser.maxCs)
            { ser with prev := mapInsert (Ser.csidFor m.typ) h2 ser.prev }
            { sp with streams := mapInsert h2.csid (stOf h2 (m.data.take ser.maxCs) true) sp.streams }
            (List.take_append_drop _ _) hdne (by rw [List.length_drop]; omega) hSR.cs hpos hs1 hsp1
        simp only at hadd2
        rw [hadd2] at hs' hp
        simp only at hs' hp
        refine ⟨h2, sp', hc, by rw [← hp], by rw [← hs']; exact hmax, ?_, ?_, hcs', ?_⟩
        · rw [← hs']; rw [← hk] at hu1 ⊢; exact (UpdAt.insert _ _ _).trans hu1
        · rw [hk] at hu2; rw [← hk]; rw [hk]; exact (by rw [← hk]; exact UpdAt.insert _ _ _ : UpdAt (Ser.csidFor m.typ) _ sp.streams _).trans hu2
        · intro tail ms sE cE hreads
          obtain ⟨hchunk, hstrict⟩ := hfo (b2 ++ tail) hsl
          have hnot : ¬ ([] ++ m.data.take ser.maxCs).length = h2.len := by
            rw [List.nil_append, List.length_take, hc.len]; omega
          rw [if_neg hnot] at hchunk
          have hr := hrd tail ms sE cE hreads
          rw [← hp]
          have hbs : (Ser.headerBytes fmt h2 ++ m.data.take ser.maxCs ++ b2) ++ tail
              = Ser.headerBytes fmt h2 ++ (m.data.take ser.maxCs ++ (b2 ++ tail)) := by
            simp only [List.append_assoc]
          rw [hbs]
          simp only [List.nil_append] at hchunk
          have := Reads.step sp _ none _ (b2 ++ tail) none (m :: ms) (headerBytes_append_ne _ _ _) hstrict hchunk rfl
            (by simp [headerBytes_eq]; omega) sE cE (by
              rw [csidOf_headerBytes _ h2 hc.wf]; simpa [Spec.Chunk.nextCur] using hr)
          simpa using this

end Rml.SerSpec
