import Rml.Model.Bytes
namespace Rml.Bytes

@[simp] theorem b_toNat (n : Nat) : (b n).toNat = n % 256 := by
  simp [b, UInt8.toNat_ofNat']

theorem toNat_lt (x : UInt8) : x.toNat < 256 := UInt8.toNat_lt x

theorem beVal_be16 (n : Nat) (h : n < 65536) : beVal (be16 n) 0 = n := by
  simp only [be16, beVal, b_toNat]; omega

theorem beVal_be32 (n : Nat) (h : n < 4294967296) : beVal (be32 n) 0 = n := by
  simp only [be32, beVal, b_toNat]; omega

theorem beVal_be64 (n : Nat) (h : n < 18446744073709551616) : beVal (be64 n) 0 = n := by
  simp only [be64, be32, beVal, b_toNat, List.cons_append, List.nil_append]; omega

@[simp] theorem be16_length (n : Nat) : (be16 n).length = 2 := rfl
@[simp] theorem be24_length (n : Nat) : (be24 n).length = 3 := rfl
@[simp] theorem be32_length (n : Nat) : (be32 n).length = 4 := rfl
@[simp] theorem le32_length (n : Nat) : (le32 n).length = 4 := rfl
@[simp] theorem be64_length (n : Nat) : (be64 n).length = 8 := rfl

end Rml.Bytes
