import Rml.Model.Time
namespace Rml.Time

theorem cmp_gt (a b : Nat) :
    tsCompare a b = .gt ↔ (b < a ∧ a - b ≤ 2147483647) ∨ (a < b ∧ b - a > 2147483647) := by
  unfold tsCompare cmpNat maxAdjacent
  simp only [Nat.max_def, Nat.min_def]
  grind

theorem cmp_lt (a b : Nat) :
    tsCompare a b = .lt ↔ (a < b ∧ b - a ≤ 2147483647) ∨ (b < a ∧ a - b > 2147483647) := by
  unfold tsCompare cmpNat maxAdjacent
  simp only [Nat.max_def, Nat.min_def]
  grind

theorem cmp_eq (a b : Nat) : tsCompare a b = .eq ↔ a = b := by
  unfold tsCompare cmpNat maxAdjacent
  simp only [Nat.max_def, Nat.min_def]
  grind

end Rml.Time
