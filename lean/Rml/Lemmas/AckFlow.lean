/-
The workflow, media, metadata and stop theorems through the real entry point `handle_input`, acknowledgements
included.  `InStepP c v X Y`: the sessions are in step up to what each has emitted and the application has not
yet delivered.  Every `handle_input` call may send one acknowledgement — first in its results — and raises the
event of every acknowledgement it is handed before its other results; apart from those packets and events the
results are those of the `drain`-level theorems in Workflow.lean.
-/
import Rml.Lemmas.AckHop
import Rml.Lemmas.WfMeta
namespace Rml.AckFlow
open Rml Rml.Bytes Rml.Chunk Rml.Amf0 Rml.Msgs Rml.Sess Rml.SerHist Rml.Emit Rml.Link Rml.Exchange Rml.WfSteps Rml.Workflow Rml.AckHop

/-- acknowledgement packets with the count and the clock reading each carries -/
abbrev Acks := List (Ser.Packet × Nat × Nat)

def Acks.pairs (A : Acks) : List (Ser.Packet × Msg) := A.map fun x => (x.1, ackMsg x.2.1 x.2.2)
def Acks.ok (A : Acks) : Prop := A.length ≤ 1 ∧ ∀ x ∈ A, x.2.1 < 4294967296
def Acks.outS (A : Acks) : List Srv.Res := A.map fun x => .out x.1
def Acks.outC (A : Acks) : List Cli.Res := A.map fun x => .out x.1
def Acks.evS (A : Acks) : List Srv.Res := A.map fun x => .ev (.ackReceived x.2.1)
def Acks.evC (A : Acks) : List Cli.Res := A.map fun x => .ev (.ackReceived x.2.1)
def Acks.bytes (A : Acks) : Bytes := (A.map fun x => x.1.bytes).flatten

theorem wire_append (xs ys : List (Ser.Packet × Msg)) : wire (xs ++ ys) = wire xs ++ wire ys := by simp [wire]
theorem msgs_append (xs ys : List (Ser.Packet × Msg)) : msgs (xs ++ ys) = msgs xs ++ msgs ys := by simp [msgs]
theorem wire_pairs (A : Acks) : wire A.pairs = A.bytes := by
  simp [wire, Acks.pairs, Acks.bytes, List.map_map, Function.comp_def]

/-- acknowledgements ahead of other messages: their events come first, nothing else changes (server) -/
theorem srv_steps_acks (now : Nat) (ms : List Msg) : ∀ (A : Acks) (v : Srv.State), (∀ x ∈ A, x.2.1 < 4294967296) →
    SrvSteps.steps v now (msgs A.pairs ++ ms) =
      match SrvSteps.steps v now ms with
      | .ok (sF, rs) => .ok (sF, A.evS ++ rs)
      | .error e => .error e
  | [], v, _ => by
    simp only [Acks.pairs, msgs, List.map_nil, List.nil_append, Acks.evS]
    cases SrvSteps.steps v now ms with
    | ok q => rfl
    | error e => rfl
  | x :: A, v, h => by
    have hx := h x (List.mem_cons_self ..)
    have ih := srv_steps_acks now ms A v (fun y hy => h y (List.mem_cons_of_mem _ hy))
    simp only [Acks.pairs, msgs, List.map_cons, List.cons_append, SrvSteps.steps] at ih ⊢
    have hstep : SrvSteps.stepMsg v now (ackMsg x.2.1 x.2.2) = .ok (v, [.ev (.ackReceived x.2.1)]) :=
      srv_step_ack v now x.2.1 (epoch x.2.2) 0 hx
    rw [hstep]
    dsimp only
    rw [ih]
    cases SrvSteps.steps v now ms with
    | ok q => simp [Acks.evS]
    | error e => rfl

theorem cli_steps_acks (now : Nat) (ms : List Msg) : ∀ (A : Acks) (c : Cli.State), (∀ x ∈ A, x.2.1 < 4294967296) →
    CliSteps.steps c now (msgs A.pairs ++ ms) =
      match CliSteps.steps c now ms with
      | .ok (sF, rs) => .ok (sF, A.evC ++ rs)
      | .error e => .error e
  | [], c, _ => by
    simp only [Acks.pairs, msgs, List.map_nil, List.nil_append, Acks.evC]
    cases CliSteps.steps c now ms with
    | ok q => rfl
    | error e => rfl
  | x :: A, c, h => by
    have hx := h x (List.mem_cons_self ..)
    have ih := cli_steps_acks now ms A c (fun y hy => h y (List.mem_cons_of_mem _ hy))
    simp only [Acks.pairs, msgs, List.map_cons, List.cons_append, CliSteps.steps] at ih ⊢
    have hstep : CliSteps.stepMsg c now (ackMsg x.2.1 x.2.2) = .ok (c, [.ev (.ackReceived x.2.1)]) :=
      cli_step_ack c now x.2.1 (epoch x.2.2) 0 hx
    rw [hstep]
    dsimp only
    rw [ih]
    cases CliSteps.steps c now ms with
    | ok q => simp [Acks.evC]
    | error e => rfl

theorem ackStep_lt (w : Option Nat) (since len n : Nat) (since' : Nat) (h : ackStep w since len = (since', some n)) : n < 4294967296 := by
  unfold ackStep at h
  cases w with
  | none => simp at h
  | some w =>
    simp only at h
    split at h
    · simp only [Prod.mk.injEq, Option.some.injEq] at h; omega
    · simp at h

/-- **one `handle_input` hop, server receiving**, with the acknowledgement (if one is due) as an
    existentially given list of at most one packet -/
theorem srv_hop {ser ser' : Ser.State} {v : Srv.State} {xs : List (Ser.Packet × Msg)} (now : Nat)
    (hl : Linked ser v.des) (hpos : 1 ≤ v.ser.maxCs) (he : Emits ser ser' xs) :
    ∃ (A : Acks) (v1 : Srv.State) (since' : Nat), A.ok ∧ Emits v.ser v1.ser A.pairs ∧ v1 = { v with ser := v1.ser } ∧
      ∀ sF rs, SrvSteps.steps { v1 with since := since' } now (msgs xs) = .ok (sF, rs) →
        ∃ core', Srv.handleInput v now (wire xs) = ({ sF with des := { core := core', buf := [] } }, .ok (A.outS ++ rs)) ∧
          Linked ser' { core := core', buf := [] } := by
  obtain ⟨hno, hyes⟩ := srv_input_hop now hl he
  cases hk : ackStep v.window v.since (wire xs).length with
  | mk since' ack =>
    cases ack with
    | none =>
      refine ⟨[], v, since', ⟨by simp, fun _ h => by cases h⟩, Emits.nil _, rfl, ?_⟩
      intro sF rs hst
      obtain ⟨core', hd, hl'⟩ := hno since' hk sF rs hst
      exact ⟨core', by simpa [Acks.outS] using hd, hl'⟩
    | some n =>
      have hn := ackStep_lt _ _ _ n since' hk
      obtain ⟨v1, p, hsend⟩ := srv_send_total v hpos (m := .ack n) (typ := 3) (body := be32 n) rfl (by simp [be32]) (epoch now) 0 false false
      obtain ⟨typ, body, hp, hem, hv1⟩ := srv_send_exact hsend trivial (epoch_lt now) (by decide)
      simp only [toPayload, Except.ok.injEq, Prod.mk.injEq] at hp
      obtain ⟨rfl, rfl⟩ := hp
      refine ⟨[(p, n, now)], v1, since', ⟨by simp, fun x hx => by simp at hx; rw [hx]; exact hn⟩, ?_, hv1, ?_⟩
      · simpa [Acks.pairs, ackMsg] using hem
      · intro sF rs hst
        obtain ⟨core', hd, hl', _⟩ := hyes since' n hk v1 p sF rs hsend hst
        exact ⟨core', by simpa [Acks.outS] using hd, hl'⟩

theorem cli_hop {ser ser' : Ser.State} {c : Cli.State} {xs : List (Ser.Packet × Msg)} (now : Nat)
    (hl : Linked ser c.des) (hpos : 1 ≤ c.ser.maxCs) (he : Emits ser ser' xs) :
    ∃ (A : Acks) (c1 : Cli.State) (since' : Nat), A.ok ∧ Emits c.ser c1.ser A.pairs ∧ c1 = { c with ser := c1.ser } ∧
      ∀ sF rs, CliSteps.steps { c1 with since := since' } now (msgs xs) = .ok (sF, rs) →
        ∃ core', Cli.handleInput c now (wire xs) = ({ sF with des := { core := core', buf := [] } }, .ok (A.outC ++ rs)) ∧
          Linked ser' { core := core', buf := [] } := by
  obtain ⟨hno, hyes⟩ := cli_input_hop now hl he
  cases hk : ackStep c.window c.since (wire xs).length with
  | mk since' ack =>
    cases ack with
    | none =>
      refine ⟨[], c, since', ⟨by simp, fun _ h => by cases h⟩, Emits.nil _, rfl, ?_⟩
      intro sF rs hst
      obtain ⟨core', hd, hl'⟩ := hno since' hk sF rs hst
      exact ⟨core', by simpa [Acks.outC] using hd, hl'⟩
    | some n =>
      have hn := ackStep_lt _ _ _ n since' hk
      obtain ⟨c1, p, hsend⟩ := cli_send_total c hpos (m := .ack n) (typ := 3) (body := be32 n) rfl (by simp [be32]) (epoch now) 0 false
      obtain ⟨typ, body, hp, hem, hc1⟩ := cli_send_exact hsend trivial (epoch_lt now) (by decide)
      simp only [toPayload, Except.ok.injEq, Prod.mk.injEq] at hp
      obtain ⟨rfl, rfl⟩ := hp
      refine ⟨[(p, n, now)], c1, since', ⟨by simp, fun x hx => by simp at hx; rw [hx]; exact hn⟩, ?_, hc1, ?_⟩
      · simpa [Acks.pairs, ackMsg] using hem
      · intro sF rs hst
        obtain ⟨core', hd, hl', _⟩ := hyes since' n hk c1 p sF rs hsend hst
        exact ⟨core', by simpa [Acks.outC] using hd, hl'⟩

theorem pairs_append (A B : Acks) : (A ++ B).pairs = A.pairs ++ B.pairs := by simp [Acks.pairs]
theorem evS_append (A B : Acks) : (A ++ B).evS = A.evS ++ B.evS := by simp [Acks.evS]
theorem evC_append (A B : Acks) : (A ++ B).evC = A.evC ++ B.evC := by simp [Acks.evC]

/-- the two sessions are in step up to what each has emitted and the application has not yet delivered:
    `X` from the client to the server, `Y` from the server to the client -/
structure InStepP (c : Cli.State) (v : Srv.State) (X Y : List (Ser.Packet × Msg)) : Prop where
  cs : ∃ ser0, Linked ser0 v.des ∧ Emits ser0 c.ser X
  sc : ∃ ser0, Linked ser0 c.des ∧ Emits ser0 v.ser Y

theorem InStepP.cpos {c v X Y} (h : InStepP c v X Y) : 1 ≤ c.ser.maxCs := by
  obtain ⟨ser0, hl, he⟩ := h.cs
  exact Safe.emits_cs_pos he (linked_pos hl)

theorem InStepP.vpos {c v X Y} (h : InStepP c v X Y) : 1 ≤ v.ser.maxCs := by
  obtain ⟨ser0, hl, he⟩ := h.sc
  exact Safe.emits_cs_pos he (linked_pos hl)

theorem InStepP.of_inStep {c v} (h : InStep c v) : InStepP c v [] [] :=
  ⟨⟨c.ser, h.cs, Emits.nil _⟩, ⟨v.ser, h.sc, Emits.nil _⟩⟩

/-- the client emits (an API call): its pending grows -/
theorem InStepP.client_emits {c c' v X Y xs} (h : InStepP c v X Y) (he : Emits c.ser c'.ser xs) (hd : c'.des = c.des) :
    InStepP c' v (X ++ xs) Y := by
  obtain ⟨ser0, hl, he0⟩ := h.cs
  obtain ⟨ser1, hl1, he1⟩ := h.sc
  exact ⟨⟨ser0, hl, he0.trans he⟩, ⟨ser1, by rw [hd]; exact hl1, he1⟩⟩

theorem InStepP.server_emits {c v v' X Y ys} (h : InStepP c v X Y) (he : Emits v.ser v'.ser ys) (hd : v'.des = v.des) :
    InStepP c v' X (Y ++ ys) := by
  obtain ⟨ser0, hl, he0⟩ := h.cs
  obtain ⟨ser1, hl1, he1⟩ := h.sc
  exact ⟨⟨ser0, by rw [hd]; exact hl, he0⟩, ⟨ser1, hl1, he1.trans he⟩⟩

/-- **delivery to the server**: everything pending from the client arrives in one `handle_input` call.
    At most one acknowledgement is sent, first; then the message-level fold runs over the pending
    messages; afterwards nothing is pending from the client, and the server's pending has grown by the
    acknowledgement and by whatever the fold emitted. -/
theorem srv_deliver {c : Cli.State} {v : Srv.State} {X Y : List (Ser.Packet × Msg)} (now : Nat) (h : InStepP c v X Y) :
    ∃ (A : Acks) (v1 : Srv.State) (since' : Nat), A.ok ∧ Emits v.ser v1.ser A.pairs ∧ v1 = { v with ser := v1.ser } ∧
      ∀ sF rs Z, SrvSteps.steps { v1 with since := since' } now (msgs X) = .ok (sF, rs) → Emits v1.ser sF.ser Z →
        ∃ vN, Srv.handleInput v now (wire X) = (vN, .ok (A.outS ++ rs)) ∧ vN = { sF with des := vN.des } ∧
          InStepP c vN [] (Y ++ A.pairs ++ Z) := by
  obtain ⟨ser0, hl, he0⟩ := h.cs
  obtain ⟨ser1, hl1, he1⟩ := h.sc
  obtain ⟨A, v1, since', hA, heA, hv1, hrest⟩ := srv_hop now hl h.vpos he0
  refine ⟨A, v1, since', hA, heA, hv1, ?_⟩
  intro sF rs Z hst heZ
  obtain ⟨core', hd, hl'⟩ := hrest sF rs hst
  refine ⟨_, hd, rfl, ⟨c.ser, hl', Emits.nil _⟩, ⟨ser1, hl1, ?_⟩⟩
  rw [List.append_assoc]
  exact he1.trans (heA.trans heZ)

theorem cli_deliver {c : Cli.State} {v : Srv.State} {X Y : List (Ser.Packet × Msg)} (now : Nat) (h : InStepP c v X Y) :
    ∃ (A : Acks) (c1 : Cli.State) (since' : Nat), A.ok ∧ Emits c.ser c1.ser A.pairs ∧ c1 = { c with ser := c1.ser } ∧
      ∀ sF rs Z, CliSteps.steps { c1 with since := since' } now (msgs Y) = .ok (sF, rs) → Emits c1.ser sF.ser Z →
        ∃ cN, Cli.handleInput c now (wire Y) = (cN, .ok (A.outC ++ rs)) ∧ cN = { sF with des := cN.des } ∧
          InStepP cN v (X ++ A.pairs ++ Z) [] := by
  obtain ⟨ser0, hl, he0⟩ := h.cs
  obtain ⟨ser1, hl1, he1⟩ := h.sc
  obtain ⟨A, c1, since', hA, heA, hc1, hrest⟩ := cli_hop now hl1 h.cpos he1
  refine ⟨A, c1, since', hA, heA, hc1, ?_⟩
  intro sF rs Z hst heZ
  obtain ⟨core', hd, hl'⟩ := hrest sF rs hst
  refine ⟨_, hd, rfl, ⟨ser0, hl, ?_⟩, ⟨v.ser, hl', Emits.nil _⟩⟩
  rw [List.append_assoc]
  exact he0.trans (heA.trans heZ)

def Acks.lt (A : Acks) : Prop := ∀ x ∈ A, x.2.1 < 4294967296

theorem Acks.lt_append {A B : Acks} (ha : A.lt) (hb : B.lt) : (A ++ B).lt := by
  intro x hx; rcases List.mem_append.mp hx with h | h
  · exact ha x h
  · exact hb x h

theorem Acks.lt_nil : Acks.lt [] := fun _ h => by cases h

theorem msgs_one (p : Ser.Packet) (m : Msg) : msgs [(p, m)] = [m] := rfl
theorem msgs_two (p1 p2 : Ser.Packet) (m1 m2 : Msg) : msgs [(p1, m1), (p2, m2)] = [m1, m2] := rfl
theorem bytes_append (A B : Acks) : (A ++ B).bytes = A.bytes ++ B.bytes := by simp [Acks.bytes]

/-- server: pending acknowledgements, then one known message -/
theorem srv_steps_acks_one {v sF : Srv.State} {now : Nat} {P : Acks} {p : Ser.Packet} {m : Msg} {rs : List Srv.Res} (hP : P.lt)
    (h : SrvSteps.stepMsg v now m = .ok (sF, rs)) :
    SrvSteps.steps v now (msgs (P.pairs ++ [(p, m)])) = .ok (sF, P.evS ++ rs) := by
  rw [msgs_append, msgs_one, srv_steps_acks now [m] P v hP, srv_steps_one v sF now m rs h]

theorem cli_steps_acks_one {c sF : Cli.State} {now : Nat} {P : Acks} {p : Ser.Packet} {m : Msg} {rs : List Cli.Res} (hP : P.lt)
    (h : CliSteps.stepMsg c now m = .ok (sF, rs)) :
    CliSteps.steps c now (msgs (P.pairs ++ [(p, m)])) = .ok (sF, P.evC ++ rs) := by
  rw [msgs_append, msgs_one, cli_steps_acks now [m] P c hP, cli_steps_one c sF now m rs h]

/-- **connect phase through `handle_input`**, acknowledgements included.  Pending acknowledgements `P`
    (client → server) and `Q` (server → client) are delivered with the next bytes in their direction; every
    `handle_input` call may send one acknowledgement (`A1`, `A2`, `A3`: at most one packet each, first in
    the results) and raises the event of every acknowledgement it is handed, before its other results. -/
theorem connect_phase_in {c c1 : Cli.State} {v : Srv.State} {P Q : Acks} {n1 n2 n3 n4 n5 : Nat} {app : Bytes} {r1 : Cli.Res}
    (hin : InStepP c v P.pairs Q.pairs) (hP : P.lt) (hQ : Q.lt)
    (hw : CfgWF c.cfg) (hok : CfgOK c.cfg) (happ : Utf8.valid app = true)
    (htxn : c.nextTxn < 4294967296) (hfms : Utf8.valid v.fmsVersion = true)
    (h1 : Cli.requestConnection c n1 app = (c1, .ok r1)) :
    ∃ (p1 : Ser.Packet) (A1 : Acks) (v1 : Srv.State), r1 = .out p1 ∧ A1.ok ∧
      Srv.handleInput v n2 (P.bytes ++ p1.bytes) =
        (v1, .ok (A1.outS ++ P.evS ++ [.ev (.connectionRequested v.nextReq (trimApp app))])) ∧
      ∀ v2 rs2, Srv.acceptRequest v1 n3 v.nextReq = (v2, .ok rs2) →
        ∃ (p2 : Ser.Packet) (A2 : Acks) (c2 : Cli.State) (pa pb : Ser.Packet) (A3 : Acks) (v3 : Srv.State), rs2 = [.out p2] ∧ A2.ok ∧ A3.ok ∧
          Cli.handleInput c1 n4 (Q.bytes ++ A1.bytes ++ p2.bytes) =
            (c2, .ok (A2.outC ++ (Q ++ A1).evC ++ [.out pa, .ev .connectionAccepted, .out pb])) ∧
          Srv.handleInput v2 n5 (A2.bytes ++ (pa.bytes ++ pb.bytes)) = (v3, .ok (A3.outS ++ A2.evS)) ∧
          InStepP c2 v3 (Acks.pairs []) A3.pairs ∧
          c2 = { c with nextTxn := c.nextTxn + 1, txns := c2.txns, st := .connected, app := some app,
                        ser := c2.ser, des := c2.des, since := c2.since } ∧
          v3 = { v with objectEncoding := 0, nextReq := v.nextReq + 1, reqs := v3.reqs, app := some (trimApp app),
                        connected := true, window := some c.cfg.windowAckSize, ser := v3.ser, des := v3.des,
                        since := v3.since } := by
  -- hop 1: the request
  obtain ⟨p1, body1, hr1, hst, hp1, he1, hc1⟩ := requestConnection_ok h1
  have hwf1 := connectCmd_wf c app hw happ htxn
  have hc1des : c1.des = c.des := by rw [hc1]
  have hin1 := hin.client_emits he1 hc1des
  obtain ⟨A1, v1a, since1, hA1, heA1, hv1a, hrest1⟩ := srv_deliver n2 hin1
  have hstep1 := srv_steps_acks_one (P := P) (p := p1) (now := n2) hP
    (show SrvSteps.stepMsg ({ v1a with since := since1 } : Srv.State) n2 { ts := epoch n1, typ := 20, msid := 0, data := body1 } = _ from by
      rw [srv_stepMsg_of hwf1 hp1]; exact srv_connect _ n2 _ c app)
  obtain ⟨v1, hd1, hv1, hin2⟩ := hrest1 _ _ [] hstep1 (Emits.nil _)
  simp only [List.append_nil] at hin2
  have hnr : v1a.nextReq = v.nextReq := by rw [hv1a]
  rw [wire_append, wire_pairs, wire_one] at hd1
  simp only [hnr] at hd1 hv1
  refine ⟨p1, A1, v1, hr1, hA1, (by rw [hd1, List.append_assoc]), ?_⟩
  intro v2 rs2 hacc
  -- hop 2: the acceptance
  have hreq : mapGet v.nextReq v1.reqs = some (.connection (trimApp app) (F64.ofU32 c.nextTxn)) := by
    rw [hv1]; simp [mapInsert, mapGet]
  obtain ⟨p2, body2, hrs2, hp2, he2, hv2⟩ := acceptConnection_ok hreq hacc
  have hv1fms : v1.fmsVersion = v.fmsVersion := by rw [hv1, hv1a]
  have hv1oe : v1.objectEncoding = 0 := by rw [hv1]
  have hwf2 := connectResult_wf v1 (trimApp app) (F64.ofU32 c.nextTxn) (by rw [hv1fms]; exact hfms) (trimApp_valid happ)
    (F64.ofU32_lt _ htxn) (by rw [hv1oe]; decide)
  have hv2des : v2.des = v1.des := by rw [hv2]
  have hin3 := hin2.server_emits he2 hv2des
  -- hop 3: the client takes the response
  obtain ⟨A2, c1a, since2, hA2, heA2, hc1a, hrest3⟩ := cli_deliver n4 hin3
  have hc1atx : mapGet c.nextTxn ({ c1a with since := since2 } : Cli.State).txns = some (.connection app) := by
    show mapGet c.nextTxn c1a.txns = _
    rw [hc1a, hc1]; simp [mapInsert, mapGet]
  have hc1acfg : ({ c1a with since := since2 } : Cli.State).cfg = c.cfg := by
    show c1a.cfg = _; rw [hc1a, hc1]
  have hpos1a : 1 ≤ ({ c1a with since := since2 } : Cli.State).ser.maxCs := by
    show 1 ≤ c1a.ser.maxCs
    exact Safe.emits_cs_pos heA2 hin3.cpos
  obtain ⟨c2', pa, pb, hhm, hemc, hc2'⟩ := cli_connectResult ({ c1a with since := since2 } : Cli.State) n4
    { ts := epoch n3, typ := 20, msid := 0, data := body2 } v1 app (trimApp app) c.nextTxn htxn hc1atx
    (by rw [hc1acfg]; exact hok) hpos1a
  rw [hc1acfg] at hemc
  have hstep3 := cli_steps_acks_one (P := Q ++ A1) (p := p2) (now := n4) (Acks.lt_append hQ hA1.2)
    (show CliSteps.stepMsg ({ c1a with since := since2 } : Cli.State) n4 { ts := epoch n3, typ := 20, msid := 0, data := body2 } = _ from by
      rw [cli_stepMsg_of hwf2 hp2, hhm])
  rw [pairs_append] at hstep3
  obtain ⟨c2, hd3, hc2, hin4⟩ := hrest3 _ _ _ hstep3 hemc
  simp only [List.nil_append] at hin4
  rw [wire_append, wire_append, wire_pairs, wire_pairs, wire_one] at hd3
  -- hop 4: the server takes the announcements
  obtain ⟨A3, v2a, since3, hA3, heA3, hv2a, hrest4⟩ := srv_deliver n5 hin4
  obtain ⟨d4, hstep4⟩ := srv_steps_announce ({ v2a with since := since3 } : Srv.State) n5 c.cfg.windowAckSize c.cfg.chunkSize (epoch n4) 0
    hok.win hok.cs
  have hstep4' : SrvSteps.steps ({ v2a with since := since3 } : Srv.State) n5
      (msgs (A2.pairs ++ [(pa, ({ ts := epoch n4, typ := 5, msid := 0, data := be32 c.cfg.windowAckSize } : Msg)),
                          (pb, { ts := 0, typ := 1, msid := 0, data := be32 c.cfg.chunkSize })])) =
        .ok (({ ({ v2a with since := since3 } : Srv.State) with window := some c.cfg.windowAckSize, des := d4 } : Srv.State), A2.evS ++ []) := by
    rw [msgs_append, msgs_two, srv_steps_acks n5 _ A2 _ hA2.2, hstep4]
  obtain ⟨v3, hd4, hv3, hin5⟩ := hrest4 _ _ [] hstep4' (Emits.nil _)
  rw [wire_append, wire_pairs, wire_two] at hd4
  refine ⟨p2, A2, c2, pa, pb, A3, v3, hrs2, hA2, hA3, ?_, ?_, ?_, ?_, ?_⟩
  · rw [hd3]; simp only [List.append_assoc]
  · rw [hd4]; simp
  · simpa [Acks.pairs] using hin5
  · rw [hc2, hc2', hc1a, hc1]
  · rw [hv3, hv2a, hv2, hv1, hv1a]

/-- **publish phase through `handle_input`**, acknowledgements included -/
theorem publish_phase_in {c c1 : Cli.State} {v : Srv.State} {P Q : Acks} {n1 n2 n3 n4 n5 n6 : Nat} {key appS : Bytes}
    {t : Cli.PublishType} {r1 : Cli.Res}
    (hin : InStepP c v P.pairs Q.pairs) (hP : P.lt) (hQ : Q.lt)
    (htxn : c.nextTxn < 4294967296) (hns : v.nextStream < 4294967296)
    (hkey : Utf8.valid key = true) (hkl : key.length ≤ 65535)
    (hvc : v.connected = true) (hva : v.app = some appS)
    (h1 : Cli.requestStream c n1 (.publish key t) = (c1, .ok r1)) :
    ∃ (p1 : Ser.Packet) (A1 : Acks) (v1 : Srv.State) (p2 : Ser.Packet) (A2 : Acks) (c2 : Cli.State) (p3 : Ser.Packet)
      (A3 : Acks) (v2 : Srv.State), r1 = .out p1 ∧ A1.ok ∧ A2.ok ∧ A3.ok ∧
      Srv.handleInput v n2 (P.bytes ++ p1.bytes) = (v1, .ok (A1.outS ++ P.evS ++ [.out p2])) ∧
      Cli.handleInput c1 n3 (Q.bytes ++ A1.bytes ++ p2.bytes) = (c2, .ok (A2.outC ++ (Q ++ A1).evC ++ [.out p3])) ∧
      Srv.handleInput v1 n4 (A2.bytes ++ p3.bytes) =
        (v2, .ok (A3.outS ++ A2.evS ++ [.ev (.publishRequested v.nextReq appS key (modeOf t))])) ∧
      ∀ v3 rs3, Srv.acceptRequest v2 n5 v.nextReq = (v3, .ok rs3) →
        ∃ (p4 p5 : Ser.Packet) (A4 : Acks) (c3 : Cli.State), rs3 = [.out p4, .out p5] ∧ A4.ok ∧
          Cli.handleInput c2 n6 (A3.bytes ++ (p4.bytes ++ p5.bytes)) = (c3, .ok (A4.outC ++ A3.evC ++ [.ev .publishAccepted])) ∧
          InStepP c3 v3 A4.pairs (Acks.pairs []) ∧
          c3 = { c with nextTxn := c.nextTxn + 1, txns := c3.txns, st := .publishing, activeStream := some v.nextStream,
                        ser := c3.ser, des := c3.des, since := c3.since } ∧
          v3 = { v with nextStream := v.nextStream + 1, streams := v3.streams, nextReq := v.nextReq + 1, reqs := v3.reqs,
                        ser := v3.ser, des := v3.des, since := v3.since } ∧
          mapGet v.nextStream v3.streams = some (.publishing key (modeOf t)) := by
  -- hop 1: createStream request
  obtain ⟨p1, body1, hr1, hst, hp1, he1, hc1⟩ := requestStream_ok h1
  have hwf1 := createStreamCmd_wf c htxn
  have hin1 := hin.client_emits he1 (show c1.des = c.des by rw [hc1])
  obtain ⟨A1, v1a, since1, hA1, heA1, hv1a, hrest1⟩ := srv_deliver n2 hin1
  obtain ⟨v1', p2, body2, hhm1, hp2, he2, hv1'⟩ := srv_createStream ({ v1a with since := since1 } : Srv.State) n2
    { ts := epoch n1, typ := 20, msid := 0, data := body1 } c
    (show 1 ≤ v1a.ser.maxCs from Safe.emits_cs_pos heA1 hin1.vpos)
  have hstep1 := srv_steps_acks_one (P := P) (p := p1) (now := n2) hP
    (show SrvSteps.stepMsg ({ v1a with since := since1 } : Srv.State) n2 { ts := epoch n1, typ := 20, msid := 0, data := body1 } = _ from by
      rw [srv_stepMsg_of hwf1 hp1]; exact hhm1)
  obtain ⟨v1, hd1, hv1, hin2⟩ := hrest1 _ _ _ hstep1 (show Emits v1a.ser v1'.ser _ from he2)
  rw [wire_append, wire_pairs, wire_one] at hd1
  have hns1a : v1a.nextStream = v.nextStream := by rw [hv1a]
  have hnr1a : v1a.nextReq = v.nextReq := by rw [hv1a]
  simp only [hns1a] at hp2 hv1'
  -- hop 2: the client takes the stream id and sends publish
  have hwf2 := createStreamResult_wf (F64.ofU32 c.nextTxn) v.nextStream (F64.ofU32_lt _ htxn) hns
  obtain ⟨A2, c1a, since2, hA2, heA2, hc1a, hrest2⟩ := cli_deliver n3 hin2
  have hc1atx : mapGet c.nextTxn ({ c1a with since := since2 } : Cli.State).txns = some (.createStream (.publish key t)) := by
    show mapGet c.nextTxn c1a.txns = _
    rw [hc1a, hc1]; simp [mapInsert, mapGet]
  obtain ⟨c2', p3, body3, hhm2, hp3, he3, hc2'⟩ := cli_createStreamResult_publish ({ c1a with since := since2 } : Cli.State) n3
    { ts := epoch n2, typ := 20, msid := 0, data := body2 } c.nextTxn v.nextStream key t htxn hns hc1atx hkl
    (show 1 ≤ c1a.ser.maxCs from Safe.emits_cs_pos heA2 hin2.cpos)
  have hstep2 := cli_steps_acks_one (P := Q ++ A1) (p := p2) (now := n3) (Acks.lt_append hQ hA1.2)
    (show CliSteps.stepMsg ({ c1a with since := since2 } : Cli.State) n3 { ts := epoch n2, typ := 20, msid := 0, data := body2 } = _ from by
      rw [cli_stepMsg_of hwf2 hp2, hhm2])
  rw [pairs_append] at hstep2
  obtain ⟨c2, hd2, hc2, hin3⟩ := hrest2 _ _ _ hstep2 (show Emits c1a.ser c2'.ser _ from he3)
  rw [wire_append, wire_append, wire_pairs, wire_pairs, wire_one] at hd2
  simp only [List.nil_append] at hin3
  -- hop 3: the server takes the publish command
  have hwf3 := publishCmd_wf key t hkey
  obtain ⟨A3, v1b, since3, hA3, heA3, hv1b, hrest3⟩ := srv_deliver n4 hin3
  have hv1bc : ({ v1b with since := since3 } : Srv.State).connected = true := by
    show v1b.connected = true; rw [hv1b, hv1, hv1', hv1a]; exact hvc
  have hv1ba : ({ v1b with since := since3 } : Srv.State).app = some appS := by
    show v1b.app = _; rw [hv1b, hv1, hv1', hv1a]; exact hva
  have hstep3 := srv_steps_acks_one (P := A2) (p := p3) (now := n4) hA2.2
    (show SrvSteps.stepMsg ({ v1b with since := since3 } : Srv.State) n4 { ts := epoch n3, typ := 20, msid := v.nextStream, data := body3 } = _ from by
      rw [srv_stepMsg_of hwf3 hp3]
      exact srv_publish _ n4 _ key t appS hv1bc hv1ba)
  obtain ⟨v2, hd3, hv2, hin4⟩ := hrest3 _ _ [] hstep3 (Emits.nil _)
  rw [wire_append, wire_pairs, wire_one] at hd3
  simp only [List.nil_append, List.append_nil] at hin4
  have hnr1b : v1b.nextReq = v.nextReq := by rw [hv1b, hv1, hv1', hv1a]
  simp only [hnr1b] at hd3 hv2
  refine ⟨p1, A1, v1, p2, A2, c2, p3, A3, v2, hr1, hA1, hA2, hA3, (by rw [hd1, List.append_assoc]),
    (by rw [hd2]; simp only [List.append_assoc]), (by rw [hd3, List.append_assoc]), ?_⟩
  intro v3 rs3 hacc
  -- hop 4: the acceptance
  obtain ⟨p4, p5, b4, b5, hrs3, hp4, hp5, he4, _, hv3⟩ := acceptPublish_ok
    (key := key) (mode := modeOf t) (sid := v.nextStream) (by rw [hv2]; simp [mapInsert, mapGet]) hns hacc
  have hin5 := hin4.server_emits he4 (show v3.des = v2.des by rw [hv3])
  -- hop 5: the client takes the status
  obtain ⟨A4, c2a, since4, hA4, heA4, hc2a, hrest5⟩ := cli_deliver n6 hin5
  have hc2ast : ({ c2a with since := since4 } : Cli.State).st = .publishRequested := by
    show c2a.st = _; rw [hc2a, hc2, hc2']
  have hstepA : CliSteps.stepMsg ({ c2a with since := since4 } : Cli.State) n6
      { ts := epoch n5, typ := 4, msid := v.nextStream, data := b4 } = .ok (({ c2a with since := since4 } : Cli.State), []) :=
    cli_step_streamBegin _ n6 v.nextStream _ _ 4 b4 hns hp4
  have hstepB : CliSteps.stepMsg ({ c2a with since := since4 } : Cli.State) n6
      { ts := epoch n5, typ := 20, msid := v.nextStream, data := b5 } =
        .ok (({ c2a with since := since4, st := .publishing } : Cli.State), [.ev .publishAccepted]) := by
    rw [cli_stepMsg_of (publishStatus_wf key hkey) hp5, cli_publishStatus _ n6 _ key hc2ast]
  have hstep5 : CliSteps.steps ({ c2a with since := since4 } : Cli.State) n6
      (msgs (A3.pairs ++ [(p4, ({ ts := epoch n5, typ := 4, msid := v.nextStream, data := b4 } : Msg)),
                          (p5, { ts := epoch n5, typ := 20, msid := v.nextStream, data := b5 })])) =
        .ok (({ c2a with since := since4, st := .publishing } : Cli.State), A3.evC ++ ([] ++ [.ev .publishAccepted])) := by
    rw [msgs_append, msgs_two, cli_steps_acks n6 _ A3 _ hA3.2, cli_steps_two _ _ _ n6 _ _ _ _ hstepA hstepB]
  obtain ⟨c3, hd5, hc3, hin6⟩ := hrest5 _ _ [] hstep5 (Emits.nil _)
  rw [wire_append, wire_pairs, wire_two] at hd5
  simp only [List.nil_append, List.append_nil] at hin6 hd5
  refine ⟨p4, p5, A4, c3, hrs3, hA4, (by rw [hd5, List.append_assoc]), (by simpa [Acks.pairs] using hin6), ?_, ?_, ?_⟩
  · rw [hc3, hc2a, hc2, hc2', hc1a, hc1]
  · rw [hv3, hv2, hv1b, hv1, hv1', hv1a]
  · rw [hv3]; simp [mapInsert, mapGet]

theorem srv_steps_acks_two {v v1 sF : Srv.State} {now : Nat} {P : Acks} {p1 p2 : Ser.Packet} {m1 m2 : Msg} {r1 r2 : List Srv.Res}
    (hP : P.lt) (h1 : SrvSteps.stepMsg v now m1 = .ok (v1, r1)) (h2 : SrvSteps.stepMsg v1 now m2 = .ok (sF, r2)) :
    SrvSteps.steps v now (msgs (P.pairs ++ [(p1, m1), (p2, m2)])) = .ok (sF, P.evS ++ (r1 ++ r2)) := by
  rw [msgs_append, msgs_two, srv_steps_acks now _ P v hP, srv_steps_two v v1 sF now m1 m2 r1 r2 h1 h2]

/-- **play phase through `handle_input`**, acknowledgements included -/
theorem play_phase_in {c c1 : Cli.State} {v : Srv.State} {P Q : Acks} {n1 n2 n3 n4 n5 n6 : Nat} {key appS : Bytes} {r1 : Cli.Res}
    (hin : InStepP c v P.pairs Q.pairs) (hP : P.lt) (hQ : Q.lt)
    (htxn : c.nextTxn < 4294967296) (hns : v.nextStream < 4294967296)
    (hkey : Utf8.valid key = true) (hkl : key.length ≤ 65535) (hbuf : c.cfg.bufferLengthMs < 4294967296)
    (hvc : v.connected = true) (hva : v.app = some appS)
    (h1 : Cli.requestStream c n1 (.play key) = (c1, .ok r1)) :
    ∃ (p1 : Ser.Packet) (A1 : Acks) (v1 : Srv.State) (p2 : Ser.Packet) (A2 : Acks) (c2 : Cli.State) (pa pb : Ser.Packet)
      (A3 : Acks) (v2 : Srv.State), r1 = .out p1 ∧ A1.ok ∧ A2.ok ∧ A3.ok ∧
      Srv.handleInput v n2 (P.bytes ++ p1.bytes) = (v1, .ok (A1.outS ++ P.evS ++ [.out p2])) ∧
      Cli.handleInput c1 n3 (Q.bytes ++ A1.bytes ++ p2.bytes) = (c2, .ok (A2.outC ++ (Q ++ A1).evC ++ [.out pa, .out pb])) ∧
      Srv.handleInput v1 n4 (A2.bytes ++ (pa.bytes ++ pb.bytes)) =
        (v2, .ok (A3.outS ++ A2.evS ++ [.ev (.playRequested v.nextReq appS key .liveOrRecorded none false v.nextStream)])) ∧
      ∀ v3 rs3, Srv.acceptRequest v2 n5 v.nextReq = (v3, .ok rs3) →
        ∃ (A4 : Acks) (c3 : Cli.State), A4.ok ∧ (SrvEmit.outs rs3).length = 5 ∧
          Cli.handleInput c2 n6 (A3.bytes ++ bytesS rs3) =
            (c3, .ok (A4.outC ++ A3.evC ++ [.ev (.unhandleableOnStatus (str "NetStream.Play.Reset")), .ev .playbackAccepted])) ∧
          InStepP c3 v3 A4.pairs (Acks.pairs []) ∧
          c3 = { c with nextTxn := c.nextTxn + 1, txns := c3.txns, st := .playing, activeStream := some v.nextStream,
                        ser := c3.ser, des := c3.des, since := c3.since } ∧
          v3 = { v with nextStream := v.nextStream + 1, streams := v3.streams, nextReq := v.nextReq + 1, reqs := v3.reqs,
                        ser := v3.ser, des := v3.des, since := v3.since } ∧
          mapGet v.nextStream v3.streams = some (.playing key) := by
  -- hop 1: createStream request
  obtain ⟨p1, body1, hr1, hst, hp1, he1, hc1⟩ := requestStream_ok h1
  have hwf1 := createStreamCmd_wf c htxn
  have hin1 := hin.client_emits he1 (show c1.des = c.des by rw [hc1])
  obtain ⟨A1, v1a, since1, hA1, heA1, hv1a, hrest1⟩ := srv_deliver n2 hin1
  obtain ⟨v1', p2, body2, hhm1, hp2, he2, hv1'⟩ := srv_createStream ({ v1a with since := since1 } : Srv.State) n2
    { ts := epoch n1, typ := 20, msid := 0, data := body1 } c
    (show 1 ≤ v1a.ser.maxCs from Safe.emits_cs_pos heA1 hin1.vpos)
  have hstep1 := srv_steps_acks_one (P := P) (p := p1) (now := n2) hP
    (show SrvSteps.stepMsg ({ v1a with since := since1 } : Srv.State) n2 { ts := epoch n1, typ := 20, msid := 0, data := body1 } = _ from by
      rw [srv_stepMsg_of hwf1 hp1]; exact hhm1)
  obtain ⟨v1, hd1, hv1, hin2⟩ := hrest1 _ _ _ hstep1 (show Emits v1a.ser v1'.ser _ from he2)
  rw [wire_append, wire_pairs, wire_one] at hd1
  have hns1a : v1a.nextStream = v.nextStream := by rw [hv1a]
  simp only [hns1a] at hp2 hv1'
  -- hop 2: the client takes the stream id and sends buffer length and play
  have hwf2 := createStreamResult_wf (F64.ofU32 c.nextTxn) v.nextStream (F64.ofU32_lt _ htxn) hns
  obtain ⟨A2, c1a, since2, hA2, heA2, hc1a, hrest2⟩ := cli_deliver n3 hin2
  have hc1atx : mapGet c.nextTxn ({ c1a with since := since2 } : Cli.State).txns = some (.createStream (.play key)) := by
    show mapGet c.nextTxn c1a.txns = _
    rw [hc1a, hc1]; simp [mapInsert, mapGet]
  have hc1acfg : ({ c1a with since := since2 } : Cli.State).cfg = c.cfg := by show c1a.cfg = _; rw [hc1a, hc1]
  obtain ⟨c2', pa, pb, ba, bb, hhm2, hpa, hpb, he3, hc2'⟩ := cli_createStreamResult_play ({ c1a with since := since2 } : Cli.State) n3
    { ts := epoch n2, typ := 20, msid := 0, data := body2 } c.nextTxn v.nextStream key htxn hns hc1atx hkl
    (show 1 ≤ c1a.ser.maxCs from Safe.emits_cs_pos heA2 hin2.cpos)
  rw [hc1acfg] at hpa
  have hstep2 := cli_steps_acks_one (P := Q ++ A1) (p := p2) (now := n3) (Acks.lt_append hQ hA1.2)
    (show CliSteps.stepMsg ({ c1a with since := since2 } : Cli.State) n3 { ts := epoch n2, typ := 20, msid := 0, data := body2 } = _ from by
      rw [cli_stepMsg_of hwf2 hp2, hhm2])
  rw [pairs_append] at hstep2
  obtain ⟨c2, hd2, hc2, hin3⟩ := hrest2 _ _ _ hstep2 (show Emits c1a.ser c2'.ser _ from he3)
  rw [wire_append, wire_append, wire_pairs, wire_pairs, wire_one] at hd2
  simp only [List.nil_append] at hin3
  -- hop 3: the server takes both
  obtain ⟨A3, v1b, since3, hA3, heA3, hv1b, hrest3⟩ := srv_deliver n4 hin3
  have hv1bc : ({ v1b with since := since3 } : Srv.State).connected = true := by
    show v1b.connected = true; rw [hv1b, hv1, hv1', hv1a]; exact hvc
  have hv1ba : ({ v1b with since := since3 } : Srv.State).app = some appS := by
    show v1b.app = _; rw [hv1b, hv1, hv1', hv1a]; exact hva
  have hstep3 := srv_steps_acks_two (P := A2) (p1 := pa) (p2 := pb) (now := n4) hA2.2
    (srv_step_setBufLen ({ v1b with since := since3 } : Srv.State) n4 v.nextStream c.cfg.bufferLengthMs (epoch n3) 0 ba hns hbuf hpa)
    (show SrvSteps.stepMsg ({ v1b with since := since3 } : Srv.State) n4 { ts := epoch n3, typ := 20, msid := v.nextStream, data := bb } = _ from by
      rw [srv_stepMsg_of (playCmd_wf key hkey) hpb]
      exact srv_play _ n4 _ key appS hv1bc hv1ba)
  obtain ⟨v2, hd3, hv2, hin4⟩ := hrest3 _ _ [] hstep3 (Emits.nil _)
  rw [wire_append, wire_pairs, wire_two] at hd3
  simp only [List.nil_append, List.append_nil] at hin4 hd3
  have hnr1b : v1b.nextReq = v.nextReq := by rw [hv1b, hv1, hv1', hv1a]
  simp only [hnr1b] at hd3 hv2
  refine ⟨p1, A1, v1, p2, A2, c2, pa, pb, A3, v2, hr1, hA1, hA2, hA3, (by rw [hd1, List.append_assoc]),
    (by rw [hd2]; simp only [List.append_assoc]), (by rw [hd3, List.append_assoc]), ?_⟩
  intro v3 rs3 hacc
  -- hop 4: the acceptance
  obtain ⟨q1, q2, q3, q4, q5, b1, b2, b3, b4, b5, hrs3, hq1, hq2, hq3, hq4, hq5, he4, hv3⟩ := acceptPlay_ok
    (key := key) (sid := v.nextStream) (by rw [hv2]; simp [mapInsert, mapGet]) hns hacc
  have hin5 := hin4.server_emits he4 (show v3.des = v2.des by rw [hv3])
  -- hop 5: the client takes the five messages
  obtain ⟨A4, c2a, since4, hA4, heA4, hc2a, hrest5⟩ := cli_deliver n6 hin5
  have hc2ast : ({ c2a with since := since4 } : Cli.State).st = .playRequested := by
    show c2a.st = _; rw [hc2a, hc2, hc2']
  have hfive := cli_steps_cons
    (c := ({ c2a with since := since4 } : Cli.State))
    (m := { ts := epoch n5, typ := 20, msid := v.nextStream, data := b1 })
    (by rw [cli_stepMsg_of playReset_wf hq1, cli_playReset])
    (cli_steps_cons (cli_step_streamBegin _ n6 v.nextStream (epoch n5) v.nextStream 4 b2 hns hq2)
      (cli_steps_cons (m := { ts := epoch n5, typ := 20, msid := v.nextStream, data := b3 })
        (by rw [cli_stepMsg_of (playStart_wf key hkey) hq3, cli_playStart _ n6 _ key (by exact hc2ast)])
        (cli_steps_cons (m := { ts := epoch n5, typ := 18, msid := v.nextStream, data := b4 })
          (by rw [cli_stepMsg_of sampleAccess_wf hq4, cli_sampleAccess])
          (cli_steps_one _ _ n6 { ts := epoch n5, typ := 18, msid := v.nextStream, data := b5 } _
            (by rw [cli_stepMsg_of dataStart_wf hq5, cli_dataStart])))))
  have hacks := cli_steps_acks n6
    [({ ts := epoch n5, typ := 20, msid := v.nextStream, data := b1 } : Msg), { ts := epoch n5, typ := 4, msid := v.nextStream, data := b2 },
     { ts := epoch n5, typ := 20, msid := v.nextStream, data := b3 }, { ts := epoch n5, typ := 18, msid := v.nextStream, data := b4 },
     { ts := epoch n5, typ := 18, msid := v.nextStream, data := b5 }] A3 ({ c2a with since := since4 } : Cli.State) hA3.2
  rw [hfive] at hacks
  dsimp only at hacks
  obtain ⟨c3, hd5, hc3, hin6⟩ := hrest5 ({ c2a with since := since4, st := .playing } : Cli.State) _ []
    (by rw [msgs_append]; exact hacks) (Emits.nil _)
  have hb : bytesS rs3 = wire [(q1, ({ ts := epoch n5, typ := 20, msid := v.nextStream, data := b1 } : Msg)),
      (q2, { ts := epoch n5, typ := 4, msid := v.nextStream, data := b2 }),
      (q3, { ts := epoch n5, typ := 20, msid := v.nextStream, data := b3 }),
      (q4, { ts := epoch n5, typ := 18, msid := v.nextStream, data := b4 }),
      (q5, { ts := epoch n5, typ := 18, msid := v.nextStream, data := b5 })] := by
    rw [hrs3]; simp [bytesS, SrvEmit.outs, wire]
  rw [wire_append, wire_pairs] at hd5
  simp only [List.nil_append, List.append_nil, List.cons_append] at hin6 hd5
  refine ⟨A4, c3, hA4, by rw [hrs3]; simp [SrvEmit.outs], (by rw [hb, hd5, List.append_assoc]), (by simpa [Acks.pairs] using hin6), ?_, ?_, ?_⟩
  · rw [hc3, hc2a, hc2, hc2', hc1a, hc1]
  · rw [hv3, hv2, hv1b, hv1, hv1', hv1a]
  · rw [hv3]; simp [mapInsert, mapGet]

/-- **banner through `handle_input`** -/
theorem banner_in {scfg : Srv.Config} {now n1 : Nat} {v0 : Srv.State} {rs0 : List Srv.Res} (ccfg : Cli.Config)
    (hnew : Srv.new scfg now = .ok (v0, rs0)) (hw : scfg.windowAckSize < 4294967296) (hbw : scfg.peerBandwidth < 4294967296) :
    ∃ (A0 : Acks) (c1 : Cli.State) (b4 : Bytes), A0.ok ∧
      Cli.handleInput ({ cfg := ccfg } : Cli.State) n1 (bytesS rs0) = (c1, .ok (A0.outC ++ bannerEvents scfg now b4)) ∧
      InStepP c1 v0 A0.pairs (Acks.pairs []) ∧
      c1 = { ({ cfg := ccfg } : Cli.State) with window := some scfg.windowAckSize, des := c1.des, ser := c1.ser, since := c1.since } ∧
      v0 = { ({ fmsVersion := scfg.fmsVersion } : Srv.State) with ser := v0.ser } := by
  obtain ⟨p1, p2, p3, p4, b3, b4, rest, restR, hrs, hcs, hp3, hp4, hem, hrest, hv0⟩ := new_ok hnew
  have hin0 : InStepP ({ cfg := ccfg } : Cli.State) v0 [] _ :=
    ⟨⟨{}, by rw [hv0]; exact linked_init, Emits.nil _⟩, ⟨{}, linked_init, hem⟩⟩
  obtain ⟨A0, c0a, since0, hA0, heA0, hc0a, hrest0⟩ := cli_deliver n1 hin0
  have s1 := cli_step_setcs ({ c0a with since := since0 } : Cli.State) n1 scfg.chunkSize 0 hcs
  rcases hrest with ⟨hf, hr1, hr2⟩ | ⟨ht, p5, b5, hp5, hr2, hr1⟩
  · subst hr1; subst hr2
    have hsteps := cli_steps_cons s1 (cli_steps_cons (cli_step_windowAck _ n1 scfg.windowAckSize (epoch now) hw)
      (cli_steps_cons (cli_step_streamBegin _ n1 0 (epoch now) 0 4 b3 (by decide) hp3)
        (cli_steps_one _ _ n1 _ _ (cli_step_peerBw _ n1 scfg.peerBandwidth (epoch now) 0 b4 hbw hp4))))
    obtain ⟨c1, hd, hc1, hin1⟩ := hrest0
      ({ c0a with since := since0, des := { c0a.des with core := { c0a.des.core with maxCs := scfg.chunkSize } },
                  window := some scfg.windowAckSize } : Cli.State) _ [] hsteps (Emits.nil _)
    have hb : bytesS rs0 = wire ([(p1, ({ ts := 0, typ := 1, msid := 0, data := be32 scfg.chunkSize } : Msg)),
        (p2, { ts := epoch now, typ := 5, msid := 0, data := be32 scfg.windowAckSize }),
        (p3, { ts := epoch now, typ := 4, msid := 0, data := b3 }),
        (p4, { ts := epoch now, typ := 6, msid := 0, data := b4 })] ++ []) := by
      rw [hrs]; simp [bytesS, SrvEmit.outs, wire]
    have hev : bannerEvents scfg now b4 = [.unhandled { ts := epoch now, typ := 6, msid := 0, data := b4 }] := by
      simp [bannerEvents, hf]
    simp only [List.nil_append, List.append_nil] at hd hin1
    refine ⟨A0, c1, b4, hA0, (by rw [hb, hev, List.append_nil]; exact hd), (by simpa [Acks.pairs] using hin1), ?_, hv0⟩
    rw [hc1, hc0a]
  · subst hr1; subst hr2
    have hsteps := cli_steps_cons s1 (cli_steps_cons (cli_step_windowAck _ n1 scfg.windowAckSize (epoch now) hw)
      (cli_steps_cons (cli_step_streamBegin _ n1 0 (epoch now) 0 4 b3 (by decide) hp3)
        (cli_steps_cons (cli_step_peerBw _ n1 scfg.peerBandwidth (epoch now) 0 b4 hbw hp4)
          (cli_steps_one _ _ n1 _ _ (cli_step_onBwDone _ n1 (epoch now) 0 b5 hp5)))))
    obtain ⟨c1, hd, hc1, hin1⟩ := hrest0
      ({ c0a with since := since0, des := { c0a.des with core := { c0a.des.core with maxCs := scfg.chunkSize } },
                  window := some scfg.windowAckSize } : Cli.State) _ [] hsteps (Emits.nil _)
    have hb : bytesS rs0 = wire ([(p1, ({ ts := 0, typ := 1, msid := 0, data := be32 scfg.chunkSize } : Msg)),
        (p2, { ts := epoch now, typ := 5, msid := 0, data := be32 scfg.windowAckSize }),
        (p3, { ts := epoch now, typ := 4, msid := 0, data := b3 }),
        (p4, { ts := epoch now, typ := 6, msid := 0, data := b4 })] ++ [(p5, { ts := epoch now, typ := 20, msid := 0, data := b5 })]) := by
      rw [hrs]; simp [bytesS, SrvEmit.outs, wire]
    have hev : bannerEvents scfg now b4 = [.unhandled { ts := epoch now, typ := 6, msid := 0, data := b4 },
        .ev (.unhandleableCommand (str "onBWDone") 0 .null [.number 0x40C0000000000000])] := by
      simp [bannerEvents, ht]
    simp only [List.nil_append, List.append_nil, List.cons_append] at hd hin1
    refine ⟨A0, c1, b4, hA0, (by rw [hb, hev]; exact hd), (by simpa [Acks.pairs] using hin1), ?_, hv0⟩
    rw [hc1, hc0a]

/-- ready for media, up to the acknowledgements `A` (client's) and `B` (server's) that have been sent and not yet
    delivered by the application -/
structure PublishReadyP (c : Cli.State) (v : Srv.State) (sid : Nat) (app key : Bytes) (mode : Srv.PublishMode) (A B : Acks) : Prop where
  inStep : InStepP c v A.pairs B.pairs
  alt : A.lt
  blt : B.lt
  cst : c.st = .publishing
  cact : c.activeStream = some sid
  sid32 : sid < 4294967296
  vconn : v.connected = true
  vapp : v.app = some app
  vstream : mapGet sid v.streams = some (.publishing key mode)

structure PlayReadyP (c : Cli.State) (v : Srv.State) (sid : Nat) (app key : Bytes) (A B : Acks) : Prop where
  inStep : InStepP c v A.pairs B.pairs
  alt : A.lt
  blt : B.lt
  cst : c.st = .playing
  cact : c.activeStream = some sid
  sid32 : sid < 4294967296
  vconn : v.connected = true
  vapp : v.app = some app
  vstream : mapGet sid v.streams = some (.playing key)

/-- **C02, publish workflow through the real entry point.**  As `publish_workflow`, with every delivery
    made by `handle_input`.  Each `handle_input` call may send one acknowledgement (the lists `A0 … A7` hold
    at most one packet each; C17 says when); it is the first result of the call, the application forwards
    it with the other packets, and the call that receives it raises its event before anything else.  Apart
    from those acknowledgement packets and events the results are exactly those of `publish_workflow`. -/
theorem publish_workflow_in (ccfg : Cli.Config) (scfg : Srv.Config) (clk : Nat → Nat) (app key : Bytes) (t : Cli.PublishType)
    (hcw : CfgWF ccfg) (hco : CfgOK ccfg) (hsw : SCfgWF scfg)
    (happ : Utf8.valid app = true) (hkey : Utf8.valid key = true) (hkl : key.length ≤ 65535)
    {v0 : Srv.State} {rs0 : List Srv.Res} (hnew : Srv.new scfg (clk 0) = .ok (v0, rs0)) :
    ∃ (A0 : Acks) (c1 : Cli.State) (b4 : Bytes), A0.ok ∧
      Cli.handleInput ({ cfg := ccfg } : Cli.State) (clk 1) (bytesS rs0) = (c1, .ok (A0.outC ++ bannerEvents scfg (clk 0) b4)) ∧
    ∀ c2 r1, Cli.requestConnection c1 (clk 2) app = (c2, .ok r1) →
    ∃ (p1 : Ser.Packet) (A1 : Acks) (v1 : Srv.State), r1 = .out p1 ∧ A1.ok ∧
      Srv.handleInput v0 (clk 3) (A0.bytes ++ p1.bytes) =
        (v1, .ok (A1.outS ++ A0.evS ++ [.ev (.connectionRequested 0 (trimApp app))])) ∧
    ∀ v2 rs2, Srv.acceptRequest v1 (clk 4) 0 = (v2, .ok rs2) →
    ∃ (p2 : Ser.Packet) (A2 : Acks) (c3 : Cli.State) (pa pb : Ser.Packet) (A3 : Acks) (v3 : Srv.State), rs2 = [.out p2] ∧ A2.ok ∧ A3.ok ∧
      Cli.handleInput c2 (clk 5) (A1.bytes ++ p2.bytes) = (c3, .ok (A2.outC ++ A1.evC ++ [.out pa, .ev .connectionAccepted, .out pb])) ∧
      Srv.handleInput v2 (clk 6) (A2.bytes ++ (pa.bytes ++ pb.bytes)) = (v3, .ok (A3.outS ++ A2.evS)) ∧
    ∀ c4 r3, Cli.requestStream c3 (clk 7) (.publish key t) = (c4, .ok r3) →
    ∃ (p3 : Ser.Packet) (A4 : Acks) (v4 : Srv.State) (p4 : Ser.Packet) (A5 : Acks) (c5 : Cli.State) (p5 : Ser.Packet)
      (A6 : Acks) (v5 : Srv.State), r3 = .out p3 ∧ A4.ok ∧ A5.ok ∧ A6.ok ∧
      Srv.handleInput v3 (clk 8) p3.bytes = (v4, .ok (A4.outS ++ [.out p4])) ∧
      Cli.handleInput c4 (clk 9) (A3.bytes ++ A4.bytes ++ p4.bytes) = (c5, .ok (A5.outC ++ (A3 ++ A4).evC ++ [.out p5])) ∧
      Srv.handleInput v4 (clk 10) (A5.bytes ++ p5.bytes) =
        (v5, .ok (A6.outS ++ A5.evS ++ [.ev (.publishRequested 1 (trimApp app) key (modeOf t))])) ∧
    ∀ v6 rs6, Srv.acceptRequest v5 (clk 11) 1 = (v6, .ok rs6) →
    ∃ (p6 p7 : Ser.Packet) (A7 : Acks) (c6 : Cli.State), rs6 = [.out p6, .out p7] ∧ A7.ok ∧
      Cli.handleInput c5 (clk 12) (A6.bytes ++ (p6.bytes ++ p7.bytes)) = (c6, .ok (A7.outC ++ A6.evC ++ [.ev .publishAccepted])) ∧
      PublishReadyP c6 v6 1 (trimApp app) key (modeOf t) A7 [] := by
  obtain ⟨A0, c1, b4, hA0, hd0, hin1, hc1, hv0⟩ := banner_in (n1 := clk 1) ccfg hnew hsw.win hsw.bw
  refine ⟨A0, c1, b4, hA0, hd0, ?_⟩
  intro c2 r1 h1
  have hc1cfg : c1.cfg = ccfg := by rw [hc1]
  have hc1txn : c1.nextTxn = 1 := by rw [hc1]
  have hv0fms : v0.fmsVersion = scfg.fmsVersion := by rw [hv0]
  have hv0req : v0.nextReq = 0 := by rw [hv0]
  have hv0ns : v0.nextStream = 1 := by rw [hv0]
  obtain ⟨p1, A1, v1, hr1, hA1, hd1, hrest⟩ := connect_phase_in (P := A0) (Q := []) (n2 := clk 3) (n3 := clk 4) (n4 := clk 5) (n5 := clk 6)
    hin1 hA0.2 Acks.lt_nil (by rw [hc1cfg]; exact hcw) (by rw [hc1cfg]; exact hco) happ
    (by rw [hc1txn]; decide) (by rw [hv0fms]; exact hsw.fms) h1
  rw [hv0req] at hd1 hrest
  refine ⟨p1, A1, v1, hr1, hA1, hd1, ?_⟩
  intro v2 rs2 h2
  obtain ⟨p2, A2, c3, pa, pb, A3, v3, hrs2, hA2, hA3, hd2, hd3, hin3, hc3, hv3⟩ := hrest v2 rs2 h2
  simp only [Acks.bytes, List.map_nil, List.flatten_nil, List.nil_append] at hd2
  refine ⟨p2, A2, c3, pa, pb, A3, v3, hrs2, hA2, hA3, (by simpa [Acks.bytes, Acks.evC] using hd2), hd3, ?_⟩
  intro c4 r3 h3
  have hc3txn : c3.nextTxn = 2 := by rw [hc3, hc1txn]
  have hv3ns : v3.nextStream = 1 := by rw [hv3, hv0ns]
  have hv3req : v3.nextReq = 1 := by rw [hv3]
  have hv3c : v3.connected = true := by rw [hv3]
  have hv3a : v3.app = some (trimApp app) := by rw [hv3]
  obtain ⟨p3, A4, v4, p4, A5, c5, p5, A6, v5, hr3, hA4, hA5, hA6, hd4, hd5, hd6, hrest2⟩ :=
    publish_phase_in (P := []) (Q := A3) (appS := trimApp app) (n2 := clk 8) (n3 := clk 9) (n4 := clk 10) (n5 := clk 11) (n6 := clk 12)
      hin3 Acks.lt_nil hA3.2 (by rw [hc3txn]; decide) (by rw [hv3ns]; decide) hkey hkl hv3c hv3a h3
  rw [hv3req] at hd6 hrest2
  refine ⟨p3, A4, v4, p4, A5, c5, p5, A6, v5, hr3, hA4, hA5, hA6, (by simpa [Acks.bytes, Acks.evS] using hd4), hd5, hd6, ?_⟩
  intro v6 rs6 h6
  obtain ⟨p6, p7, A7, c6, hrs6, hA7, hd7, hin6, hc6, hv6, hstream⟩ := hrest2 v6 rs6 h6
  rw [hv3ns] at hc6 hstream
  refine ⟨p6, p7, A7, c6, hrs6, hA7, hd7, hin6, hA7.2, Acks.lt_nil, by rw [hc6], by rw [hc6], by decide, ?_, ?_, hstream⟩
  · rw [hv6]; exact hv3c
  · rw [hv6]; exact hv3a

/-- **C02, play workflow through the real entry point** -/
theorem play_workflow_in (ccfg : Cli.Config) (scfg : Srv.Config) (clk : Nat → Nat) (app key : Bytes)
    (hcw : CfgWF ccfg) (hco : CfgOK ccfg) (hbuf : ccfg.bufferLengthMs < 4294967296) (hsw : SCfgWF scfg)
    (happ : Utf8.valid app = true) (hkey : Utf8.valid key = true) (hkl : key.length ≤ 65535)
    {v0 : Srv.State} {rs0 : List Srv.Res} (hnew : Srv.new scfg (clk 0) = .ok (v0, rs0)) :
    ∃ (A0 : Acks) (c1 : Cli.State) (b4 : Bytes), A0.ok ∧
      Cli.handleInput ({ cfg := ccfg } : Cli.State) (clk 1) (bytesS rs0) = (c1, .ok (A0.outC ++ bannerEvents scfg (clk 0) b4)) ∧
    ∀ c2 r1, Cli.requestConnection c1 (clk 2) app = (c2, .ok r1) →
    ∃ (p1 : Ser.Packet) (A1 : Acks) (v1 : Srv.State), r1 = .out p1 ∧ A1.ok ∧
      Srv.handleInput v0 (clk 3) (A0.bytes ++ p1.bytes) =
        (v1, .ok (A1.outS ++ A0.evS ++ [.ev (.connectionRequested 0 (trimApp app))])) ∧
    ∀ v2 rs2, Srv.acceptRequest v1 (clk 4) 0 = (v2, .ok rs2) →
    ∃ (p2 : Ser.Packet) (A2 : Acks) (c3 : Cli.State) (pa pb : Ser.Packet) (A3 : Acks) (v3 : Srv.State), rs2 = [.out p2] ∧ A2.ok ∧ A3.ok ∧
      Cli.handleInput c2 (clk 5) (A1.bytes ++ p2.bytes) = (c3, .ok (A2.outC ++ A1.evC ++ [.out pa, .ev .connectionAccepted, .out pb])) ∧
      Srv.handleInput v2 (clk 6) (A2.bytes ++ (pa.bytes ++ pb.bytes)) = (v3, .ok (A3.outS ++ A2.evS)) ∧
    ∀ c4 r3, Cli.requestStream c3 (clk 7) (.play key) = (c4, .ok r3) →
    ∃ (p3 : Ser.Packet) (A4 : Acks) (v4 : Srv.State) (p4 : Ser.Packet) (A5 : Acks) (c5 : Cli.State) (p5 p6 : Ser.Packet)
      (A6 : Acks) (v5 : Srv.State), r3 = .out p3 ∧ A4.ok ∧ A5.ok ∧ A6.ok ∧
      Srv.handleInput v3 (clk 8) p3.bytes = (v4, .ok (A4.outS ++ [.out p4])) ∧
      Cli.handleInput c4 (clk 9) (A3.bytes ++ A4.bytes ++ p4.bytes) = (c5, .ok (A5.outC ++ (A3 ++ A4).evC ++ [.out p5, .out p6])) ∧
      Srv.handleInput v4 (clk 10) (A5.bytes ++ (p5.bytes ++ p6.bytes)) =
        (v5, .ok (A6.outS ++ A5.evS ++ [.ev (.playRequested 1 (trimApp app) key .liveOrRecorded none false 1)])) ∧
    ∀ v6 rs6, Srv.acceptRequest v5 (clk 11) 1 = (v6, .ok rs6) →
    ∃ (A7 : Acks) (c6 : Cli.State), A7.ok ∧
      Cli.handleInput c5 (clk 12) (A6.bytes ++ bytesS rs6) =
        (c6, .ok (A7.outC ++ A6.evC ++ [.ev (.unhandleableOnStatus (str "NetStream.Play.Reset")), .ev .playbackAccepted])) ∧
      PlayReadyP c6 v6 1 (trimApp app) key A7 [] := by
  obtain ⟨A0, c1, b4, hA0, hd0, hin1, hc1, hv0⟩ := banner_in (n1 := clk 1) ccfg hnew hsw.win hsw.bw
  refine ⟨A0, c1, b4, hA0, hd0, ?_⟩
  intro c2 r1 h1
  have hc1cfg : c1.cfg = ccfg := by rw [hc1]
  have hc1txn : c1.nextTxn = 1 := by rw [hc1]
  have hv0fms : v0.fmsVersion = scfg.fmsVersion := by rw [hv0]
  have hv0req : v0.nextReq = 0 := by rw [hv0]
  have hv0ns : v0.nextStream = 1 := by rw [hv0]
  obtain ⟨p1, A1, v1, hr1, hA1, hd1, hrest⟩ := connect_phase_in (P := A0) (Q := []) (n2 := clk 3) (n3 := clk 4) (n4 := clk 5) (n5 := clk 6)
    hin1 hA0.2 Acks.lt_nil (by rw [hc1cfg]; exact hcw) (by rw [hc1cfg]; exact hco) happ
    (by rw [hc1txn]; decide) (by rw [hv0fms]; exact hsw.fms) h1
  rw [hv0req] at hd1 hrest
  refine ⟨p1, A1, v1, hr1, hA1, hd1, ?_⟩
  intro v2 rs2 h2
  obtain ⟨p2, A2, c3, pa, pb, A3, v3, hrs2, hA2, hA3, hd2, hd3, hin3, hc3, hv3⟩ := hrest v2 rs2 h2
  refine ⟨p2, A2, c3, pa, pb, A3, v3, hrs2, hA2, hA3, (by simpa [Acks.bytes, Acks.evC] using hd2), hd3, ?_⟩
  intro c4 r3 h3
  have hc3txn : c3.nextTxn = 2 := by rw [hc3, hc1txn]
  have hc3cfg : c3.cfg = ccfg := by rw [hc3, hc1cfg]
  have hv3ns : v3.nextStream = 1 := by rw [hv3, hv0ns]
  have hv3req : v3.nextReq = 1 := by rw [hv3]
  have hv3c : v3.connected = true := by rw [hv3]
  have hv3a : v3.app = some (trimApp app) := by rw [hv3]
  obtain ⟨p3, A4, v4, p4, A5, c5, p5, p6, A6, v5, hr3, hA4, hA5, hA6, hd4, hd5, hd6, hrest2⟩ :=
    play_phase_in (P := []) (Q := A3) (appS := trimApp app) (n2 := clk 8) (n3 := clk 9) (n4 := clk 10) (n5 := clk 11) (n6 := clk 12)
      hin3 Acks.lt_nil hA3.2 (by rw [hc3txn]; decide) (by rw [hv3ns]; decide) hkey hkl (by rw [hc3cfg]; exact hbuf) hv3c hv3a h3
  rw [hv3req, hv3ns] at hd6
  rw [hv3req] at hrest2
  refine ⟨p3, A4, v4, p4, A5, c5, p5, p6, A6, v5, hr3, hA4, hA5, hA6, (by simpa [Acks.bytes, Acks.evS] using hd4), hd5, hd6, ?_⟩
  intro v6 rs6 h6
  obtain ⟨A7, c6, hA7, _, hd7, hin6, hc6, hv6, hstream⟩ := hrest2 v6 rs6 h6
  rw [hv3ns] at hc6 hstream
  refine ⟨A7, c6, hA7, hd7, hin6, hA7.2, Acks.lt_nil, by rw [hc6], by rw [hc6], by decide, ?_, ?_, hstream⟩
  · rw [hv6]; exact hv3c
  · rw [hv6]; exact hv3a

/-! ### media, metadata and stop through `handle_input` -/

theorem srv_steps_plain (v : Srv.State) (now : Nat) (ev : Msg → List Srv.Res) : ∀ (ms : List Msg),
    (∀ m ∈ ms, SrvSteps.stepMsg v now m = .ok (v, ev m)) → SrvSteps.steps v now ms = .ok (v, ms.flatMap ev)
  | [], _ => rfl
  | m :: ms, h => by
    have ih := srv_steps_plain v now ev ms (fun x hx => h x (List.mem_cons_of_mem _ hx))
    simp only [SrvSteps.steps, h m (List.mem_cons_self ..), ih, List.flatMap_cons]

theorem cli_steps_plain (c : Cli.State) (now : Nat) (ev : Msg → List Cli.Res) : ∀ (ms : List Msg),
    (∀ m ∈ ms, CliSteps.stepMsg c now m = .ok (c, ev m)) → CliSteps.steps c now ms = .ok (c, ms.flatMap ev)
  | [], _ => rfl
  | m :: ms, h => by
    have ih := cli_steps_plain c now ev ms (fun x hx => h x (List.mem_cons_of_mem _ hx))
    simp only [CliSteps.steps, h m (List.mem_cons_self ..), ih, List.flatMap_cons]

theorem srv_step_item (v : Srv.State) (now sid : Nat) (it : Interop.Item) (app key : Bytes) (mode : Srv.PublishMode)
    (hc : v.connected = true) (ha : v.app = some app) (hs : mapGet sid v.streams = some (.publishing key mode)) :
    SrvSteps.stepMsg v now (it.msg sid) = .ok (v, Interop.evOf app key (it.msg sid)) := by
  cases hv : it.video with
  | true =>
    rw [srv_stepMsg_fp (rm := .video it.data) (by simp [Interop.Item.msg, hv, fromPayload])]
    have h := (C09.C09_media_iff_publishing v true it.data sid it.ts).2 app key mode hc ha hs
    simp only [Srv.handleMessage, Interop.Item.msg, hv, if_true, h, Interop.evOf]
  | false =>
    rw [srv_stepMsg_fp (rm := .audio it.data) (by simp [Interop.Item.msg, hv, fromPayload])]
    have h := (C09.C09_media_iff_publishing v false it.data sid it.ts).2 app key mode hc ha hs
    simp only [Srv.handleMessage, Interop.Item.msg, hv, h, Interop.evOf]
    simp

/-- **media on a publishing pair through `handle_input`**: every item is raised exactly once, in order,
    after the events of the acknowledgements that travelled ahead of them -/
theorem publish_items_in {c c' : Cli.State} {v : Srv.State} {sid : Nat} {app key : Bytes} {mode : Srv.PublishMode} {A B : Acks}
    (hr : PublishReadyP c v sid app key mode A B) (items : List Interop.Item) (ps : List Ser.Packet) (now : Nat)
    (hts : ∀ it ∈ items, it.ts < 4294967296) (hpub : Interop.publishAll c items = some (c', ps)) :
    ∃ (A' : Acks) (v' : Srv.State), A'.ok ∧
      Srv.handleInput v now (A.bytes ++ wire (ps.zip (items.map (Interop.Item.msg sid)))) =
        (v', .ok (A'.outS ++ A.evS ++ (msgs (ps.zip (items.map (Interop.Item.msg sid)))).flatMap (Interop.evOf app key))) ∧
      PublishReadyP c' v' sid app key mode [] (B ++ A') := by
  obtain ⟨hem, _, hst', hact'⟩ := Interop.publishAll_emits items c c' ps sid hr.cst hr.cact hr.sid32 hts hpub
  have hdes := publishAll_des items c c' ps sid hr.cst hr.cact hr.sid32 hts hpub
  have hin1 := hr.inStep.client_emits hem hdes
  obtain ⟨A', v1, since1, hA', heA', hv1, hrest⟩ := srv_deliver now hin1
  have hmem : ∀ m ∈ msgs (ps.zip (items.map (Interop.Item.msg sid))), ∃ it ∈ items, m = it.msg sid := by
    intro m hm
    simp only [msgs, List.mem_map] at hm
    obtain ⟨x, hx, rfl⟩ := hm
    have := (List.of_mem_zip hx).2
    simp only [List.mem_map] at this
    obtain ⟨it, hit, he⟩ := this
    exact ⟨it, hit, he.symm⟩
  have hplain := srv_steps_plain ({ v1 with since := since1 } : Srv.State) now (Interop.evOf app key)
    (msgs (ps.zip (items.map (Interop.Item.msg sid))))
    (fun m hm => by
      obtain ⟨it, _, rfl⟩ := hmem m hm
      exact srv_step_item _ now sid it app key mode (by show v1.connected = true; rw [hv1]; exact hr.vconn)
        (by show v1.app = _; rw [hv1]; exact hr.vapp) (by show mapGet sid v1.streams = _; rw [hv1]; exact hr.vstream))
  have hstep : SrvSteps.steps ({ v1 with since := since1 } : Srv.State) now (msgs (A.pairs ++ ps.zip (items.map (Interop.Item.msg sid)))) =
      .ok (({ v1 with since := since1 } : Srv.State), A.evS ++ (msgs (ps.zip (items.map (Interop.Item.msg sid)))).flatMap (Interop.evOf app key)) := by
    rw [msgs_append, srv_steps_acks now _ A _ hr.alt, hplain]
  obtain ⟨v', hd, hv', hin2⟩ := hrest ({ v1 with since := since1 } : Srv.State) _ [] hstep (Emits.nil _)
  rw [wire_append, wire_pairs] at hd
  simp only [List.append_nil] at hin2
  refine ⟨A', v', hA', (by rw [hd, List.append_assoc]), ?_, Acks.lt_nil, Acks.lt_append hr.blt hA'.2, hst', hact', hr.sid32, ?_, ?_, ?_⟩
  · rw [pairs_append]; simpa [Acks.pairs] using hin2
  · rw [hv', hv1]; exact hr.vconn
  · rw [hv', hv1]; exact hr.vapp
  · rw [hv', hv1]; exact hr.vstream

/-- **stop on a publishing pair through `handle_input`** -/
theorem stop_publishing_in {c c1 : Cli.State} {v : Srv.State} {sid : Nat} {app key : Bytes} {mode : Srv.PublishMode} {A B : Acks}
    {n1 n2 : Nat} {rs : List Cli.Res}
    (hr : PublishReadyP c v sid app key mode A B) (h : Cli.stop c n1 false = (c1, .ok rs)) :
    ∃ (p : Ser.Packet) (A' : Acks) (v1 : Srv.State), rs = [.out p] ∧ A'.ok ∧
      Srv.handleInput v n2 (A.bytes ++ p.bytes) = (v1, .ok (A'.outS ++ A.evS ++ [.ev (.publishFinished app key)])) ∧
      InStepP c1 v1 (Acks.pairs []) (B ++ A').pairs ∧ c1.st = .connected ∧ c1.activeStream = none ∧ mapGet sid v1.streams = none := by
  obtain ⟨p, body, hrs, hp, he, hc1⟩ := stop_ok (play := false) (by simp [hr.cst]) hr.cact hr.sid32 h
  have hin1 := hr.inStep.client_emits he (show c1.des = c.des by rw [hc1])
  obtain ⟨A', v1a, since1, hA', heA', hv1a, hrest⟩ := srv_deliver n2 hin1
  have hstep := srv_steps_acks_one (P := A) (p := p) (now := n2) hr.alt
    (show SrvSteps.stepMsg ({ v1a with since := since1 } : Srv.State) n2 { ts := epoch n1, typ := 20, msid := sid, data := body } = _ from by
      rw [srv_stepMsg_of (deleteStreamCmd_wf sid hr.sid32) hp]
      exact srv_deleteStream _ n2 _ sid app _ hr.sid32 (by show v1a.connected = true; rw [hv1a]; exact hr.vconn)
        (by show v1a.app = _; rw [hv1a]; exact hr.vapp) (by show mapGet sid v1a.streams = _; rw [hv1a]; exact hr.vstream))
  obtain ⟨v1, hd, hv1, hin2⟩ := hrest _ _ [] hstep (Emits.nil _)
  rw [wire_append, wire_pairs, wire_one] at hd
  simp only [List.append_nil] at hin2
  refine ⟨p, A', v1, hrs, hA', (by rw [hd, List.append_assoc]; rfl), ?_, by rw [hc1], by rw [hc1], ?_⟩
  · rw [pairs_append]; simpa [Acks.pairs] using hin2
  · rw [hv1]; exact mapGet_mapRemove_self sid _

theorem cli_step_item (c : Cli.State) (now sid : Nat) (it : Interop.Item) (hs : c.st = .playing) (ha : c.activeStream = some sid) :
    CliSteps.stepMsg c now (it.msg sid) = .ok (c, Interop.evOfC (it.msg sid)) := by
  cases hv : it.video with
  | true =>
    rw [cli_stepMsg_fp (rm := .video it.data) (by simp [Interop.Item.msg, hv, fromPayload])]
    simp [Cli.handleMessage, Cli.handleMedia, hs, ha, Interop.Item.msg, hv, Interop.evOfC]
  | false =>
    rw [cli_stepMsg_fp (rm := .audio it.data) (by simp [Interop.Item.msg, hv, fromPayload])]
    simp [Cli.handleMessage, Cli.handleMedia, hs, ha, Interop.Item.msg, hv, Interop.evOfC]

/-- **media on a playing pair through `handle_input`** -/
theorem play_items_in {c : Cli.State} {v v' : Srv.State} {sid : Nat} {app key : Bytes} {A B : Acks}
    (hr : PlayReadyP c v sid app key A B) (items : List Interop.Item) (ps : List Ser.Packet) (now : Nat)
    (hts : ∀ it ∈ items, it.ts < 4294967296) (hsend : Interop.sendAll v sid items = some (v', ps)) :
    ∃ (B' : Acks) (c' : Cli.State), B'.ok ∧
      Cli.handleInput c now (B.bytes ++ wire (ps.zip (items.map (Interop.Item.msg sid)))) =
        (c', .ok (B'.outC ++ B.evC ++ (msgs (ps.zip (items.map (Interop.Item.msg sid)))).flatMap Interop.evOfC)) ∧
      PlayReadyP c' v' sid app key (A ++ B') [] := by
  have hem := Interop.sendAll_emits items v v' ps sid hr.sid32 hts hsend
  have hf := sendAll_frame items v v' ps sid hsend
  have hin1 := hr.inStep.server_emits hem (show v'.des = v.des by rw [hf])
  obtain ⟨B', c1, since1, hB', heB', hc1, hrest⟩ := cli_deliver now hin1
  have hmem : ∀ m ∈ msgs (ps.zip (items.map (Interop.Item.msg sid))), ∃ it ∈ items, m = it.msg sid := by
    intro m hm
    simp only [msgs, List.mem_map] at hm
    obtain ⟨x, hx, rfl⟩ := hm
    have := (List.of_mem_zip hx).2
    simp only [List.mem_map] at this
    obtain ⟨it, hit, he⟩ := this
    exact ⟨it, hit, he.symm⟩
  have hplain := cli_steps_plain ({ c1 with since := since1 } : Cli.State) now Interop.evOfC
    (msgs (ps.zip (items.map (Interop.Item.msg sid))))
    (fun m hm => by
      obtain ⟨it, _, rfl⟩ := hmem m hm
      exact cli_step_item _ now sid it (by show c1.st = _; rw [hc1]; exact hr.cst) (by show c1.activeStream = _; rw [hc1]; exact hr.cact))
  have hstep : CliSteps.steps ({ c1 with since := since1 } : Cli.State) now (msgs (B.pairs ++ ps.zip (items.map (Interop.Item.msg sid)))) =
      .ok (({ c1 with since := since1 } : Cli.State), B.evC ++ (msgs (ps.zip (items.map (Interop.Item.msg sid)))).flatMap Interop.evOfC) := by
    rw [msgs_append, cli_steps_acks now _ B _ hr.blt, hplain]
  obtain ⟨c', hd, hc', hin2⟩ := hrest ({ c1 with since := since1 } : Cli.State) _ [] hstep (Emits.nil _)
  rw [wire_append, wire_pairs] at hd
  simp only [List.append_nil] at hin2
  refine ⟨B', c', hB', (by rw [hd, List.append_assoc]), ?_, Acks.lt_append hr.alt hB'.2, Acks.lt_nil, ?_, ?_, hr.sid32, ?_, ?_, ?_⟩
  · rw [pairs_append]; simpa [Acks.pairs] using hin2
  · rw [hc', hc1]; exact hr.cst
  · rw [hc', hc1]; exact hr.cact
  · rw [hf]; exact hr.vconn
  · rw [hf]; exact hr.vapp
  · rw [hf]; exact hr.vstream

/-- **stop on a playing pair through `handle_input`** -/
theorem stop_playback_in {c c1 : Cli.State} {v : Srv.State} {sid : Nat} {app key : Bytes} {A B : Acks}
    {n1 n2 : Nat} {rs : List Cli.Res}
    (hr : PlayReadyP c v sid app key A B) (h : Cli.stop c n1 true = (c1, .ok rs)) :
    ∃ (p : Ser.Packet) (A' : Acks) (v1 : Srv.State), rs = [.out p] ∧ A'.ok ∧
      Srv.handleInput v n2 (A.bytes ++ p.bytes) = (v1, .ok (A'.outS ++ A.evS ++ [.ev (.playFinished app key)])) ∧
      InStepP c1 v1 (Acks.pairs []) (B ++ A').pairs ∧ c1.st = .connected ∧ c1.activeStream = none ∧ mapGet sid v1.streams = none := by
  obtain ⟨p, body, hrs, hp, he, hc1⟩ := stop_ok (play := true) (by simp [hr.cst]) hr.cact hr.sid32 h
  have hin1 := hr.inStep.client_emits he (show c1.des = c.des by rw [hc1])
  obtain ⟨A', v1a, since1, hA', heA', hv1a, hrest⟩ := srv_deliver n2 hin1
  have hstep := srv_steps_acks_one (P := A) (p := p) (now := n2) hr.alt
    (show SrvSteps.stepMsg ({ v1a with since := since1 } : Srv.State) n2 { ts := epoch n1, typ := 20, msid := sid, data := body } = _ from by
      rw [srv_stepMsg_of (deleteStreamCmd_wf sid hr.sid32) hp]
      exact srv_deleteStream _ n2 _ sid app _ hr.sid32 (by show v1a.connected = true; rw [hv1a]; exact hr.vconn)
        (by show v1a.app = _; rw [hv1a]; exact hr.vapp) (by show mapGet sid v1a.streams = _; rw [hv1a]; exact hr.vstream))
  obtain ⟨v1, hd, hv1, hin2⟩ := hrest _ _ [] hstep (Emits.nil _)
  rw [wire_append, wire_pairs, wire_one] at hd
  simp only [List.append_nil] at hin2
  refine ⟨p, A', v1, hrs, hA', (by rw [hd, List.append_assoc]; rfl), ?_, by rw [hc1], by rw [hc1], ?_⟩
  · rw [pairs_append]; simpa [Acks.pairs] using hin2
  · rw [hv1]; exact mapGet_mapRemove_self sid _

/-- **a metadata item on a publishing pair through `handle_input`** -/
theorem publish_metadata_in {c c1 : Cli.State} {v : Srv.State} {sid : Nat} {app key : Bytes} {mode : Srv.PublishMode} {A B : Acks}
    {n1 n2 : Nat} {m : Metadata} {r : Cli.Res}
    (hr : PublishReadyP c v sid app key mode A B) (hw : Meta.MetaWF' m) (h : Cli.publishMetadata c n1 m = (c1, .ok r)) :
    ∃ (p : Ser.Packet) (A' : Acks) (v1 : Srv.State), r = .out p ∧ A'.ok ∧
      Srv.handleInput v n2 (A.bytes ++ p.bytes) = (v1, .ok (A'.outS ++ A.evS ++ [.ev (.metadataChanged app key m)])) ∧
      PublishReadyP c1 v1 sid app key mode [] (B ++ A') := by
  obtain ⟨p, body, hr1, hp, he, hc1⟩ := publishMetadata_ok hr.cst hr.cact hr.sid32 h
  have hin1 := hr.inStep.client_emits he (show c1.des = c.des by rw [hc1])
  obtain ⟨A', v1a, since1, hA', heA', hv1a, hrest⟩ := srv_deliver n2 hin1
  have hstep := srv_steps_acks_one (P := A) (p := p) (now := n2) hr.alt
    (show SrvSteps.stepMsg ({ v1a with since := since1 } : Srv.State) n2 { ts := epoch n1, typ := 18, msid := sid, data := body } = _ from by
      rw [srv_stepMsg_of (metaMsgC_wf m hw) hp]
      exact srv_metadata _ n2 _ m app key mode (by show v1a.app = _; rw [hv1a]; exact hr.vapp)
        (by show mapGet sid v1a.streams = _; rw [hv1a]; exact hr.vstream))
  obtain ⟨v1, hd, hv1, hin2⟩ := hrest _ _ [] hstep (Emits.nil _)
  rw [wire_append, wire_pairs, wire_one, Meta.applyMetadata_metadataProps m hw.toMetaWF] at hd
  simp only [List.append_nil] at hin2
  refine ⟨p, A', v1, hr1, hA', (by rw [hd, List.append_assoc]), ?_, Acks.lt_nil, Acks.lt_append hr.blt hA'.2, ?_, ?_, hr.sid32, ?_, ?_, ?_⟩
  · rw [pairs_append]; simpa [Acks.pairs] using hin2
  · rw [hc1]; exact hr.cst
  · rw [hc1]; exact hr.cact
  · rw [hv1, hv1a]; exact hr.vconn
  · rw [hv1, hv1a]; exact hr.vapp
  · rw [hv1, hv1a]; exact hr.vstream

/-- **a metadata item on a playing pair through `handle_input`** -/
theorem play_metadata_in {c : Cli.State} {v v1 : Srv.State} {sid : Nat} {app key : Bytes} {A B : Acks}
    {n1 n2 : Nat} {m : Metadata} {p : Ser.Packet}
    (hr : PlayReadyP c v sid app key A B) (hw : Meta.MetaWF' m) (h : Srv.sendMetadata v n1 sid m = (v1, .ok p)) :
    ∃ (B' : Acks) (c1 : Cli.State), B'.ok ∧
      Cli.handleInput c n2 (B.bytes ++ p.bytes) = (c1, .ok (B'.outC ++ B.evC ++ [.ev (.metadata m)])) ∧
      PlayReadyP c1 v1 sid app key (A ++ B') [] := by
  obtain ⟨body, hp, he, hv1⟩ := sendMetadata_ok hr.sid32 h
  have hin1 := hr.inStep.server_emits he (show v1.des = v.des by rw [hv1])
  obtain ⟨B', c1a, since1, hB', heB', hc1a, hrest⟩ := cli_deliver n2 hin1
  have hstep := cli_steps_acks_one (P := B) (p := p) (now := n2) hr.blt
    (show CliSteps.stepMsg ({ c1a with since := since1 } : Cli.State) n2 { ts := epoch n1, typ := 18, msid := sid, data := body } = _ from by
      rw [cli_stepMsg_of (metaMsgS_wf m hw) hp, cli_metadata _ n2 _ m (by show c1a.activeStream = _; rw [hc1a]; exact hr.cact)])
  obtain ⟨c1, hd, hc1, hin2⟩ := hrest _ _ [] hstep (Emits.nil _)
  rw [wire_append, wire_pairs, wire_one, Meta.applyMetadata_metadataProps m hw.toMetaWF] at hd
  simp only [List.append_nil] at hin2
  refine ⟨B', c1, hB', (by rw [hd, List.append_assoc]), ?_, Acks.lt_append hr.alt hB'.2, Acks.lt_nil, ?_, ?_, hr.sid32, ?_, ?_, ?_⟩
  · rw [pairs_append]; simpa [Acks.pairs] using hin2
  · rw [hc1, hc1a]; exact hr.cst
  · rw [hc1, hc1a]; exact hr.cact
  · rw [hv1]; exact hr.vconn
  · rw [hv1]; exact hr.vapp
  · rw [hv1]; exact hr.vstream

/-! ### the application may hold packets back -/

/-- an emission can be cut at any packet boundary -/
theorem Emits.split : ∀ (X1 X2 : List (Ser.Packet × Msg)) (a c : Ser.State), Emits a c (X1 ++ X2) →
    ∃ b, Emits a b X1 ∧ Emits b c X2 := by
  intro X1 X2 a c h
  obtain ⟨ops, hw, ht, hr⟩ := h
  induction ops generalizing a X1 with
  | nil =>
    simp only [trace] at ht
    have h1 : X1 = [] := by cases X1 with | nil => rfl | cons x r => simp at ht
    have h2 : X2 = [] := by cases X2 with | nil => rfl | cons x r => (subst h1; simp at ht)
    subst h1; subst h2
    exact ⟨a, Emits.nil _, ⟨[], trivial, rfl, hr⟩⟩
  | cons op rest ih =>
    cases X1 with
    | nil => exact ⟨a, Emits.nil _, ⟨op :: rest, hw, by simpa using ht, hr⟩⟩
    | cons x X1' =>
      simp only [trace] at ht
      cases hap : C19.applyOp a op with
      | ok r =>
        obtain ⟨s', p⟩ := r
        simp only [hap, List.cons_append, List.cons.injEq] at ht
        obtain ⟨hx, ht'⟩ := ht
        obtain ⟨b, h1, h2⟩ := ih X1' (after a op) hw.2 ht' (by simpa [runAll] using hr)
        refine ⟨b, ?_, h2⟩
        obtain ⟨ops1, w1, t1, r1⟩ := h1
        refine ⟨op :: ops1, ⟨hw.1, w1⟩, ?_, by simpa [runAll] using r1⟩
        simp only [trace, hap, t1, hx]
      | err e =>
        simp only [hap] at ht
        obtain ⟨b, h1, h2⟩ := ih (x :: X1') (after a op) hw.2 ht (by simpa [runAll] using hr)
        refine ⟨b, ?_, h2⟩
        obtain ⟨ops1, w1, t1, r1⟩ := h1
        refine ⟨op :: ops1, ⟨hw.1, w1⟩, ?_, by simpa [runAll] using r1⟩
        simp only [trace, hap, t1]
      | hang =>
        simp only [hap] at ht
        obtain ⟨b, h1, h2⟩ := ih (x :: X1') (after a op) hw.2 ht (by simpa [runAll] using hr)
        refine ⟨b, ?_, h2⟩
        obtain ⟨ops1, w1, t1, r1⟩ := h1
        refine ⟨op :: ops1, ⟨hw.1, w1⟩, ?_, by simpa [runAll] using r1⟩
        simp only [trace, hap, t1]

/-- **delivery of ANY prefix of what is pending** (the application may hold packets back): the invariant is kept,
    with the rest still pending -/
theorem srv_deliver_prefix {c : Cli.State} {v : Srv.State} {X1 X2 Y : List (Ser.Packet × Msg)} (now : Nat)
    (h : InStepP c v (X1 ++ X2) Y) :
    ∃ (A : Acks) (v1 : Srv.State) (since' : Nat), A.ok ∧ Emits v.ser v1.ser A.pairs ∧ v1 = { v with ser := v1.ser } ∧
      ∀ sF rs Z, SrvSteps.steps { v1 with since := since' } now (msgs X1) = .ok (sF, rs) → Emits v1.ser sF.ser Z →
        ∃ vN, Srv.handleInput v now (wire X1) = (vN, .ok (A.outS ++ rs)) ∧ vN = { sF with des := vN.des } ∧
          InStepP c vN X2 (Y ++ A.pairs ++ Z) := by
  obtain ⟨ser0, hl, he0⟩ := h.cs
  obtain ⟨ser1, hl1, he1⟩ := h.sc
  obtain ⟨b, heA, heB⟩ := Emits.split X1 X2 ser0 c.ser he0
  obtain ⟨A, v1, since', hA, heAck, hv1, hrest⟩ := srv_hop now hl h.vpos heA
  refine ⟨A, v1, since', hA, heAck, hv1, ?_⟩
  intro sF rs Z hst heZ
  obtain ⟨core', hd, hl'⟩ := hrest sF rs hst
  refine ⟨_, hd, rfl, ⟨b, hl', heB⟩, ⟨ser1, hl1, ?_⟩⟩
  rw [List.append_assoc]
  exact he1.trans (heAck.trans heZ)

theorem cli_deliver_prefix {c : Cli.State} {v : Srv.State} {X Y1 Y2 : List (Ser.Packet × Msg)} (now : Nat)
    (h : InStepP c v X (Y1 ++ Y2)) :
    ∃ (A : Acks) (c1 : Cli.State) (since' : Nat), A.ok ∧ Emits c.ser c1.ser A.pairs ∧ c1 = { c with ser := c1.ser } ∧
      ∀ sF rs Z, CliSteps.steps { c1 with since := since' } now (msgs Y1) = .ok (sF, rs) → Emits c1.ser sF.ser Z →
        ∃ cN, Cli.handleInput c now (wire Y1) = (cN, .ok (A.outC ++ rs)) ∧ cN = { sF with des := cN.des } ∧
          InStepP cN v (X ++ A.pairs ++ Z) Y2 := by
  obtain ⟨ser0, hl, he0⟩ := h.cs
  obtain ⟨ser1, hl1, he1⟩ := h.sc
  obtain ⟨b, heA, heB⟩ := Emits.split Y1 Y2 ser1 v.ser he1
  obtain ⟨A, c1, since', hA, heAck, hc1, hrest⟩ := cli_hop now hl1 h.cpos heA
  refine ⟨A, c1, since', hA, heAck, hc1, ?_⟩
  intro sF rs Z hst heZ
  obtain ⟨core', hd, hl'⟩ := hrest sF rs hst
  refine ⟨_, hd, rfl, ⟨ser0, hl, ?_⟩, ⟨b, hl', heB⟩⟩
  rw [List.append_assoc]
  exact he0.trans (heAck.trans heZ)

end Rml.AckFlow
